#!/usr/bin/env python3
"""Translator: /repo source -> /verif/lean/PP/Gen/*.lean  (python3 stdlib only).

Understands exactly three shapes (DESIGN.md section 3.2) and fails loudly on anything else:
  1. constant literals (nested struct / array literals of integers), also inside fn bodies,
     `BitIterator::new([..])`, `.pow([..])` arguments, the PrimeField derive attributes and the
     derive-generated constants read from the macro-expanded crate;
  2. addition-chain functions (straight-line square/mul/double/add/sub programs);
  3. numeric `if n >= K { v } else if ...` ladders.

Output is rewritten only when the content changes.  A machine-readable manifest of every
extracted item (file, line span, sha256 of the source text) goes to gen_manifest.json.
Exit status 0 = ok, 2 = some item could not be extracted (message names the item).
"""
import hashlib
import json
import os
import re
import subprocess
import sys

REPO = os.environ.get("PP_REPO", "/repo")
VERIF = os.path.dirname(os.path.dirname(os.path.abspath(__file__)))
GEN = os.path.join(VERIF, "lean", "PP", "Gen")
CACHE = os.path.join(VERIF, ".cache")


class ExtractError(Exception):
    pass


manifest = []


def read(rel):
    with open(os.path.join(REPO, rel)) as f:
        return f.read()


def strip_comments(s):
    """Remove // and /* */ comments, keeping line structure."""
    out = []
    i = 0
    n = len(s)
    while i < n:
        if s.startswith("//", i):
            j = s.find("\n", i)
            if j < 0:
                j = n
            i = j
        elif s.startswith("/*", i):
            j = s.find("*/", i + 2)
            if j < 0:
                raise ExtractError("unterminated comment")
            out.append("\n" * s.count("\n", i, j + 2))
            i = j + 2
        elif s[i] == '"':
            j = i + 1
            while j < n and s[j] != '"':
                if s[j] == "\\":
                    j += 1
                j += 1
            out.append(s[i:j + 1])
            i = j + 1
        else:
            out.append(s[i])
            i += 1
    return "".join(out)


# ---------------------------------------------------------------- literal parser

TOK = re.compile(r"\s*(0x[0-9a-fA-F_]+|[0-9][0-9_]*|[A-Za-z_][A-Za-z0-9_]*(?:::[A-Za-z_][A-Za-z0-9_]*)*|[\[\]\(\)\{\},;:&\*])")


def tokenize(s):
    toks = []
    i = 0
    s = s.strip()
    while i < len(s):
        m = TOK.match(s, i)
        if not m:
            raise ExtractError("cannot tokenize literal near %r" % s[i:i + 40])
        toks.append(m.group(1))
        i = m.end()
        while i < len(s) and s[i].isspace():
            i += 1
    return toks


INT_SUFFIX = re.compile(r"^(0x[0-9a-fA-F_]+?|[0-9][0-9_]*?)(u64|usize|u32|u8|i64|u128)?$")


class P:
    def __init__(self, toks):
        self.t = toks
        self.i = 0

    def peek(self):
        return self.t[self.i] if self.i < len(self.t) else None

    def eat(self, x=None):
        tok = self.peek()
        if tok is None or (x is not None and tok != x):
            raise ExtractError("literal: expected %r got %r" % (x, tok))
        self.i += 1
        return tok

    def expr(self):
        tok = self.peek()
        if tok in ("&", "*"):
            self.eat()
            return self.expr()
        if tok == "[":
            self.eat()
            items = []
            if self.peek() == "]":
                self.eat()
                return items
            first = self.expr()
            if self.peek() == ";":
                self.eat()
                n = self.expr()
                self.eat("]")
                return [first] * n
            items.append(first)
            while self.peek() == ",":
                self.eat()
                if self.peek() == "]":
                    break
                items.append(self.expr())
            self.eat("]")
            return items
        if tok == "(":
            self.eat()
            items = []
            while self.peek() != ")":
                items.append(self.expr())
                if self.peek() == ",":
                    self.eat()
            self.eat(")")
            return tuple(items)
        m = re.match(r"^(0x[0-9a-fA-F_]+|[0-9][0-9_]*)$", tok or "")
        if m:
            self.eat()
            txt = tok.replace("_", "")
            v = int(txt, 16) if txt.startswith("0x") else int(txt)
            # optional type suffix token glued by the tokenizer as an identifier
            nxt = self.peek()
            if nxt in ("u64", "usize", "u32", "u8", "i64", "u128"):
                self.eat()
            return v
        if tok and re.match(r"^[A-Za-z_]", tok):
            name = self.eat()
            if self.peek() == "(":
                self.eat()
                args = []
                while self.peek() != ")":
                    args.append(self.expr())
                    if self.peek() == ",":
                        self.eat()
                self.eat(")")
                return ("ctor", name, args)
            if self.peek() == "{":
                self.eat()
                fields = {}
                while self.peek() != "}":
                    f = self.eat()
                    self.eat(":")
                    fields[f] = self.expr()
                    if self.peek() == ",":
                        self.eat()
                self.eat("}")
                return ("struct", name, fields)
            return ("ident", name)
        raise ExtractError("literal: unexpected token %r" % tok)


def parse_literal(text):
    # split integer suffixes that the tokenizer glued (e.g. 0x12u64)
    text = re.sub(r"\b(0x[0-9a-fA-F_]+|[0-9][0-9_]*)(u64|usize|u32|u8|i64|u128)\b", r"\1", text)
    p = P(tokenize(text))
    v = p.expr()
    if p.peek() is not None:
        raise ExtractError("literal: trailing tokens %r" % p.t[p.i:p.i + 5])
    return v


def limbs_to_int(limbs):
    v = 0
    for i, l in enumerate(limbs):
        if not (0 <= l < 2 ** 64):
            raise ExtractError("limb out of range")
        v |= l << (64 * i)
    return v


def norm(v):
    """Turn parsed literal into ints / tuples / lists.  Fq(FqRepr([..])) -> int,
    Fq2{c0,c1} -> (c0,c1)."""
    if isinstance(v, int):
        return v
    if isinstance(v, list):
        return [norm(x) for x in v]
    if isinstance(v, tuple) and v and v[0] == "ctor":
        name, args = v[1], v[2]
        if name in ("Fq", "Fr") and len(args) == 1:
            return norm(args[0])
        if name in ("FqRepr", "FrRepr") and len(args) == 1:
            limbs = norm(args[0])
            want = 6 if name == "FqRepr" else 4
            if len(limbs) != want:
                raise ExtractError("%s with %d limbs" % (name, len(limbs)))
            return limbs_to_int(limbs)
        raise ExtractError("unknown constructor %s" % name)
    if isinstance(v, tuple) and v and v[0] == "struct":
        name, fields = v[1], v[2]
        if name == "Fq2" and set(fields) == {"c0", "c1"}:
            return (norm(fields["c0"]), norm(fields["c1"]))
        raise ExtractError("unknown struct %s" % name)
    if isinstance(v, tuple):
        return tuple(norm(x) for x in v)
    raise ExtractError("cannot normalise %r" % (v,))


def balanced_from(src, start, open_ch, close_ch):
    """src[start] == open_ch; return index after the matching close."""
    depth = 0
    i = start
    while i < len(src):
        c = src[i]
        if c == open_ch:
            depth += 1
        elif c == close_ch:
            depth -= 1
            if depth == 0:
                return i + 1
        i += 1
    raise ExtractError("unbalanced %s" % open_ch)


def record(item, rel, src, a, b):
    manifest.append({
        "item": item,
        "file": rel,
        "lines": [src.count("\n", 0, a) + 1, src.count("\n", 0, b) + 1],
        "sha256": hashlib.sha256(src[a:b].encode()).hexdigest(),
    })


def const_literal(rel, name, item=None, src=None, nth=0):
    """`const NAME: T = <literal>;`  (anywhere in the file, nth occurrence)."""
    if src is None:
        src = strip_comments(read(rel))
    ms = list(re.finditer(r"\bconst\s+%s\s*:\s*[^=]+=" % re.escape(name), src))
    if len(ms) <= nth:
        raise ExtractError("%s: const %s not found" % (rel, name))
    m = ms[nth]
    end = m.end()
    # the literal ends at the first ';' at nesting depth 0
    depth = 0
    i = end
    while i < len(src):
        c = src[i]
        if c in "([{":
            depth += 1
        elif c in ")]}":
            depth -= 1
        elif c == ";" and depth == 0:
            break
        i += 1
    text = src[end:i]
    record(item or name, rel, src, m.start(), i)
    return norm(parse_literal(text))


def call_literal(rel, pattern, item, nth=0, src=None):
    """Literal argument of the nth match of regex `pattern` which must end in '('."""
    if src is None:
        src = strip_comments(read(rel))
    ms = list(re.finditer(pattern, src))
    if len(ms) <= nth:
        raise ExtractError("%s: pattern %s (#%d) not found" % (rel, pattern, nth))
    m = ms[nth]
    a = m.end() - 1
    b = balanced_from(src, a, "(", ")")
    record(item, rel, src, m.start(), b)
    return norm(parse_literal(src[a + 1:b - 1]))


# ---------------------------------------------------------------- chains

def fn_body(src, name):
    m = re.search(r"\bfn\s+%s\b[^{]*\{" % re.escape(name), src)
    if not m:
        raise ExtractError("fn %s not found" % name)
    a = m.end() - 1
    b = balanced_from(src, a, "{", "}")
    return m.start(), a + 1, b - 1


def reg(name):
    m = re.match(r"^tmpvar(\d+)$", name)
    if not m:
        raise ExtractError("chain: unknown register %r" % name)
    if int(m.group(1)) >= 32:
        raise ExtractError("chain: register index %s beyond the model's register file (32)" % name)
    return int(m.group(1))


def chain(rel, fname, kind):
    """kind = 'field' (square/mul_assign only) or 'point' (double/add_assign/sub_assign/chain_z)."""
    src = strip_comments(read(rel))
    s0, a, b = fn_body(src, fname)
    record("chain:" + fname, rel, src, s0, b + 1)
    body = src[a:b]
    prog = []
    pos = 0
    pats = [
        (re.compile(r"\s*\*(\w+)\s*=\s*\*?(\w+)\s*;"), "copy"),
        (re.compile(r"\s*let\s+mut\s+(\w+)\s*=\s*\*?(\w+)\s*;"), "copy"),
        (re.compile(r"\s*(\w+)\s*=\s*\*?(\w+)\s*;"), "copy"),
    ]
    if kind == "field":
        pats += [
            (re.compile(r"\s*(\w+)\.(square)\(\)\s*;"), "sq1"),
            (re.compile(r"\s*for\s+_\s+in\s+0\.\.(\d+)\s*\{\s*(\w+)\.(square)\(\)\s*;\s*\}"), "sqn"),
            (re.compile(r"\s*(\w+)\.(mul_assign)\(\s*&?(\w+)\s*\)\s*;"), "mul"),
        ]
    else:
        pats += [
            (re.compile(r"\s*(\w+)\.(double)\(\)\s*;"), "sq1"),
            (re.compile(r"\s*for\s+_\s+in\s+0\.\.(\d+)\s*\{\s*(\w+)\.(double)\(\)\s*;\s*\}"), "sqn"),
            (re.compile(r"\s*(\w+)\.(add_assign)\(\s*&?(\w+)\s*\)\s*;"), "mul"),
            (re.compile(r"\s*(\w+)\.(sub_assign)\(\s*&?(\w+)\s*\)\s*;"), "div"),
            (re.compile(r"\s*chain_z\(\s*(?:&mut\s+)?(\w+)\s*,\s*&?(\w+)\s*\)\s*;"), "callz"),
        ]
    while True:
        if body[pos:].strip() == "":
            break
        for rx, kind in pats:
            m = rx.match(body, pos)
            if m:
                break
        else:
            raise ExtractError("chain %s: unrecognised statement near %r" % (fname, body[pos:pos + 60].strip()))
        if kind == "copy":
            prog.append((0, reg(m.group(1)), reg(m.group(2))))
        elif kind == "sq1":
            prog.append((1, reg(m.group(1)), 1))
        elif kind == "sqn":
            prog.append((1, reg(m.group(2)), int(m.group(1))))
        elif kind == "mul":
            prog.append((2, reg(m.group(1)), reg(m.group(3))))
        elif kind == "div":
            prog.append((3, reg(m.group(1)), reg(m.group(3))))
        elif kind == "callz":
            prog.append((4, reg(m.group(1)), reg(m.group(2))))
        pos = m.end()
    return prog


# ---------------------------------------------------------------- ladders

def ladder(rel, fname, var):
    """if var >= A { x } else if var >= B { y } else { z } -> ([(A,x),(B,y)], z)"""
    src = strip_comments(read(rel))
    s0, a, b = fn_body(src, fname)
    record("ladder:" + fname, rel, src, s0, b + 1)
    body = src[a:b]
    arms = re.findall(r"if\s+%s\s*>=\s*(\d+)\s*\{\s*(\d+)\s*\}" % var, body)
    m = re.search(r"else\s*\{\s*(\d+)\s*\}\s*$", body.strip())
    if not arms or not m:
        raise ExtractError("ladder %s: shape not recognised" % fname)
    # sanity: the whole tail must consist of the arms only
    skeleton = re.sub(r"\s+", "", body[body.find("if"):])
    rebuilt = "else".join("if%s>=%s{%s}" % (var, k, v) for k, v in arms) + "else{%s}" % m.group(1)
    if skeleton != rebuilt:
        raise ExtractError("ladder %s: unexpected statements" % fname)
    return [(int(k), int(v)) for k, v in arms], int(m.group(1))


def recommend_num_scalars(rel, fname):
    src = strip_comments(read(rel))
    s0, a, b = fn_body(src, fname)
    body = src[a:b]
    record("recommend:" + fname, rel, src, s0, b + 1)
    m = re.search(r"const\s+RECOMMENDATIONS\s*:\s*\[usize;\s*(\d+)\]\s*=\s*(\[[^\]]*\])\s*;", body)
    m2 = re.search(r"let\s+mut\s+ret\s*=\s*(\d+)\s*;", body)
    if not m or not m2:
        raise ExtractError("recommend %s: shape not recognised" % fname)
    rest = re.sub(r"\s+", "", body[m2.end():])
    if rest != "forrin&RECOMMENDATIONS{ifnum_scalars>*r{ret+=1;}else{break;}}ret":
        raise ExtractError("recommend %s: loop shape changed: %s" % (fname, rest))
    tbl = norm(parse_literal(m.group(2)))
    if len(tbl) != int(m.group(1)):
        raise ExtractError("recommend %s: length mismatch" % fname)
    return tbl, int(m2.group(1))


# ---------------------------------------------------------------- derive output

def expanded_source():
    """Macro-expanded crate (rustc -Zunpretty=expanded), cached on the hash of the inputs."""
    h = hashlib.sha256()
    for rel in ("src/bls12_381/fq.rs", "src/bls12_381/fr.rs", "Cargo.lock", "Cargo.toml"):
        h.update(read(rel).encode())
    key = h.hexdigest()[:24]
    os.makedirs(CACHE, exist_ok=True)
    path = os.path.join(CACHE, "expanded-%s.rs" % key)
    if os.path.exists(path) and os.path.getsize(path) > 100000:
        return open(path).read()
    env = dict(os.environ)
    env["CARGO_TARGET_DIR"] = os.path.join(CACHE, "expand-target")
    env["CARGO_NET_OFFLINE"] = "true"
    env.pop("RUSTFLAGS", None)
    r = subprocess.run(
        ["cargo", "+nightly", "rustc", "--offline", "--lib", "--", "-Zunpretty=expanded"],
        cwd=REPO, env=env, stdout=subprocess.PIPE, stderr=subprocess.PIPE, text=True)
    if r.returncode != 0 or len(r.stdout) < 100000:
        raise ExtractError("macro expansion failed: %s" % r.stderr[-800:])
    with open(path + ".tmp", "w") as f:
        f.write(r.stdout)
    os.replace(path + ".tmp", path)
    return r.stdout


def derive_consts(exp, field):
    """Constants the PrimeField derive generated for `field` in {'Fq','Fr'}."""
    reprn = field + "Repr"
    out = {}
    a = exp.find("const MODULUS: %s" % reprn)
    if a < 0:
        raise ExtractError("expanded: MODULUS for %s not found" % field)
    b = exp.find("impl ::zeroize::Zeroize for %s " % field, a)
    seg = exp[a:b]
    rel = "<expanded>"
    for nm in ("MODULUS", "R", "R2", "GENERATOR", "ROOT_OF_UNITY"):
        out[nm] = const_literal(rel, nm, item="derive:%s:%s" % (field, nm), src=seg)
    for nm in ("INV", "S", "MODULUS_BITS", "REPR_SHAVE_BITS"):
        out[nm] = const_literal(rel, nm, item="derive:%s:%s" % (field, nm), src=seg)
    s = seg.find("impl ::ff::SqrtField for %s" % field)
    if s < 0:
        raise ExtractError("expanded: SqrtField impl for %s not found" % field)
    sq = seg[s:]
    pows = []
    for m in re.finditer(r"self\.pow\(", sq):
        a2 = m.end() - 1
        b2 = balanced_from(sq, a2, "(", ")")
        pows.append(limbs_to_int(norm(parse_literal(sq[a2 + 1:b2 - 1]))))
        record("derive:%s:pow#%d" % (field, len(pows)), rel, sq, m.start(), b2)
    out["POWS"] = pows
    if field == "Fq":
        m = re.search(r"a0\.0\s*==\s*FqRepr\(", sq)
        if not m:
            raise ExtractError("expanded: Fq sqrt comparison not found")
        a2 = m.end() - 1
        b2 = balanced_from(sq, a2, "(", ")")
        out["SQRT_CMP"] = limbs_to_int(norm(parse_literal(sq[a2 + 1:b2 - 1])))
        if len(pows) != 2:
            raise ExtractError("expanded: Fq expected 2 pow exponents, got %d" % len(pows))
    else:
        if len(pows) != 3:
            raise ExtractError("expanded: Fr expected 3 pow exponents, got %d" % len(pows))
    return out


def attr_string(rel, attr):
    src = read(rel)
    m = re.search(r"#\[%s\s*=\s*\"(\d+)\"\]" % attr, src)
    if not m:
        raise ExtractError("%s: attribute %s not found" % (rel, attr))
    record("attr:%s:%s" % (rel, attr), rel, src, m.start(), m.end())
    return int(m.group(1))


# ---------------------------------------------------------------- emission

def lean_val(v):
    if isinstance(v, bool):
        return "true" if v else "false"
    if isinstance(v, int):
        return hex(v) if v > 9999 else str(v)
    if isinstance(v, tuple):
        return "(" + ", ".join(lean_val(x) for x in v) + ")"
    if isinstance(v, list):
        if not v:
            return "[]"
        inner = ",\n    ".join(lean_val(x) for x in v)
        return "[\n    " + inner + "]"
    raise ExtractError("cannot emit %r" % (v,))


def lean_type(v):
    if isinstance(v, bool):
        return "Bool"
    if isinstance(v, int):
        return "Nat"
    if isinstance(v, tuple):
        return " × ".join(("(" + lean_type(x) + ")") if isinstance(x, tuple) else lean_type(x) for x in v)
    if isinstance(v, list):
        t = lean_type(v[0])
        return "List (%s)" % t if " " in t else "List %s" % t
    raise ExtractError("cannot type %r" % (v,))


def emit(path, ns, defs, header):
    lines = ["/- GENERATED by /verif/extract/extract.py from /repo -- do not edit. -/", header, "", "namespace %s" % ns, ""]
    for name, v, doc in defs:
        if doc:
            lines.append("/-- %s -/" % doc)
        lines.append("def %s : %s := %s" % (name, lean_type(v), lean_val(v)))
        lines.append("")
    lines.append("end %s" % ns)
    text = "\n".join(lines) + "\n"
    old = None
    if os.path.exists(path):
        old = open(path).read()
    if old != text:
        with open(path, "w") as f:
            f.write(text)
        return True
    return False


STATUS = {}

def section(name):
    def deco(fn):
        def run(ctx):
            try:
                fn(ctx)
                STATUS[name] = 'ok'
            except ExtractError as e:
                STATUS[name] = 'error: %s' % e
            except Exception as e:  # translator crash = loud failure of that section
                STATUS[name] = 'error: crash %r' % (e,)
        run.__name__ = fn.__name__
        return run
    return deco

@section('Fields')
def sec_fields(ctx):
    FQ = "src/bls12_381/fq.rs"
    FR = "src/bls12_381/fr.rs"
    FQ2 = "src/bls12_381/fq2.rs"
    changed = ctx["changed"]
    exp = expanded_source()
    dq = derive_consts(exp, "Fq")
    dr = derive_consts(exp, "Fr")
    q = attr_string(FQ, "PrimeFieldModulus")
    r = attr_string(FR, "PrimeFieldModulus")
    gq = attr_string(FQ, "PrimeFieldGenerator")
    gr = attr_string(FR, "PrimeFieldGenerator")
    defs = [
        ("q", q, "base field modulus, from #[PrimeFieldModulus] in fq.rs"),
        ("r", r, "scalar field modulus, from #[PrimeFieldModulus] in fr.rs"),
        ("fqGenerator", gq, "#[PrimeFieldGenerator] of Fq"),
        ("frGenerator", gr, "#[PrimeFieldGenerator] of Fr"),
    ]
    for fld, d in (("fq", dq), ("fr", dr)):
        for nm in ("MODULUS", "R", "R2", "GENERATOR", "ROOT_OF_UNITY", "INV", "S", "MODULUS_BITS", "REPR_SHAVE_BITS"):
            defs.append(("%s_%s" % (fld, nm), d[nm], "derive-generated constant %s (raw limbs as one integer)" % nm))
    defs.append(("fq_LEGENDRE_EXP", dq["POWS"][0], "exponent used by Fq::legendre"))
    defs.append(("fq_SQRT_EXP", dq["POWS"][1], "exponent used by Fq::sqrt"))
    defs.append(("fq_SQRT_CMP", dq["SQRT_CMP"], "raw value a0 is compared with in Fq::sqrt"))
    defs.append(("fr_LEGENDRE_EXP", dr["POWS"][0], "exponent used by Fr::legendre"))
    defs.append(("fr_SQRT_R_EXP", dr["POWS"][1], "exponent (t+1)/2 used by Fr::sqrt"))
    defs.append(("fr_SQRT_T_EXP", dr["POWS"][2], "exponent t used by Fr::sqrt"))
    if emit(os.path.join(GEN, "Fields.lean"), "PP.Gen", defs, ""):
        changed.append("Fields")



@section('MontProg')
def sec_montprog(ctx):
    FQ = "src/bls12_381/fq.rs"
    FR = "src/bls12_381/fr.rs"
    FQ2 = "src/bls12_381/fq2.rs"
    changed = ctx["changed"]
    exp = expanded_source()
    # unrolled limb-level mul_assign / square / mont_reduce of the derive output -> straight-line IR
    sys.path.insert(0, os.path.dirname(os.path.abspath(__file__)))
    import extract_mont
    manifest.extend(extract_mont.emit(exp, GEN, ExtractError))
    if getattr(extract_mont, "CHANGED", False):
        changed.append("MontProg")


@section('Derive')
def sec_derive(ctx):
    changed = ctx["changed"]
    exp = expanded_source()
    # the rest of the derive output (repr arithmetic, add/sub/neg/inverse/sqrt ..) -> one Lean def per fn
    sys.path.insert(0, os.path.dirname(os.path.abspath(__file__)))
    import extract_derive
    manifest.extend(extract_derive.emit(exp, GEN, ExtractError))
    if getattr(extract_derive, "CHANGED", False):
        changed.append("Derive")


@section('FqConsts')
def sec_fqconsts(ctx):
    FQ = "src/bls12_381/fq.rs"
    FR = "src/bls12_381/fr.rs"
    FQ2 = "src/bls12_381/fq2.rs"
    changed = ctx["changed"]
    # ---- raw Montgomery constants of fq.rs / fr.rs / fq2.rs
    defs = []
    for nm in ("B_COEFF", "G1_GENERATOR_X", "G1_GENERATOR_Y", "G2_GENERATOR_X_C0", "G2_GENERATOR_X_C1",
               "G2_GENERATOR_Y_C0", "G2_GENERATOR_Y_C1", "FROBENIUS_COEFF_FQ2_C1", "FROBENIUS_COEFF_FQ6_C1",
               "FROBENIUS_COEFF_FQ6_C2", "FROBENIUS_COEFF_FQ12_C1", "NEGATIVE_ONE", "F_2_256"):
        defs.append((nm, const_literal(FQ, nm), "raw (Montgomery) literal from fq.rs"))
    defs.append(("F_2_192", const_literal(FR, "F_2_192"), "raw (Montgomery) literal from fr.rs"))
    e1 = call_literal(FQ2, r"self\.pow\(", "fq2:sqrt:exp1")
    e2 = call_literal(FQ2, r"alpha\.pow\(", "fq2:sqrt:exp2")
    defs.append(("FQ2_SQRT_EXP1", limbs_to_int(e1), "fq2.rs sqrt: a1 = self^this"))
    defs.append(("FQ2_SQRT_EXP2", limbs_to_int(e2), "fq2.rs sqrt: alpha^this"))
    if emit(os.path.join(GEN, "FqConsts.lean"), "PP.Gen", defs, ""):
        changed.append("FqConsts")



@section('Curve')
def sec_curve(ctx):
    FQ = "src/bls12_381/fq.rs"
    FR = "src/bls12_381/fr.rs"
    FQ2 = "src/bls12_381/fq2.rs"
    changed = ctx["changed"]
    # ---- curve-level constants
    MOD = "src/bls12_381/mod.rs"
    EC = "src/bls12_381/ec/mod.rs"
    G1 = "src/bls12_381/ec/g1.rs"
    G2 = "src/bls12_381/ec/g2.rs"
    defs = []
    defs.append(("BLS_X", const_literal(MOD, "BLS_X"), "mod.rs"))
    src = strip_comments(read(MOD))
    m = re.search(r"const\s+BLS_X_IS_NEGATIVE\s*:\s*bool\s*=\s*(true|false)\s*;", src)
    if not m:
        raise ExtractError("BLS_X_IS_NEGATIVE not found")
    record("BLS_X_IS_NEGATIVE", MOD, src, m.start(), m.end())
    defs.append(("BLS_X_IS_NEGATIVE", m.group(1) == "true", "mod.rs"))
    c1 = call_literal(G1, r"BitIterator::new\(", "g1:cofactor")
    c2 = call_literal(G2, r"BitIterator::new\(", "g2:cofactor")
    defs.append(("G1_COFACTOR", limbs_to_int(c1), "limbs passed to mul_bits in G1Affine::scale_by_cofactor"))
    defs.append(("G1_COFACTOR_LIMBS", len(c1), ""))
    defs.append(("G2_COFACTOR", limbs_to_int(c2), "limbs passed to mul_bits in G2Affine::scale_by_cofactor"))
    defs.append(("G2_COFACTOR_LIMBS", len(c2), ""))
    srcec = strip_comments(read(EC))
    s0, a, b = fn_body(srcec, "find_pippinger_window")
    m = re.search(r"let\s+boundaries\s*=\s*(\[.*?\])\s*;", srcec[a:b], re.S)
    if not m:
        raise ExtractError("pippinger boundaries not found")
    record("pippinger:boundaries", EC, srcec, s0, b)
    rest = re.sub(r"\s+", "", srcec[a:b][m.end():])
    if rest != "foriin1..boundaries.len(){ifboundaries[i].0>num_components{returnboundaries[i-1].1;}}boundaries[boundaries.len()-1].1":
        raise ExtractError("find_pippinger_window: lookup loop changed: %s" % rest)
    defs.append(("PIPPINGER_BOUNDARIES", [tuple(x) for x in norm(parse_literal(m.group(1)))], "ec/mod.rs find_pippinger_window"))
    for tag, rel in (("G1", G1), ("G2", G2)):
        arms, dflt = ladder(rel, "empirical_recommended_wnaf_for_scalar", "num_bits")
        defs.append(("%s_WNAF_SCALAR_LADDER" % tag, arms, "(threshold on num_bits, window) arms in order"))
        defs.append(("%s_WNAF_SCALAR_DEFAULT" % tag, dflt, ""))
        tbl, base = recommend_num_scalars(rel, "empirical_recommended_wnaf_for_num_scalars")
        defs.append(("%s_WNAF_RECOMMENDATIONS" % tag, tbl, ""))
        defs.append(("%s_WNAF_RECOMMEND_BASE" % tag, base, ""))
    if emit(os.path.join(GEN, "Curve.lean"), "PP.Gen", defs, ""):
        changed.append("Curve")



@section('Maps')
def sec_maps(ctx):
    FQ = "src/bls12_381/fq.rs"
    FR = "src/bls12_381/fr.rs"
    FQ2 = "src/bls12_381/fq2.rs"
    changed = ctx["changed"]
    # ---- SSWU + isogeny constants
    defs = []
    O1 = "src/bls12_381/osswu_map/g1.rs"
    O2 = "src/bls12_381/osswu_map/g2.rs"
    for nm in ("ELLP_A", "ELLP_B", "XI", "SQRT_M_XI_CUBED"):
        defs.append(("G1_" + nm, const_literal(O1, nm, item="osswu:g1:" + nm), "osswu_map/g1.rs (raw)"))
    for nm in ("ELLP_A", "ELLP_B", "XI", "ETAS", "ROOTS_OF_UNITY"):
        defs.append(("G2_" + nm, const_literal(O2, nm, item="osswu:g2:" + nm), "osswu_map/g2.rs (raw)"))
    I1 = "src/bls12_381/isogeny/g1.rs"
    I2 = "src/bls12_381/isogeny/g2.rs"
    for nm in ("XNUM", "XDEN", "YNUM", "YDEN"):
        defs.append(("ISO11_" + nm, const_literal(I1, nm, item="iso:g1:" + nm), "isogeny/g1.rs (raw, constant term first)"))
    for nm in ("XNUM", "XDEN", "YNUM", "YDEN"):
        defs.append(("ISO3_" + nm, const_literal(I2, nm, item="iso:g2:" + nm), "isogeny/g2.rs (raw, constant term first)"))
    if emit(os.path.join(GEN, "Maps.lean"), "PP.Gen", defs, ""):
        changed.append("Maps")



@section('Chains')
def sec_chains(ctx):
    FQ = "src/bls12_381/fq.rs"
    FR = "src/bls12_381/fr.rs"
    FQ2 = "src/bls12_381/fq2.rs"
    changed = ctx["changed"]
    # ---- chains
    defs = []
    CH = "src/bls12_381/osswu_map/chain.rs"
    CO = "src/bls12_381/cofactor.rs"
    doc = "straight-line program: (0,d,s) d:=s | (1,d,n) d:=d^(2^n) | (2,d,s) d:=d*s | (3,d,s) d:=d/s | (4,d,s) d:=chain_z(s) ; registers tmpvarN"
    defs.append(("CHAIN_PM3DIV4", chain(CH, "chain_pm3div4", "field"), doc))
    defs.append(("CHAIN_P2M9DIV16", chain(CH, "chain_p2m9div16", "field"), doc))
    defs.append(("CHAIN_Z", chain(CO, "chain_z", "point"), doc))
    defs.append(("CHAIN_H2_EFF", chain(CO, "chain_h2_eff", "point"), doc))
    if emit(os.path.join(GEN, "Chains.lean"), "PP.Gen", defs, ""):
        changed.append("Chains")



@section("Arith")
def sec_arith(ctx):
    changed = ctx["changed"]
    sys.path.insert(0, os.path.dirname(os.path.abspath(__file__)))
    import extract_arith
    manifest.extend(extract_arith.emit(REPO, GEN, ExtractError))
    if getattr(extract_arith, "CHANGED", False):
        changed.append("Arith")


@section("Enc")
def sec_enc(ctx):
    changed = ctx["changed"]
    sys.path.insert(0, os.path.dirname(os.path.abspath(__file__)))
    import extract_enc
    manifest.extend(extract_enc.emit(REPO, GEN, ExtractError))
    if getattr(extract_enc, "CHANGED", False):
        changed.append("Enc")


@section("Pair")
def sec_pair(ctx):
    changed = ctx["changed"]
    sys.path.insert(0, os.path.dirname(os.path.abspath(__file__)))
    import extract_pair
    manifest.extend(extract_pair.emit(REPO, GEN, ExtractError))
    if getattr(extract_pair, "CHANGED", False):
        changed.append("Pair")


@section("Iso")
def sec_iso(ctx):
    changed = ctx["changed"]
    sys.path.insert(0, os.path.dirname(os.path.abspath(__file__)))
    import extract_iso
    manifest.extend(extract_iso.emit(REPO, GEN, ExtractError))
    if getattr(extract_iso, "CHANGED", False):
        changed.append("Iso")


@section("Hash")
def sec_hash(ctx):
    changed = ctx["changed"]
    sys.path.insert(0, os.path.dirname(os.path.abspath(__file__)))
    import extract_hash
    manifest.extend(extract_hash.emit(REPO, GEN, ExtractError))
    if getattr(extract_hash, "CHANGED", False):
        changed.append("HashGlue")


@section("Msm")
def sec_msm(ctx):
    changed = ctx["changed"]
    sys.path.insert(0, os.path.dirname(os.path.abspath(__file__)))
    import extract_msm
    manifest.extend(extract_msm.emit(REPO, GEN, ExtractError))
    if getattr(extract_msm, "CHANGED", False):
        changed.append("Msm")


@section("Rest")
def sec_rest(ctx):
    changed = ctx["changed"]
    sys.path.insert(0, os.path.dirname(os.path.abspath(__file__)))
    import extract_rest
    manifest.extend(extract_rest.emit(REPO, GEN, ExtractError))
    if getattr(extract_rest, "CHANGED", False):
        changed.append("Rest")


def main():
    os.makedirs(GEN, exist_ok=True)
    ctx = {"changed": []}
    for sec in (sec_fields, sec_montprog, sec_derive, sec_fqconsts, sec_curve, sec_maps, sec_chains, sec_arith, sec_enc, sec_pair, sec_iso, sec_hash, sec_msm, sec_rest):
        sec(ctx)
    changed = ctx["changed"]
    with open(os.path.join(VERIF, "gen_manifest.json"), "w") as f:
        json.dump({"items": manifest, "sections": STATUS}, f, indent=1)
    bad = {k: v for k, v in STATUS.items() if v != "ok"}
    print("extract: %d items, changed modules: %s" % (len(manifest), ",".join(changed) or "none"))
    for k, v in bad.items():
        print("EXTRACT-ERROR[%s]: %s" % (k, v))
    return 3 if bad else 0


if __name__ == "__main__":
    sys.exit(main())
