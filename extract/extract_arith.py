#!/usr/bin/env python3
"""Translator: ARITHMETIC code of /repo (straight-line code, `if`s, `for` loops over bit iterators and
constant tables) -> /verif/lean/PP/Gen/Arith.lean  (python3 stdlib only).

What it does.  Each target function (table TARGETS below) is located in the Rust source, parsed
with a small recursive-descent parser for the Rust subset listed below, and printed as ONE Lean
definition in namespace `PP.Gen.A`: an SSA-style `let` chain with exactly one Lean `let` (or
`if`/`match` line) per Rust statement and the Rust statement as a trailing comment.  The file
`PP/Proofs/GenArith.lean` proves every generated definition equal to the hand-written model
(`PP.Gen.A.Fq2.mul = PP.Fq2.mul`, ...), so an edit of a Rust function changes the generated Lean and
breaks its equality theorem even if no differential test input exposes the change.

Conventions of the generated Lean (fixed, independent of the hand model):
  * a `&mut self` method is a function returning the new value of `self`; a function with other
    `&mut` parameters returns them (in order) paired with its return value;
  * a mutation of a place `a.f.g` is `let a := { a with f.g := <new value> }`; mutation of a whole
    variable is a shadowing `let a := ...`;
  * operations on values of the base field `Fq` / of the generic coefficient field `F` of the curve
    macro are the notations `* + - -x 0 1` and `sq dbl FieldOps.inv FieldOps.isZero FieldOps.frob`
    of `PP/Model/Field.lean`; operations on `Fq2 Fq6 Fq12 Jac Aff` values are CALLS OF PREVIOUSLY
    GENERATED functions, always written with the explicit prefix `A.` (`A.Fq2.mul a b`); a call of a
    method that has not been generated before is an error.  Nothing generated calls the model's
    arithmetic; the only model items referenced are the TYPES (`Fq Fq2 Fq6 Fq12 Jac Aff OsswuHelp`),
    the Frobenius coefficient TABLES (`PP.Fq2.frobCoeffC1` ...), the generic loop `powLimbs` (= `Field::pow` of the ff crate, not a
    target; it is instantiated with the generated operations) and the extracted constants of `PP.Gen`;
  * `if c { ..; return X; }` followed by the rest R is `if c then X else R`; an `if` statement that is
    the last statement of its block (or is followed only by the block's value) gets the
    continuation copied into both branches; any other `if` statement is rejected;
  * `x.inverse().map(|t| B)` and `match o { Some(t) => B, None => None }` are both
    `match o with | none => none | some t => B` (arms always in this order);
  * `e.unwrap()` in `let v = e.unwrap();` makes the whole function `Option`-valued: `none` = panic;
  * associated constants of the macro (`Self::get_coeff_b()`) become leading parameters;
  * `u64` values are Lean `UInt64`; `usize` values are `Nat` (only `%` small constants is applied);
  * `TABLE[i % n]` is `tbl.getD (i % n) 0` on the model's table; `n` must not exceed the length N in
    the declaration `const TABLE: [T; N]` of fq.rs, and `tbl.length = N` is emitted as a theorem
    (so the default `0` is never used, as the Rust index never panics);
  * `for x in L { body }` (L a `BitIterator` or `&TABLE[..]` of a constant table) is
        let st := List.foldl (fun st x => body'; st) st L
    where st is the tuple of the OUTER variables that the body assigns (found by a first, recording
    translation pass of the body), in order of declaration;
  * `for x in L { ..; if c { ..; return V; } }` (the body assigns no outer variable) followed by R is
        match List.findSome? (fun x => ..; if c then ..; some V else none) L with
        | some ret => ret | none => R           (`some ret` / Option-valued R in a function that may panic)
  * an `if` statement that is followed by further statements and is not an early return becomes
        let st := if c then ..; st else ..; st        (st = the outer variables assigned in the branches)
  * `panic!(..)` as the last statement is `none`, the function is Option-valued (as with `unwrap`);
    a call of a function that may panic in `let v = f(..);` is `match f .. with | none => none | some v =>`;
    `debug_assert!(..)` is dropped (RELEASE semantics) and shown as a comment;
  * `match e { Enum::A => .., .. }` on `Ordering` / `Sgn0Result` is a Lean `match`, arms in source order;
  * in a function over the CONCRETE fields `let [a, b, ..] = e` / `let S { f, g } = e` is `let patN := e`
    followed by one projection `let` per variable (a Lean pattern would be a `match` on a concrete
    value, which the kernel evaluates when a proof unfolds the definition); `let (a, b) = e` stays a
    Lean pattern (the model has the same `match`);
  * primitives that are NOT in /repo (derive-generated or the ff crate) are taken from the model:
    `x.sqrt()`, `x.legendre()` of the coefficient field = `SqrtOps.sqrt/legendre`, `a < b` = `SqrtOps.lt`,
    `Fq::cmp` = `compare a.v b.v`, `x.into_repr().0[0] & 1 == 1` = `x.v % 2 = 1` (lowest bit of the
    canonical representative), `BitIterator::new(r)` = `bitsMSB (limbsOf 4 r)` (a scalar `S: Into<Repr>`
    is a `Nat`, taken after `.into()`), `a.pow([limbs])` = `powLimbs`; the addition chains
    (`chain_pm3div4` ..) are extracted elsewhere (PP/Gen/Chains.lean) and called through the model;
  * a function that is generic over a TRAIT (`map_to_curve`) gets the trait methods it calls as
    parameters (named as in Rust, in the fixed order `osswu_map isogeny_map clear_h add_assign`; the
    theorems pass them BY NAME) and abstract types `{Base PtT : Type}`;
  * generic code (the curve macro, `osswu_help`, `negate_if`) applied to `Fq2` values is elaborated
    with the GENERATED `Fq2` operations as local instances (section `attribute [local instance]`).

Rust subset understood (anything else raises ExtractError naming the function and the statement):
  statements   let [mut] x = E;  let (a, b, c) = E;  let [a, _, ..] = E;  let S { f, g } = E;  P.m(args);
               P = E;  x >>= n;  x <<= n;  f(&mut P, args);  swap(&mut P, &mut Q);  return [E];  { ... }
               if C { } [else { }]  for x in E { }  panic!(..);  debug_assert!(..);
               use std::mem::swap;  nested fn items that are themselves targets
  expressions  places (self, locals, fields, *x, tuple .0), T::zero() T::one(), struct literals,
               tuples, arrays, blocks, if/else, match on Option / enum, .map(|t| ..), Some/None,
               enum constants, == != < && || ! ^ % >> <<, TABLE[i], &TABLE[..], method calls

API for extract.py:
    import extract_arith
    manifest.extend(extract_arith.emit(REPO, GEN, ExtractError))   # writes GEN/Arith.lean if changed
    if extract_arith.CHANGED: changed.append("Arith")
"""
import hashlib
import os
import re
import sys

CHANGED = False


class ExtractError(Exception):
    pass


# ================================================================ source handling

def blank_comments(s):
    """Replace comments by spaces, keeping every offset (and newline) in place."""
    out = list(s)
    i, n = 0, len(s)
    while i < n:
        if s.startswith("//", i):
            j = s.find("\n", i)
            j = n if j < 0 else j
            for k in range(i, j):
                out[k] = " "
            i = j
        elif s.startswith("/*", i):
            j = s.find("*/", i + 2)
            if j < 0:
                raise ExtractError("unterminated comment")
            for k in range(i, j + 2):
                if out[k] != "\n":
                    out[k] = " "
            i = j + 2
        elif s[i] == '"':
            j = i + 1
            while j < n and s[j] != '"':
                if s[j] == "\\":
                    j += 1
                j += 1
            i = j + 1
        else:
            i += 1
    return "".join(out)


def match_close(src, i, o="{", c="}"):
    if src[i] != o:
        raise ExtractError("expected %r at offset %d" % (o, i))
    depth = 0
    j = i
    while j < len(src):
        if src[j] == o:
            depth += 1
        elif src[j] == c:
            depth -= 1
            if depth == 0:
                return j + 1
        j += 1
    raise ExtractError("unbalanced %s" % o)


def find_container(src, a, b, rx, what):
    """unique match of regex rx inside src[a:b]; the container is the brace pair opened by the first `{`
    of the match -> (start of match, start of interior, end of interior)"""
    ms = [m for m in re.finditer(rx, src[a:b])]
    if len(ms) != 1:
        raise ExtractError("%s: expected exactly one match of /%s/, found %d" % (what, rx, len(ms)))
    m = ms[0]
    o = a + m.start() + m.group(0).index("{")
    e = match_close(src, o)
    return a + m.start(), o + 1, e - 1


# ================================================================ tokenizer

TOKEN = re.compile(r"""
   (?P<num>0x[0-9a-fA-F_]+|[0-9][0-9_]*)(?P<suf>u64|usize|u32|u8|i64|u128)?
  |(?P<id>\$?[A-Za-z_][A-Za-z0-9_]*)
  |(?P<str>"(?:[^"\\]|\\.)*")
  |(?P<op>::|->|=>|==|!=|&&|\|\||>>=|<<=|>>|<<|<=|>=|\.\.|[-+*/%&|!=<>.,;:(){}\[\]\#?'^])
""", re.X)


class Tok:
    __slots__ = ("k", "v", "a", "b")

    def __init__(self, k, v, a, b):
        self.k, self.v, self.a, self.b = k, v, a, b

    def __repr__(self):
        return "%s:%s" % (self.k, self.v)


def tokenize(src, a, b):
    toks = []
    i = a
    while i < b:
        if src[i].isspace():
            i += 1
            continue
        m = TOKEN.match(src, i, b)
        if not m:
            raise ExtractError("cannot tokenize near %r" % src[i:i + 30])
        if m.group("num") is not None:
            t = m.group("num").replace("_", "")
            toks.append(Tok("num", int(t, 16) if t.startswith("0x") else int(t), i, m.end()))
        elif m.group("id") is not None:
            toks.append(Tok("id", m.group("id"), i, m.end()))
        elif m.group("str") is not None:
            toks.append(Tok("str", m.group("str"), i, m.end()))
        else:
            toks.append(Tok("op", m.group("op"), i, m.end()))
        i = m.end()
    return toks


# ================================================================ parser (Rust subset -> AST)
#
# expressions:  ('num', n) ('path', [seg..]) ('field', e, name) ('mcall', e, name, [args])
#               ('call', [seg..], [args]) ('index', e, i) ('struct', [seg..], [(f, e)..])
#               ('tuple', [e..]) ('array', [e..]) ('ref', e) ('refmut', e) ('deref', e) ('not', e)
#               ('bin', op, l, r) ('block', Block) ('if', c, Block, else_expr|None)
#               ('match', e, [(pat, e)..]) ('closure', [names], e)
# statements:   ('let', pat, ty|None, e) ('expr', e) ('assign', op, lhs, e) ('return', e|None)
#               ('use', [seg..]) ('fn', name)
# every node is followed by its source span: node[-1] = (a, b)

# Rust precedence, low -> high:  ||  &&  (== != < > <= >=)  ^  &  (<< >>)  (+ -)  (* / %)
BINPREC = {"||": 1, "&&": 2, "==": 3, "!=": 3, "<": 3, ">": 3, "<=": 3, ">=": 3, "^": 4.2, "&": 4.5,
           ">>": 5, "<<": 5, "+": 6, "-": 6, "*": 7, "/": 7, "%": 7}
STRUCT_NAMES = ("Fq2", "Fq6", "Fq12", "$projective", "$affine", "G1", "G2")


class Block:
    def __init__(self, stmts, tail, span):
        self.stmts, self.tail, self.span = stmts, tail, span


class Parser:
    def __init__(self, src, a, b, fname):
        self.src = src
        self.t = tokenize(src, a, b)
        self.i = 0
        self.fname = fname
        self.end = b

    # -- helpers
    def err(self, msg):
        if self.i < len(self.t):
            p = self.t[self.i].a
            near = " ".join(self.src[p:p + 70].split())
        else:
            near = "<end>"
        raise ExtractError("%s: %s near `%s`" % (self.fname, msg, near))

    def peek(self, k=0):
        j = self.i + k
        return self.t[j] if j < len(self.t) else None

    def at(self, v, k=0):
        t = self.peek(k)
        return t is not None and t.k not in ("num", "str") and t.v == v

    def eat(self, v=None):
        t = self.peek()
        if t is None or (v is not None and not self.at(v)):
            self.err("expected %r" % v)
        self.i += 1
        return t

    def ident(self):
        t = self.peek()
        if t is None or t.k != "id":
            self.err("expected identifier")
        self.i += 1
        return t.v

    def pos(self):
        t = self.peek()
        return t.a if t else self.end

    def lastend(self):
        return self.t[self.i - 1].b

    # -- types (signatures and let annotations)
    def ty(self):
        if self.at("&"):
            self.eat()
            if self.at("mut"):
                self.eat()
                return ("refmut", self.ty())
            return ("ref", self.ty())
        if self.at("&&"):
            self.err("unsupported type")
        if self.at("("):
            self.eat()
            items = []
            while not self.at(")"):
                items.append(self.ty())
                if self.at(","):
                    self.eat()
            self.eat(")")
            return ("tuple", items)
        if self.at("["):
            self.eat()
            el = self.ty()
            self.eat(";")
            n = self.eat()
            if n.k != "num":
                self.err("array length")
            self.eat("]")
            return ("array", el, n.v)
        if self.at("::"):
            self.eat()
        segs = [self.ident()]
        while self.at("::"):
            self.eat()
            segs.append(self.ident())
        name = "::".join(segs)
        if self.at("<"):
            self.eat()
            arg = self.ty()
            if self.at(">>"):
                self.err("nested generics are not supported")
            self.eat(">")
            return ("app", name, arg)
        return ("name", name)

    # -- expressions
    def expr(self, nostruct=False, prec=0):
        lhs = self.unary(nostruct)
        while True:
            t = self.peek()
            if t is None or t.k != "op" or t.v not in BINPREC or BINPREC[t.v] <= prec:
                return lhs
            self.eat()
            rhs = self.expr(nostruct, BINPREC[t.v])
            lhs = ("bin", t.v, lhs, rhs, (lhs[-1][0], rhs[-1][1]))

    def unary(self, nostruct):
        a = self.pos()
        if self.at("&"):
            self.eat()
            if self.at("mut"):
                self.eat()
                e = self.unary(nostruct)
                return ("refmut", e, (a, e[-1][1]))
            e = self.unary(nostruct)
            return ("ref", e, (a, e[-1][1]))
        if self.at("*"):
            self.eat()
            e = self.unary(nostruct)
            return ("deref", e, (a, e[-1][1]))
        if self.at("!"):
            self.eat()
            e = self.unary(nostruct)
            return ("not", e, (a, e[-1][1]))
        return self.postfix(self.primary(nostruct))

    def args(self):
        self.eat("(")
        out = []
        while not self.at(")"):
            out.append(self.expr())
            if self.at(","):
                self.eat()
            elif not self.at(")"):
                self.err("expected , or )")
        self.eat(")")
        return out

    def postfix(self, e):
        while True:
            a = e[-1][0]
            if self.at("."):
                self.eat()
                t = self.eat()
                if t.k == "num":
                    e = ("field", e, str(t.v), (a, t.b))
                elif t.k == "id":
                    if self.at("("):
                        ar = self.args()
                        e = ("mcall", e, t.v, ar, (a, self.lastend()))
                    else:
                        e = ("field", e, t.v, (a, t.b))
                else:
                    self.err("bad token after '.'")
            elif self.at("["):
                self.eat()
                lo = None if self.at("..") else self.expr()
                if self.at(".."):
                    self.eat()
                    hi = None if self.at("]") else self.expr()
                    self.eat("]")
                    e = ("slice", e, lo, hi, (a, self.lastend()))
                else:
                    self.eat("]")
                    e = ("index", e, lo, (a, self.lastend()))
            elif self.at("?"):
                self.err("`?` is not supported")
            else:
                return e

    def block(self):
        a = self.pos()
        self.eat("{")
        stmts = []
        tail = None
        while not self.at("}"):
            if tail is not None:
                # the previous item was an expression without ';' -> only allowed for
                # block-like expressions used as statements
                if tail[0] not in ("if", "block", "match"):
                    self.err("missing `;`")
                stmts.append(("expr", tail, tail[-1]))
                tail = None
            s = self.stmt()
            if s[0] == "tail":
                tail = s[1]
            else:
                stmts.append(s)
        self.eat("}")
        return Block(stmts, tail, (a, self.lastend()))

    def primary(self, nostruct):
        t = self.peek()
        if t is None:
            self.err("unexpected end")
        a = t.a
        if t.k == "num":
            self.eat()
            return ("num", t.v, (a, t.b))
        if t.k == "op":
            if t.v == "(":
                self.eat()
                items = []
                trailing = False
                while not self.at(")"):
                    items.append(self.expr())
                    trailing = False
                    if self.at(","):
                        self.eat()
                        trailing = True
                self.eat(")")
                if len(items) == 1 and not trailing:
                    return items[0][:-1] + ((a, self.lastend()),)
                return ("tuple", items, (a, self.lastend()))
            if t.v == "[":
                self.eat()
                items = []
                while not self.at("]"):
                    items.append(self.expr())
                    if self.at(","):
                        self.eat()
                    elif self.at(";"):
                        self.err("array repeat expressions are not supported")
                self.eat("]")
                return ("array", items, (a, self.lastend()))
            if t.v == "{":
                b = self.block()
                return ("block", b, b.span)
            if t.v == "|":
                self.eat()
                names = []
                while not self.at("|"):
                    names.append(self.ident())
                    if self.at(","):
                        self.eat()
                self.eat("|")
                body = self.expr()
                return ("closure", names, body, (a, body[-1][1]))
            self.err("unexpected token %r" % t.v)
        # identifier / keyword
        if t.v == "if":
            return self.if_expr()
        if t.v == "match":
            self.eat()
            scrut = self.expr(nostruct=True)
            self.eat("{")
            arms = []
            while not self.at("}"):
                pat = self.pattern()
                self.eat("=>")
                body = self.expr()
                arms.append((pat, body))
                if self.at(","):
                    self.eat()
                elif not self.at("}") and body[0] != "block":
                    self.err("expected , after match arm")
            self.eat("}")
            return ("match", scrut, arms, (a, self.lastend()))
        if t.k == "str":
            self.err("string literal")
        if t.v in ("for", "while", "loop", "unsafe", "break", "continue", "as", "move"):
            self.err("unsupported construct `%s`" % t.v)
        segs = [self.ident()]
        while self.at("::"):
            self.eat()
            if self.at("<"):
                self.err("turbofish is not supported")
            segs.append(self.ident())
        if self.at("!"):
            mname = "::".join(segs)
            if mname not in ("panic", "debug_assert"):
                self.err("macro invocation `%s!` is not supported" % mname)
            self.eat("!")
            if not self.at("("):
                self.err("expected ( after %s!" % mname)
            depth = 0
            while True:
                t = self.eat()
                if t.k == "op" and t.v == "(":
                    depth += 1
                elif t.k == "op" and t.v == ")":
                    depth -= 1
                    if depth == 0:
                        break
            return (mname, (a, self.lastend()))
        if self.at("("):
            ar = self.args()
            return ("call", segs, ar, (a, self.lastend()))
        if self.at("{") and not nostruct and len(segs) == 1 and segs[0] in STRUCT_NAMES:
            self.eat("{")
            fields = []
            while not self.at("}"):
                f = self.ident()
                if self.at(":"):
                    self.eat()
                    v = self.expr()
                else:
                    p = self.t[self.i - 1]
                    v = ("path", [f], (p.a, p.b))
                fields.append((f, v))
                if self.at(","):
                    self.eat()
                elif not self.at("}"):
                    self.err("expected , or } in struct literal")
            self.eat("}")
            return ("struct", segs, fields, (a, self.lastend()))
        return ("path", segs, (a, self.lastend()))

    def if_expr(self):
        a = self.pos()
        self.eat("if")
        if self.at("let"):
            self.err("`if let` is not supported")
        c = self.expr(nostruct=True)
        th = self.block()
        el = None
        if self.at("else"):
            self.eat()
            if self.at("if"):
                el = self.if_expr()
            else:
                b = self.block()
                el = ("block", b, b.span)
        return ("if", c, th, el, (a, self.lastend()))

    def pattern(self):
        a = self.pos()
        if self.at("("):
            self.eat()
            names = []
            while not self.at(")"):
                if self.at("mut"):
                    self.eat()
                names.append(self.ident())
                if self.at(","):
                    self.eat()
            self.eat(")")
            return ("ptuple", names, (a, self.lastend()))
        if self.at("mut"):
            self.eat()
        if self.at("["):
            self.eat()
            names = []
            while not self.at("]"):
                if self.at("mut"):
                    self.eat()
                names.append(self.ident())
                if self.at(","):
                    self.eat()
            self.eat("]")
            return ("parray", names, (a, self.lastend()))
        n = self.ident()
        if self.at("::"):
            segs = [n]
            while self.at("::"):
                self.eat()
                segs.append(self.ident())
            return ("ppath", segs, (a, self.lastend()))
        if self.at("{") and n in STRUCT_NAMES:
            self.eat("{")
            names = []
            while not self.at("}"):
                names.append(self.ident())
                if self.at(":"):
                    self.err("unsupported struct pattern (only the shorthand `S { f, g }`)")
                if self.at(","):
                    self.eat()
            self.eat("}")
            return ("pstruct", n, names, (a, self.lastend()))
        if n == "Some":
            self.eat("(")
            if self.at("mut"):
                self.eat()
            v = self.ident()
            self.eat(")")
            return ("psome", v, (a, self.lastend()))
        if n == "None":
            return ("pnone", (a, self.lastend()))
        if self.at("{") or self.at("(") or self.at("::"):
            self.err("unsupported pattern")
        return ("pvar", n, (a, self.lastend()))

    def stmt(self):
        a = self.pos()
        if self.at("#"):
            self.err("attributes inside bodies are not supported")
        if self.at("let"):
            self.eat()
            pat = self.pattern()
            if pat[0] not in ("pvar", "ptuple", "parray", "pstruct"):
                self.err("unsupported let pattern")
            ty = None
            if self.at(":"):
                self.eat()
                ty = self.ty()
            self.eat("=")
            e = self.expr()
            self.eat(";")
            return ("let", pat, ty, e, (a, self.lastend()))
        if self.at("use"):
            self.eat()
            segs = [self.ident()]
            while self.at("::"):
                self.eat()
                segs.append(self.ident())
            self.eat(";")
            return ("use", segs, (a, self.lastend()))
        if self.at("fn"):
            self.eat()
            name = self.ident()
            while not self.at("{"):
                self.eat()
            o = self.peek().a
            e = match_close(self.src, o)
            while self.i < len(self.t) and self.t[self.i].a < e:
                self.i += 1
            return ("fn", name, (a, e))
        if self.at("for"):
            self.eat()
            pat = self.pattern()
            if pat[0] != "pvar":
                self.err("unsupported `for` pattern")
            self.eat("in")
            it = self.expr(nostruct=True)
            if self.at(".."):
                self.eat()
                hi = self.expr(nostruct=True)
                it = ("range", it, hi, (it[-1][0], hi[-1][1]))
            body = self.block()
            return ("for", pat, it, body, (a, self.lastend()))
        if self.at("return"):
            self.eat()
            e = None
            if not self.at(";"):
                e = self.expr()
            if self.at(";"):
                self.eat()
            elif not self.at("}"):
                self.err("expected ; after return")
            return ("return", e, (a, self.lastend()))
        e = self.expr()
        if self.at("=") or self.at(">>=") or self.at("<<="):
            op = self.eat().v
            r = self.expr()
            self.eat(";")
            return ("assign", op, e, r, (a, self.lastend()))
        if self.at(";"):
            self.eat()
            return ("expr", e, (a, self.lastend()))
        if self.at("}") or e[0] in ("if", "block", "match"):
            return ("tail", e)
        self.err("expected ; or }")


def parse_fn(src, a, b, what, parser_cls=None):
    """src[a:b] starts at `fn`.  -> (name, generics, params, ret, Block)
    (parser_cls: a subclass of Parser that understands more syntax, see extract_enc.py)"""
    p = (parser_cls or Parser)(src, a, b, what)
    p.eat("fn")
    name = p.ident()
    generics = []
    if p.at("<"):
        # generic parameters `<G: Bound, ..>`: read at character level (bounds may nest `<..>`)
        o = p.peek().a
        depth, j = 0, o
        while True:
            if src[j] == "<":
                depth += 1
            elif src[j] == ">" and src[j - 1] != "-":
                depth -= 1
                if depth == 0:
                    break
            j += 1
        inner = src[o + 1:j]
        parts, d, cur = [], 0, ""
        for ch in inner:
            if ch == "<":
                d += 1
            elif ch == ">":
                d -= 1
            if ch == "," and d == 0:
                parts.append(cur)
                cur = ""
            else:
                cur += ch
        if cur.strip():
            parts.append(cur)
        for part in parts:
            if ":" not in part:
                p.err("generic parameter without bound")
            g, bound = part.split(":", 1)
            generics.append((g.strip(), "".join(bound.split())))
        while p.i < len(p.t) and p.t[p.i].a <= j:
            p.i += 1
    p.eat("(")
    params = []
    while not p.at(")"):
        if p.at("&"):
            p.eat()
            if p.at("mut"):
                p.eat()
                p.eat("self")
                params.append(("self", ("refmut", ("name", "Self"))))
            else:
                p.eat("self")
                params.append(("self", ("ref", ("name", "Self"))))
        elif p.at("self"):
            p.eat()
            params.append(("self", ("name", "Self")))
        else:
            if p.at("mut"):
                p.eat()
            n = p.ident()
            p.eat(":")
            params.append((n, p.ty()))
        if p.at(","):
            p.eat()
    p.eat(")")
    ret = None
    if p.at("->"):
        p.eat()
        ret = p.ty()
    if p.at("where"):
        p.err("where clauses are not supported")
    body = p.block()
    if p.peek() is not None:
        p.err("trailing tokens after function body")
    return name, generics, params, ret, body


# ================================================================ types of the translation
#
# 'Fq' 'Fq2' 'Fq6' 'Fq12' 'F' 'Nat' 'U64' 'Bool' 'Unit'
# ('Jac', T) ('Aff', T) ('Opt', T) ('Tup', (T..)) ('Help', T)

FIELD_LIKE = ("Fq", "F")            # operations are notation / FieldOps
TOWER = ("Fq2", "Fq6", "Fq12")       # operations are calls of generated functions

STRUCT_FIELDS = {
    "Fq2": [("c0", "Fq"), ("c1", "Fq")],
    "Fq6": [("c0", "Fq2"), ("c1", "Fq2"), ("c2", "Fq2")],
    "Fq12": [("c0", "Fq6"), ("c1", "Fq6")],
}


def fields_of(t):
    if t in STRUCT_FIELDS:
        return STRUCT_FIELDS[t]
    if isinstance(t, tuple) and t[0] == "Jac":
        return [("x", t[1]), ("y", t[1]), ("z", t[1])]
    if isinstance(t, tuple) and t[0] == "Aff":
        return [("x", t[1]), ("y", t[1]), ("infinity", "Bool")]
    return None


def lean_ty(t, paren=False):
    if isinstance(t, str):
        s = {"U64": "UInt64", "Repr": "Nat", "Bits": "List Bool"}.get(t, t)
        return "(%s)" % s if paren and " " in s else s
    if t[0] == "Raw":
        return "(%s)" % t[1] if paren else t[1]
    if t[0] in ("Jac", "Aff"):
        s = "%s %s" % (t[0], lean_ty(t[1], True))
    elif t[0] == "Opt":
        s = "Option %s" % lean_ty(t[1], True)
    elif t[0] == "Help":
        s = "OsswuHelp %s" % lean_ty(t[1], True)
    elif t[0] == "Tup":
        s = " × ".join(lean_ty(x, True) for x in t[1])
    else:
        raise ExtractError("internal: type %r" % (t,))
    return "(%s)" % s if paren else s


def head(t):
    """registry key of a receiver type"""
    return t if isinstance(t, str) else t[0]


def subst(t, f):
    """instantiate the generic coefficient field `F` of a declared type by f"""
    if f is None or f == "F":
        return t
    if t == "F":
        return f
    if isinstance(t, tuple):
        if t[0] == "Tup":
            return ("Tup", tuple(subst(x, f) for x in t[1]))
        if t[0] in ("Jac", "Aff", "Opt", "Help"):
            return (t[0], subst(t[1], f))
    return t


def unify(decl, actual):
    """the f with subst(decl, f) == actual, '' if decl does not mention F, None if impossible"""
    if decl == "F":
        return actual if actual in FIELD_LIKE + TOWER else None
    if isinstance(decl, tuple) and isinstance(actual, tuple) and decl[0] == actual[0]:
        if decl[0] == "Tup":
            if len(decl[1]) != len(actual[1]):
                return None
            f = ""
            for d, a in zip(decl[1], actual[1]):
                g = unify(d, a)
                if g is None or (f and g and f != g):
                    return None
                f = f or g
            return f
        if decl[0] in ("Jac", "Aff", "Opt", "Help"):
            return unify(decl[1], actual[1])
    return "" if decl == actual else None


# enum constants of the Rust code: (type, variant) -> (Lean text, type)
ENUMS = {
    ("Sgn0Result", "Negative"): ("Sgn0.negative", "Sgn0"),
    ("Sgn0Result", "NonNegative"): ("Sgn0.nonNegative", "Sgn0"),
    ("Ordering", "Greater"): ("Ordering.gt", "Ordering"),
    ("Ordering", "Less"): ("Ordering.lt", "Ordering"),
    ("Ordering", "Equal"): ("Ordering.eq", "Ordering"),
}
ENUM_SIZE = {"Sgn0": 2, "Ordering": 3}


# Lean names of the generated functions: Rust method name -> Lean name
LEAN_METHOD = {
    "mul_assign": "mul", "add_assign": "add", "sub_assign": "sub", "negate": "neg",
    "square": "square", "double": "double", "mul_by_nonresidue": "mulByNonresidue",
    "norm": "norm", "inverse": "inverse", "frobenius_map": "frobeniusMap", "is_zero": "isZero",
    "mul_by_1": "mulBy1", "mul_by_01": "mulBy01", "mul_by_014": "mulBy014",
    "conjugate": "conjugate", "zero": "zero", "one": "one", "eq": "beq",
    "add_assign_mixed": "addMixed", "is_on_curve": "isOnCurve", "is_normalized": "isNormalized",
    "sqrt": "sqrt", "legendre": "legendre", "sgn0": "sgn0", "cmp": "cmp", "bitxor": "xor",
    "negate_if": "negateIf", "get_point_from_x": "getPointFromX", "mul_bits": "mulBits", "mul": "mul",
    "is_in_correct_subgroup_assuming_on_curve": "isInCorrectSubgroupAssumingOnCurve",
    "in_subgroup": "inSubgroup", "sub_assign_mixed": "subMixed", "clear_h": "clearH",
    "osswu_map": "osswuMap", "map_to_curve": "mapToCurve", "map2_to_curve": "map2ToCurve",
}

# builtin operations of field-like types: method -> (kind, format)
BUILTIN = {
    "square": ("mut", "sq {0}"),
    "double": ("mut", "dbl {0}"),
    "negate": ("mut", "-{0}"),
    "add_assign": ("mut", "{0} + {1}"),
    "sub_assign": ("mut", "{0} - {1}"),
    "mul_assign": ("mut", "{0} * {1}"),
    "frobenius_map": ("mut", "FieldOps.frob {0} {1}"),
    "inverse": ("opt", "FieldOps.inv {0}"),
    "is_zero": ("bool", "FieldOps.isZero {0}"),
    # `SqrtField` of the coefficient field (for `Fq` derive-generated, not in /repo; for `Fq2` see fq2.rs)
    "sqrt": ("opt", "SqrtOps.sqrt {0}"),
    "legendre": ("Legendre", "SqrtOps.legendre {0}"),
}
BUILTIN_ARGTYPES = {"add_assign": ["same"], "sub_assign": ["same"], "mul_assign": ["same"],
                    "frobenius_map": ["Nat"]}

# Rust constants: name -> (Lean text, type[, element type for tables])
# name -> [model table, element type, length]; the length is read from the declaration in fq.rs
# (`pub const NAME: [T; N]`) by translate() and re-stated as a theorem in the generated file
TABLES = {
    "FROBENIUS_COEFF_FQ2_C1": ["PP.Fq2.frobCoeffC1", "Fq", None],
    "FROBENIUS_COEFF_FQ6_C1": ["PP.Fq6.frobCoeffC1", "Fq2", None],
    "FROBENIUS_COEFF_FQ6_C2": ["PP.Fq6.frobCoeffC2", "Fq2", None],
    "FROBENIUS_COEFF_FQ12_C1": ["PP.Fq12.frobCoeffC1", "Fq2", None],
}
FQ_RS = "src/bls12_381/fq.rs"
REPR_LIMBS = 4   # `FrRepr([u64; 4])` (derive-generated): every scalar `Repr` in the curve code is an FrRepr
CONSTS = {
    "BLS_X": ("(UInt64.ofNat Gen.BLS_X)", "U64"),
    "BLS_X_IS_NEGATIVE": ("Gen.BLS_X_IS_NEGATIVE", "Bool"),
    "NEGATIVE_ONE": ("(Fq.ofMont Gen.NEGATIVE_ONE)", "Fq"),
}
# free functions that are extracted elsewhere (addition chains: PP/Gen/Chains.lean, run by the model's
# chain interpreter): Rust `chain(&mut out, &in)` is `let out := <lean> in`; name -> (Lean, type of in/out)
EXTERN_FNS = {
    "chain_pm3div4": ("PP.chainPm3div4", "Fq"),
    "chain_p2m9div16": ("PP.chainP2m9div16", "Fq2"),
    "chain_z": ("PP.chainZ", "Jac"),
    "chain_h2_eff": ("PP.chainH2Eff", "Jac"),
}

LEAN_RESERVED = {
    "at", "from", "end", "fun", "then", "else", "open", "in", "do", "let", "have", "show", "by",
    "match", "with", "if", "def", "theorem", "namespace", "section", "variable", "where", "Type",
    "Prop", "Sort", "instance", "structure", "class", "deriving", "import", "private", "mutual",
    "local", "export", "universe", "using", "calc", "suffices", "obtain", "return", "for", "unless",
    "try", "catch", "finally", "macro", "syntax", "notation", "infix", "prefix", "postfix", "set_option",
    "attribute", "abbrev", "axiom", "example", "opaque", "inductive", "extends", "nomatch", "nofun",
    "sq", "dbl", "A", "Gen", "PP", "some", "none", "true", "false",
}


def lname(n):
    return n + "_" if n in LEAN_RESERVED else n


class FnInfo:
    generic = False                 # declared types mention the coefficient field `F`

    def __init__(self, lean, recv, params, mutparams, ret, partial, extern):
        self.lean = lean            # full Lean name, e.g. A.Fq2.mul
        self.recv = recv            # None | ('mut'|'ref', type)
        self.params = params        # [(name, type, is_mut_ref)]  (without self)
        self.mutparams = mutparams  # names of &mut parameters incl. 'self', in order
        self.ret = ret              # declared return type ('Unit' if none)
        self.partial = partial      # contains unwrap(): result wrapped in Option
        self.extern = extern        # [(lean_name, type)] leading parameters


class Env:
    """variables in scope: name -> (type, level); `level` = nesting depth of Lean terms at the
    declaration; variables with level < barrier cannot be mutated (their new value would be
    lost at the end of the enclosing nested Lean term)."""

    def __init__(self, vars=None, level=0, barrier=0, flat=None):
        self.vars = dict(vars or {})
        self.level = level
        self.barrier = barrier
        # names that must not be re-declared here: a continuation built OUTSIDE this scope (the
        # function's return of its &mut parameters, the rest of an enclosing block) is printed
        # INSIDE it and refers to them
        self.flat = set(flat or ())

    def copy(self):
        return Env(self.vars, self.level, self.barrier, self.flat)

    def nested_value(self):
        """scope of a nested Lean term whose value is consumed (block expression, match arm..)"""
        e = self.copy()
        e.level += 1
        e.barrier = e.level
        e.flat = set()
        return e

    def nested_flat(self, more):
        """scope of a statement block / if branch / match arm that is printed inside the enclosing
        chain; more = statements or a value of the enclosing block follow it"""
        e = self.copy()
        if more:
            e.flat = set(self.vars) | self.flat
        return e

    def leave(self, inner):
        """back in this scope after a flattened inner scope: its locals are forgotten"""
        e = self.copy()
        e.vars = {n: inner.vars[n] for n in self.vars}
        return e


class Line:
    __slots__ = ("ind", "code", "cmt")

    def __init__(self, ind, code, cmt=""):
        self.ind, self.code, self.cmt = ind, code, cmt


# ================================================================ translation of one function

class Translator:
    def __init__(self, registry, src, what, tymap, self_ty, extern_calls, consts=None, tables=None):
        self.consts = consts or {}           # per-file constants: name -> (Lean text, type)
        self.tables = tables or {}           # per-file tables: name -> (Lean text, element type, length)
        self.recording = None                # set of outer variables mutated (analysis pass of loops / ifs)
        self.ret_stack = []                  # `return` inside a loop closure
        self.reg = registry
        self.src = src
        self.what = what
        self.tymap = tymap
        self.self_ty = self_ty
        self.extern_calls = extern_calls     # {'Self::get_coeff_b': (leanname, type)}
        self.used_extern = []
        self.info = None

    # ---- diagnostics
    def text(self, span):
        return " ".join(self.src[span[0]:span[1]].split())

    def fail(self, msg, node):
        if isinstance(node, Block):
            span = node.span
        elif len(node) == 2 and isinstance(node[0], int):
            span = node
        else:
            span = node[-1]
        raise ExtractError("%s: %s: `%s`" % (self.what, msg, self.text(span)[:160]))

    # ---- types
    def conv_ty(self, t, node=None):
        k = t[0]
        if k in ("ref", "refmut"):
            return self.conv_ty(t[1])
        if k == "name":
            if t[1] in self.tymap:
                return self.tymap[t[1]]
            raise ExtractError("%s: unknown type `%s`" % (self.what, t[1]))
        if k == "tuple":
            if not t[1]:
                return "Unit"
            return ("Tup", tuple(self.conv_ty(x) for x in t[1]))
        if k == "app" and t[1] == "Option":
            return ("Opt", self.conv_ty(t[2]))
        if k == "app" and t[1] == "BitIterator":
            return "Bits"
        if k == "array":
            key = "[%s; %d]" % (t[1][1] if t[1][0] == "name" else "?", t[2])
            if key in self.tymap:
                return self.tymap[key]
        raise ExtractError("%s: unsupported type %r" % (self.what, t))

    # ---- places
    def place(self, e):
        """-> (root name, [fields]) or None"""
        if e[0] in ("deref", "ref", "refmut"):
            return self.place(e[1])
        if e[0] == "path" and len(e[1]) == 1:
            return (e[1][0], [])
        if e[0] == "field":
            p = self.place(e[1])
            if p is None:
                return None
            return (p[0], p[1] + [e[2]])
        return None

    def place_type(self, root, fields, env, node):
        if root not in env.vars:
            self.fail("unknown variable `%s`" % root, node)
        t = env.vars[root][0]
        for f in fields:
            t = self.field_type(t, f, node)
        return t

    def field_type(self, t, f, node):
        if isinstance(t, tuple) and t[0] == "Tup":
            if not f.isdigit() or int(f) >= len(t[1]):
                self.fail("bad tuple index .%s" % f, node)
            return t[1][int(f)]
        fs = fields_of(t)
        if fs is None:
            self.fail("field .%s of a value of type %s" % (f, lean_ty(t)), node)
        for n, ft in fs:
            if n == f:
                return ft
        self.fail("type %s has no field %s" % (lean_ty(t), f), node)

    def place_text(self, root, fields, env, node):
        t = env.vars[root][0]
        s = lname(root)
        for f in fields:
            if isinstance(t, tuple) and t[0] == "Tup":
                n = len(t[1])
                i = int(f)
                s = s + "".join([".2"] * i) + (".1" if i < n - 1 else "")
            else:
                s = "%s.%s" % (s, f)
            t = self.field_type(t, f, node)
        return s

    def set_place(self, root, fields, value, env, node):
        """Lean `let` line that stores `value` into the place"""
        if root not in env.vars:
            self.fail("unknown variable `%s`" % root, node)
        t, lvl = env.vars[root]
        if lvl < env.barrier:
            if self.recording is not None:
                if root not in self.recording:
                    self.recording.append(root)
            else:
                self.fail("mutation of `%s`, which is declared outside the enclosing value block" % root, node)
        tt = t
        for f in fields:
            if isinstance(tt, tuple) and tt[0] == "Tup":
                self.fail("assignment to a tuple component", node)
            tt = self.field_type(tt, f, node)
        if not fields:
            return "let %s := %s" % (lname(root), value)
        return "let %s := { %s with %s := %s }" % (lname(root), lname(root), ".".join(fields), value)

    # ---- expressions (single line).  -> (text, type); `atom` = safe as an application argument
    def paren(self, s):
        if re.match(r"^[A-Za-z_][A-Za-z0-9_.']*$", s) or re.match(r"^[0-9]+$", s):
            return s
        if (s[0] == "(" and match_close(s, 0, "(", ")") == len(s)) or \
           (s[0] == "[" and match_close(s, 0, "[", "]") == len(s)):
            return s
        return "(" + s + ")"

    def arg(self, e, env, want=None):
        s, t = self.expr(e, env, want)
        return self.paren(s), t

    def expect(self, got, want, node):
        if want is not None and want != "same" and got != want:
            self.fail("type mismatch: expected %s, found %s" % (lean_ty(want), lean_ty(got)), node)

    def expr(self, e, env, want=None):
        s, t = self.expr0(e, env, want)
        self.expect(t, want, e)
        return s, t

    def expr0(self, e, env, want):
        k = e[0]
        if k in ("ref", "deref"):
            return self.expr0(e[1], env, want)
        if k == "num":
            if want == "U64":
                return str(e[1]), "U64"
            return str(e[1]), "Nat"
        if k == "path":
            segs = e[1]
            if len(segs) == 2 and tuple(segs) in ENUMS:
                return ENUMS[tuple(segs)]
            if len(segs) == 1:
                n = segs[0]
                if n in env.vars:
                    return lname(n), env.vars[n][0]
                if n in self.consts:
                    return self.consts[n]
                if n in CONSTS:
                    return CONSTS[n]
                if n == "None" and want is not None and want[0] == "Opt":
                    return "none", want
                if n in ("true", "false"):
                    return n, "Bool"
            self.fail("unknown name `%s`" % "::".join(segs), e)
        if k == "field":
            p = self.place(e)
            if p is None:
                self.fail("field access on a non-place expression", e)
            return self.place_text(p[0], p[1], env, e), self.place_type(p[0], p[1], env, e)
        if k == "call":
            return self.call_value(e, env, want)
        if k == "mcall":
            return self.mcall_value(e, env, want)
        if k == "index":
            b = e[1]
            if b[0] == "path" and len(b[1]) == 1 and b[1][0] in TABLES:
                tbl, elt, n = TABLES[b[1][0]]
                ix = e[2]
                if not (ix[0] == "bin" and ix[1] == "%" and ix[3][0] == "num"):
                    self.fail("table index must have the form `i %% n`", e)
                if n is None or ix[3][1] > n or ix[3][1] == 0:
                    self.fail("index modulus %d is not within the length %s of the table" % (ix[3][1], n), e)
                s, _ = self.expr(ix, env, "Nat")
                return "%s.getD %s 0" % (tbl, self.paren(s)), elt
            self.fail("indexing of something that is not a known table", e)
        if k == "struct":
            name = e[1][0]
            if name not in self.tymap:
                self.fail("unknown struct `%s`" % name, e)
            t = self.tymap[name]
            fs = fields_of(t)
            if fs is None or [f for f, _ in e[2]] != [f for f, _ in fs]:
                self.fail("struct literal fields do not match %s" % lean_ty(t), e)
            parts = []
            for (f, v), (_, ft) in zip(e[2], fs):
                s, _ = self.expr(v, env, ft)
                parts.append("%s := %s" % (f, s))
            return "({ %s } : %s)" % (", ".join(parts), lean_ty(t)), t
        if k == "tuple":
            wants = [None] * len(e[1])
            if want is not None and isinstance(want, tuple) and want[0] == "Tup" and len(want[1]) == len(e[1]):
                wants = list(want[1])
            parts = [self.expr(x, env, w) for x, w in zip(e[1], wants)]
            return "(" + ", ".join(p[0] for p in parts) + ")", ("Tup", tuple(p[1] for p in parts))
        if k == "array":
            if want is not None and isinstance(want, tuple) and want[0] == "Help":
                if len(e[1]) != 7:
                    self.fail("expected 7 array elements", e)
                parts = [self.expr(x, env, want[1])[0] for x in e[1]]
                return "⟨" + ", ".join(parts) + "⟩", want
            self.fail("array literal in an unsupported position", e)
        if k == "if":
            # `if c { a } else { b }` used inline as a value
            c, th, el = e[1], e[2], e[3]
            if th.stmts or th.tail is None or el is None or el[0] != "block" or el[1].stmts or el[1].tail is None:
                self.fail("`if` inside an expression must have the form `if c { a } else { b }`", e)
            cs, _ = self.cond(c, env)
            a, ta = self.expr(th.tail, env, want)
            b, _ = self.expr(el[1].tail, env, ta)
            return "if %s then %s else %s" % (cs, a, b), ta
        if k == "bin":
            op = e[1]
            if op == "%":
                a, _ = self.arg(e[2], env, "Nat")
                b, _ = self.arg(e[3], env, "Nat")
                return "%s %% %s" % (a, b), "Nat"
            if op == "^":
                a, ta = self.arg(e[2], env)
                b, _ = self.arg(e[3], env, ta)
                if ta == "Bool":
                    return "%s ^^ %s" % (a, b), "Bool"
                fi = self.reg.get((head(ta), "bitxor"))
                if fi is None:
                    self.fail("operator ^ on values of type %s (no translated `BitXor` impl)" % lean_ty(ta), e)
                return "%s %s %s" % (fi.lean, a, b), fi.ret
            if op in ("==", "!=", "&&", "||", "<"):
                s, kind = self.cond(e, env)
                return (s if kind == "bool" else "decide (%s)" % s), "Bool"
            if op in (">>", "<<"):
                a, _ = self.arg(e[2], env, "U64")
                if e[3][0] != "num":
                    self.fail("shift amount must be a literal", e)
                return "%s %s %d" % (a, ">>>" if op == ">>" else "<<<", e[3][1]), "U64"
            self.fail("unsupported operator %s" % op, e)
        if k == "not":
            s, kind = self.cond(e, env)
            return (s if kind == "bool" else "decide (%s)" % s), "Bool"
        self.fail("unsupported expression", e)

    def call_value(self, e, env, want):
        segs, args = e[1], e[2]
        key = "::".join(segs)
        if key in self.extern_calls and not args:
            ln, t = self.extern_calls[key]
            if (ln, t) not in self.used_extern:
                self.used_extern.append((ln, t))
            return ln, t
        if len(segs) == 1 and segs[0] == "Some" and len(args) == 1:
            inner = want[1] if (want is not None and want[0] == "Opt") else None
            s, t = self.arg(args[0], env, inner)
            return "some %s" % s, ("Opt", t)
        if key == "BitIterator::new" and len(args) == 1:
            # BitIterator of the ff crate (not a target) over the limbs of a scalar `Repr`
            s, _ = self.arg(args[0], env, "Repr")
            return "bitsMSB (limbsOf %d %s)" % (REPR_LIMBS, s), "Bits"
        if ("static", key) in self.reg or ("fn", key) in self.reg:
            fi = self.reg.get(("static", key)) or self.reg[("fn", key)]
            if fi.mutparams or any(m for _, _, m in fi.params):
                self.fail("function with &mut parameters used as a value", e)
            ar = self.call_args(fi, args, env, e)
            f = self.last_subst
            pre = self.extern_args(fi, f)
            t = subst(fi.ret, f)
            return " ".join(x for x in [fi.lean] + pre + ar if x), (("Opt", t) if fi.partial else t)
        if len(segs) == 2 and segs[1] in ("zero", "one") and not args:
            if segs[0] not in self.tymap:
                self.fail("unknown type `%s`" % segs[0], e)
            t = self.tymap[segs[0]]
            if t in FIELD_LIKE:
                return ("0" if segs[1] == "zero" else "1"), t
            fi = self.reg.get((head(t), segs[1]))
            if fi is None:
                self.fail("call of `%s`, which has not been translated" % key, e)
            return fi.lean, t
        self.fail("unsupported call", e)

    def lookup_method(self, t, m, node):
        fi = self.reg.get((head(t), m))
        if fi is None and t in FIELD_LIKE + TOWER:
            fi = self.reg.get(("Signum0", m))     # default method of the trait `Signum0: Field`
        if fi is None:
            self.fail("call of method `%s` on a value of type %s, which is not a builtin and has not "
                      "been translated before" % (m, lean_ty(t)), node)
        return fi

    def call_args(self, fi, args, env, node, f=None):
        """argument texts; f = instantiation of the callee's generic field F (from the receiver), or
        None: taken from the first argument that determines it.  The result is left in last_subst."""
        if len(args) != len(fi.params):
            self.fail("wrong number of arguments", node)
        out = []
        for a, (_, pt, ismut) in zip(args, fi.params):
            if ismut:
                self.fail("&mut argument in a value position", node)
            if fi.generic and not f and subst(pt, "Fq") != pt:
                s_, t_ = self.arg(a, env)
                f = unify(pt, t_)
                if not f:
                    self.fail("argument of type %s where %s is expected" % (lean_ty(t_), lean_ty(pt)), a)
                out.append(s_)
            else:
                out.append(self.arg(a, env, subst(pt, f))[0])
        self.last_subst = f
        return out

    def extern_args(self, fi, f):
        """associated constants needed by a callee become associated constants of the caller"""
        pre = []
        for ln, t in fi.extern:
            t = subst(t, f)
            if (ln, t) not in self.used_extern:
                if any(l == ln for l, _ in self.used_extern):
                    self.fail("internal: two different associated constants named %s" % ln, (0, 0))
                self.used_extern.append((ln, t))
            pre.append(ln)
        return pre

    def recv_subst(self, fi, rt, node):
        if not fi.generic:
            return None
        f = unify(fi.recv[1], rt)
        if f is None:
            self.fail("receiver of type %s where %s is expected" % (lean_ty(rt), lean_ty(fi.recv[1])), node)
        return f or None

    def mcall_value(self, e, env, want):
        """method call used for its VALUE (must not mutate anything)"""
        recv, m, args = e[1], e[2], e[3]
        if m == "unwrap":
            self.fail("`unwrap()` is only supported in `let v = e.unwrap();`", e)
        if m == "map":
            self.fail("`.map(..)` is only supported as the value of a function or block", e)
        rs, rt = self.arg(recv, env)
        if m == "into" and rt == "Repr" and not args:
            # `by.into()` of a scalar argument `by: S` with `S: Into<Repr>`: the argument is taken
            # after this conversion
            return rs, "Repr"
        if m == "cmp" and rt == "Fq" and len(args) == 1:
            # `Ord for Fq` (derive-generated, not in /repo): compares `into_repr()`, the canonical integers
            b, _ = self.arg(args[0], env, "Fq")
            return "compare %s.v %s.v" % (rs, b), "Ordering"
        if m == "pow" and rt in FIELD_LIKE + TOWER:
            # Field::pow(&[limbs]) -- generic MSB-first square-and-multiply of the ff crate (not a target)
            if len(args) != 1:
                self.fail("pow arity", e)
            a = args[0]
            while a[0] in ("ref", "deref"):
                a = a[1]
            if a[0] != "array":
                self.fail("pow exponent must be an array literal", e)
            limbs = []
            for x in a[1]:
                if x[0] == "num":
                    if x[1] >= 2 ** 64:
                        self.fail("limb literal does not fit in u64", x)
                    limbs.append(self.src[x[-1][0]:x[-1][1]].replace("_", "").replace("u64", ""))
                else:
                    limbs.append(self.expr(x, env, "U64")[0] + ".toNat")
            if rt in TOWER:
                # the generic loop of the ff crate, instantiated with the GENERATED operations of rt
                for m_ in ("mul_assign", "one", "square", "double", "inverse", "is_zero", "frobenius_map"):
                    self.lookup_method(rt, m_, e)
                return "@powLimbs %s A.%s.instMul A.%s.instOne A.%s.instFieldOps %s [%s]" % (
                    rt, rt, rt, rt, rs, ", ".join(limbs)), rt
            return "powLimbs %s [%s]" % (rs, ", ".join(limbs)), rt
        if rt in FIELD_LIKE and m in BUILTIN:
            kind, fmt = BUILTIN[m]
            if kind == "mut":
                self.fail("mutating method `%s` used as a value" % m, e)
            if args:
                self.fail("unexpected arguments", e)
            return fmt.format(rs), (("Opt", rt) if kind == "opt" else "Bool" if kind == "bool" else kind)
        fi = self.lookup_method(rt, m, e)
        if fi.recv is None or fi.recv[0] == "mut" or fi.mutparams:
            self.fail("mutating method `%s` used as a value" % m, e)
        f = self.recv_subst(fi, rt, e)
        ar = self.call_args(fi, args, env, e, f)
        pre = self.extern_args(fi, f)
        t = subst(fi.ret, f)
        t = ("Opt", t) if fi.partial else t
        return " ".join(x for x in [fi.lean] + pre + [rs] + ar if x), t

    # ---- conditions.  -> (text, 'bool' | 'prop')
    def cond(self, e, env):
        k = e[0]
        if k == "bin" and e[1] == "==" and e[2][0] == "bin" and e[2][1] == "&":
            # `x.into_repr().0[0] & 1 == 1`: the lowest bit of the canonical representative of x : Fq
            l, r = e[2][2], e[2][3]
            ok = (e[3][0] == "num" and e[3][1] == 1 and r[0] == "num" and r[1] == 1 and l[0] == "index"
                  and l[2] is not None and l[2][0] == "num" and l[2][1] == 0 and l[1][0] == "field" and l[1][2] == "0"
                  and l[1][1][0] == "mcall" and l[1][1][2] == "into_repr" and not l[1][1][3])
            if not ok:
                self.fail("unsupported use of `&` (only `x.into_repr().0[0] & 1 == 1`)", e)
            xs, xt = self.arg(l[1][1][1], env, "Fq")
            return "%s.v %% 2 = 1" % xs, "prop"
        if k == "bin" and e[1] == "<":
            a, ta = self.arg(e[2], env)
            b, _ = self.arg(e[3], env, ta)
            if ta != "F":
                self.fail("comparison `<` of values of type %s" % lean_ty(ta), e)
            # `PartialOrd::lt` = `Ord::cmp(..) == Less` of the coefficient field
            return "SqrtOps.lt %s %s" % (a, b), "bool"
        if k == "bin" and e[1] in ("==", "!="):
            a, ta = self.expr(e[2], env)
            b, tb = self.expr(e[3], env, ta)
            if not (ta in FIELD_LIKE + TOWER + ("Sgn0",)):
                self.fail("comparison of values of type %s" % lean_ty(ta), e)
            return "%s %s %s" % (self.paren(a) if " " in a else a, "=" if e[1] == "==" else "≠",
                                 self.paren(b) if " " in b else b), "prop"
        if k == "bin" and e[1] in ("&&", "||"):
            a, ka = self.cond(e[2], env)
            b, kb = self.cond(e[3], env)
            if ka == "bool" and kb == "bool":
                return "%s %s %s" % (self.cparen(e[2], a), e[1], self.cparen(e[3], b)), "bool"
            if ka != kb:
                # one side is a Bool-valued call: stay in Bool
                if ka == "prop":
                    a = "decide (%s)" % a
                if kb == "prop":
                    b = "decide (%s)" % b
                return "%s %s %s" % (self.cparen(e[2], a), e[1], self.cparen(e[3], b)), "bool"
            return "%s %s %s" % (self.cparen(e[2], a), "∧" if e[1] == "&&" else "∨", self.cparen(e[3], b)), "prop"
        if k == "not":
            a, ka = self.cond(e[1], env)
            if ka == "bool":
                return "!%s" % self.paren(a), "bool"
            return "¬ %s" % self.paren(a), "prop"
        if k == "bin" and e[1] == "^":
            s, t = self.expr(e, env, "Bool")
            return "(%s)" % s, "bool"
        s, t = self.expr(e, env, "Bool")
        return s, "bool"

    def cparen(self, e, s):
        if e[0] == "bin" and e[1] in ("&&", "||"):
            return "(" + s + ")"
        return s

    # ---- statement sequences
    #
    # seq(stmts, tail, env, k, ind) -> [Line]; k(env, tail_expr|None, ind, cmt) emits what follows the
    # sequence (the value of a block / the return of the function / the rest of an outer block).

    def declare(self, env, name, t, node):
        if name in env.flat:
            self.fail("`%s` declared in a nested block shadows an outer variable (nested blocks are "
                      "flattened into one let chain)" % name, node)
        env.vars[name] = (t, env.level)

    def seq(self, stmts, tail, env, k, ind):
        if not stmts:
            if tail is not None and tail[0] in ("if", "match", "block"):
                return self.structured(tail, [], None, env, k, ind, True)
            if tail is not None and self.is_mutating_call(tail, env):
                return self.seq([("expr", tail, tail[-1])], None, env, k, ind)
            if tail is not None and tail[0] == "mcall" and tail[2] == "map":
                return self.option_map(tail, env, k, ind)
            return k(env, tail, ind, "")
        s, rest = stmts[0], stmts[1:]
        cmt = self.text(s[-1])
        kind = s[0]
        if kind == "use":
            if s[1] != ["std", "mem", "swap"]:
                self.fail("unsupported `use`", s)
            return [Line(ind, "", cmt)] + self.seq(rest, tail, env, k, ind)
        if kind == "fn":
            if s[1] not in self.nested_ok:
                self.fail("nested fn `%s` is not a translation target" % s[1], (s[-1][0], s[-1][0] + 40))
            return [Line(ind, "", "fn %s(..) { .. }   (translated separately)" % s[1])] + \
                self.seq(rest, tail, env, k, ind)
        if kind == "return":
            if rest or tail is not None:
                self.fail("statements after `return`", s)
            if self.ret_stack:
                return self.ret_stack[-1](env, s[1], ind, cmt)
            return self.ret_k(env, s[1], ind, cmt)
        if kind == "for":
            return self.for_stmt(s, rest, tail, env, k, ind)
        if kind == "let":
            return self.let_stmt(s, rest, tail, env, k, ind, cmt)
        if kind == "assign":
            op, lhs, rhs = s[1], s[2], s[3]
            p = self.place(lhs)
            if p is None:
                self.fail("assignment to a non-place", s)
            pt = self.place_type(p[0], p[1], env, s)
            if op == "=":
                v, _ = self.expr(rhs, env, pt)
            else:
                if pt != "U64" or rhs[0] != "num":
                    self.fail("shift-assignment is only supported on u64 with a literal amount", s)
                v = "%s %s %d" % (self.place_text(p[0], p[1], env, s), ">>>" if op == ">>=" else "<<<", rhs[1])
            line = Line(ind, self.set_place(p[0], p[1], v, env, s), cmt)
            return [line] + self.seq(rest, tail, env, k, ind)
        if kind == "expr":
            e = s[1]
            if e[0] == "debug_assert":
                # compiled out in release builds (the semantics translated here)
                return [Line(ind, "", cmt + "   (release build: compiled out)")] + self.seq(rest, tail, env, k, ind)
            if e[0] == "panic":
                if rest or tail is not None:
                    self.fail("statements after `panic!`", s)
                if not self.info.partial or self.ret_stack:
                    self.fail("internal: panic! in a function not marked partial", s)
                return [Line(ind, "none", cmt)]
            if e[0] in ("if", "match", "block"):
                return self.structured(e, rest, tail, env, k, ind, False)
            if e[0] == "mcall":
                return [Line(ind, self.mcall_stmt(e, env), cmt)] + self.seq(rest, tail, env, k, ind)
            if e[0] == "call":
                return [Line(ind, self.call_stmt(e, env), cmt)] + self.seq(rest, tail, env, k, ind)
            self.fail("expression statement without effect", s)
        self.fail("unsupported statement", s)

    def is_mutating_call(self, e, env):
        if e[0] != "mcall":
            return False
        p = self.place(e[1])
        if p is None or p[0] not in env.vars:
            return False
        t = self.place_type(p[0], p[1], env, e)
        if t in FIELD_LIKE and e[2] in BUILTIN:
            return BUILTIN[e[2]][0] == "mut"
        fi = self.reg.get((head(t), e[2]))
        if fi is None and t in FIELD_LIKE + TOWER:
            fi = self.reg.get(("Signum0", e[2]))
        return fi is not None and fi.recv is not None and fi.recv[0] == "mut"

    def mcall_stmt(self, e, env):
        recv, m, args = e[1], e[2], e[3]
        p = self.place(recv)
        if p is None:
            self.fail("receiver of a method-call statement is not a place", e)
        rt = self.place_type(p[0], p[1], env, e)
        rs = self.place_text(p[0], p[1], env, e)
        if rt in FIELD_LIKE and m in BUILTIN:
            if BUILTIN[m][0] != "mut":
                self.fail("statement calls non-mutating field method `%s`" % m, e)
            wants = BUILTIN_ARGTYPES.get(m, [])
            if len(args) != len(wants):
                self.fail("wrong number of arguments", e)
            ar = []
            for a, w in zip(args, wants):
                s_, _ = self.expr(a, env, rt if w == "same" else w)
                ar.append(s_)
            if m in ("add_assign", "sub_assign", "mul_assign"):
                a0 = ar[0] if re.match(r"^[A-Za-z_][A-Za-z0-9_.']*$", ar[0]) else self.paren(ar[0])
                val = BUILTIN[m][1].format(rs, a0)
            else:
                val = BUILTIN[m][1].format(*([rs] + [self.paren(x) for x in ar]))
            return self.set_place(p[0], p[1], val, env, e)
        fi = self.lookup_method(rt, m, e)
        if fi.recv is None or fi.recv[0] != "mut":
            self.fail("statement calls non-mutating method `%s`" % m, e)
        if fi.mutparams != ["self"] or fi.ret != "Unit" or fi.partial:
            self.fail("unsupported kind of method in statement position `%s`" % m, e)
        f = self.recv_subst(fi, rt, e)
        ar = self.call_args(fi, args, env, e, f)
        pre = self.extern_args(fi, f)
        return self.set_place(p[0], p[1], " ".join(x for x in [fi.lean] + pre + [rs] + ar if x), env, e)

    def call_stmt(self, e, env):
        segs, args = e[1], e[2]
        if segs in (["swap"], ["std", "mem", "swap"]):
            if len(args) != 2 or args[0][0] != "refmut" or args[1][0] != "refmut":
                self.fail("swap needs two &mut places", e)
            p, q = self.place(args[0]), self.place(args[1])
            if p is None or q is None:
                self.fail("swap needs two &mut places", e)
            if self.place_type(p[0], p[1], env, e) != self.place_type(q[0], q[1], env, e):
                self.fail("swap of different types", e)
            ps, qs = self.place_text(p[0], p[1], env, e), self.place_text(q[0], q[1], env, e)
            if p[0] == q[0] and p[1] and q[1] and p[1] != q[1]:
                self.set_place(p[0], p[1], "", env, e)   # checks only
                r = lname(p[0])
                return "let %s := { %s with %s := %s, %s := %s }" % (r, r, ".".join(p[1]), qs, ".".join(q[1]), ps)
            if not p[1] and not q[1] and p[0] != q[0]:
                self.set_place(p[0], [], "", env, e)
                self.set_place(q[0], [], "", env, e)
                return "let (%s, %s) := (%s, %s)" % (ps, qs, qs, ps)
            self.fail("unsupported swap", e)
        if len(segs) == 1 and segs[0] in EXTERN_FNS:
            ln, ty = EXTERN_FNS[segs[0]]
            if len(args) != 2:
                self.fail("chain call needs (out, in)", e)
            # first argument: `&mut v`, or a variable that already is a `&mut` reference (`self`)
            o = args[0]
            p = self.place(o)
            if p is None or p[1] or not (o[0] == "refmut" or (o[0] == "path" and p[0] in self.info.mutparams)):
                self.fail("first argument of a chain must be `&mut v` or a `&mut` parameter", e)
            ot = self.place_type(p[0], [], env, e)
            ins, it = self.arg(args[1], env, ot)
            if not (ot == ty or (ty == "Jac" and isinstance(ot, tuple) and ot[0] == "Jac")):
                self.fail("chain `%s` applied to a value of type %s" % (segs[0], lean_ty(ot)), e)
            return self.set_place(p[0], [], "%s %s" % (ln, ins), env, e)
        if len(segs) == 1 and ("fn", segs[0]) in self.reg:
            fi = self.reg[("fn", segs[0])]
            if len(args) != len(fi.params):
                self.fail("wrong number of arguments", e)
            ar, muts = [], []
            for a, (_, pt, ismut) in zip(args, fi.params):
                if ismut:
                    if a[0] != "refmut":
                        self.fail("expected a &mut argument", e)
                    p = self.place(a)
                    if p is None or p[1]:
                        self.fail("&mut argument must be a local variable", e)
                    self.expect(self.place_type(p[0], [], env, e), pt, e)
                    self.set_place(p[0], [], "", env, e)
                    muts.append(lname(p[0]))
                    ar.append(lname(p[0]))
                else:
                    ar.append(self.arg(a, env, pt)[0])
            if fi.ret != "Unit" or len(muts) != 1 or fi.partial:
                self.fail("unsupported kind of function in statement position", e)
            return "let %s := %s" % (muts[0], " ".join([fi.lean] + ar))
        self.fail("unsupported call statement", e)

    def let_stmt(self, s, rest, tail, env, k, ind, cmt):
        pat, ty, e = s[1], s[2], s[3]
        want = self.conv_ty(ty) if ty is not None else None
        if pat[0] == "pvar":
            lhs = lname(pat[1])
        elif pat[0] == "ptuple":
            lhs = "(" + ", ".join(lname(n) for n in pat[1]) + ")"
        elif pat[0] == "parray":
            lhs = "⟨" + ", ".join(lname(n) for n in pat[1]) + "⟩"
        else:
            lhs = "⟨" + ", ".join(lname(n) for n in pat[2]) + "⟩"
        proj = []
        if pat[0] in ("parray", "pstruct") and not self.info.generic:
            # In a function over the CONCRETE fields a destructuring `let` is translated by projections
            # (`let pat1 := e` and one `let` per variable) instead of a Lean pattern: a `match` on a concrete
            # value makes the kernel evaluate it when the definition is unfolded in a proof.
            self.npat = getattr(self, "npat", 0) + 1
            lhs = "pat%d" % self.npat
            if lhs in env.vars:
                self.fail("internal: name clash %s" % lhs, s)
            names = pat[2] if pat[0] == "pstruct" else pat[1]
            for i, n in enumerate(names):
                if n == "_":
                    continue
                if pat[0] == "ptuple":
                    sel = "".join([".2"] * i) + (".1" if i < len(names) - 1 else "")
                    what_ = "component .%d of the tuple" % i
                elif pat[0] == "parray":
                    sel = ".%d" % (i + 1)
                    what_ = "element [%d] of the array" % i
                else:
                    sel = "." + n
                    what_ = "field %s" % n
                proj.append(Line(ind, "let %s := %s%s" % (lname(n), lhs, sel), "  " + what_))

        def bind(t):
            if pat[0] == "pvar":
                self.declare(env, pat[1], t, s)
            elif pat[0] == "parray":
                # `let [a, b, ..] = <[F; 7]>`: the model type of `[F; 7]` is the structure OsswuHelp F
                if not (isinstance(t, tuple) and t[0] == "Help" and len(pat[1]) == 7):
                    self.fail("array pattern does not match the type %s" % lean_ty(t), s)
                for n in pat[1]:
                    if n != "_":
                        self.declare(env, n, t[1], s)
            elif pat[0] == "pstruct":
                fs = fields_of(t)
                if pat[1] not in self.tymap or self.tymap[pat[1]] != t or fs is None or [f for f, _ in fs] != pat[2]:
                    self.fail("struct pattern does not match the type %s" % lean_ty(t), s)
                for n, ft in fs:
                    self.declare(env, n, ft, s)
            else:
                if not (isinstance(t, tuple) and t[0] == "Tup" and len(t[1]) == len(pat[1])):
                    self.fail("tuple pattern does not match the type %s" % lean_ty(t), s)
                for n, ti in zip(pat[1], t[1]):
                    self.declare(env, n, ti, s)

        # let v = e.unwrap();
        if e[0] == "mcall" and e[2] == "unwrap" and not e[3]:
            if not self.info.partial:
                self.fail("internal: unwrap in a function not marked partial", s)
            os_, ot = self.expr(e[1], env)
            if not (isinstance(ot, tuple) and ot[0] == "Opt") or pat[0] != "pvar":
                self.fail("unwrap of a non-Option", s)
            out = [Line(ind, "match %s with" % os_, cmt),
                   Line(ind, "| none => none", "unwrap() panics"),
                   Line(ind, "| some %s =>" % lhs)]
            bind(ot[1])
            return out + [Line(l.ind + 1, l.code, l.cmt) for l in proj] + self.seq(rest, tail, env, k, ind + 1)
        if e[0] in ("block", "if", "match"):
            res = {}

            def kval(env2, t, ind2, c):
                if t is None:
                    self.fail("block used as a value has no value", e)
                v, vt = self.expr(t, env2, want)
                res["t"] = vt
                return [Line(ind2, v, c or self.text(t[-1]))]
            first = {"block": "{", "if": "if ..", "match": "match .."}[e[0]]
            inner = self.structured(e, [], None, env.nested_value(), kval, ind + 1, True, value=True)
            bind(res["t"])
            head_cmt = "let %s = %s" % (self.text(pat[-1]), first)
            return [Line(ind, "let %s :=" % lhs, head_cmt)] + inner + proj + self.seq(rest, tail, env, k, ind)
        if e[0] in ("call", "mcall") and self.callee_partial(e, env):
            # the callee may panic: so does this function
            if not self.info.partial:
                self.fail("call of a function that may panic in a function not marked partial", s)
            os_, ot = self.expr(e, env)
            out = [Line(ind, "match %s with" % os_, cmt),
                   Line(ind, "| none => none", "(the callee panics)"),
                   Line(ind, "| some %s =>" % lhs)]
            self.expect(ot[1], want, e)
            bind(ot[1])
            return out + [Line(l.ind + 1, l.code, l.cmt) for l in proj] + self.seq(rest, tail, env, k, ind + 1)
        v, t = self.expr(e, env, want)
        if e[0] == "struct":
            # `({ .. } : T)` -> typed let
            v = v[1:v.rindex(" : ")]
            line = "let %s : %s := %s" % (lhs, lean_ty(t), v)
        elif e[0] == "path" and e[1][0] in CONSTS:
            line = "let %s : %s := %s" % (lhs, lean_ty(t), v)
        else:
            line = "let %s := %s" % (lhs, v)
        bind(t)
        return [Line(ind, line, cmt)] + proj + self.seq(rest, tail, env, k, ind)

    def callee_partial(self, e, env):
        if e[0] == "call":
            key = "::".join(e[1])
            fi = self.reg.get(("static", key)) or self.reg.get(("fn", key))
            return fi is not None and fi.partial
        return False

    def diverges(self, b):
        return bool(b.stmts) and b.stmts[-1][0] == "return" and b.tail is None

    def structured(self, e, rest, tail, env, k, ind, is_last, value=False):
        """`if` / `match` / `{..}` as a statement followed by (rest, tail), or (is_last) as the last
        item of its sequence, or (value) as an expression whose value k consumes."""
        more = bool(rest) or tail is not None

        def fallthrough(env2, t, ind2, c):
            """end of a flattened inner scope that does not produce a value"""
            if t is not None:
                if self.is_mutating_call(t, env2):
                    return self.seq([("expr", t, t[-1])], None, env2, fallthrough, ind2)
                self.fail("the value of a block in statement position is dropped", t)
            return self.seq(rest, tail, env.leave(env2), k, ind2)

        if e[0] == "block":
            b = e[1]
            if value:
                return self.seq(b.stmts, b.tail, env, k, ind)

            def after(env2, t, ind2, c):
                return [Line(ind2, "", "}")] + fallthrough(env2, t, ind2, c)
            return [Line(ind, "", "{")] + self.seq(b.stmts, b.tail, env.nested_flat(more), after, ind)

        if e[0] == "if":
            c, th, el = e[1], e[2], e[3]
            cs, _ = self.cond(c, env)
            ccmt = "if %s {" % self.text(c[-1])
            if el is None and self.diverges(th):
                # early return: `if c { ..; return X; }` rest  ==>  if c then .. X else rest
                if value:
                    self.fail("`return` inside a value block", e)
                out = [Line(ind, "if %s then" % cs, ccmt)]
                out += self.seq(th.stmts, th.tail, env.nested_flat(False), None, ind + 1)
                out += [Line(ind, "else", "}")]
                return out + self.seq(rest, tail, env, k, ind)
            if value or is_last:
                kk = k          # the branches produce the value / end the enclosing sequence
            elif not rest and (tail is None or self.simple_tail(tail)):
                kk = fallthrough  # only the value of the enclosing block follows: copied into both branches
            else:
                return self.if_mid(e, rest, tail, env, k, ind)
            out = [Line(ind, "if %s then" % cs, ccmt)]
            out += self.seq(th.stmts, th.tail, env.nested_flat(more), kk, ind + 1)
            if el is None:
                out += [Line(ind, "else", "}")]
                out += kk(env.nested_flat(more), None, ind + 1, "")
            elif el[0] == "block":
                out += [Line(ind, "else", "} else {")]
                out += self.seq(el[1].stmts, el[1].tail, env.nested_flat(more), kk, ind + 1)
            else:
                out += [Line(ind, "else", "} else")]
                if kk is fallthrough:
                    self.fail("`else if` chain followed by a value", e)
                out += self.structured(el, [], None, env.nested_flat(more), kk, ind + 1, True, value=value)
            return out

        if e[0] == "match":
            if more:
                self.fail("`match` followed by further statements", (e[-1][0], e[1][-1][1]))
            scrut, arms = e[1], e[2]
            ss, st = self.expr(scrut, env)
            if st in ENUM_SIZE:
                # match on an enum: one arm per constructor, in the order of the source
                out = [Line(ind, "match %s with" % ss, "match %s {" % self.text(scrut[-1]))]
                seen = []
                for pat, body in arms:
                    if pat[0] != "ppath" or tuple(pat[1]) not in ENUMS or ENUMS[tuple(pat[1])][1] != st:
                        self.fail("unsupported pattern in a match on %s" % st, pat)
                    seen.append(tuple(pat[1]))
                    out.append(Line(ind, "| %s =>" % ENUMS[tuple(pat[1])][0], self.text(pat[-1]) + " =>"))
                    envb = env.nested_flat(False)
                    if body[0] == "block":
                        out += self.seq(body[1].stmts, body[1].tail, envb, k, ind + 1)
                    else:
                        out += self.seq([], body, envb, k, ind + 1)
                if len(set(seen)) != len(seen) or len(seen) != ENUM_SIZE[st]:
                    self.fail("match on %s must have one arm per constructor" % st, e)
                return out
            if not (isinstance(st, tuple) and st[0] == "Opt"):
                self.fail("match on a value that is not an Option", e)
            some = [a for a in arms if a[0][0] == "psome"]
            none = [a for a in arms if a[0][0] == "pnone"]
            if len(arms) != 2 or len(some) != 1 or len(none) != 1:
                self.fail("match must have exactly the arms Some(v) and None", e)
            out = [Line(ind, "match %s with" % ss, "match %s {" % self.text(scrut[-1]))]
            for pat, body in (none[0], some[0]):
                envb = env.nested_flat(False)
                if pat[0] == "psome":
                    self.declare(envb, pat[1], st[1], pat)
                    hd = "| some %s =>" % lname(pat[1])
                else:
                    hd = "| none =>"
                out.append(Line(ind, hd, self.text(pat[-1]) + " =>"))
                if body[0] == "block":
                    out += self.seq(body[1].stmts, body[1].tail, envb, k, ind + 1)
                else:
                    out += self.seq([], body, envb, k, ind + 1)
            return out
        self.fail("internal: structured", e)

    def simple_tail(self, t):
        if t[0] == "call" and t[1] == ["Some"] and len(t[2]) == 1:
            return self.simple_tail(t[2][0])
        return t[0] in ("path", "field", "tuple", "array", "deref")

    # ---- constructs whose effect is a new value of the outer variables they mutate
    def analyse(self, fn, env):
        """run the translation fn(env') once with mutations of outer variables RECORDED instead of
        rejected; -> names of the mutated outer variables, in order of declaration"""
        saved, saved_ext = self.recording, list(self.used_extern)
        self.recording = []
        try:
            fn(env.nested_value())
            rec = self.recording
        finally:
            self.recording = saved
            self.used_extern = saved_ext
        order = list(env.vars)
        return sorted(set(rec), key=order.index)

    def rebound(self, env, names):
        """scope of a nested Lean term in which the outer variables `names` are bound again (lambda
        parameters / the branches of a value-`if`), so that they may be mutated"""
        e = env.nested_value()
        for n in names:
            e.vars[n] = (env.vars[n][0], e.level)
        return e

    def state_text(self, names):
        return lname(names[0]) if len(names) == 1 else "(" + ", ".join(lname(n) for n in names) + ")"

    def if_mid(self, e, rest, tail, env, k, ind):
        """`if c { .. } [else { .. }]` followed by further statements: the variables assigned in the
        branches get their new values from a value-`if`:  let (a, b) := if c then ..; (a, b) else ..; (a, b)"""
        c, th, el = e[1], e[2], e[3]
        if el is not None and el[0] != "block":
            self.fail("`else if` chain followed by further statements", e)
        cs, _ = self.cond(c, env)

        def kdrop(env2, t, ind2, cm):
            if t is not None:
                if self.is_mutating_call(t, env2):
                    return self.seq([("expr", t, t[-1])], None, env2, kdrop, ind2)
                self.fail("the value of a block in statement position is dropped", t)
            return []

        def both(envb):
            self.seq(th.stmts, th.tail, envb.copy(), kdrop, 0)
            if el is not None:
                self.seq(el[1].stmts, el[1].tail, envb.copy(), kdrop, 0)
        if self.contains_return(th) or (el is not None and self.contains_return(el[1])):
            self.fail("`return` inside an `if` that is followed by further statements", e)
        muts = self.analyse(both, env)
        if not muts:
            self.fail("`if` statement without effect", e)
        st = self.state_text(muts)

        def kstate(env2, t, ind2, cm):
            return kdrop(env2, t, ind2, cm) + [Line(ind2, st)]
        out = [Line(ind, "let %s :=" % st, ""),
               Line(ind + 1, "if %s then" % cs, "if %s {" % self.text(c[-1]))]
        out += self.seq(th.stmts, th.tail, self.rebound(env, muts), kstate, ind + 2)
        if el is None:
            out += [Line(ind + 1, "else", "}"), Line(ind + 2, st)]
        else:
            out += [Line(ind + 1, "else", "} else {")]
            out += self.seq(el[1].stmts, el[1].tail, self.rebound(env, muts), kstate, ind + 2)
        for n in muts:
            self.set_place(n, [], "", env, e)      # the outer variables must be assignable here
        return out + self.seq(rest, tail, env, k, ind)

    def contains_return(self, b):
        def in_expr(x):
            if isinstance(x, Block):
                return any(in_stmt(s_) for s_ in x.stmts) or (x.tail is not None and in_expr(x.tail))
            if isinstance(x, tuple):
                return any(in_expr(y) for y in x if isinstance(y, (tuple, Block, list)))
            if isinstance(x, list):
                return any(in_expr(y) for y in x)
            return False

        def in_stmt(s_):
            if s_[0] == "return":
                return True
            return in_expr(s_)
        return in_expr(b)

    def iter_expr(self, it, env):
        """the Lean list a `for` runs over -> (text, element type)"""
        x = it
        while x[0] in ("ref", "deref"):
            x = x[1]
        if x[0] == "slice" and x[2] is None and x[3] is None and x[1][0] == "path" and len(x[1][1]) == 1 \
                and x[1][1][0] in self.tables:
            txt, elt, n = self.tables[x[1][1][0]]
            return txt, elt
        s_, t = self.expr(it, env)
        if t == "Bits":
            return s_, "Bool"
        self.fail("`for` over something that is not a BitIterator or a constant table", it)

    def for_stmt(self, s, rest, tail, env, k, ind):
        """for x in L { body }             ==>  let st := List.foldl (fun st x => body; st) st L
           (st = the outer variables assigned in the body);
           for x in L { ..; if c { ..; return V; } }  (body without other effect)
                                           ==>  match List.findSome? (fun x => ..; if c then ..; some V else none) L with
                                                | some ret => ret | none => (what follows the loop)"""
        pat, it, body = s[1], s[2], s[3]
        var = pat[1]
        ls, elt = self.iter_expr(it, env)
        lsa = self.paren(ls)
        hdr = "for %s in %s {" % (var, self.text(it[-1]))

        def kdrop(env2, t, ind2, cm):
            if t is not None:
                if self.is_mutating_call(t, env2):
                    return self.seq([("expr", t, t[-1])], None, env2, kdrop, ind2)
                self.fail("the value of a loop body is dropped", t)
            return []

        def declare_var(envb):
            envb.vars[var] = (elt, envb.level)
            return envb

        early = self.contains_return(body)
        if early:
            if body.tail is not None and body.tail[0] == "if":
                body = Block(body.stmts + [("expr", body.tail, body.tail[-1])], None, body.span)
            last = body.stmts[-1] if body.stmts else None
            ok = (body.tail is None and last is not None and last[0] == "expr" and last[1][0] == "if"
                  and last[1][3] is None and self.diverges(last[1][2])
                  and not any(self.contains_return(Block([x], None, x[-1])) for x in body.stmts[:-1])
                  and not self.contains_return(Block(last[1][2].stmts[:-1], None, last[-1])))
            if not ok:
                self.fail("`return` inside a loop is only supported as `for .. { ..; if c { ..; return V; } }`", body)

        def run_body(envb, kk):
            return self.seq(body.stmts, body.tail, declare_var(envb), kk, ind + 2)

        if early:
            self.ret_stack.append(lambda env2, t, ind2, cm: [Line(ind2, "none", "")])
            try:
                muts = self.analyse(lambda envb: run_body(envb, kdrop), env)
            finally:
                self.ret_stack.pop()
            if muts:
                self.fail("loop with `return` that also assigns outer variables (%s)" % ", ".join(muts), body)
            if self.ret_stack:
                self.fail("nested loops with `return`", body)
            fi = self.info
            if fi.mutparams or fi.ret == "Unit":
                self.fail("`return` inside a loop of a function with &mut parameters", body)

            def kret(env2, t, ind2, cm):
                v, _ = self.expr(t, env2, fi.ret)
                return [Line(ind2, "some %s" % self.paren(v), cm or self.text(t[-1]))]

            def knext(env2, t, ind2, cm):
                return kdrop(env2, t, ind2, cm) + [Line(ind2, "none", "(next iteration)")]
            self.ret_stack.append(kret)
            try:
                inner = run_body(env.nested_value(), knext)
            finally:
                self.ret_stack.pop()
            out = [Line(ind, "match List.findSome? (fun %s =>" % lname(var), hdr)] + inner
            out += [Line(ind + 1, ") %s with" % lsa, "}"),
                    Line(ind, "| some ret => %s" % ("some ret" if fi.partial else "ret"), "(the `return` inside the loop)"),
                    Line(ind, "| none =>", "")]
            return out + self.seq(rest, tail, env, k, ind + 1)

        muts = self.analyse(lambda envb: run_body(envb, kdrop), env)
        if not muts:
            self.fail("loop without effect", body)
        st = self.state_text(muts)

        def kstate(env2, t, ind2, cm):
            return kdrop(env2, t, ind2, cm) + [Line(ind2, st)]
        inner = run_body(self.rebound(env, muts), kstate)
        for n in muts:
            self.set_place(n, [], "", env, s)
        out = [Line(ind, "let %s := List.foldl (fun %s %s =>" % (st, st, lname(var)), hdr)] + inner
        out += [Line(ind + 1, ") %s %s" % (st, lsa), "}")]
        return out + self.seq(rest, tail, env, k, ind)

    def option_map(self, e, env, k, ind):
        """value `o.map(|t| body)`  ==>  match o with | none => none | some t => some body"""
        recv, args = e[1], e[3]
        if len(args) != 1 or args[0][0] != "closure" or len(args[0][1]) != 1:
            self.fail("unsupported use of .map", e)
        os_, ot = self.expr(recv, env)
        if not (isinstance(ot, tuple) and ot[0] == "Opt"):
            self.fail(".map on a value that is not an Option", e)
        v = args[0][1][0]
        body = args[0][2]
        envb = env.nested_flat(False)
        self.declare(envb, v, ot[1], e)

        def ksome(env2, t, ind2, c):
            if t is None:
                self.fail("closure without value", e)
            wrapped = ("call", ["Some"], [t], t[-1])
            return k(env2, wrapped, ind2, c or self.text(t[-1]))
        out = [Line(ind, "match %s with" % os_, "%s.map(|%s| {" % (self.text(recv[-1]), v)),
               Line(ind, "| none => none", "(Option::map)"),
               Line(ind, "| some %s =>" % lname(v), "")]
        if body[0] == "block":
            out += self.seq(body[1].stmts, body[1].tail, envb, ksome, ind + 1)
        else:
            out += self.seq([], body, envb, ksome, ind + 1)
        return out

    # ---- the function itself
    def ret_k(self, env, t, ind, cmt):
        fi = self.info
        parts = []
        for n in fi.mutparams:
            parts.append(lname(n))
        if fi.ret != "Unit":
            if t is None:
                self.fail("missing return value", self.body)
            if t[0] == "mcall" and t[2] == "map":
                if parts or fi.partial:
                    self.fail("unsupported .map in a function with &mut parameters", t)
                return self.option_map(t, env, self.ret_k, ind)
            v, _ = self.expr(t, env, fi.ret)
            parts.append(v)
            if not cmt:
                cmt = self.text(t[-1])
        elif t is not None:
            self.fail("value returned from a function without return type", t)
        v = parts[0] if len(parts) == 1 else "(" + ", ".join(parts) + ")"
        if fi.partial:
            v = "some %s" % self.paren(v)
        return [Line(ind, v, cmt)]

    def run(self, fn_ast, lean_name, nested_ok, generic=False, force_partial=False, implicit="", extern_order=None):
        name, generics, params, ret, body = fn_ast
        self.body = body
        self.nested_ok = nested_ok
        for g, bound in generics:
            self.tymap = dict(self.tymap)
            if bound == "Field":
                self.tymap[g] = "F"
            elif bound == "Into<<Self::ScalarasPrimeField>::Repr>":
                self.tymap[g] = "Repr"         # a scalar argument, taken after `.into()`
            elif bound == "AsRef<[u64]>":
                self.tymap[g] = "Limbs"        # only inside `BitIterator<S>`
            else:
                raise ExtractError("%s: unsupported generic bound %s" % (self.what, bound))
        env = Env()
        recv = None
        plist, mutparams, lean_params = [], [], []
        for n, t in params:
            ct = self.conv_ty(t)
            ismut = t[0] == "refmut"
            if n == "self":
                recv = ("mut" if ismut else "ref", ct)
            else:
                plist.append((n, ct, ismut))
            if ismut:
                mutparams.append(n)
            env.vars[n] = (ct, 0)
            lean_params.append((lname(n), ct))
        rett = "Unit"
        if ret is not None:
            rett = self.conv_ty(ret)
        btxt = self.src[body.span[0]:body.span[1]].replace(" ", "")
        partial = ".unwrap()" in btxt or "panic!(" in btxt or force_partial
        env.flat = set(mutparams)
        self.info = FnInfo("A." + lean_name, recv, plist, mutparams, rett, partial, [])
        self.info.generic = generic
        lines = self.seq(body.stmts, body.tail, env, self.ret_k, 1)
        self.info.extern = list(self.used_extern)
        if extern_order:
            # trait methods as parameters: in the FIXED order of the target's table (not of first use, which
            # an edit of the body could permute without changing the type of the definition)
            self.info.extern.sort(key=lambda x: extern_order.index(x[0]))
        # result type
        rts = [env.vars[n][0] for n in mutparams]
        if rett != "Unit":
            rts.append(rett)
        if not rts:
            raise ExtractError("%s: function returns nothing and mutates nothing" % self.what)
        rt = rts[0] if len(rts) == 1 else ("Tup", tuple(rts))
        if partial:
            rt = ("Opt", rt)
        sig = "".join(" (%s : %s)" % (n, lean_ty(t)) for n, t in self.info.extern + lean_params)
        return "def %s%s%s : %s :=" % (lean_name, implicit, sig, lean_ty(rt)), lines


# ================================================================ targets

FQ2 = "src/bls12_381/fq2.rs"
FQ6 = "src/bls12_381/fq6.rs"
FQ12 = "src/bls12_381/fq12.rs"
EC = "src/bls12_381/ec/mod.rs"
OSSWU = "src/bls12_381/osswu_map/mod.rs"
MOD = "src/bls12_381/mod.rs"

SIGNUM = "src/signum.rs"
LIB = "src/lib.rs"
G1_RS = "src/bls12_381/ec/g1.rs"
G2_RS = "src/bls12_381/ec/g2.rs"
OSSWU_G1 = "src/bls12_381/osswu_map/g1.rs"
OSSWU_G2 = "src/bls12_381/osswu_map/g2.rs"
COFACTOR = "src/bls12_381/cofactor.rs"
MAP_TO_CURVE = "src/map_to_curve.rs"

BASE_TYMAP = {"usize": "Nat", "u64": "U64", "bool": "Bool", "Fq": "Fq", "Fq2": "Fq2", "Fq6": "Fq6", "Fq12": "Fq12",
              "Sgn0Result": "Sgn0", "Ordering": "Ordering", "ff::LegendreSymbol": "Legendre",
              "G1": ("Jac", "Fq"), "G2": ("Jac", "Fq2"), "G1Affine": ("Aff", "Fq"), "G2Affine": ("Aff", "Fq2")}


def tower_targets(rel, ty, inherent, field, extra=()):
    out = []
    for m in inherent:
        out.append(dict(file=rel, path=[r"impl\s+%s\s*\{" % ty], fn=m, ns=ty, self_ty=ty))
    for m in field:
        out.append(dict(file=rel, path=[r"impl\s+Field\s+for\s+%s\s*\{" % ty], fn=m, ns=ty, self_ty=ty))
    return out


MACRO = [r"macro_rules!\s*curve_impl\s*\{"]
JACF, AFFF = ("Jac", "F"), ("Aff", "F")
EC_TYMAP = {"$basefield": "F", "$projective": JACF, "$affine": AFFF, "Self::Affine": AFFF}


def ec_target(impl_rx, fn, ns, self_ty, lean=None, **kw):
    d = dict(file=EC, path=MACRO + [impl_rx], fn=fn, ns=ns, self_ty=self_ty, tymap=EC_TYMAP, generic=True)
    if lean:
        d["lean"] = lean
    d.update(kw)
    return d


IMPL_CA = r"impl\s+CurveAffine\s+for\s+\$affine\s*\{"
IMPL_CP = r"impl\s+CurveProjective\s+for\s+\$projective\s*\{"
IMPL_A = r"impl\s+\$affine\s*\{\s*fn\s+mul_bits"
TRAIT_CP = r"pub\s+trait\s+CurveProjective\s*:[^{]*\{"

IMPL_MTC = r"impl<PtT>\s+MapToCurve<PtT>\s+for\s+PtT\b[^{]*\{"
# `map_to_curve` is generic over the traits `OSSWUMap + IsogenyMap + ClearH (+ CurveProjective)`: the trait
# methods it calls become parameters of the generated definition.  `osswu_map` may panic (G2): Option-valued.
ABSTRACT_MTC = dict(types=["Base", "PtT"], methods={
    ("static", "PtT::osswu_map"): FnInfo(None, None, [("u", "Base", False)], [], "PtT", True,
                                         [("osswu_map", ("Raw", "Base → Option PtT"))]),
    ("PtT", "isogeny_map"): FnInfo(None, ("mut", "PtT"), [], ["self"], "Unit", False,
                                   [("isogeny_map", ("Raw", "PtT → PtT"))]),
    ("PtT", "clear_h"): FnInfo(None, ("mut", "PtT"), [], ["self"], "Unit", False, [("clear_h", ("Raw", "PtT → PtT"))]),
    ("PtT", "add_assign"): FnInfo(None, ("mut", "PtT"), [("other", "PtT", False)], ["self"], "Unit", False,
                                  [("add_assign", ("Raw", "PtT → PtT → PtT"))]),
})

TARGETS = (
    # ---- Fq2 (componentwise ones first: they are called by the others' callers)
    tower_targets(FQ2, "Fq2", ["mul_by_nonresidue", "norm"],
                  ["zero", "one", "is_zero", "square", "double", "negate", "add_assign", "sub_assign", "mul_assign",
                   "inverse", "frobenius_map"])
    # ---- Signum0 / Ord / SqrtField of Fq and Fq2
    + [
        dict(file=FQ_RS, path=[r"impl\s+Signum0\s+for\s+Fq\s*\{"], fn="sgn0", ns="Fq", self_ty="Fq"),
        dict(file=SIGNUM, path=[r"impl\s+BitXor\s+for\s+Sgn0Result\s*\{"], fn="bitxor", ns="Sgn0", self_ty="Sgn0"),
        dict(file=SIGNUM, path=[r"pub\s+trait\s+Signum0\s*:\s*Field\s*\{"], fn="negate_if", ns=None, self_ty="F",
             generic=True, key=("Signum0", "negate_if")),
        dict(file=FQ2, path=[r"impl\s+SqrtField\s+for\s+Fq2\s*\{"], fn="legendre", ns="Fq2", self_ty="Fq2"),
        dict(file=FQ2, path=[r"impl\s+SqrtField\s+for\s+Fq2\s*\{"], fn="sqrt", ns="Fq2", self_ty="Fq2"),
        dict(file=FQ2, path=[r"impl\s+Signum0\s+for\s+Fq2\s*\{"], fn="sgn0", ns="Fq2", self_ty="Fq2"),
        dict(file=FQ2, path=[r"impl\s+Ord\s+for\s+Fq2\s*\{"], fn="cmp", ns="Fq2", self_ty="Fq2"),
    ]
    # ---- Fq6
    + tower_targets(FQ6, "Fq6", ["mul_by_nonresidue", "mul_by_1", "mul_by_01"],
                    ["zero", "one", "is_zero", "double", "negate", "add_assign", "sub_assign", "frobenius_map", "square",
                     "mul_assign", "inverse"])
    # ---- Fq12
    + tower_targets(FQ12, "Fq12", ["conjugate", "mul_by_014"],
                    ["zero", "one", "is_zero", "double", "negate", "add_assign", "sub_assign", "frobenius_map", "square",
                     "mul_assign", "inverse"])
    # ---- curve_impl! (translated once, generic in the coefficient field F)
    + [
        ec_target(IMPL_CA, "zero", "Aff", AFFF),
        ec_target(IMPL_CA, "is_zero", "Aff", AFFF),
        ec_target(IMPL_CA, "negate", "Aff", AFFF),
        ec_target(IMPL_A, "is_on_curve", "Aff", AFFF, extern={"Self::get_coeff_b": ("coeff_b", "F")}),
        ec_target(IMPL_CP, "zero", "Jac", JACF),
        ec_target(IMPL_CP, "is_zero", "Jac", JACF),
        ec_target(IMPL_CP, "is_normalized", "Jac", JACF),
        ec_target(r"impl\s+PartialEq\s+for\s+\$projective\s*\{", "eq", "Jac", JACF),
        ec_target(IMPL_CP, "double", "Jac", JACF),
        ec_target(IMPL_CP, "add_assign", "Jac", JACF),
        ec_target(IMPL_CP, "add_assign_mixed", "Jac", JACF),
        ec_target(IMPL_CP, "negate", "Jac", JACF),
        ec_target(r"impl\s+From<\$affine>\s+for\s+\$projective\s*\{", "from", "Aff", None, lean="toJac", free=True),
        ec_target(r"impl\s+From<\$projective>\s+for\s+\$affine\s*\{", "from", "Jac", None, lean="toAffine", free=True),
        # scalar multiplication, subgroup test, point from x
        ec_target(IMPL_A, "mul_bits", "Aff", AFFF),
        ec_target(IMPL_CA, "mul", "Aff", AFFF),
        ec_target(IMPL_CP, "mul_assign", "Jac", JACF, lean="mulAssign"),
        ec_target(IMPL_A, "get_point_from_x", "Aff", AFFF, extern={"$affine::get_coeff_b": ("coeff_b", "F")},
                  key=("static", "$affine::get_point_from_x")),
        ec_target(IMPL_A, "is_in_correct_subgroup_assuming_on_curve", "Aff", AFFF,
                  extern={"$scalarfield::char": ("scalar_char", "Repr")}),
        # default methods of `trait CurveProjective` (src/lib.rs); the macro does not override them
        dict(file=LIB, path=[TRAIT_CP], fn="sub_assign", ns="Jac", self_ty=JACF, generic=True,
             tymap={"Self::Affine": AFFF}, absent=[(EC, MACRO + [IMPL_CP], r"\bfn\s+sub_assign\b")]),
        dict(file=LIB, path=[TRAIT_CP], fn="sub_assign_mixed", ns="Jac", self_ty=JACF, generic=True,
             tymap={"Self::Affine": AFFF}, absent=[(EC, MACRO + [IMPL_CP], r"\bfn\s+sub_assign_mixed\b")]),
    ]
    # ---- osswu_help (generic)
    + [dict(file=OSSWU, path=[], fn="osswu_help", ns=None, lean="osswuHelp", self_ty=None, free=True, generic=True,
            tymap={"[F; 7]": ("Help", "F")})]
    # ---- SubgroupCheck (outside the macro, once per group)
    + [
        dict(file=G1_RS, path=[r"impl\s+SubgroupCheck\s+for\s+G1Affine\s*\{"], fn="in_subgroup", ns="G1Affine",
             self_ty=("Aff", "Fq")),
        dict(file=G2_RS, path=[r"impl\s+SubgroupCheck\s+for\s+G2Affine\s*\{"], fn="in_subgroup", ns="G2Affine",
             self_ty=("Aff", "Fq2"), fq2ops=True),
    ]
    # ---- hashing to the curve: optimized SWU maps, cofactor clearing, map_to_curve
    + [
        dict(file=OSSWU_G1, path=[r"impl\s+OSSWUMap\s+for\s+G1\s*\{"], fn="osswu_map", ns="G1", self_ty=None,
             key=("static", "G1::osswu_map"),
             consts={"XI": ("(Fq.ofMont Gen.G1_XI)", "Fq", r"\bconst\s+XI\s*:\s*Fq\s*="),
                     "ELLP_A": ("(Fq.ofMont Gen.G1_ELLP_A)", "Fq", r"\bconst\s+ELLP_A\s*:\s*Fq\s*="),
                     "ELLP_B": ("(Fq.ofMont Gen.G1_ELLP_B)", "Fq", r"\bconst\s+ELLP_B\s*:\s*Fq\s*="),
                     "SQRT_M_XI_CUBED": ("(Fq.ofMont Gen.G1_SQRT_M_XI_CUBED)", "Fq", r"\bconst\s+SQRT_M_XI_CUBED\s*:\s*Fq\s*=")}),
        dict(file=OSSWU_G2, path=[r"impl\s+OSSWUMap\s+for\s+G2\s*\{"], fn="osswu_map", ns="G2", self_ty=None,
             key=("static", "G2::osswu_map"), fq2ops=True,
             consts={"XI": ("(Fq2.ofMont Gen.G2_XI)", "Fq2", r"\bconst\s+XI\s*:\s*Fq2\s*="),
                     "ELLP_A": ("(Fq2.ofMont Gen.G2_ELLP_A)", "Fq2", r"\bconst\s+ELLP_A\s*:\s*Fq2\s*="),
                     "ELLP_B": ("(Fq2.ofMont Gen.G2_ELLP_B)", "Fq2", r"\bconst\s+ELLP_B\s*:\s*Fq2\s*=")},
             tables={"ROOTS_OF_UNITY": ("(Gen.G2_ROOTS_OF_UNITY.map Fq2.ofMont)", "Fq2"),
                     "ETAS": ("(Gen.G2_ETAS.map Fq2.ofMont)", "Fq2")}),
        dict(file=COFACTOR, path=[r"impl\s+ClearH\s+for\s+G1\s*\{"], fn="clear_h", ns="G1", self_ty=("Jac", "Fq")),
        dict(file=COFACTOR, path=[r"impl\s+ClearH\s+for\s+G2\s*\{"], fn="clear_h", ns="G2", self_ty=("Jac", "Fq2"),
             fq2ops=True),
        dict(file=MAP_TO_CURVE, path=[IMPL_MTC], fn="map_to_curve", ns=None, self_ty=None, partial=True,
             tymap={"PtT": "PtT", "PtT::Base": "Base"}, abstract=ABSTRACT_MTC),
        dict(file=MAP_TO_CURVE, path=[IMPL_MTC], fn="map2_to_curve", ns=None, self_ty=None, partial=True,
             tymap={"PtT": "PtT", "PtT::Base": "Base"}, abstract=ABSTRACT_MTC),
    ]
    # ---- pairing
    + [
        dict(file=MOD, path=[r"fn\s+from_affine\b[^{]*\{"], fn="doubling_step", ns=None, lean="doublingStep",
             self_ty=None, free=True, tymap={"G2": ("Jac", "Fq2"), "G2Affine": ("Aff", "Fq2")}),
        dict(file=MOD, path=[r"fn\s+from_affine\b[^{]*\{"], fn="addition_step", ns=None, lean="additionStep",
             self_ty=None, free=True, tymap={"G2": ("Jac", "Fq2"), "G2Affine": ("Aff", "Fq2")}),
        dict(file=MOD, path=[r"fn\s+miller_loop\b[^{]*\{"], fn="ell", ns=None, lean="ell",
             self_ty=None, free=True, tymap={"G1Affine": ("Aff", "Fq")}),
        dict(file=MOD, path=[r"fn\s+final_exponentiation\b[^{]*\{"], fn="exp_by_x", ns=None, lean="expByX",
             self_ty=None, free=True),
        dict(file=MOD, path=[r"impl\s+Engine\s+for\s+Bls12\s*\{"], fn="final_exponentiation", ns=None,
             lean="finalExponentiation", self_ty=None, free=True, nested=["exp_by_x"]),
    ]
)

# struct declarations that are checked against STRUCT_FIELDS / fields_of
STRUCT_CHECKS = [
    ("Fq2", FQ2, r"pub\s+struct\s+Fq2\s*\{", "pub c0: Fq, pub c1: Fq,"),
    ("Fq6", FQ6, r"pub\s+struct\s+Fq6\s*\{", "pub c0: Fq2, pub c1: Fq2, pub c2: Fq2,"),
    ("Fq12", FQ12, r"pub\s+struct\s+Fq12\s*\{", "pub c0: Fq6, pub c1: Fq6,"),
    ("$affine", EC, r"pub\s+struct\s+\$affine\s*\{", "pub(crate) x: $basefield, pub(crate) y: $basefield, pub(crate) infinity: bool,"),
    ("$projective", EC, r"pub\s+struct\s+\$projective\s*\{", "pub(crate) x: $basefield, pub(crate) y: $basefield, pub(crate) z: $basefield,"),
]

HEADER = """/- GENERATED by /verif/extract/extract_arith.py from /repo -- do not edit.

One Lean definition per Rust function, one `let` per Rust statement (the statement is the trailing
comment).  `&mut self` methods return the new `self`.  Operations on `Fq` / the generic `F` are the
notations and `FieldOps` members of PP/Model/Field.lean; operations on `Fq2 Fq6 Fq12 Jac Aff` are
calls of the functions generated EARLIER IN THIS FILE (always written `A.<Type>.<fn>`), never of the
hand-written model.  From the model only types, Frobenius coefficient tables, `PP.Gen` constants and
what is NOT in /repo are used: `powLimbs` / `bitsMSB` / `limbsOf` (`Field::pow`, `BitIterator` of the
ff crate), `SqrtOps.sqrt/legendre/lt` and `compare _.v _.v` of the base field (derive-generated), and
the separately extracted addition chains `PP.chainPm3div4` .. `PP.chainH2Eff`.
`for` loops are `List.foldl` (state = the outer variables assigned in the body) or, with an early
`return`, `List.findSome?`; `panic!` / a failing `unwrap` is `none`; `debug_assert!` is dropped
(release semantics).  PP/Proofs/GenArith.lean proves each definition equal to the model's.
-/
import PP.Model.Pairing

set_option linter.unusedVariables false   -- e.g. a loop state variable that is not read after the loop

namespace PP.Gen.A
"""

INST_METHODS = ("mul_assign", "one", "square", "double", "inverse", "is_zero", "frobenius_map")
INST_BUNDLE = """/-- the GENERATED operations of `{T}` packaged for the generic `Field::pow` loop (`powLimbs`); plain
    definitions, not instances: `[Mul]` = `mul_assign`, `[One]` = `one()`, `FieldOps` = `square double
    inverse is_zero frobenius_map` -/
@[reducible] def {T}.instMul : Mul {T} := ⟨A.{T}.mul⟩
@[reducible] def {T}.instOne : One {T} := ⟨A.{T}.one⟩
@[reducible] def {T}.instFieldOps : FieldOps {T} := ⟨A.{T}.square, A.{T}.double, A.{T}.inverse, A.{T}.isZero, A.{T}.frobeniusMap⟩
"""

FQ2_EXTRA = """/-- the remaining GENERATED operations of `Fq2` as notation-class bundles (plain definitions).  Below,
    a definition that applies GENERIC code (`curve_impl!`, `osswu_help`, `negate_if`, all generic in the
    coefficient field) to `Fq2` values is elaborated with these bundles as LOCAL instances, which take
    precedence over the model's: also there, no generated definition uses the model's arithmetic. -/
@[reducible] def Fq2.instAdd : Add Fq2 := ⟨A.Fq2.add⟩
@[reducible] def Fq2.instSub : Sub Fq2 := ⟨A.Fq2.sub⟩
@[reducible] def Fq2.instNeg : Neg Fq2 := ⟨A.Fq2.neg⟩
@[reducible] def Fq2.instZero : Zero Fq2 := ⟨A.Fq2.zero⟩
"""
FQ2_LOCAL = ("section\nattribute [local instance] Fq2.instAdd Fq2.instSub Fq2.instMul Fq2.instNeg Fq2.instZero "
             "Fq2.instOne Fq2.instFieldOps\n")

GENERIC_VARS = "variable {F : Type} [Add F] [Sub F] [Mul F] [Neg F] [Zero F] [One F] [FieldOps F] [SqrtOps F] [DecidableEq F]"


def render(lines):
    out = []
    for l in lines:
        if len(l.cmt) > 150:
            l.cmt = l.cmt[:146] + " ..."
        code = "  " * l.ind + l.code
        if l.cmt:
            if l.code:
                pad = max(1, 56 - len(code))
                out.append(code + " " * pad + "-- " + l.cmt)
            else:
                out.append("  " * l.ind + "-- " + l.cmt)
        else:
            out.append(code)
    return "\n".join(out)


def translate(repo_dir):
    items = []
    cache = {}

    def load(rel):
        if rel not in cache:
            p = os.path.join(repo_dir, rel)
            try:
                raw = open(p).read()
            except OSError as e:
                raise ExtractError("cannot read %s: %s" % (p, e))
            cache[rel] = (raw, blank_comments(raw))
        return cache[rel]

    for sname, rel, rx, want in STRUCT_CHECKS:
        raw, src = load(rel)
        s0, a, b = find_container(src, 0, len(src), rx, "%s: struct" % rel)
        got = " ".join(src[a:b].split())
        if got != want:
            raise ExtractError("%s: struct declaration /%s/ changed: `%s`" % (rel, rx, got))
        items.append({"item": "arith:struct:" + sname, "file": rel,
                      "lines": [src.count("\n", 0, s0) + 1, src.count("\n", 0, b) + 1],
                      "sha256": hashlib.sha256(raw[s0:b + 1].encode()).hexdigest()})

    out = [HEADER]
    raw, src = load(FQ_RS)
    out.append("/-! ## lengths of the coefficient tables (src/bls12_381/fq.rs); every `TABLE[i % n]` below has `n ≤ length` -/\n")
    for tname in sorted(TABLES):
        ms = list(re.finditer(r"\bconst\s+%s\s*:\s*\[\s*(\w+)\s*;\s*(\d+)\s*\]\s*=" % tname, src))
        if len(ms) != 1:
            raise ExtractError("%s: declaration of table %s not found" % (FQ_RS, tname))
        if ms[0].group(1) != TABLES[tname][1]:
            raise ExtractError("%s: table %s has element type %s" % (FQ_RS, tname, ms[0].group(1)))
        TABLES[tname][2] = int(ms[0].group(2))
        items.append({"item": "arith:table:" + tname, "file": FQ_RS,
                      "lines": [src.count("\n", 0, ms[0].start()) + 1, src.count("\n", 0, ms[0].end()) + 1],
                      "sha256": hashlib.sha256(raw[ms[0].start():ms[0].end()].encode()).hexdigest()})
        out.append("/-- `%s` -/" % " ".join(src[ms[0].start():ms[0].end() - 1].split()))
        out.append("theorem tableLen_%s : %s.length = %d := rfl\n" % (tname, TABLES[tname][0], TABLES[tname][2]))
    registry = {}
    bundled = set()
    cur_file = None
    generic_on = False
    fq2_extra = False
    names = []
    for tg in TARGETS:
        rel = tg["file"]
        raw, src = load(rel)
        ns = tg["ns"]
        lean_short = tg.get("lean") or LEAN_METHOD.get(tg["fn"])
        if lean_short is None:
            raise ExtractError("no Lean name for %s" % tg["fn"])
        lean_name = "%s.%s" % (ns, lean_short) if ns else lean_short
        what = "%s: fn %s (-> %s)" % (rel, tg["fn"], lean_name)
        a, b = 0, len(src)
        for rx in tg["path"]:
            _, a, b = find_container(src, a, b, rx, what)
        ms = [m for m in re.finditer(r"\bfn\s+%s\b" % re.escape(tg["fn"]), src[a:b])]
        if len(ms) != 1:
            raise ExtractError("%s: expected exactly one `fn %s` in its container, found %d" % (what, tg["fn"], len(ms)))
        f0 = a + ms[0].start()
        o = src.index("{", f0)
        f1 = match_close(src, o)
        tymap = dict(BASE_TYMAP)
        tymap.update(tg.get("tymap", {}))
        if tg["self_ty"] is not None:
            tymap["Self"] = tg["self_ty"]
        for arel, apath, arx in tg.get("absent", []):
            # e.g. a trait default method is only the method of a type if the impl does not override it
            _, asrc = load(arel)
            aa, ab = 0, len(asrc)
            for rx in apath:
                _, aa, ab = find_container(asrc, aa, ab, rx, what)
            if re.search(arx, asrc[aa:ab]):
                raise ExtractError("%s: /%s/ is now defined in %s (override of the default method)" % (what, arx, arel))
        consts, tables = {}, {}
        for cname, (ctext, cty, crx) in tg.get("consts", {}).items():
            # a constant of the file: the declaration must be there with the expected type
            if len(re.findall(crx, src)) != 1:
                raise ExtractError("%s: declaration /%s/ of constant %s not found" % (what, crx, cname))
            consts[cname] = (ctext, cty)
        for tname, (ttext, telt) in tg.get("tables", {}).items():
            ms = list(re.finditer(r"\bconst\s+%s\s*:\s*\[\s*(\w+)\s*;\s*(\d+)\s*\]\s*=" % tname, src))
            if len(ms) != 1 or ms[0].group(1) != telt:
                raise ExtractError("%s: declaration of table %s : [%s; _] not found" % (what, tname, telt))
            tables[tname] = (ttext, telt, int(ms[0].group(2)))
        reg = registry
        implicit = ""
        if tg.get("abstract"):
            # a function generic over a TRAIT: abstract types, and the trait methods it calls become parameters
            reg = dict(registry)
            ab_ = tg["abstract"]
            implicit = " {%s : Type}" % " ".join(ab_["types"])
            for akey, ainfo in ab_["methods"].items():
                reg[akey] = ainfo
        tr = Translator(reg, src, what, tymap, tg["self_ty"], tg.get("extern", {}), consts, tables)
        ast = parse_fn(src, f0, f1, what)
        sigline, lines = tr.run(ast, lean_name, tg.get("nested", []), generic=bool(tg.get("generic")),
                                force_partial=bool(tg.get("partial")), implicit=implicit,
                                extern_order=[ai.extern[0][0] for ai in tg["abstract"]["methods"].values()]
                                if tg.get("abstract") else None)
        key = ("fn", tg["fn"]) if tg.get("free") and tg["fn"] != "from" else (ns, tg["fn"])
        if tg["fn"] == "from":
            key = (ns, "from->" + lean_short)
        if tg.get("key"):
            key = tg["key"]
        if key in registry:
            raise ExtractError("%s: duplicate registry key %r" % (what, key))
        registry[key] = tr.info
        l0, l1 = src.count("\n", 0, f0) + 1, src.count("\n", 0, f1) + 1
        items.append({"item": "arith:" + lean_name, "file": rel, "lines": [l0, l1],
                      "sha256": hashlib.sha256(raw[f0:f1].encode()).hexdigest()})
        if not tg.get("generic") and generic_on:
            out.append("end\n")
            generic_on = False
        if rel != cur_file:
            out.append("\n/-! ## %s -/\n" % rel)
            cur_file = rel
        if tg.get("generic") and not generic_on:
            out.append("section\n" + GENERIC_VARS + "\n")
            generic_on = True
        sig_src = " ".join(src[f0:o].split())
        if tg.get("fq2ops"):
            if not fq2_extra:
                out.append(FQ2_EXTRA)
                fq2_extra = True
            out.append(FQ2_LOCAL)
        out.append("/-- `%s`  (%s:%d-%d) -/" % (sig_src, rel, l0, l1))
        out.append(sigline)
        out.append(render(lines))
        out.append("")
        if tg.get("fq2ops"):
            out.append("end\n")
        names.append(lean_name)
        if ns in TOWER and all((ns, m_) in registry for m_ in INST_METHODS) and ns not in bundled:
            bundled.add(ns)
            out.append(INST_BUNDLE.format(T=ns))
    if generic_on:
        out.append("end\n")
    out.append("end PP.Gen.A")
    return "\n".join(out) + "\n", items, names


def emit(repo_dir, gen_dir, error_cls=None):
    """Write gen_dir/Arith.lean (only when its content changes); return the manifest items.
    Raises ExtractError (or error_cls, if given) on anything unrecognised."""
    global CHANGED
    try:
        text, items, _ = translate(repo_dir)
    except ExtractError as e:
        if error_cls is not None:
            raise error_cls("arith: " + str(e))
        raise
    path = os.path.join(gen_dir, "Arith.lean")
    old = open(path).read() if os.path.exists(path) else None
    CHANGED = old != text
    if CHANGED:
        with open(path + ".tmp", "w") as f:
            f.write(text)
        os.replace(path + ".tmp", path)
    return items


if __name__ == "__main__":
    verif = os.path.dirname(os.path.dirname(os.path.abspath(__file__)))
    repo = sys.argv[1] if len(sys.argv) > 1 else os.environ.get("PP_REPO", "/repo")
    gen = sys.argv[2] if len(sys.argv) > 2 else os.path.join(verif, "lean", "PP", "Gen")
    try:
        its = emit(repo, gen)
    except ExtractError as e:
        print("EXTRACT-ERROR: %s" % e)
        sys.exit(2)
    print("extract_arith: %d items, Arith.lean %s" % (len(its), "rewritten" if CHANGED else "unchanged"))
