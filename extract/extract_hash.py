#!/usr/bin/env python3
"""Translator: HASHING GLUE of /repo (src/hash_to_field.rs: `ExpandMsgXmd::expand_message`,
`ExpandMsgXof::expand_message`, `hash_to_field`, the blanket `impl<T: BaseFromRO> FromRO for T`;
`Fq::from_okm` (fq.rs), `Fr::from_okm` (fr.rs), `Fq2::from_ro` (fq2.rs); src/hash_to_curve.rs:
`HashToCurve::hash_to_curve` / `encode_to_curve`) -> /verif/lean/PP/Gen/HashGlue.lean  (python3 stdlib only).

Companion of extract_arith.py (whose tokenizer / parser / printer it reuses through the subclass
`HashParser` of extract_pair's `PairParser`): each target function is located in the Rust source, parsed,
and printed as ONE Lean definition in namespace `PP.Gen.H`, one Lean line (`let` / `if` / `match` / fold)
per Rust statement with the statement as trailing comment.  `PP/Proofs/GenHash.lean` proves each
definition equal to the hand-written model (section "hash_to_field.rs" / "hash_to_curve.rs" of
`PP/Model/Map.lean`), so an edit of the length prefix, of the `ell` computation or bound, of a block
counter, of what is XORed, of a slice bound, of a reduction constant, of the element count ... changes
the generated Lean and breaks the equality theorem of exactly that function.

Conventions of the generated Lean (fixed, independent of the hand model):
  * `&[u8]`, `Vec<u8>`, `[u8; N]`, `GenericArray<u8, N>` and a parameter `M: AsRef<[u8]>` (taken after
    `.as_ref()`) are `Bytes = List UInt8`; `Vec<T>` is `List T`; references are transparent; `usize` is
    `Nat`, `u8` is `UInt8`; `FqRepr` / `FrRepr` values are the `Nat` they denote (as in Enc.lean);
  * the translator tracks the LENGTH of a byte array when it is a literal (`[u8; N]`, `GenericArray<u8,
    U64>`): slicing such an array with literal bounds and `GenericArray::<u8, Uk>::from_slice` of it are
    checked HERE (bounds within N, lengths equal) and become `take` / `drop`; on everything else
    (`Vec`, `&[u8]`, arrays whose length is an associated type) the Rust run-time checks are translated:
    `v[a..b]` is `if b < a ∨ v.length < b then PANIC else (v.drop a).take (b - a)`, `from_slice(s)` is
    `if s.length ≠ N then PANIC`, `a[i] = v` is `if a.length ≤ i then PANIC else a.set i v`, `v[i]` on a
    `Vec<T>` is `match v[i]? with | none => PANIC | some x => ..`;
  * a PANIC (`panic!`, `unwrap()` of an error, the checks above, usize subtraction underflow, division by
    zero, a callee that panics) is `none`; the function is then `Option`-valued (as in Arith.lean).
    Effects INSIDE an expression are hoisted, in evaluation order, into `if` / `match` lines before the
    line of the statement.  usize `+` and `*` are Nat operations (overflow is NOT modelled);
  * the hash function is a PARAMETER.  For `HashT: Digest + BlockInput` it is the model's structure TYPE
    `XmdHash` (`hash : Bytes → Bytes`, `outSize`, `blockSize`): `<HashT as Digest>::OutputSize::to_usize()`
    is `HashT.outSize`, `<HashT as BlockInput>::BlockSize` is `HashT.blockSize`; a hasher value is the list
    of bytes fed so far: `HashT::new()` is `[]`, `h.chain(x)` is `h ++ x`, `h.result()` is `HashT.hash h`
    (a `GenericArray` of `HashT.outSize` bytes).  For `HashT: Default + ExtendableOutput + Input` it is a
    function `HashT : Bytes → Nat → Bytes`: `HashT::default()` is `[]`, `h.vec_result(n)` is `HashT h n`;
  * `Cursor::new(x)` is the list of bytes still to be read, `r1.chain(r2)` (`Read::chain`) is `r1 ++ r2`;
    `repr.read_be(reader)` is `E.reprReadBe 48 reader` (32 for `FrRepr`), `Fq::from_repr(r)` is
    `E.Fq.fromRepr r` (primitives defined in the header of Enc.lean); `.unwrap()` of their errors is `none`;
  * `Fq` / `Fr` operations are the notations `* +` of the model's field type (as in Arith.lean);
    `const C: Fq = Fq(FqRepr([limbs]))` becomes the top-level definition `<fn>.C := Fq.ofMont <integer of
    the limbs>` (`Fq.ofMont` = the model's reading of a raw Montgomery representation);
  * `x as u8` on a usize is `UInt8.ofNat x` (truncation), `a >> k` is `a >>> k`, `a ^ b` on bytes is `^^^`;
  * iterators are the list of the elements still to come: `s.iter()` is `s`, `a.zip(b)` is `List.zip a b`,
    `it.enumerate()` is `H.enumerate it` (pairs (index, element)), `it.for_each(|PAT| body)` is a fold
    like a `for` loop;
  * `for x in a..b { body }` is
        let st := List.foldl (fun st x => body; st) st (List.range' a (b - a))      (`List.range b` if a = 0)
    where st is the tuple of the OUTER variables the body assigns, in order of declaration; if the body may
    panic it is `match List.foldlM (m := Option) (fun st x => body; some st) st .. with | none => none | ..`;
  * what follows an `if` is copied into both branches; `if c { panic!(..) }` followed by R is
    `if c then none else R`;
  * code that is generic over a TRAIT gets the trait's items as leading parameters (named as in Rust):
    `T: FromRO` gives `{T : Type} (Length : Nat) (from_ro : Bytes → Option T)`, `T: BaseFromRO` gives
    `(BaseLength : Nat) (from_okm : Bytes → Option T)`, `X: ExpandMsg` gives `(expand_message : Bytes →
    Bytes → Nat → Option Bytes)`, `PtT: MapToCurve` (= `ClearH + IsogenyMap + OSSWUMap`, the blanket impl
    of map_to_curve.rs translated in Arith.lean) gives `osswu_map isogeny_map clear_h add_assign` exactly
    as `A.mapToCurve` / `A.map2ToCurve` take them (their generated signatures are checked); the theorems
    instantiate them BY NAME.  `type Length = U128;` etc. become `def Fq2.Length : Nat := 128`.

Rust subset understood in addition to extract_arith's / extract_pair's (anything else raises ExtractError
naming the function and the statement): turbofish paths `Vec::<u8>::with_capacity(n)`
`GenericArray::<u8, N>::default()` `::from_slice(s)` `f::<A, B>(..)`, qualified paths `<T as Trait>::Name::f()`
`<T as Trait<A>>::f(..)`, `e as u8`, `[v; n]`, `const` items, closures with tuple patterns whose body is an
expression or an assignment `a[i] = e`, `/` `-` `>>` on usize, method chains of the hasher / reader /
iterator kinds above, `extend_from_slice` `truncate` `push` `len` `as_ref`.

API for extract.py:
    import extract_hash
    manifest.extend(extract_hash.emit(REPO, GEN, ExtractError))   # writes GEN/HashGlue.lean if changed
    if extract_hash.CHANGED: changed.append("HashGlue")
"""
import hashlib
import os
import re
import sys

sys.path.insert(0, os.path.dirname(os.path.abspath(__file__)))
import extract_arith as XA                                             # noqa: E402
import extract_pair as XP                                              # noqa: E402
from extract_arith import (ExtractError, Block, Line, render, blank_comments, match_close,   # noqa: E402
                           find_container, lname)

CHANGED = False

# ================================================================ parser


class HashParser(XP.PairParser):
    """extract_pair.PairParser + `<T as Trait<A>>::Name` types, rich paths in expressions (turbofish,
    qualified paths), `e as T`, `[v; n]`, `const` items, closures with tuple patterns / assignment bodies.
    new nodes: ('rpath', qself|None, [(name, [tyargs]|None)..], args|None, span)   qself = (ty, trait ty)
               ('cast', e, ty, span)  ('repeat', v, n, span)
               ('closurep', [pat..], body, span)  pat = ('pv', x) | ('pt', [pat..])
               ('assignx', lhs, rhs, span)   statement ('const', name, ty, e, span)"""

    def ty(self):
        self.split_shift()
        if self.at("<"):
            self.eat()
            t = self.ty()
            self.eat("as")
            tr = self.ty()
            self.split_shift()
            self.eat(">")
            segs = []
            while self.at("::"):
                self.eat()
                segs.append(self.ident())
            if not segs:
                self.err("expected `::Name` after a qualified type")
            return ("qpath", t, tr, segs)
        return XP.PairParser.ty(self)

    def turbofish_ahead(self):
        t = self.peek()
        if t is None or t.k != "id":
            return False
        j = 1
        while self.at("::", j):
            u = self.peek(j + 1)
            if u is not None and u.k == "op" and u.v in ("<", "<<"):
                return True
            if u is None or u.k != "id":
                return False
            j += 2
        return False

    def generic_args(self):
        self.split_shift()
        self.eat("<")
        args = []
        while True:
            self.split_shift()
            if self.at(">"):
                break
            args.append(self.ty())
            if self.at(","):
                self.eat()
                continue
            self.split_shift()
            if not self.at(">"):
                self.err("expected , or > in generic arguments")
        self.eat(">")
        return args

    def rich_path(self):
        a = self.pos()
        qself = None
        segs = []
        self.split_shift()
        if self.at("<"):
            self.eat()
            t = self.ty()
            self.eat("as")
            tr = self.ty()
            self.split_shift()
            self.eat(">")
            qself = (t, tr)
            if not self.at("::"):
                self.err("expected `::` after a qualified path")
        else:
            segs.append([self.ident(), None])
        while self.at("::"):
            self.eat()
            self.split_shift()
            if self.at("<"):
                if not segs or segs[-1][1] is not None:
                    self.err("misplaced generic arguments")
                segs[-1][1] = self.generic_args()
            else:
                segs.append([self.ident(), None])
        args = self.args() if self.at("(") else None
        return ("rpath", qself, [tuple(s) for s in segs], args, (a, self.lastend()))

    def cpat(self):
        if self.at("&"):
            self.eat()
            return self.cpat()
        if self.at("("):
            self.eat()
            items = []
            while not self.at(")"):
                items.append(self.cpat())
                if self.at(","):
                    self.eat()
                elif not self.at(")"):
                    self.err("unsupported closure pattern")
            self.eat(")")
            return ("pt", items)
        if self.at("mut") or self.at("ref"):
            self.err("unsupported closure pattern")
        return ("pv", self.ident())

    def unary(self, nostruct):
        e = XP.PairParser.unary(self, nostruct)
        while self.at("as"):
            self.eat()
            t = self.ty()
            e = ("cast", e, t, (e[-1][0], self.lastend()))
        return e

    def primary(self, nostruct):
        t = self.peek()
        if t is None:
            self.err("unexpected end")
        a = t.a
        if t.k == "op" and t.v in ("<", "<<"):
            return self.rich_path()
        if t.k == "id" and self.turbofish_ahead():
            return self.rich_path()
        if t.k == "op" and t.v == "|":
            self.eat()
            pats = []
            while not self.at("|"):
                pats.append(self.cpat())
                if self.at(","):
                    self.eat()
                elif not self.at("|"):
                    self.err("unsupported closure parameters")
            self.eat("|")
            body = self.expr()
            if self.at("="):
                self.eat()
                rhs = self.expr()
                body = ("assignx", body, rhs, (body[-1][0], rhs[-1][1]))
            return ("closurep", pats, body, (a, body[-1][1]))
        if t.k == "op" and t.v == "[":
            self.eat()
            items = []
            while not self.at("]"):
                items.append(self.expr())
                if self.at(","):
                    self.eat()
                elif self.at(";"):
                    if len(items) != 1:
                        self.err("bad array repeat expression")
                    self.eat()
                    n = self.expr()
                    self.eat("]")
                    return ("repeat", items[0], n, (a, self.lastend()))
                elif not self.at("]"):
                    self.err("expected , or ]")
            self.eat("]")
            return ("array", items, (a, self.lastend()))
        return XP.PairParser.primary(self, nostruct)

    def stmt(self):
        a = self.pos()
        if self.at("const"):
            self.eat()
            n = self.ident()
            self.eat(":")
            t = self.ty()
            self.eat("=")
            e = self.expr()
            self.eat(";")
            return ("const", n, t, e, (a, self.lastend()))
        return XP.PairParser.stmt(self)


def parse_fn(src, a, b, what):
    """src[a:b] starts at `fn`.  -> (name, bounds {generic: bound type}, params, ret, Block)"""
    p = HashParser(src, a, b, what)
    p.eat("fn")
    name = p.ident()
    bounds = {}
    p.split_shift()
    if p.at("<"):
        p.eat()
        while True:
            p.split_shift()
            if p.at(">"):
                break
            g = p.ident()
            bounds[g] = None
            if p.at(":"):
                p.eat()
                bounds[g] = p.ty()
            if p.at(","):
                p.eat()
                continue
            p.split_shift()
            if not p.at(">"):
                p.err("expected , or > in the generic parameters")
        p.eat(">")
    p.eat("(")
    params = []
    while not p.at(")"):
        if p.at("&") or p.at("self") or p.at("mut"):
            p.err("unsupported parameter (self / mut)")
        n = p.ident()
        p.eat(":")
        params.append((n, p.ty()))
        if p.at(","):
            p.eat()
        elif not p.at(")"):
            p.err("expected , or ) in the parameter list")
    p.eat(")")
    ret = None
    if p.at("->"):
        p.eat()
        ret = p.ty()
    if p.at("where"):
        p.eat()
        while not p.at("{"):
            g = p.ident()
            if g not in bounds:
                p.err("where clause on something that is not a generic parameter")
            if bounds[g] is not None:
                p.err("two bounds on the same generic parameter")
            p.eat(":")
            bounds[g] = p.ty()
            if p.at(","):
                p.eat()
            elif not p.at("{"):
                p.err("unsupported where clause")
    body = p.block()
    if p.peek() is not None:
        p.err("trailing tokens after function body")
    return name, bounds, params, ret, body


def canon(t):
    """a type node as text (key of the per-target tables)"""
    k = t[0]
    if k in ("ref", "refmut"):
        return "&" + canon(t[1])
    if k == "name":
        return t[1]
    if k == "app":
        args = t[2] if isinstance(t[2], list) else [t[2]]
        return "%s<%s>" % (t[1], ",".join(canon(x) for x in args))
    if k == "slice":
        return "[%s]" % canon(t[1])
    if k == "array":
        return "[%s;%d]" % (canon(t[1]), t[2])
    if k == "qpath":
        return "<%s as %s>::%s" % (canon(t[1]), canon(t[2]), "::".join(t[3]))
    if k == "tuple":
        return "(%s)" % ",".join(canon(x) for x in t[1])
    if k == "bind":
        return "%s=%s" % (t[1], canon(t[2]))
    raise ExtractError("internal: type node %r" % (t,))


# ================================================================ types of the translation
#
# 'Nat' (usize) 'U8' 'Lit' (integer literal, type from the context) 'Prop' 'Unit' 'Fq' 'Fr' 'Fq2'
# 'FqRepr' 'FrRepr' (the Nat they denote)   bytes: 'Vec' 'Slice' ('Arr', n) ('GArr', lean length text)
# ('VecOf', T)  ('TVar', name)  ('Hasher', 'Xmd'|'Xof')  'Reader'  ('Iter', T)  ('Tup', [T..])
# ('ReadRes', repr type) result of read_be   ('ReprRes', field) result of from_repr

REPR_BYTES = {"FqRepr": 48, "FrRepr": 32}
REPR_LIMBS = {"FqRepr": 6, "FrRepr": 4}
REPR_OF = {"Fq": "FqRepr", "Fr": "FrRepr"}


def is_bytes(t):
    return t in ("Vec", "Slice") or (isinstance(t, tuple) and t[0] in ("Arr", "GArr"))


def lty(t, paren=False):
    if is_bytes(t) or t == "Reader" or (isinstance(t, tuple) and t[0] == "Hasher"):
        return "Bytes"
    if isinstance(t, str):
        return {"U8": "UInt8", "FqRepr": "Nat", "FrRepr": "Nat"}.get(t, t)
    if t[0] == "TVar":
        return t[1]
    if t[0] in ("VecOf", "Iter"):
        s = "List %s" % lty(t[1], True)
    elif t[0] == "Tup":
        s = " × ".join(lty(x, True) for x in t[1])
    elif t[0] == "Opt":
        s = "Option %s" % lty(t[1], True)
    else:
        raise ExtractError("internal: type %r" % (t,))
    return "(%s)" % s if paren and " " in s else s


def paren(s):
    if re.match(r"^[A-Za-z_][A-Za-z0-9_.']*$", s) or re.match(r"^(0x[0-9a-fA-F]+|[0-9]+)$", s):
        return s
    if (s[0] == "(" and match_close(s, 0, "(", ")") == len(s)) or \
       (s[0] == "[" and match_close(s, 0, "[", "]") == len(s)):
        return s
    return "(" + s + ")"


def strip(e):
    while e[0] in ("ref", "refmut", "deref"):
        e = e[1]
    return e


class Var:
    __slots__ = ("lean", "ty", "depth")

    def __init__(self, lean, ty, depth):
        self.lean, self.ty, self.depth = lean, ty, depth


class Env:
    def __init__(self):
        self.vars = {}
        self.order = []          # declaration order of the Rust names
        self.depth = 0

    def copy(self):
        e = Env()
        e.vars = dict(self.vars)
        e.order = list(self.order)
        e.depth = self.depth
        return e


class NeedPartial(Exception):
    pass


class Sig:
    def __init__(self, lean, params, ret, partial, needs=(), generics=()):
        self.lean = lean          # Lean name with prefix `H.` / `A.`, or the name of a parameter
        self.params = params      # [type]
        self.ret = ret
        self.partial = partial    # Option-valued: may panic
        self.needs = needs        # kinds of the trait dictionaries it takes as leading arguments, in order
        self.generics = generics  # for a turbofish call: [(generic name, kind)] in the order of the generics


KIND_PARAMS = {
    "Xmd": ["HashT"], "Xof": ["HashT"],
    "FromRO": ["Length", "from_ro"], "BaseFromRO": ["BaseLength", "from_okm"],
    "ExpandMsg": ["expand_message"],
    "MapToCurve": ["osswu_map", "isogeny_map", "clear_h", "add_assign"],
}


def dict_params(d):
    """Lean parameters (name, type text) of a trait dictionary"""
    k = d["kind"]
    if k == "Xmd":
        return [("HashT", "XmdHash")]
    if k == "Xof":
        return [("HashT", "Bytes → Nat → Bytes")]
    if k == "FromRO":
        return [("Length", "Nat"), ("from_ro", "Bytes → Option %s" % lty(d["elem"], True))]
    if k == "BaseFromRO":
        return [("BaseLength", "Nat"), ("from_okm", "Bytes → Option %s" % lty(d["elem"], True))]
    if k == "ExpandMsg":
        return [("expand_message", "Bytes → Bytes → Nat → Option Bytes")]
    if k == "MapToCurve":
        b, p = lty(d["base"], True), lty(d["pt"], True)
        return [("osswu_map", "%s → Option %s" % (b, p)), ("isogeny_map", "%s → %s" % (p, p)),
                ("clear_h", "%s → %s" % (p, p)), ("add_assign", "%s → %s → %s" % (p, p, p))]
    raise ExtractError("internal: dictionary kind %r" % k)


# definitions of Arith.lean this file calls: (Lean name, generated signature line that is checked)
ARITH = {
    "map_to_curve": ("A.mapToCurve", 1,
                     "def mapToCurve {Base PtT : Type} (osswu_map : Base → Option PtT) (isogeny_map : PtT → PtT) "
                     "(clear_h : PtT → PtT) (p1 : Base) : Option PtT :=",
                     ["osswu_map", "isogeny_map", "clear_h"]),
    "map2_to_curve": ("A.map2ToCurve", 2,
                      "def map2ToCurve {Base PtT : Type} (osswu_map : Base → Option PtT) (isogeny_map : PtT → PtT) "
                      "(clear_h : PtT → PtT) (add_assign : PtT → PtT → PtT) (p1 : Base) (p2 : Base) : Option PtT :=",
                      ["osswu_map", "isogeny_map", "clear_h", "add_assign"]),
}


class Cmt:
    """the Rust text of a statement: goes on the first Lean line generated for it"""

    def __init__(self, text):
        self.text = text

    def take(self):
        t, self.text = self.text, ""
        return t


# ================================================================ translation of one function

class FnT:
    def __init__(self, reg, src, what, tymap, dicts, assoc_extra, leanfn):
        self.reg = reg
        self.src = src
        self.what = what
        self.tymap = tymap
        self.dicts = dicts
        self.leanfn = leanfn
        self.assoc = dict(assoc_extra)
        for d in dicts:
            r = d["rust"]
            if d["kind"] == "Xmd":
                self.assoc[(r, "Digest", "OutputSize")] = "%s.outSize" % r
                self.assoc[(r, "BlockInput", "BlockSize")] = "%s.blockSize" % r
            elif d["kind"] == "FromRO":
                self.assoc[(r, "FromRO", "Length")] = "Length"
            elif d["kind"] == "BaseFromRO":
                self.assoc[(r, "BaseFromRO", "BaseLength")] = "BaseLength"
        self.partial = False
        self.pending = None
        self.nfresh = 0
        self.recorders = []
        self.consts = []
        self.tailcall = None
        self.letbind = None      # (node, Lean name): `let x = <node>` binds the hoisted result directly

    # ---- diagnostics
    def text(self, span):
        return " ".join(self.src[span[0]:span[1]].split())

    def fail(self, msg, node):
        if isinstance(node, Block):
            span = node.span
        elif len(node) == 2 and isinstance(node[0], int):
            span = node
        else:
            span = node[-1]
        raise ExtractError("%s: %s: `%s`" % (self.what, msg, self.text(span)[:160]))

    # ---- types
    def tylen(self, t):
        if t[0] == "name":
            m = re.match(r"^U(\d+)$", t[1])
            if m:
                return ("Arr", int(m.group(1)))
        if t[0] == "qpath":
            key = (canon(t[1]), canon(t[2]), "::".join(t[3]))
            if key in self.assoc:
                return ("GArr", self.assoc[key])
        raise ExtractError("%s: unknown array length type `%s`" % (self.what, canon(t)))

    def conv_ty(self, t):
        k = t[0]
        if k in ("ref", "refmut"):
            return self.conv_ty(t[1])
        if k == "slice" and t[1] == ("name", "u8"):
            return "Slice"
        if k == "array" and t[1] == ("name", "u8"):
            return ("Arr", t[2])
        if k == "name":
            if t[1] == "usize":
                return "Nat"
            if t[1] == "u8":
                return "U8"
        if k == "app":
            args = t[2] if isinstance(t[2], list) else [t[2]]
            if t[1] == "Vec" and len(args) == 1:
                inner = self.conv_ty(args[0])
                return "Vec" if inner == "U8" else ("VecOf", inner)
            if t[1] == "GenericArray" and len(args) == 2 and args[0] == ("name", "u8"):
                return self.tylen(args[1])
        c = canon(t)
        if c in self.tymap:
            return self.tymap[c]
        raise ExtractError("%s: unsupported type `%s`" % (self.what, c))

    @staticmethod
    def lentext(L):
        return str(L[1])

    @staticmethod
    def compat(pt, at):
        if pt == "Slice":
            return is_bytes(at)
        if pt == "Nat":
            return at in ("Nat", "Lit")
        if pt == "Vec":
            return at == "Vec"
        return pt == at

    # ---- names
    def fresh(self, env, stem="x"):
        used = set(v.lean for v in env.vars.values())
        while True:
            self.nfresh += 1
            c = "%s%d" % (stem, self.nfresh)
            if c not in used and c not in env.vars:
                return c

    def result_name(self, env, e):
        if self.letbind is not None and e is self.letbind[0]:
            self.letbound = True
            return self.letbind[1]
        return self.fresh(env)

    def declare(self, env, name, lean, ty):
        env.vars[name] = Var(lean, ty, env.depth)
        if name not in env.order:
            env.order.append(name)

    def var(self, env, name, node):
        v = env.vars.get(name)
        if v is None:
            self.fail("unknown variable `%s`" % name, node)
        return v

    def mutate(self, env, name, node):
        """the variable gets a new value: a shadowing `let` with the same Lean name"""
        v = self.var(env, name, node)
        for r in self.recorders:
            if v.depth < r["depth"]:
                r["muts"].add(name)
        return v

    # ---- hoisted effects
    def hoist(self, lines, dind, node):
        if self.pending is None:
            self.fail("an effect (bounds check, usize subtraction / division, call that may panic) in a "
                      "position from which it cannot be hoisted", node)
        self.pending.append((lines, dind))

    def pure(self, f):
        saved, self.pending = self.pending, None
        try:
            return f()
        finally:
            self.pending = saved

    def with_effects(self, f, ind, cmt, cont):
        saved, self.pending = self.pending, []
        try:
            res = f()
            pend = self.pending
        finally:
            self.pending = saved
        lines = []
        for ls, d in pend:
            for l in ls:
                c = l.cmt
                if l.code and cmt.text:
                    c = cmt.take() + ("   " + c if c else "")
                lines.append(Line(ind + l.ind, l.code, c))
            ind += d
        return lines + cont(res, ind)

    def panic(self):
        for r in self.recorders:
            r["panics"] = True
        if not self.partial:
            raise NeedPartial()
        return "none"

    # ---- dictionaries
    def dict_names(self, d):
        if d["kind"] in ("Xmd", "Xof"):
            return [d["rust"]]
        return KIND_PARAMS[d["kind"]]

    def find_dict(self, rust, kind):
        ds = [d for d in self.dicts if d["rust"] == rust and d["kind"] == kind]
        return ds[0] if len(ds) == 1 else None

    # ---- calls
    def call_sig(self, sig, leading, argnodes, env, e):
        if len(argnodes) != len(sig.params):
            self.fail("wrong number of arguments for %s" % sig.lean, e)
        parts = [sig.lean] + list(leading)
        for a, pt in zip(argnodes, sig.params):
            s, t = self.expr(a, env, pt if isinstance(pt, str) else None)
            if not self.compat(pt, t):
                self.fail("argument of type %s where %s is expected" % (lty(t), lty(pt)), a)
            parts.append(paren(s))
        text = " ".join(parts)
        if not sig.partial:
            return text, sig.ret
        if e is self.tailcall:
            return text, ("Opt", sig.ret)
        v = self.result_name(env, e)
        self.hoist([Line(0, "match %s with" % text),
                    Line(0, "| none => %s" % self.panic(), "(the callee panics)"),
                    Line(0, "| some %s =>" % v)], 1, e)
        return v, sig.ret

    def static_call(self, tyname, fn, args, env, e):
        for d in self.dicts:
            if d["rust"] != tyname:
                continue
            k = d["kind"]
            if k == "Xmd" and fn == "new" and not args:
                return "([] : Bytes)", ("Hasher", "Xmd", d["rust"])
            if k == "Xof" and fn == "default" and not args:
                return "([] : Bytes)", ("Hasher", "Xof", d["rust"])
            if k == "FromRO" and fn == "from_ro":
                return self.call_sig(Sig("from_ro", [("GArr", "Length")], d["elem"], True), [], args, env, e)
            if k == "BaseFromRO" and fn == "from_okm":
                return self.call_sig(Sig("from_okm", [("GArr", "BaseLength")], d["elem"], True), [], args, env, e)
            if k == "ExpandMsg" and fn == "expand_message":
                return self.call_sig(Sig("expand_message", ["Slice", "Slice", "Nat"], "Vec", True), [], args, env, e)
        if (tyname, fn) in self.reg:
            return self.call_sig(self.reg[(tyname, fn)], [], args, env, e)
        if (tyname, fn) == ("Cursor", "new") and len(args) == 1:
            s, t = self.expr(args[0], env)
            if not is_bytes(t):
                self.fail("Cursor::new of a value that is not a byte array", e)
            return s, "Reader"
        if tyname in REPR_BYTES and fn == "default" and not args:
            return "(0 : Nat)", tyname
        if tyname in REPR_OF and fn == "from_repr" and len(args) == 1:
            s, t = self.expr(args[0], env)
            if t != REPR_OF[tyname]:
                self.fail("from_repr of a value of type %s" % lty(t), e)
            return "E.%s.fromRepr %s" % (tyname, paren(s)), ("ReprRes", tyname)
        self.fail("call of an unknown function `%s::%s`" % (tyname, fn), e)

    def rpath(self, e, env, want):
        qself, segs, args = e[1], e[2], e[3]
        names = [s[0] for s in segs]
        if qself is None:
            g0 = segs[0][1]
            if names == ["Vec", "with_capacity"] and g0 is not None and len(g0) == 1 and args is not None and len(args) == 1:
                s, t = self.pure(lambda: self.expr(args[0], env, "Nat"))
                if t != "Nat":
                    self.fail("capacity is not a usize", e)
                el = self.conv_ty(g0[0])
                if el == "U8":
                    return "([] : Bytes)", "Vec"
                return "([] : List %s)" % lty(el, True), ("VecOf", el)
            if names[0] == "GenericArray" and len(names) == 2 and g0 is not None and len(g0) == 2 \
                    and g0[0] == ("name", "u8") and args is not None:
                L = self.tylen(g0[1])
                if names[1] == "default" and not args:
                    return "List.replicate %s (0 : UInt8)" % self.lentext(L), L
                if names[1] == "from_slice" and len(args) == 1:
                    s, t = self.expr(args[0], env)
                    if not is_bytes(t):
                        self.fail("from_slice of a value that is not a byte slice", e)
                    if t[0] == "Arr" and L[0] == "Arr":
                        if t[1] != L[1]:
                            self.fail("from_slice::<U%d> of %d bytes (would panic)" % (L[1], t[1]), e)
                        return s, L
                    if t == L:
                        return s, L
                    self.hoist([Line(0, "if %s.length ≠ %s then %s else" % (paren(s), self.lentext(L), self.panic()),
                                     "(from_slice: wrong length: panic)")], 0, e)
                    return s, L
            if len(segs) == 1 and g0 is not None and args is not None and ("fn", names[0]) in self.reg:
                sig = self.reg[("fn", names[0])]
                if len(g0) != len(sig.generics):
                    self.fail("wrong number of generic arguments", e)
                leading = []
                ret = sig.ret
                for ta, (g, kind) in zip(g0, sig.generics):
                    d = self.find_dict(canon(ta), kind)
                    if d is None:
                        self.fail("no `%s: %s` in scope" % (canon(ta), kind), e)
                    leading += self.dict_names(d)
                    if "elem" in d:
                        ret = subst_tvar(ret, g, d["elem"])
                sig2 = Sig(sig.lean, sig.params, ret, sig.partial)
                return self.call_sig(sig2, leading, args, env, e)
            self.fail("unsupported path expression", e)
        t, tr = qself
        ct, ctr = canon(t), canon(tr)
        if args is not None and not args and len(segs) == 2 and names[1] == "to_usize" and segs[0][1] is None:
            key = (ct, ctr, names[0])
            if key not in self.assoc:
                self.fail("unknown associated length `<%s as %s>::%s`" % key, e)
            return self.assoc[key], "Nat"
        if args is not None and len(segs) == 1 and segs[0][1] is None and names[0] in ARITH:
            d = self.find_dict(ct, "MapToCurve")
            if d is None or ctr != "MapToCurve<%s>" % ct:
                self.fail("no `%s: MapToCurve<%s>` in scope" % (ct, ct), e)
            lean, n, _, lead = ARITH[names[0]]
            sig = Sig(lean, [d["base"]] * n, d["pt"], True)
            return self.call_sig(sig, lead, args, env, e)
        self.fail("unsupported qualified path", e)

    # ---- expressions.  -> (text, type)
    def num(self, e, want):
        txt = self.src[e[-1][0]:e[-1][1]].replace("_", "")
        m = re.match(r"^(0x[0-9a-fA-F]+|[0-9]+)(u8|usize|u64|u32|i64|u128)?$", txt)
        if not m:
            self.fail("unsupported literal", e)
        body, suf = m.group(1), m.group(2)
        if suf == "u8" or (suf is None and want == "U8"):
            if e[1] > 255:
                self.fail("literal does not fit in u8", e)
            return "(%s : UInt8)" % body, "U8"
        if suf == "usize" or (suf is None and want == "Nat"):
            return body, "Nat"
        if suf is None:
            return body, "Lit"
        self.fail("unsupported literal type", e)

    def nat(self, e, env):
        s, t = self.expr(e, env, "Nat")
        if t != "Nat":
            self.fail("expected a usize, found %s" % lty(t), e)
        return s

    def expr(self, e, env, want=None):
        k = e[0]
        if k in ("ref", "deref", "refmut"):
            return self.expr(e[1], env, want)
        if k == "num":
            return self.num(e, want)
        if k == "path":
            if len(e[1]) == 1:
                v = self.var(env, e[1][0], e)
                return v.lean, v.ty
            self.fail("unknown name `%s`" % "::".join(e[1]), e)
        if k == "cast":
            tt = e[2]
            if tt != ("name", "u8"):
                self.fail("unsupported cast (only `as u8`)", e)
            s, t = self.expr(e[1], env, "Nat")
            if t == "U8":
                return s, "U8"
            if t != "Nat":
                self.fail("cast of a value of type %s" % lty(t), e)
            return "UInt8.ofNat %s" % paren(s), "U8"
        if k == "bin":
            return self.binop(e, env, want)
        if k == "array":
            items = []
            for x in e[1]:
                s, t = self.expr(x, env, "U8")
                if t != "U8":
                    self.fail("array element is not a u8", x)
                items.append(s)
            return "[%s]" % ", ".join(items), ("Arr", len(items))
        if k == "repeat":
            if e[2][0] != "num":
                self.fail("array repeat length must be a literal", e)
            s, t = self.expr(e[1], env, "U8")
            if t != "U8":
                self.fail("array element is not a u8", e)
            return "List.replicate %d %s" % (e[2][1], paren(s)), ("Arr", e[2][1])
        if k == "slice":
            return self.slice(e, env)
        if k == "index":
            s, t = self.expr(e[1], env)
            if isinstance(t, tuple) and t[0] == "VecOf":
                i = self.nat(e[2], env)
                v = self.fresh(env)
                self.hoist([Line(0, "match %s[%s]? with" % (paren(s), i)),
                            Line(0, "| none => %s" % self.panic(), "(index out of bounds: panic)"),
                            Line(0, "| some %s =>" % v)], 1, e)
                return v, t[1]
            self.fail("indexing of a value of type %s" % lty(t), e)
        if k == "struct":
            if e[1] != ["Fq2"] or [f for f, _ in e[2]] != ["c0", "c1"]:
                self.fail("unsupported struct literal", e)
            parts = []
            for f, v in e[2]:
                s, t = self.expr(v, env)
                if t != "Fq":
                    self.fail("field %s: expected Fq, found %s" % (f, lty(t)), v)
                parts.append("%s := %s" % (f, s))
            return "({ %s } : Fq2)" % ", ".join(parts), "Fq2"
        if k == "call":
            segs = e[1]
            if len(segs) == 2:
                return self.static_call(segs[0], segs[1], e[2], env, e)
            self.fail("call of an unknown function `%s`" % "::".join(segs), e)
        if k == "rpath":
            return self.rpath(e, env, want)
        if k == "mcall":
            return self.mcall(e, env, want)
        self.fail("unsupported expression", e)

    def binop(self, e, env, want):
        op = e[1]
        if op in ("+", "*", "-", "/", ">>", "%"):
            a = self.nat(e[2], env)
            if op == ">>":
                if e[3][0] != "num" or e[3][1] >= 64:
                    self.fail("shift amount must be a literal < 64", e)
                return "%s >>> %d" % (paren(a), e[3][1]), "Nat"
            b = self.nat(e[3], env)
            if op == "-":
                self.hoist([Line(0, "if %s < %s then %s else" % (paren(a), paren(b), self.panic()),
                                 "(usize subtraction underflow: panic)")], 0, e)
            if op in ("/", "%") and not (e[3][0] == "num" and e[3][1] != 0):
                self.hoist([Line(0, "if %s = 0 then %s else" % (paren(b), self.panic()),
                                 "(division by zero: panic)")], 0, e)
            return "%s %s %s" % (paren(a), op, paren(b)), "Nat"
        if op == "^":
            a, ta = self.expr(e[2], env, "U8")
            b, tb = self.expr(e[3], env, "U8")
            if ta != "U8" or tb != "U8":
                self.fail("`^` on values that are not u8", e)
            return "%s ^^^ %s" % (paren(a), paren(b)), "U8"
        if op in ("==", "!=", "<", ">", "<=", ">="):
            a = self.nat(e[2], env)
            b = self.nat(e[3], env)
            lop = {"==": "=", "!=": "≠", "<=": "≤", ">=": "≥"}.get(op, op)
            return "%s %s %s" % (paren(a), lop, paren(b)), "Prop"
        self.fail("unsupported operator %s" % op, e)

    def slice(self, e, env):
        s, t = self.expr(e[1], env)
        lo, hi = e[2], e[3]
        if not is_bytes(t):
            self.fail("slice of a value of type %s" % lty(t), e)
        if lo is None and hi is None:
            return s, (t if isinstance(t, tuple) else "Slice")
        if t[0] == "Arr":
            for b in (lo, hi):
                if b is not None and b[0] != "num":
                    self.fail("slice bounds of a fixed-length array must be literals", e)
            a = 0 if lo is None else lo[1]
            b = t[1] if hi is None else hi[1]
            if not (a <= b <= t[1]):
                self.fail("slice %d..%d is out of bounds of an array of %d bytes (would panic)" % (a, b, t[1]), e)
            if lo is None:
                return "%s.take %d" % (paren(s), b), ("Arr", b)
            if hi is None:
                return "%s.drop %d" % (paren(s), a), ("Arr", b - a)
            return "(%s.drop %d).take (%d - %d)" % (paren(s), a, b, a), ("Arr", b - a)
        a = None if lo is None else self.nat(lo, env)
        b = None if hi is None else self.nat(hi, env)
        if a is None:
            self.hoist([Line(0, "if %s.length < %s then %s else" % (paren(s), paren(b), self.panic()),
                             "(slice out of bounds: panic)")], 0, e)
            return "%s.take %s" % (paren(s), paren(b)), "Slice"
        if b is None:
            self.hoist([Line(0, "if %s.length < %s then %s else" % (paren(s), paren(a), self.panic()),
                             "(slice out of bounds: panic)")], 0, e)
            return "%s.drop %s" % (paren(s), paren(a)), "Slice"
        self.hoist([Line(0, "if %s < %s ∨ %s.length < %s then %s else" % (paren(b), paren(a), paren(s), paren(b), self.panic()),
                         "(slice out of bounds: panic)")], 0, e)
        return "(%s.drop %s).take (%s - %s)" % (paren(s), paren(a), paren(b), paren(a)), "Slice"

    def mcall(self, e, env, want):
        name, args = e[2], e[3]
        r, t = self.expr(e[1], env)
        if is_bytes(t):
            if name == "len" and not args:
                return "%s.length" % paren(r), "Nat"
            if name == "as_ref" and not args:
                return r, (t if isinstance(t, tuple) else "Slice")
            if name == "iter" and not args:
                return r, ("Iter", "U8")
        if isinstance(t, tuple) and t[0] == "Hasher":
            if name == "chain" and len(args) == 1:
                x, tx = self.expr(args[0], env)
                if not is_bytes(tx):
                    self.fail("`chain` of a value that is not a byte array", e)
                return "%s ++ %s" % (paren(r), paren(x)), t
            if name == "result" and not args and t[1] == "Xmd":
                return "%s.hash %s" % (t[2], paren(r)), ("GArr", "%s.outSize" % t[2])
            if name == "vec_result" and len(args) == 1 and t[1] == "Xof":
                n = self.nat(args[0], env)
                return "%s %s %s" % (t[2], paren(r), paren(n)), "Vec"
        if t == "Reader" and name == "chain" and len(args) == 1:
            x, tx = self.expr(args[0], env)
            if tx != "Reader":
                self.fail("`chain` of a reader with something that is not a reader", e)
            return "%s ++ %s" % (paren(r), paren(x)), "Reader"
        if isinstance(t, tuple) and t[0] == "Iter":
            if name == "zip" and len(args) == 1:
                x, tx = self.expr(args[0], env)
                if is_bytes(tx):
                    tx = ("Iter", "U8")
                if not (isinstance(tx, tuple) and tx[0] == "Iter"):
                    self.fail("`zip` with something that is not iterable", e)
                return "List.zip %s %s" % (paren(r), paren(x)), ("Iter", ("Tup", [t[1], tx[1]]))
            if name == "enumerate" and not args:
                return "H.enumerate %s" % paren(r), ("Iter", ("Tup", ["Nat", t[1]]))
        if isinstance(t, tuple) and t[0] == "ReprRes" and name == "unwrap" and not args:
            v = self.result_name(env, e)
            self.hoist([Line(0, "match %s with" % r),
                        Line(0, "| none => %s" % self.panic(), "(Err(NotInField): unwrap() panics)"),
                        Line(0, "| some %s =>" % v)], 1, e)
            return v, t[1]
        self.fail("unsupported method `%s` on a value of type %s" % (name, t if not is_bytes(t) else "bytes"), e)

    # ---- statements (continuation-passing: `rest(env, ind)` = the lines of what follows)
    def seq(self, stmts, tail, env, ind, k):
        if not stmts:
            if tail is None:
                if k is None:
                    raise ExtractError("%s: the function body has no final value" % self.what)
                return k(env, ind)
            return self.tail_value(tail, env, ind, k)
        s = stmts[0]
        return self.stmt(s, env, ind, lambda env2, ind2: self.seq(stmts[1:], tail, env2, ind2, k))

    def tail_value(self, e, env, ind, k):
        if k is not None:
            if e[0] in ("if", "panic"):
                return self.stmt(("expr", e, e[-1]), env, ind, k)
            self.fail("a value at the end of a block that is not the function body", e)
        cmt = Cmt(self.text(e[-1]))
        self.tailcall = strip(e)

        def f():
            return self.expr(e, env, self.rett if isinstance(self.rett, str) else None)

        def cont(res, ind2):
            v, t = res
            if isinstance(t, tuple) and t[0] == "Opt" and self.compat(self.rett, t[1]):
                self.panic()
                return [Line(ind2, v, cmt.take())]
            if not self.compat(self.rett, t):
                self.fail("returned value of type %s where %s is expected" % (t, self.rett), e)
            return [Line(ind2, "some %s" % paren(v) if self.partial else v, cmt.take())]
        try:
            return self.with_effects(f, ind, cmt, cont)
        finally:
            self.tailcall = None

    def let_line(self, env, name, value, ty, ind, cmt, rest, node, new):
        env2 = env.copy()
        if new:
            ln = lname(name)
            self.declare(env2, name, ln, ty)
        else:
            v = self.mutate(env2, name, node)
            ln = v.lean
            env2.vars[name] = Var(ln, ty, v.depth)
        return [Line(ind, "let %s := %s" % (ln, value), cmt.take())] + rest(env2, ind)

    def stmt(self, s, env, ind, rest):
        k = s[0]
        cmt = Cmt(self.text(s[-1]))
        if k == "let":
            pat, ty, e = s[1], s[2], s[3]
            if pat[0] != "pvar" or ty is not None:
                self.fail("unsupported `let` (pattern or type annotation)", s)

            def cont(res, ind2):
                v, t = res
                if t in ("Lit", "Prop", "Unit") or (isinstance(t, tuple) and t[0] in ("ReprRes", "Opt")):
                    self.fail("cannot bind a value of this kind", s)
                if v == lname(pat[1]) and self.letbound:
                    env2 = env.copy()
                    self.declare(env2, pat[1], v, t)
                    return rest(env2, ind2)
                return self.let_line(env, pat[1], v, t, ind2, cmt, rest, s, True)

            def f():
                self.letbind, self.letbound = (strip(e), lname(pat[1])), False
                try:
                    return self.expr(e, env)
                finally:
                    self.letbind = None
            return self.with_effects(f, ind, cmt, cont)
        if k == "const":
            return self.const(s, env, ind, cmt, rest)
        if k == "for":
            return self.for_stmt(s, env, ind, cmt, rest)
        if k == "expr":
            e = s[1]
            if e[0] == "panic":
                return [Line(ind, self.panic(), cmt.take())]
            if e[0] == "if":
                return self.if_stmt(e, env, ind, cmt, rest)
            if e[0] == "mcall":
                return self.mcall_stmt(e, s, env, ind, cmt, rest)
        self.fail("unsupported statement", s)

    def if_stmt(self, e, env, ind, cmt, rest):
        c, th, el = e[1], e[2], e[3]
        cs, ct = self.pure(lambda: self.expr(c, env))
        if ct != "Prop":
            self.fail("unsupported condition", c)
        lines = [Line(ind, "if %s then" % cs, "if %s {" % self.text(c[-1]))]
        lines += self.seq(th.stmts, th.tail, env.copy(), ind + 1, rest)
        if el is None:
            lines.append(Line(ind, "else", "}"))
            lines += rest(env.copy(), ind)
        elif el[0] == "block":
            lines.append(Line(ind, "else", "} else {"))
            lines += self.seq(el[1].stmts, el[1].tail, env.copy(), ind + 1, rest)
        else:
            self.fail("unsupported `else if`", e)
        return lines

    def const(self, s, env, ind, cmt, rest):
        name, ty, e = s[1], s[2], s[3]
        F = ty[1] if ty[0] == "name" else None
        ok = (F in REPR_OF and e[0] == "call" and e[1] == [F] and len(e[2]) == 1 and e[2][0][0] == "call"
              and e[2][0][1] == [REPR_OF[F]] and len(e[2][0][2]) == 1 and e[2][0][2][0][0] == "array")
        if not ok:
            self.fail("unsupported `const` (only `const C: Fq = Fq(FqRepr([limbs]))`)", s)
        limbs = e[2][0][2][0][1]
        if len(limbs) != REPR_LIMBS[REPR_OF[F]] or any(l[0] != "num" or l[1] >= 2 ** 64 for l in limbs):
            self.fail("the limbs of the constant are not %d u64 literals" % REPR_LIMBS[REPR_OF[F]], s)
        val = sum(l[1] << (64 * i) for i, l in enumerate(limbs))
        lean = "%s.%s" % (self.leanfn, name)
        if not any(c[0] == lean for c in self.consts):
            self.consts.append((lean, F, val, cmt.text))
        env2 = env.copy()
        self.declare(env2, name, "H." + lean, F)
        return [Line(ind, "", "const %s: %s = ..;   (H.%s above)" % (name, F, lean))] + rest(env2, ind)

    def mcall_stmt(self, e, s, env, ind, cmt, rest):
        name, args = e[2], e[3]
        recv = strip(e[1])
        # repr.read_be(reader).unwrap();
        if name == "unwrap" and not args and recv[0] == "mcall" and recv[2] == "read_be" and len(recv[3]) == 1:
            tgt = strip(recv[1])
            if tgt[0] != "path" or len(tgt[1]) != 1:
                self.fail("read_be on something that is not a variable", s)
            v = self.var(env, tgt[1][0], s)
            if v.ty not in REPR_BYTES:
                self.fail("read_be on a value of type %s" % lty(v.ty), s)
            rd = strip(recv[3][0])
            if rd[0] == "path":
                self.fail("read_be from a reader held in a variable is not supported", s)

            def cont(res, ind2):
                r, t = res
                if t != "Reader":
                    self.fail("read_be from something that is not a reader", s)
                env2 = env.copy()
                w = self.mutate(env2, tgt[1][0], s)
                return [Line(ind2, "match E.reprReadBe %d %s with" % (REPR_BYTES[v.ty], paren(r)), cmt.take()),
                        Line(ind2, "| .error _ => %s" % self.panic(), "(Err: unwrap() panics)"),
                        Line(ind2, "| .ok (%s, _) =>" % w.lean)] + rest(env2, ind2 + 1)
            return self.with_effects(lambda: self.expr(recv[3][0], env), ind, cmt, cont)
        if name == "for_each" and len(args) == 1:
            return self.for_each(e, s, env, ind, cmt, rest)
        if recv[0] == "path" and len(recv[1]) == 1:
            x = recv[1][0]
            v = self.var(env, x, s)
            if name == "extend_from_slice" and len(args) == 1 and v.ty == "Vec":
                def cont(res, ind2):
                    a, t = res
                    if not is_bytes(t):
                        self.fail("extend_from_slice of a value that is not a byte slice", s)
                    return self.let_line(env, x, "%s ++ %s" % (v.lean, paren(a)), "Vec", ind2, cmt, rest, s, False)
                return self.with_effects(lambda: self.expr(args[0], env), ind, cmt, cont)
            if name == "push" and len(args) == 1 and isinstance(v.ty, tuple) and v.ty[0] == "VecOf":
                def cont(res, ind2):
                    a, t = res
                    if t != v.ty[1]:
                        self.fail("push of a value of type %s" % lty(t), s)
                    return self.let_line(env, x, "%s ++ [%s]" % (v.lean, a), v.ty, ind2, cmt, rest, s, False)
                return self.with_effects(lambda: self.expr(args[0], env), ind, cmt, cont)
            if name == "truncate" and len(args) == 1 and v.ty == "Vec":
                def cont(res, ind2):
                    return self.let_line(env, x, "%s.take %s" % (v.lean, paren(res)), "Vec", ind2, cmt, rest, s, False)
                return self.with_effects(lambda: self.nat(args[0], env), ind, cmt, cont)
            if name in ("mul_assign", "add_assign") and len(args) == 1 and v.ty in ("Fq", "Fr"):
                def cont(res, ind2):
                    a, t = res
                    if t != v.ty:
                        self.fail("%s with a value of type %s" % (name, lty(t)), s)
                    op = "*" if name == "mul_assign" else "+"
                    return self.let_line(env, x, "%s %s %s" % (v.lean, op, paren(a)), v.ty, ind2, cmt, rest, s, False)
                return self.with_effects(lambda: self.expr(args[0], env), ind, cmt, cont)
        self.fail("unsupported statement", s)

    # ---- loops
    def fold(self, env, ind, cmt, bind, items, body, rest, node):
        """bind(env_body) declares the element variables and returns the binder text;
        body(env_body, ind, k) -> the lines of the body, ending every path with k(env, ind)"""
        rec = {"muts": set(), "panics": False, "depth": env.depth + 1}
        self.recorders.append(rec)
        nf = self.nfresh
        try:
            eb = env.copy()
            eb.depth += 1
            bind(eb)
            body(eb, 0, lambda e2, i2: [Line(i2, "\0END")])
        finally:
            self.recorders.pop()
            self.nfresh = nf
        st = [n for n in env.order if n in rec["muts"] and n in env.vars]
        if not st:
            self.fail("the loop body assigns no outer variable", node)
        may_panic = rec["panics"]

        def sttext(e2):
            names = [e2.vars[n].lean for n in st]
            return names[0] if len(names) == 1 else "(" + ", ".join(names) + ")"
        eb = env.copy()
        eb.depth += 1
        pat = bind(eb)

        def k(e2, i2):
            return [Line(i2, "some %s" % sttext(e2) if may_panic else sttext(e2))]
        bl = body(eb, ind + 2, k)
        env2 = env.copy()
        for n in st:
            self.mutate(env2, n, node)
        st0 = sttext(env)
        if may_panic:
            self.panic()
            return ([Line(ind, "match List.foldlM (m := Option) (fun %s %s =>" % (st0, pat), cmt.take())] + bl
                    + [Line(ind + 1, ") %s %s with" % (st0, paren(items)), "}"),
                       Line(ind, "| none => none", "(the loop body panics)"),
                       Line(ind, "| some %s =>" % st0)] + rest(env2, ind + 1))
        return ([Line(ind, "let %s := List.foldl (fun %s %s =>" % (st0, st0, pat), cmt.take())] + bl
                + [Line(ind + 1, ") %s %s" % (st0, paren(items)), "}")] + rest(env2, ind))

    def for_stmt(self, s, env, ind, cmt, rest):
        pat, it, body = s[1], s[2], s[3]
        if pat[0] != "pvar" or it[0] != "range":
            self.fail("unsupported `for` (only `for x in a..b`)", s)
        cmt = Cmt("for %s in %s {" % (pat[1], self.text(it[-1])))

        def f():
            return self.nat(it[1], env), self.nat(it[2], env)

        def cont(res, ind2):
            lo, hi = res
            if it[1][0] == "num" and it[1][1] == 0:
                items = "List.range %s" % paren(hi)
            else:
                items = "List.range' %s (%s - %s)" % (paren(lo), paren(hi), paren(lo))

            def bind(eb):
                self.declare(eb, pat[1], lname(pat[1]), "Nat")
                return lname(pat[1])
            return self.fold(env, ind2, cmt, bind, items,
                             lambda eb, i, k: self.seq(body.stmts, body.tail, eb, i, k), rest, s)
        return self.with_effects(f, ind, cmt, cont)

    def for_each(self, e, s, env, ind, cmt, rest):
        cl = e[3][0]
        if cl[0] != "closurep" or len(cl[1]) != 1:
            self.fail("for_each needs a closure with one parameter", s)

        def cont(res, ind2):
            items, t = res
            if not (isinstance(t, tuple) and t[0] == "Iter"):
                self.fail("for_each on something that is not an iterator", s)

            def bind(eb):
                def go(p, ty):
                    if p[0] == "pv":
                        self.declare(eb, p[1], lname(p[1]), ty)
                        return lname(p[1])
                    if not (isinstance(ty, tuple) and ty[0] == "Tup" and len(ty[1]) == len(p[1])):
                        self.fail("the closure pattern does not match the iterator's items", cl)
                    return "(" + ", ".join(go(q, u) for q, u in zip(p[1], ty[1])) + ")"
                return go(cl[1][0], t[1])

            def body(eb, i, k):
                b = cl[2]
                if b[0] != "assignx":
                    self.fail("unsupported closure body (only `a[i] = e`)", cl)
                lhs, rhs = strip(b[1]), b[2]
                tgt = strip(lhs[1]) if lhs[0] == "index" else None
                if tgt is None or tgt[0] != "path" or len(tgt[1]) != 1:
                    self.fail("unsupported assignment target", cl)
                x = tgt[1][0]
                v = self.var(eb, x, cl)
                if not is_bytes(v.ty):
                    self.fail("index assignment into a value of type %s" % lty(v.ty), cl)

                def f2():
                    j = self.nat(lhs[2], eb)
                    r, rt = self.expr(rhs, eb, "U8")
                    if rt != "U8":
                        self.fail("assigned value is not a u8", cl)
                    return j, r

                def cont2(res2, i2):
                    j, r = res2
                    chk = Line(i2, "if %s.length ≤ %s then %s else" % (v.lean, paren(j), self.panic()),
                               "(index out of bounds: panic)")
                    return [chk] + self.let_line(eb, x, "%s.set %s %s" % (v.lean, paren(j), paren(r)), v.ty, i2,
                                                 Cmt(self.text(b[-1])), k, cl, False)
                return self.with_effects(f2, i, Cmt(""), cont2)
            cm = Cmt(self.text(s[-1])[:110])
            return self.fold(env, ind2, cm, bind, items, body, rest, s)
        return self.with_effects(lambda: self.expr(e[1], env), ind, Cmt(""), cont)

    # ---- the function
    def run(self, ast, lean_name, tvars):
        name, bounds, params, ret, body = ast
        env0 = Env()
        ps = []
        for d in self.dicts:
            for n, t in dict_params(d):
                if d["kind"] in ("Xmd", "Xof"):
                    n = d["rust"]
                ps.append("(%s : %s)" % (n, t))
        for n, t in params:
            ty = self.conv_ty(t)
            self.declare(env0, n, lname(n), ty)
            ps.append("(%s : %s)" % (lname(n), lty(ty)))
        self.rett = self.conv_ty(ret) if ret is not None else "Unit"
        if self.rett == "Unit":
            raise ExtractError("%s: functions without a value are not supported" % self.what)
        for attempt in (False, True):
            self.partial = attempt
            self.nfresh = 0
            self.consts = []
            try:
                lines = self.seq(body.stmts, body.tail, env0.copy(), 1, None)
                break
            except NeedPartial:
                if attempt:
                    raise ExtractError("%s: internal: partiality" % self.what)
        rt = lty(self.rett, True)
        if self.partial:
            rt = "Option %s" % rt
        imp = "{%s : Type} " % " ".join(tvars) if tvars else ""
        sigline = "def %s %s%s : %s :=" % (lean_name, imp, " ".join(ps), rt)
        return sigline.replace("  ", " "), lines, Sig("H." + lean_name, [self.conv_ty(t) for _, t in params],
                                                      self.rett, self.partial)


def subst_tvar(t, g, by):
    if t == ("TVar", g):
        return by
    if isinstance(t, tuple) and t[0] in ("VecOf", "Opt", "Iter"):
        return (t[0], subst_tvar(t[1], g, by))
    return t


# ================================================================ targets

HF = "src/hash_to_field.rs"
HC = "src/hash_to_curve.rs"
FQ = "src/bls12_381/fq.rs"
FR = "src/bls12_381/fr.rs"
FQ2 = "src/bls12_381/fq2.rs"

RX_XMD = (r"\bimpl\s*<\s*HashT\s*>\s*ExpandMsg\s+for\s+ExpandMsgXmd\s*<\s*HashT\s*>\s*where\s+HashT\s*:\s*Digest\s*\+\s*"
          r"BlockInput\s*,?\s*\{")
RX_XOF = (r"\bimpl\s*<\s*HashT\s*>\s*ExpandMsg\s+for\s+ExpandMsgXof\s*<\s*HashT\s*>\s*where\s+HashT\s*:\s*Default\s*\+\s*"
          r"ExtendableOutput\s*\+\s*Input\s*,?\s*\{")
RX_BLANKET = r"\bimpl\s*<\s*T\s*:\s*BaseFromRO\s*>\s*FromRO\s+for\s+T\s*\{"
RX_FQ = r"\bimpl\s+BaseFromRO\s+for\s+Fq\s*\{"
RX_FR = r"\bimpl\s+BaseFromRO\s+for\s+Fr\s*\{"
RX_FQ2 = r"\bimpl\s+FromRO\s+for\s+Fq2\s*\{"
RX_HTC = (r"\bimpl\s*<\s*PtT\s*,\s*X\s*>\s*HashToCurve\s*<\s*X\s*>\s*for\s+PtT\s*where\s+PtT\s*:\s*ClearH\s*\+\s*IsogenyMap\s*"
          r"\+\s*OSSWUMap\s*,\s*<\s*PtT\s+as\s+CurveProjective\s*>\s*::\s*Affine\s*:\s*SubgroupCheck\s*,\s*CoordT\s*<\s*PtT\s*>"
          r"\s*:\s*FromRO\s*,\s*X\s*:\s*ExpandMsg\s*,?\s*\{")

T_ = ("TVar", "T")
HTC_DICTS = [{"kind": "FromRO", "rust": "CoordT<PtT>", "elem": ("TVar", "Base")},
             {"kind": "ExpandMsg", "rust": "X"},
             {"kind": "MapToCurve", "rust": "PtT", "base": ("TVar", "Base"), "pt": ("TVar", "PtT")}]
HTC_TYMAP = {"PtT": ("TVar", "PtT"), "CoordT<PtT>": ("TVar", "Base"), "Mt": "Slice", "Dt": "Slice"}
HTC_BOUNDS = {"Mt": "AsRef<[u8]>", "Dt": "AsRef<[u8]>"}

# textual checks: (item name, file, container regexes, regex that must match exactly once inside)
CHECKS = [
    ("decl:trait FromRO", HF, [r"\bpub\s+trait\s+FromRO\s*\{"],
     r"\bfn\s+from_ro\s*\(\s*okm\s*:\s*&\s*GenericArray\s*<\s*u8\s*,\s*<\s*Self\s+as\s+FromRO\s*>\s*::\s*Length\s*>\s*\)\s*->\s*Self\s*;"),
    ("decl:trait BaseFromRO", HF, [r"\bpub\s+trait\s+BaseFromRO\s*\{"],
     r"\bfn\s+from_okm\s*\(\s*okm\s*:\s*&\s*GenericArray\s*<\s*u8\s*,\s*<\s*Self\s+as\s+BaseFromRO\s*>\s*::\s*BaseLength\s*>\s*\)\s*->\s*Self\s*;"),
    ("decl:trait ExpandMsg", HF, [r"\bpub\s+trait\s+ExpandMsg\s*\{"],
     r"\bfn\s+expand_message\s*\(\s*msg\s*:\s*&\s*\[\s*u8\s*\]\s*,\s*dst\s*:\s*&\s*\[\s*u8\s*\]\s*,\s*len_in_bytes\s*:\s*usize\s*\)\s*->\s*Vec\s*<\s*u8\s*>\s*;"),
    ("assoc:FromRO for T::Length", HF, [RX_BLANKET],
     r"\btype\s+Length\s*=\s*<\s*T\s+as\s+BaseFromRO\s*>\s*::\s*BaseLength\s*;"),
    ("decl:type CoordT", HC, [], r"\btype\s+CoordT\s*<\s*PtT\s*>\s*=\s*<\s*PtT\s+as\s+CurveProjective\s*>\s*::\s*Base\s*;"),
]

TARGETS = [
    dict(file=HF, path=[], fn="hash_to_field", lean="hashToField", key=("fn", "hash_to_field"),
         tvars=["T"], tymap={"T": T_}, bounds={"T": "FromRO", "X": "ExpandMsg"},
         dicts=[{"kind": "FromRO", "rust": "T", "elem": T_}, {"kind": "ExpandMsg", "rust": "X"}],
         generics=[("T", "FromRO"), ("X", "ExpandMsg")]),
    dict(file=HF, path=[RX_BLANKET], fn="from_ro", lean="FromRO.fromRo", key=("FromRO for T", "from_ro"),
         tvars=["T"], tymap={"T": T_}, bounds={},
         dicts=[{"kind": "BaseFromRO", "rust": "T", "elem": T_}],
         assoc={("Self", "FromRO", "Length"): "BaseLength"}, owner="impl<T: BaseFromRO> FromRO for T"),
    dict(file=HF, path=[RX_XOF], fn="expand_message", lean="ExpandMsgXof.expandMessage",
         key=("ExpandMsgXof", "expand_message"), tvars=[], tymap={}, bounds={},
         dicts=[{"kind": "Xof", "rust": "HashT"}], owner="impl ExpandMsg for ExpandMsgXof<HashT>"),
    dict(file=HF, path=[RX_XMD], fn="expand_message", lean="ExpandMsgXmd.expandMessage",
         key=("ExpandMsgXmd", "expand_message"), tvars=[], tymap={}, bounds={},
         dicts=[{"kind": "Xmd", "rust": "HashT"}], owner="impl ExpandMsg for ExpandMsgXmd<HashT>"),
    dict(assoc_const=("BaseLength", "Fq.BaseLength"), file=FQ, path=[RX_FQ]),
    dict(file=FQ, path=[RX_FQ], fn="from_okm", lean="Fq.fromOkm", key=("Fq", "from_okm"),
         tvars=[], tymap={"Fq": "Fq", "FqRepr": "FqRepr"}, bounds={}, dicts=[], owner="impl BaseFromRO for Fq",
         okm_len="Fq.BaseLength"),
    dict(assoc_const=("BaseLength", "Fr.BaseLength"), file=FR, path=[RX_FR]),
    dict(file=FR, path=[RX_FR], fn="from_okm", lean="Fr.fromOkm", key=("Fr", "from_okm"),
         tvars=[], tymap={"Fr": "Fr", "FrRepr": "FrRepr"}, bounds={}, dicts=[], owner="impl BaseFromRO for Fr",
         okm_len="Fr.BaseLength"),
    dict(assoc_const=("Length", "Fq2.Length"), file=FQ2, path=[RX_FQ2]),
    dict(file=FQ2, path=[RX_FQ2], fn="from_ro", lean="Fq2.fromRo", key=("Fq2", "from_ro"),
         tvars=[], tymap={"Fq": "Fq", "Fq2": "Fq2"}, bounds={}, dicts=[], owner="impl FromRO for Fq2",
         okm_len="Fq2.Length"),
    dict(file=HC, path=[RX_HTC], fn="hash_to_curve", lean="HashToCurve.hashToCurve",
         key=("HashToCurve", "hash_to_curve"), tvars=["Base", "PtT"], tymap=HTC_TYMAP, bounds=HTC_BOUNDS,
         dicts=HTC_DICTS, owner="impl<PtT, X> HashToCurve<X> for PtT"),
    dict(file=HC, path=[RX_HTC], fn="encode_to_curve", lean="HashToCurve.encodeToCurve",
         key=("HashToCurve", "encode_to_curve"), tvars=["Base", "PtT"], tymap=HTC_TYMAP, bounds=HTC_BOUNDS,
         dicts=HTC_DICTS, owner="impl<PtT, X> HashToCurve<X> for PtT"),
]

HEADER = """/- GENERATED by /verif/extract/extract_hash.py from /repo -- do not edit.

The hashing glue: `expand_message` (XMD and XOF), `hash_to_field`, `from_okm` / `from_ro`
(src/hash_to_field.rs, src/bls12_381/fq.rs, fr.rs, fq2.rs) and `hash_to_curve` / `encode_to_curve`
(src/hash_to_curve.rs): one Lean definition per Rust function, one line per Rust statement (the statement
is the trailing comment).  Byte slices, `Vec<u8>`, `[u8; N]`, `GenericArray<u8, N>` are `Bytes`, `Vec<T>`
is `List T`, `usize` is `Nat` (`+` `*` do not overflow), `u8` is `UInt8`; `x as u8` is `UInt8.ofNat x`.
A PANIC (`panic!`, `unwrap()` of an error, a slice / index / `from_slice` length check that fails, usize
subtraction underflow, division by zero, a callee that panics) is `none`, the function is then
`Option`-valued; the checks are hoisted into `if` / `match` lines in front of the statement.  Lengths of
byte arrays that are literals in the Rust types (`GenericArray<u8, U64>`, `[0; 16]`, `okm[..32]`) are
checked by the translator and leave no run-time check.  `for x in a..b` is a fold over `List.range' a
(b - a)` with the assigned outer variables as state (`List.foldlM` in `Option` if the body may panic), and
so is `it.for_each(|PAT| ..)`.  Code generic over a trait takes the trait's items as leading parameters
named as in Rust (`Length from_ro`, `BaseLength from_okm`, `expand_message`, `osswu_map isogeny_map
clear_h add_assign`); `map_to_curve` / `map2_to_curve` are the definitions generated in Arith.lean.

PRIMITIVES that are NOT in /repo and are therefore assumed, not translated:
  * the hash function (crates `digest`, `sha2`, `sha3`): a PARAMETER.  `HashT: Digest + BlockInput` is the
    model's structure type `XmdHash` (`hash : Bytes → Bytes`, `outSize` = `OutputSize::to_usize()`,
    `blockSize` = `BlockSize::to_usize()`); `HashT: Default + ExtendableOutput + Input` is a function
    `Bytes → Nat → Bytes` (input, number of output bytes).  A hasher VALUE is the list of the bytes fed so
    far: `HashT::new()` / `HashT::default()` is `[]`, `h.chain(x)` is `h ++ x` (i.e. `.chain(a).chain(b)`
    hashes the concatenation `a ++ b`: the streaming property of `digest::Input`), `h.result()` is
    `HashT.hash h` (a `GenericArray` of `HashT.outSize` bytes), `h.vec_result(n)` is `HashT h n`;
  * `GenericArray::<u8, N>::default()` is `List.replicate N 0`; `from_slice(s)` is `s`, and panics unless
    `s.len() == N`; `Vec::with_capacity(n)` is `[]`, `extend_from_slice` is `++`, `truncate(n)` is `take n`,
    `push(x)` is `++ [x]`, `v[a..b]` is `(v.drop a).take (b - a)` and panics unless `a ≤ b ≤ v.len()`;
  * iterators (std): `s.iter()` is the list `s`, `zip` is `List.zip`, `enumerate` is `H.enumerate` below;
  * `std::io::Cursor::new(x)` is the list of bytes still to be read, `Read::chain` is `++`;
    `FqRepr::read_be`, `Fq::from_repr` (ff crate / its derive macro) are `E.reprReadBe`, `E.Fq.fromRepr`
    of the header of Enc.lean; `FqRepr::default()` is `0`; `Fq(FqRepr(limbs))` is `Fq.ofMont` of the
    integer the limbs denote (the model's reading of a raw Montgomery representation); `mul_assign` /
    `add_assign` of `Fq` / `Fr` are the model's `*` / `+` (the derive-generated limb code is translated in
    Derive.lean / MontProg.lean and proved equal to them there).
NOT TRANSLATED: the trait declarations `FromRO`, `BaseFromRO`, `ExpandMsg`, `HashToCurve` (no code; the
signatures of `from_ro` / `from_okm` / `expand_message` are checked textually), the marker structs
`ExpandMsgXof` / `ExpandMsgXmd` (`PhantomData`), the type alias `CoordT` (checked textually).  The
instantiation of the generic `hash_to_curve` / `encode_to_curve` for G1 and G2 (trait resolution:
`OSSWUMap`, `IsogenyMap`, `ClearH`, `CurveProjective::add_assign`, `FromRO` for `Fq` / `Fq2`) is done by
the THEOREMS of PP/Props/GenHash.lean, which pass the generated implementations by name.
PP/Proofs/GenHash.lean proves each definition equal to the model's (PP/Model/Map.lean).
-/
import PP.Gen.Arith
import PP.Gen.Enc
import PP.Model.Map

set_option linter.unusedVariables false   -- e.g. a trait item that a function does not use

namespace PP.Gen.H

/-! ## primitive of std (not in /repo) -/

/-- `Iterator::enumerate` on the list of the elements still to come: pairs (index, element) -/
def enumerate {α : Type} (l : List α) : List (Nat × α) := List.zip (List.range l.length) l
"""


def translate(repo_dir):
    items = []
    cache = {}

    def load(rel):
        if rel not in cache:
            p = os.path.join(repo_dir, rel)
            try:
                raw = open(p).read()
            except OSError as e:
                raise ExtractError("cannot read %s: %s" % (p, e))
            cache[rel] = (raw, blank_comments(raw))
        return cache[rel]

    def item(name, rel, a, b):
        raw, src = load(rel)
        items.append({"item": "hash:" + name, "file": rel,
                      "lines": [src.count("\n", 0, a) + 1, src.count("\n", 0, b) + 1],
                      "sha256": hashlib.sha256(raw[a:b].encode()).hexdigest()})

    def container(rel, path, what):
        _, src = load(rel)
        a, b = 0, len(src)
        for rx in path:
            _, a, b = find_container(src, a, b, rx, what)
        return a, b

    atext, _, _ = XA.translate(repo_dir)
    for key, (lean, n, sigline, lead) in ARITH.items():
        if ("\n" + sigline + "\n") not in atext:
            raise ExtractError("Arith.lean: the generated signature `%s` is not there" % sigline)
    for name, rel, path, rx in CHECKS:
        _, src = load(rel)
        a, b = container(rel, path, "%s: %s" % (rel, name))
        ms = list(re.finditer(rx, src[a:b]))
        if len(ms) != 1:
            raise ExtractError("%s: %s: expected exactly one match of /%s/, found %d" % (rel, name, rx, len(ms)))
        item(name, rel, a + ms[0].start(), a + ms[0].end())

    reg = {}
    consts = {}
    out = [HEADER]
    cur_file = None
    names = []
    for tg in TARGETS:
        rel = tg["file"]
        raw, src = load(rel)
        if rel != cur_file:
            out.append("\n/-! ## %s -/\n" % rel)
            cur_file = rel
        if "assoc_const" in tg:
            an, lean = tg["assoc_const"]
            what = "%s: type %s (-> %s)" % (rel, an, lean)
            a, b = container(rel, tg["path"], what)
            ms = list(re.finditer(r"\btype\s+%s\s*=\s*U(\d+)\s*;" % an, src[a:b]))
            if len(ms) != 1:
                raise ExtractError("%s: expected exactly one `type %s = U<n>;`, found %d" % (what, an, len(ms)))
            item(lean, rel, a + ms[0].start(), a + ms[0].end())
            consts[lean] = int(ms[0].group(1))
            ln = src.count("\n", 0, a + ms[0].start()) + 1
            out.append("/-- `%s`  (%s:%d) -/" % (" ".join(ms[0].group(0).split()), rel, ln))
            out.append("def %s : Nat := %d\n" % (lean, consts[lean]))
            names.append(lean)
            continue
        lean_name = tg["lean"]
        what = "%s: fn %s (-> %s)" % (rel, tg["fn"], lean_name)
        a, b = container(rel, tg["path"], what)
        ms = [m for m in re.finditer(r"\bfn\s+%s\b" % re.escape(tg["fn"]), src[a:b])]
        if len(ms) != 1:
            raise ExtractError("%s: expected exactly one `fn %s` in its container, found %d" % (what, tg["fn"], len(ms)))
        f0 = a + ms[0].start()
        o = src.index("{", f0)
        if ";" in src[f0:o]:
            raise ExtractError("%s: the function has no body" % what)
        f1 = match_close(src, o)
        ast = parse_fn(src, f0, f1, what)
        got = {g: (canon(t) if t is not None else None) for g, t in ast[1].items()}
        if got != tg["bounds"]:
            raise ExtractError("%s: the generic parameters / bounds changed: %r (expected %r)" % (what, got, tg["bounds"]))
        tr = FnT(reg, src, what, tg["tymap"], tg["dicts"], tg.get("assoc", {}), lean_name)
        sigline, lines, sig = tr.run(ast, lean_name, tg["tvars"])
        if "okm_len" in tg:
            if sig.params != [("Arr", consts[tg["okm_len"]])]:
                raise ExtractError("%s: the parameter is not a GenericArray of %s = %d bytes"
                                   % (what, tg["okm_len"], consts[tg["okm_len"]]))
        sig.generics = tg.get("generics", ())
        if tg["key"] in reg:
            raise ExtractError("%s: duplicate registry key %r" % (what, tg["key"]))
        reg[tg["key"]] = sig
        item(lean_name, rel, f0, f1)
        l0, l1 = src.count("\n", 0, f0) + 1, src.count("\n", 0, f1) + 1
        for cl, F, val, ctext in tr.consts:
            out.append("/-- `%s`  (in `fn %s`) -/" % (re.sub(r"\s+", " ", ctext)[:400], tg["fn"]))
            out.append("def %s : %s := %s.ofMont 0x%x\n" % (cl, F, F, val))
            names.append(cl)
        owner = (": " + tg["owner"]) if tg.get("owner") else ""
        out.append("/-- `%s`  (%s%s, %d-%d) -/" % (" ".join(src[f0:o].split()), rel, owner, l0, l1))
        out.append(sigline)
        out.append(render(lines))
        out.append("")
        names.append(lean_name)
    out.append("end PP.Gen.H")
    return "\n".join(out) + "\n", items, names


def emit(repo_dir, gen_dir, error_cls=None):
    """Write gen_dir/HashGlue.lean (only when its content changes); return the manifest items.
    Raises ExtractError (or error_cls, if given) on anything unrecognised."""
    global CHANGED
    try:
        text, items, _ = translate(repo_dir)
    except ExtractError as e:
        if error_cls is not None:
            raise error_cls("hash: " + str(e))
        raise
    path = os.path.join(gen_dir, "HashGlue.lean")
    old = open(path).read() if os.path.exists(path) else None
    CHANGED = old != text
    if CHANGED:
        with open(path + ".tmp", "w") as f:
            f.write(text)
        os.replace(path + ".tmp", path)
    return items


if __name__ == "__main__":
    verif = os.path.dirname(os.path.dirname(os.path.abspath(__file__)))
    repo = sys.argv[1] if len(sys.argv) > 1 else os.environ.get("PP_REPO", "/repo")
    gen = sys.argv[2] if len(sys.argv) > 2 else os.path.join(verif, "lean", "PP", "Gen")
    try:
        its = emit(repo, gen)
    except ExtractError as e:
        print("EXTRACT-ERROR: %s" % e)
        sys.exit(2)
    print("extract_hash: %d items, HashGlue.lean %s" % (len(its), "rewritten" if CHANGED else "unchanged"))
