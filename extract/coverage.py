#!/usr/bin/env python3
"""Coverage audit of the translators: every non-test function / method / trait impl item of /repo/src
against what the translators (`extract/extract*.py`) produced on their last run.

    python3 extract/coverage.py                  # rewrites notes/COVERAGE.md, prints the NOT COVERED list
    python3 extract/coverage.py --ignore rest    # as if the section(s) with these manifest prefixes did not exist
    python3 extract/coverage.py --stdout         # the table on stdout instead of notes/COVERAGE.md

Inputs (nothing is executed or regenerated; python3 stdlib only):
  * the Rust sources under $PP_REPO/src (default /repo) -- `#[cfg(test)]` items, `#[test]` functions and the
    `tests` directories / `tests.rs` files are skipped;
  * /verif/gen_manifest.json (the items the translators produced on their last run: file, line span, sha256);
  * the generated files /verif/lean/PP/Gen/*.lean (a `translated` item must have its `def` there) and the
    statements of /verif/lean/PP/Props/Gen*.lean (the equality theorems that mention the definition);
  * the macro-expanded crate cached by extract.py (only to list what `#[derive(PrimeField)]` generated).

An item is listed as
  translated                        a generated definition for it exists (manifest item + `def` in the Gen file);
                                    the theorems of the Props module whose statement mentions it are named
  constant/table extracted          the whole item is a constant / table / addition chain / ladder that a
                                    section of extract.py extracts (and whose body shape it checks)
  derive-generated                  produced by a derive macro: `covered by Gen/Derive.lean` or not
  wrapper checked textually         an extractor compares its text with a fixed expected text
  hook                              compiled only with `--cfg pairing_plus_verif` (harness re-exports)
  formatting/marker trait           Debug Display Clone Copy Eq Hash Zeroize Default Error ..: no arithmetic
  NOT COVERED                       none of the above (the reason column says what is known)
Exit status 0 (the list of NOT COVERED items is information, not an error).
"""
import json
import os
import re
import sys

HERE = os.path.dirname(os.path.abspath(__file__))
sys.path.insert(0, HERE)
import extract_arith as XA          # noqa: E402  (tokenizer helpers: blank_comments, match_close)

VERIF = os.path.dirname(HERE)
REPO = os.environ.get("PP_REPO", "/repo")
GEN = os.path.join(VERIF, "lean", "PP", "Gen")
PROPS = os.path.join(VERIF, "lean", "PP", "Props")

# manifest prefix -> (Gen file, namespace prefix of the definitions, Props module)
TRANSLATORS = {
    "arith": ("Arith.lean", "A", "GenArith"),
    "enc": ("Enc.lean", "E", "GenEnc"),
    "pair": ("Pair.lean", "P", "GenPair"),
    "isoeval": ("Iso.lean", "I", "GenIso"),
    "hash": ("HashGlue.lean", "H", "GenHash"),
    "msm": ("Msm.lean", "M", "GenMsm"),
    "rest": ("Rest.lean", "R", "GenRest"),
}
# sub-kinds of manifest items that are checks / declarations, not definitions
CHECK_KINDS = ("check", "decl", "assoc", "macro", "struct", "table")
# manifest items of extract.py proper: constants / tables / chains
CONST_PREFIXES = ("chain", "ladder", "recommend", "pippinger", "g1", "g2", "fq2", "osswu", "iso", "attr")
CONST_FILES = {"chain": "Chains.lean", "ladder": "Curve.lean", "recommend": "Curve.lean", "pippinger": "Curve.lean",
               "g1": "Curve.lean", "g2": "Curve.lean", "fq2": "FqConsts.lean", "osswu": "Maps.lean",
               "iso": "Maps.lean", "attr": "Fields.lean"}
PLAIN_CONST_FILES = ("FqConsts.lean", "Curve.lean", "Fields.lean", "Maps.lean")

MARKER_TRAITS = {
    "Debug": "formatting", "Display": "formatting", "fmt::Debug": "formatting", "fmt::Display": "formatting",
    "::std::fmt::Display": "formatting", "::std::fmt::Debug": "formatting",
    "Clone": "marker (bitwise copy)", "Copy": "marker", "Eq": "marker", "Hash": "marker", "Send": "marker",
    "Sync": "marker", "Zeroize": "overwrites memory with zeros; not arithmetic",
    "Default": "default value", "::std::default::Default": "default value",
    "Error": "error description strings", "AsRef<[u8]>": "view of the byte array", "AsMut<[u8]>": "view of the byte array",
}


def norm(s):
    return " ".join(s.split())


# ================================================================ scanning the Rust sources

class Item:
    def __init__(self, rel, l0, l1, ctx, kind, name, hook=False, note=""):
        self.rel, self.l0, self.l1, self.ctx, self.kind, self.name = rel, l0, l1, ctx, kind, name
        self.hook, self.note = hook, note
        self.status, self.detail = None, ""

    def label(self):
        c = " / ".join(self.ctx)
        if self.kind == "fn":
            return ("%s :: fn %s" % (c, self.name)) if c else "fn %s" % self.name
        return ("%s :: %s" % (c, self.name)) if c else self.name


ITEM_RX = re.compile(r"\b(?:(impl|trait|mod|fn|struct|enum|const|static)\b|(macro_rules!))")


def attrs_before(src, pos):
    """attributes (`#[..]`, possibly several, possibly multi-line) directly before the item at pos (pos is
    the start of the item keyword or of its `pub` / `unsafe` qualifiers)"""
    out = []
    k = pos
    while True:
        j = k
        while j > 0 and src[j - 1].isspace():
            j -= 1
        if j > 0 and src[j - 1] == "]":
            depth, i = 0, j - 1
            while i >= 0:
                if src[i] == "]":
                    depth += 1
                elif src[i] == "[":
                    depth -= 1
                    if depth == 0:
                        break
                i -= 1
            if i > 0 and src[i - 1] == "#":
                out.append(norm(src[i - 1:j]))
                k = i - 1
                continue
            if i > 1 and src[i - 2:i] == "#!":
                return out
        return out


def qual_start(src, pos):
    """start of the qualifiers (`pub`, `pub(crate)`, `unsafe`, `const`, `default`) before the keyword at pos"""
    k = pos
    while True:
        m = re.search(r"(pub(?:\s*\([^)]*\))?|unsafe|const|async|extern\s*\"[^\"]*\")\s*$", src[:k])
        if not m:
            return k
        k = m.start()


def scan(src, a, b, ctx, rel, out, hook, in_fn=False):
    i = a
    while i < b:
        m = ITEM_RX.search(src, i, b)
        if not m:
            return
        kw = m.group(1) or m.group(2)
        q0 = qual_start(src, m.start())
        ats = attrs_before(src, q0)
        is_test = any(re.search(r"cfg\(\s*test\s*\)", x) or x == "#[test]" for x in ats)
        is_hook = hook or any("pairing_plus_verif" in x for x in ats)
        line = src.count("\n", 0, m.start()) + 1
        if kw in ("const", "static"):
            # `const NAME: T = ..;`  (not `const fn`, not `*const T`)
            mm = re.match(r"(const|static)\s+(?:mut\s+)?([A-Za-z_]\w*)\s*:", src[m.start():b])
            if not mm or (m.start() > 0 and src[m.start() - 1] == "*"):
                i = m.end()
                continue
            j, depth = m.end(), 0
            while j < b:
                c = src[j]
                if c in "([{":
                    depth += 1
                elif c in ")]}":
                    depth -= 1
                elif c == ";" and depth == 0:
                    break
                j += 1
            if not is_test:
                out.append(Item(rel, line, src.count("\n", 0, j) + 1, ctx, "const", "const " + mm.group(2), is_hook))
            i = j + 1
            continue
        if in_fn and kw != "fn":
            i = m.end()
            continue
        if kw == "fn":
            mm = re.match(r"fn\s+(\w+)", src[m.start():b])
            if not mm:
                i = m.end()
                continue
            j, depth = m.end(), 0
            while j < b:
                c = src[j]
                if c in "(<[":
                    depth += 1
                elif c in ")]" or (c == ">" and src[j - 1] != "-"):
                    depth -= 1
                elif c in "{;" and depth <= 0:
                    break
                j += 1
            if j >= b or src[j] == ";":
                i = j + 1            # a declaration without body (required trait method)
                continue
            e = XA.match_close(src, j)
            if not is_test:
                out.append(Item(rel, line, src.count("\n", 0, e) + 1, ctx, "fn", mm.group(1), is_hook))
                scan(src, j + 1, e - 1, ctx + ["fn " + mm.group(1)], rel, out, is_hook, in_fn=True)
            i = e
            continue
        if kw in ("struct", "enum"):
            mm = re.match(r"(struct|enum)\s+(\$?\w+)", src[m.start():b])
            j = m.end()
            while j < b and src[j] not in "{;(":
                j += 1
            if j < b and src[j] == "(":
                j = XA.match_close(src, j, "(", ")")
                while j < b and src[j] != ";":
                    j += 1
                e = j + 1
            elif j < b and src[j] == "{":
                e = XA.match_close(src, j)
            else:
                e = j + 1
            if mm and not is_test:
                for x in ats:
                    dm = re.match(r"#\[derive\((.*)\)\]$", x)
                    if dm:
                        for tr in [t.strip() for t in dm.group(1).split(",") if t.strip()]:
                            out.append(Item(rel, line, src.count("\n", 0, e) + 1, ctx, "derive",
                                            "#[derive(%s)] for %s" % (tr, mm.group(2)), is_hook))
            i = e
            continue
        # impl / trait / mod / macro_rules!
        j = m.end()
        while j < b and src[j] not in "{;":
            j += 1
        if j >= b or src[j] == ";":
            i = j + 1
            continue
        e = XA.match_close(src, j)
        hdr = norm(src[m.start():j])
        if kw == "impl":
            hdr = re.sub(r"\s*where .*$", "", hdr)
        if kw == "trait":
            hdr = re.sub(r":.*$", "", hdr)
        if is_test:
            i = e
            continue
        inner = src[j + 1:e - 1]
        if kw == "impl" and not re.search(r"\bfn\b", inner):
            out.append(Item(rel, line, src.count("\n", 0, e) + 1, ctx, "impl",
                            hdr + (" {}" if not inner.strip() else " { associated types / constants only }"), is_hook))
        scan(src, j + 1, e - 1, ctx + [hdr], rel, out, is_hook)
        i = e


def source_files():
    out = []
    for d, _, fs in os.walk(os.path.join(REPO, "src")):
        for f in fs:
            if not f.endswith(".rs"):
                continue
            rel = os.path.relpath(os.path.join(d, f), REPO)
            if "/tests/" in rel or rel.endswith("/tests.rs"):
                continue
            out.append(rel)
    order = ["src/lib.rs", "src/wnaf.rs", "src/serdes.rs", "src/signum.rs", "src/hash_to_field.rs",
             "src/hash_to_curve.rs", "src/map_to_curve.rs"]
    return sorted(out, key=lambda r: (order.index(r) if r in order else len(order), r))


# ================================================================ the translators' output

def load_theorems(module):
    """[(name, statement text)] of PP/Props/<module>.lean"""
    p = os.path.join(PROPS, module + ".lean")
    if not os.path.exists(p):
        return []
    text = open(p).read()
    out = []
    for m in re.finditer(r"(?m)^theorem\s+(\S+)(.*?)(?=^theorem\s|^end\b|^/-|^section\b|^namespace\b|\Z)", text, re.S):
        out.append((m.group(1), m.group(2)))
    return out


def mentions(stmt, qual):
    return re.search(r"(?<![A-Za-z0-9_.'])%s(?![A-Za-z0-9_'.])" % re.escape(qual), stmt) is not None


class Output:
    def __init__(self, ignore):
        man = json.load(open(os.path.join(VERIF, "gen_manifest.json")))
        self.sections = man.get("sections", {})
        self.items = [it for it in man["items"] if it["item"].split(":")[0] not in ignore]
        self.gen = {}
        self.thms = {}
        self.ignore = ignore

    def gen_text(self, fname):
        if fname not in self.gen:
            p = os.path.join(GEN, fname)
            self.gen[fname] = open(p).read() if os.path.exists(p) else ""
        return self.gen[fname]

    def theorems(self, module):
        if module not in self.thms:
            self.thms[module] = load_theorems(module)
        return self.thms[module]

    def at(self, rel, l0, l1):
        """manifest items of file rel inside the line span, -> (same start, other contained)"""
        same, inner = [], []
        for it in self.items:
            if it["file"] != rel:
                continue
            a, b = it["lines"]
            if a == l0 and b <= l1:
                same.append(it)
            elif l0 <= a and b <= l1:
                inner.append(it)
        return same, inner

    def describe_translated(self, it):
        """-> (ok, text) for a manifest item of a translator"""
        pre, rest = it["item"].split(":", 1)
        fname, ns, module = TRANSLATORS[pre]
        text = self.gen_text(fname)
        if not re.search(r"(?m)^(?:@\[[^\]]*\]\s*)?def %s\b" % re.escape(rest), text):
            return False, "manifest item `%s` but no `def %s` in Gen/%s" % (it["item"], rest, fname)
        qual = "%s.%s" % (ns, rest)
        names = [n for n, st in self.theorems(module) if mentions(st, qual)]
        if not names:
            return True, "Gen/%s `%s`; NO theorem of Props/%s.lean mentions it" % (fname, qual, module)
        shown = ", ".join(names[:4]) + (" (+%d)" % (len(names) - 4) if len(names) > 4 else "")
        return True, "Gen/%s `%s`; PP.%s.{%s}" % (fname, qual, module, shown)


def classify(item, out, nested_spans):
    same, inner = out.at(item.rel, item.l0, item.l1)
    # manifest items that belong to a nested fn are not evidence for the enclosing fn
    inner = [it for it in inner if not any(a <= it["lines"][0] and it["lines"][1] <= b for a, b in nested_spans)]
    trait = None
    for c in reversed(item.ctx):
        m = re.match(r"impl(?:<[^>]*>)?\s+(.*?)\s+for\s+", c)
        if m:
            trait = m.group(1)
            break
        if c.startswith("impl") or c.startswith("trait"):
            break
    if item.hook:
        return "hook", "compiled only with --cfg pairing_plus_verif (re-export for the harness)"
    if item.kind == "derive":
        tr = re.match(r"#\[derive\((.*?)\)\]", item.name).group(1)
        if tr == "PrimeField":
            return "derive-generated", "see the section on #[derive(PrimeField)] below (Gen/Derive.lean, Gen/MontProg.lean)"
        if tr in ("PartialEq",):
            chk = [it["item"] for it in out.items if it["file"] == item.rel and ":check:derive" in it["item"]
                   and it["lines"][0] <= item.l0 <= it["lines"][1] + 1]
            if chk:
                return "derive-generated", ("std structural `==` (field by field, language-defined); not a definition of "
                                            "Gen/Derive.lean, but the attribute and the declaration are checked textually: "
                                            + ", ".join("`%s`" % c for c in chk) + "; the translators print `==` on this "
                                            "type as Lean `=` (the model's types derive `DecidableEq`)")
            return "derive-generated", ("NOT covered by Gen/Derive.lean: std structural `==` (field by field); the model's "
                                        "types derive `DecidableEq`, the translators print `==` as Lean `=`")
        return "formatting/marker trait", "#[derive(%s)]: %s" % (tr, MARKER_TRAITS.get(tr, "std derive"))
    if item.kind == "impl":
        for it in same + inner:
            k = it["item"].split(":")
            if len(k) > 1 and k[1] in CHECK_KINDS:
                return "wrapper checked textually", "`%s` (no function in this impl)" % it["item"]
        if trait and trait.split("::")[-1] in ("Eq", "Copy", "Send", "Sync"):
            return "formatting/marker trait", "marker impl"
        return "formatting/marker trait", "no function (associated types only)"
    tr_items = [it for it in same if it["item"].split(":")[0] in TRANSLATORS
                and it["item"].split(":")[1] not in CHECK_KINDS]
    if tr_items:
        parts, ok = [], True
        for it in tr_items:
            o, t = out.describe_translated(it)
            ok = ok and o
            if it["item"] in MODEL_NOTES:
                t += " [%s]" % MODEL_NOTES[it["item"]]
            parts.append(t)
        if ok:
            return "translated", "; ".join(parts)
        return "NOT COVERED", "; ".join(parts)
    chk = [it for it in same if it["item"].split(":")[0] in TRANSLATORS]
    if chk:
        return "wrapper checked textually", ", ".join("`%s`" % it["item"] for it in chk)
    cst = [it for it in same if it["item"].split(":")[0] in CONST_PREFIXES or ":" not in it["item"]]
    if cst and (item.kind == "const" or any(it["lines"][1] == item.l1 for it in cst)):
        names = []
        for it in cst:
            p = it["item"].split(":")[0]
            names.append("`%s` (Gen/%s)" % (it["item"], CONST_FILES.get(p, "FqConsts.lean / Curve.lean")))
        return "constant/table extracted", ", ".join(names)
    if item.kind == "const":
        extra = [it for it in same + inner]
        if extra:
            return "constant/table extracted", ", ".join("`%s`" % it["item"] for it in extra)
        # constants used only through a translated function that embeds their value
        return None, ""
    if trait is not None:
        t = trait
        if t in MARKER_TRAITS or t.split("::")[-1] in MARKER_TRAITS:
            return "formatting/marker trait", "%s: %s" % (t, MARKER_TRAITS.get(t, MARKER_TRAITS.get(t.split("::")[-1])))
    why = ""
    if inner:
        why = "only the constant(s) inside are extracted: " + ", ".join("`%s`" % it["item"] for it in inner)
    return "NOT COVERED", why


# what the hand-written model has for the items translated by extract_rest.py (shown with the item)
MODEL_NOTES = {
    "rest:Jac.batchNormalization": "model: `Jac.batchNormalize` (equality)",
    "rest:Jac.random": "the model's `Jac.randomSpec` (PP/Model/Curve.lean; RNG as a state-passing function; also run against the real code with a replaying RNG): `Jac_random_eq` (PP/Proofs/GenRest.lean) in "
                       "terms of the model's `Aff.getPointFromX` / `Jac.isZero`; RNG primitives are parameters",
    "rest:G1Affine.scaleByCofactor": "the model has NO such function: = `Aff.mulBits` on the bits of `Gen.G1_COFACTOR` "
                                     "(the driver's expression)",
    "rest:G2Affine.scaleByCofactor": "the model has NO such function: = `Aff.mulBits` on the bits of `Gen.G2_COFACTOR` "
                                     "(the driver's expression)",
    "rest:G1Affine.getGenerator": "the model has NO such function: = the extracted coordinates (the driver's expression)",
    "rest:G2Affine.getGenerator": "the model has NO such function: = the extracted coordinates (the driver's expression)",
    "rest:Aff.one": "generator as a parameter (`get_generator` is defined per group)",
    "rest:Jac.one": "= `Aff.toJac` of the generator; for G1 / G2: the extracted coordinates with z = 1",
    "rest:Fq2.partialCmp": "the model has `Fq2.lt` only: `= some (cmp ..)` and `Some(Less)` iff `Fq2.lt`",
    "rest:Fq2.random": "the model has NO counterpart (no RNG): direct characterisation (order of the draws)",
    "rest:Fq6.random": "the model has NO counterpart (no RNG): direct characterisation (order of the draws)",
    "rest:Fq12.random": "the model has NO counterpart (no RNG): direct characterisation (order of the draws)",
    "rest:Fq.transmute": "newtype constructor, erased (limb lists as in Derive.lean): the identity",
    "rest:Fr.transmute": "newtype constructor, erased (limb lists as in Derive.lean): the identity",
    "rest:Fr.default": "= the limbs of 0 (`D.Fr.zero`)",
    "rest:G1Affine.intoCompressed": "model: `encodeCompressed g1Codec` (equality)",
    "rest:G1Affine.intoUncompressed": "model: `encodeUncompressed g1Codec` (equality)",
    "rest:G2Affine.intoCompressed": "model: `encodeCompressed g2Codec` (equality)",
    "rest:G2Affine.intoUncompressed": "model: `encodeUncompressed g2Codec` (equality)",
    "rest:Aff.default": "model: `Aff.zero`", "rest:Jac.default": "model: `Jac.zero`",
    "rest:transmuteAffine": "the constructor of `Aff`", "rest:transmuteProjective": "the constructor of `Jac`",
}

# reasons attached to items that stay NOT COVERED (shown in the table; keyed by (file suffix, item name))
KNOWN_REASONS = {
    "find_pippinger_window_via_estimate": "`f64` arithmetic (`powf`): no model, not translatable to exact arithmetic; "
                                          "the function is not called by the library (it documents how the table of "
                                          "`find_pippinger_window` was obtained)",
    "description": "returns fixed message strings (error type, no arithmetic)",
}


# ================================================================ #[derive(PrimeField)]

def derive_rows(out):
    """rows for what #[derive(PrimeField)] generated for Fq / Fr, from the cached macro expansion"""
    rows = []
    try:
        import extract
        extract.REPO = REPO
        exp = extract.expanded_source()
    except Exception as e:        # no nightly toolchain / no cache: say so
        return [("<expanded>", "#[derive(PrimeField)] output", "derive-generated",
                 "macro expansion not available here (%s); see the NOT TRANSLATED list in the header of Gen/Derive.lean" % e)]
    man = {}
    for it in out.items:
        if it["file"] == "<expanded>" and (it["item"].startswith("derive:") or it["item"].startswith("mont:")):
            man.setdefault(tuple(it["lines"]), []).append(it["item"])
    dthm = out.theorems("GenDerive")
    dtext = out.gen_text("Derive.lean")
    for mod, types in (("fq", ("Fq", "FqRepr")), ("fr", ("Fr", "FrRepr"))):
        m = re.search(r"\bmod %s \{" % mod, exp)
        if not m:
            continue
        a = m.end() - 1
        b = XA.match_close(exp, a)
        hand = open(os.path.join(REPO, "src/bls12_381/%s.rs" % mod)).read()
        hand_impls = set(norm(x) for x in re.findall(r"(?m)^impl[^{]*", XA.blank_comments(hand)))
        pos = a + 1
        while True:
            mm = re.compile(r"\bimpl\b[^{;]*\{").search(exp, pos, b)
            if not mm:
                break
            hdr = norm(mm.group(0)[:-1])
            e = XA.match_close(exp, mm.end() - 1)
            body = exp[mm.end():e - 1]
            pos = e
            if not any(re.search(r"\b%s$" % t, hdr) or re.search(r"\bfor %s$" % t, hdr) or hdr == "impl " + t for t in types):
                continue
            if hdr in hand_impls and not (hdr in ("impl Fq", "impl Fr") and "verif_raw" not in body):
                continue          # hand-written in fq.rs / fr.rs: listed with the file
            if "fn test" in body and "#[test]" in exp[max(0, mm.start() - 200):mm.start()]:
                continue
            ty = hdr.split()[-1]
            fns = []
            for fm in re.finditer(r"\bfn\s+(\w+)", body):
                # top-level fns of the impl only
                if body.count("{", 0, fm.start()) - body.count("}", 0, fm.start()) == 0:
                    o = body.index("{", fm.end()) if "{" in body[fm.end():] else None
                    if o is None:
                        continue
                    fe = XA.match_close(body, o)
                    l0 = exp.count("\n", a + 1, mm.end() + fm.start()) + 1
                    l1 = exp.count("\n", a + 1, mm.end() + fe) + 1
                    fns.append((fm.group(1), l0, l1))
            if not fns:
                t = hdr.replace("impl ", "").split(" for ")[0].split("::")[-1]
                rows.append(("<expanded> mod %s" % mod, hdr, "formatting/marker trait", "marker impl (%s)" % t))
                continue
            for fn, l0, l1 in fns:
                label = "%s :: fn %s" % (hdr, fn)
                items = [x for (la, lb), xs in man.items() for x in xs
                         if x.endswith(":" + fn) and (hdr in x or x.startswith("mont:%s:" % ty))]
                items = sorted(set(items))
                t = hdr.replace("impl ", "").split(" for ")[0].split("::")[-1]
                if items:
                    qual = "D.%s.%s" % (ty, fn)
                    if not re.search(r"(?m)^def %s\.%s\w*\b" % (ty, fn), dtext):
                        names = []
                    else:
                        names = [n for n, st in dthm if re.search(r"D\.%s\.%s\w*" % (ty, fn), st)]
                    extra = ""
                    if any(x.startswith("mont:") for x in items):
                        extra = " + Gen/MontProg.lean (limb-level IR; PP.Props.C08Limb)"
                    rows.append(("<expanded> mod %s" % mod, label, "derive-generated",
                                 "covered by Gen/Derive.lean%s: %s; PP.GenDerive.{%s}" % (
                                     extra, ", ".join("`%s`" % x for x in items), ", ".join(names[:4]) or "?")))
                elif t in MARKER_TRAITS or fn in ("clone", "fmt", "zeroize", "assert_fields_are_eq", "as_ref", "as_mut"):
                    rows.append(("<expanded> mod %s" % mod, label, "formatting/marker trait",
                                 MARKER_TRAITS.get(t, "view / marker")))
                else:
                    why = "not covered by Gen/Derive.lean"
                    if fn == "random":
                        why += (": rejection sampling from an RNG (`next_u64` x limbs, mask, retry until `is_valid`); "
                                "no model counterpart (the model has no RNG); `is_valid` itself is covered")
                    rows.append(("<expanded> mod %s" % mod, label, "NOT COVERED", "derive-generated, " + why))
    return rows


# ================================================================ main

def main():
    args = sys.argv[1:]
    ignore = set()
    to_stdout = False
    while args:
        a = args.pop(0)
        if a == "--ignore":
            ignore.update(args.pop(0).split(","))
        elif a == "--stdout":
            to_stdout = True
        else:
            print("usage: coverage.py [--ignore prefix[,prefix]] [--stdout]")
            return 0
    out = Output(ignore)
    rows = []
    counts = {}
    notcov = []
    for rel in source_files():
        raw = open(os.path.join(REPO, rel)).read()
        src = XA.blank_comments(raw)
        items = []
        scan(src, 0, len(src), [], rel, items, False)
        fn_spans = [(it.l0, it.l1) for it in items if it.kind == "fn"]
        for it in items:
            nested = [(a, b) for a, b in fn_spans if (a, b) != (it.l0, it.l1) and it.l0 <= a and b <= it.l1]
            st, detail = classify(it, out, nested)
            if st is None:
                continue            # a local constant that no extractor names: part of its function
            if st == "NOT COVERED":
                r = KNOWN_REASONS.get(it.name)
                if r:
                    detail = (detail + "; " if detail else "") + r
            it.status, it.detail = st, detail
            inst = ""
            if any(c.startswith("macro_rules! curve_impl") for c in it.ctx):
                inst = " (x2: G1, G2)"
            rows.append(("%s:%d-%d" % (rel, it.l0, it.l1), it.label() + inst, st, detail))
            counts[st] = counts.get(st, 0) + 1
            if st == "NOT COVERED":
                notcov.append(("%s:%d-%d" % (rel, it.l0, it.l1), it.label(), detail))
    drows = derive_rows(out)
    for r in drows:
        counts[r[2]] = counts.get(r[2], 0) + 1
        if r[2] == "NOT COVERED":
            notcov.append((r[0], r[1], r[3]))

    md = []
    md.append("# Coverage of /repo/src by the translators\n")
    md.append("GENERATED by `python3 /verif/extract/coverage.py` (re-run it after `extract/extract.py`; it reads "
              "`gen_manifest.json`, `lean/PP/Gen/*.lean`, `lean/PP/Props/Gen*.lean`).%s\n" % (
                  "  Sections ignored in this run: %s." % ", ".join(sorted(ignore)) if ignore else ""))
    md.append("Every non-test `fn` with a body (inherent / trait impl / trait default / free / nested), every "
              "`#[derive]`d trait, every `impl` without functions and every named constant of `src/**/*.rs`; "
              "`#[cfg(test)]` items, `#[test]` functions, `src/tests/`, `**/tests.rs` are skipped; required trait "
              "methods without body, associated types and type aliases are not items (several are checked "
              "textually: `pair:assoc:*`, `hash:assoc:*`, `*:decl:*`).  Items of the macro `curve_impl!` are listed "
              "once (instantiated for G1 and G2).  `translated` = a generated definition exists (manifest item AND "
              "`def` in the Gen file); the theorems named are those of the Props module whose STATEMENT mentions the "
              "definition.\n")
    md.append("Status of the extraction sections at the last run: " +
              ", ".join("%s=%s" % (k, v) for k, v in out.sections.items()) + "\n")
    md.append("## Summary\n")
    md.append("| status | items |\n|---|---|")
    for k in ("translated", "constant/table extracted", "derive-generated", "wrapper checked textually", "hook",
              "formatting/marker trait", "NOT COVERED"):
        md.append("| %s | %d |" % (k, counts.get(k, 0)))
    md.append("")
    md.append("## NOT COVERED\n")
    if notcov:
        md.append("| where | item | reason |\n|---|---|---|")
        for w, n, d in notcov:
            md.append("| %s | `%s` | %s |" % (w, n.replace("|", "\\|"), d.replace("|", "\\|") or "no translator names it"))
    else:
        md.append("(nothing)")
    md.append("")
    md.append("## All items\n")
    cur = None
    for w, n, st, d in rows:
        f = w.rsplit(":", 1)[0]
        if f != cur:
            md.append("\n### %s\n" % f)
            md.append("| lines | item | status | details |\n|---|---|---|---|")
            cur = f
        md.append("| %s | `%s` | %s | %s |" % (w.rsplit(":", 1)[1], n.replace("|", "\\|"),
                                              "**NOT COVERED**" if st == "NOT COVERED" else st, d.replace("|", "\\|")))
    md.append("\n### #[derive(PrimeField)] output for Fq / Fr (macro-expanded crate; not in src/)\n")
    md.append("| where | item | status | details |\n|---|---|---|---|")
    for w, n, st, d in drows:
        md.append("| %s | `%s` | %s | %s |" % (w, n.replace("|", "\\|"),
                                              "**NOT COVERED**" if st == "NOT COVERED" else st, d.replace("|", "\\|")))
    text = "\n".join(md) + "\n"
    if to_stdout:
        sys.stdout.write(text)
    else:
        notes = os.path.join(VERIF, "notes")
        os.makedirs(notes, exist_ok=True)
        with open(os.path.join(notes, "COVERAGE.md"), "w") as f:
            f.write(text)
    print("coverage: %d items (%s)" % (len(rows) + len(drows), ", ".join("%s: %d" % kv for kv in sorted(counts.items()))))
    print("NOT COVERED (%d):" % len(notcov))
    for w, n, d in notcov:
        print("  %s  %s%s" % (w, n, ("  -- " + d) if d else ""))
    return 0


if __name__ == "__main__":
    sys.exit(main())
