#!/usr/bin/env python3
"""Translator: the REST of the `#[derive(PrimeField)]` output for `Fq` / `Fr` (everything except the
unrolled `mul_assign` / `square` / `mont_reduce`, which extract_mont.py translates), read from the
macro-EXPANDED crate, -> /verif/lean/PP/Gen/Derive.lean, namespace `PP.Gen.D`  (python3 stdlib only).

Every target function (table TARGETS) is located in the expanded source by its `impl` header and name,
its body is parsed with a small recursive-descent parser for the Rust subset below and printed as ONE
Lean definition: one Lean `let` (or `if` / `match` line) per Rust statement, the Rust statement as a
trailing comment, mutation as shadowing.  `Field::pow` is not part of the expansion (default method of
the `ff` crate): it is translated by the same parser from the crate sources used for the build
(located through Cargo.lock, like extract_mont.py does for adc/mac_with_carry), once per field.
`PP/Proofs/GenDerive.lean` + `PP/Props/GenDerive.lean` prove every generated definition equal to the
hand model `PP.Mont.*`.

Conventions of the generated Lean
  * `FqRepr([u64; N])`, `Fq(FqRepr)` and `[u64; N]` are all `List Nat` (the two newtype wrappers are
    erased: `.0`, `Fq(..)`, `FqRepr(..)`, `*x`, `&x`, `&mut x` are the identity); a `u64`/`u32`/`usize`
    is a `Nat`.  Well-formedness (length N, limbs < 2^64) is a hypothesis of the theorems, not a type.
  * a `&mut self` method returns the new `self`; `P.m(args);` on a place `P` rooted at variable `x`
    is `let x := T.m x args`;
  * u64 operations that WRAP are explicit: `a << k` = `(a <<< k) % 2 ^ 64`; `::ff::adc`, `::ff::sbb`
    are the header primitives `adc`, `sbb` (value, new carry).  `>> | &` cannot overflow.
    `+ - *` on `u32`/`usize` values are Nat `+ - *` (`-` truncated): Rust's overflow check (panic in a
    debug build, wrap-around in a release build) is NOT modelled -- the header of the generated file
    lists every such operation;
  * `X[k]` with a literal `k` (checked `k < N`) is `X.getD k 0`, `X[k] = v` is `X.set k v`;
  * `a == b` / `a != b` on reprs / field elements call the generated `PartialEq::eq`; `a < b`, `a > b`,
    `a <= b`, `a >= b` on reprs are the std default methods of `PartialOrd`, i.e. a test of the generated
    `partial_cmp` against `some .lt` / `some .gt` / ...; on integers they are `decide (a < b)` ...;
  * `for` loops are the header combinators: `forMut` / `forMutRev` / `forMutZip` (`iter_mut()`, with
    `.rev()`, with `.zip(other.iter())`: state = the outer variables the body assigns, the element is
    rebound), `forBreak` (a body that may `break`; it returns (state, broke?)), `List.findSome?` (a body
    that may `return`: `some v` = return v, `none` = next iteration), `List.foldl` (`BitIterator`,
    `0..n`);
  * `while c { body }` is `whileFuel (fun st => c) (fun st => body; some st) fuel st` where `st` = the
    outer variables the body assigns; `loop { if c { break; } rest }` is `while !c { rest }`.  A function
    that contains a loop gets ONE leading parameter `fuel : Nat`, handed to every loop in it, and returns
    `Option`: `none` = some loop had not finished after `fuel` tests of its condition (same counting as
    the model's `invLoop` / `Fr.tsLoop` / `Fr.findI`: fuel 0 = `none`);
  * an `if` statement some branch of which ends in `return` / `break` gets the continuation copied
    into the other branches; any other `if` statement is `let st := if c then ..; st else ..; st`
    (st = outer variables assigned in the branches);
  * `match e { Enum::A => .., .. }` on `LegendreSymbol` / `Ordering` is the header combinator
    `matchLegendre` / `matchOrdering` with the arms as thunks passed BY NAME in source order;
  * `Option<T>` / `Result<T, E>` are `Option T` (the error VALUE of `from_repr` is not modelled);
    `Ordering` is Lean's `Ordering`; `LegendreSymbol` is the model TYPE `PP.Legendre`;
    `BitIterator::new(e)` is `PP.bitsMSB e` (model of the ff crate's iterator; its Rust text is checked).
  * calls of `mul_assign` / `square` / `mont_reduce` go to the definitions `Fq.mul_assign` .. emitted in
    the header: the interpreter `PP.MontLimb.run*` applied to the programs of PP/Gen/MontProg.lean.

Rust subset understood (anything else raises ExtractError naming the function and the statement):
  statements   let [mut] x = E;  P = E;  P op= E (-= += >>= <<= |= &=);  P.m(args);  *a = ::ff::adc/sbb(..);
               ::std::mem::swap(&mut t, i);  if/else;  for PAT in ITER {..};  while C {..};
               loop { if C { break; } .. };  { .. };  return [E];  break;  match E { Enum::A => .., };
               use ..;  (no semantic content, printed as a comment)
  expressions  literals, locals, constants of the derive output, `.0`, `X[k]`, `! * & &mut`, casts
               `as usize|u32` (value preserving), `== != < > <= >= && || & | << >> + - *`, array
               literals, `Some/None/Ok/Err`, `T(e)`, `Self::f(..)`, `x.f(..)`, `X.iter().all(|&e| ..)`,
               `x.leading_zeros()`, enum constants of `Ordering` / `LegendreSymbol`.

Every `impl` block for `Fq`/`FqRepr`/`Fr`/`FrRepr` in the modules `fq` / `fr` and every `fn` in them must
be either a target or listed in NOT_TRANSLATED (with a reason; printed in the generated header);
anything else raises ExtractError.

API for extract.py:
    import extract_derive
    manifest.extend(extract_derive.emit(exp, GEN, ExtractError))
    if extract_derive.CHANGED: changed.append("Derive")
"""
import glob
import hashlib
import os
import re
import sys

REPO = os.environ.get("PP_REPO", "/repo")
VERIF = os.path.dirname(os.path.dirname(os.path.abspath(__file__)))
GEN = os.path.join(VERIF, "lean", "PP", "Gen")
CACHE = os.path.join(VERIF, ".cache")

CHANGED = False


class ExtractError(Exception):
    pass


def norm(s):
    return re.sub(r"\s+", " ", s).strip()


def squeeze(s):
    return re.sub(r"\s+", "", s)


# ================================================================ tokenizer

PUNCT = ["<<=", ">>=", "..=", "::", "->", "=>", "==", "!=", "<=", ">=", "&&", "||", "<<", ">>",
         "+=", "-=", "*=", "|=", "&=", "^=", ".."] + list("{}()[];,.:=<>+-*/&|^!#?%'@")
RE_NUM = re.compile(r"(0x[0-9a-fA-F_]+|[0-9][0-9_]*)(u64|usize|u32|u128|u8)?")
RE_ID = re.compile(r"[A-Za-z_][A-Za-z0-9_]*")


class Tok:
    __slots__ = ("kind", "text", "a", "b", "val", "suf")

    def __init__(self, kind, text, a, b):
        self.kind, self.text, self.a, self.b = kind, text, a, b
        self.val = None
        self.suf = None

    def __repr__(self):
        return "%s:%r" % (self.kind, self.text)


def tokenize(src, where):
    toks = []
    i, n = 0, len(src)
    while i < n:
        c = src[i]
        if c.isspace():
            i += 1
            continue
        if src.startswith("//", i) or src.startswith("/*", i):
            raise ExtractError("derive: %s: comment inside a function body" % where)
        if c == '"':
            j = i + 1
            while j < n and src[j] != '"':
                if src[j] == "\\":
                    j += 1
                j += 1
            toks.append(Tok("str", src[i:j + 1], i, j + 1))
            i = j + 1
            continue
        m = RE_NUM.match(src, i)
        if m and c.isdigit():
            t = Tok("num", m.group(0), i, m.end())
            t.val = int(m.group(1).replace("_", ""), 0)
            t.suf = m.group(2)
            toks.append(t)
            i = m.end()
            continue
        m = RE_ID.match(src, i)
        if m:
            toks.append(Tok("id", m.group(0), i, m.end()))
            i = m.end()
            continue
        for p in PUNCT:
            if src.startswith(p, i):
                toks.append(Tok("p", p, i, i + len(p)))
                i += len(p)
                break
        else:
            raise ExtractError("derive: %s: cannot tokenize %r" % (where, src[i:i + 20]))
    toks.append(Tok("eof", "", n, n))
    return toks


# ================================================================ parser  (AST = dicts with key 'k')

BINLEVELS = [["||"], ["&&"], ["==", "!=", "<", ">", "<=", ">="], ["|"], ["^"], ["&"], ["<<", ">>"],
             ["+", "-"], ["*", "/", "%"]]
ASSIGN_OPS = ["=", "-=", "+=", ">>=", "<<=", "|=", "&=", "*=", "^="]


class Parser:
    def __init__(self, src, where):
        self.src = src
        self.where = where
        self.toks = tokenize(src, where)
        self.i = 0

    def err(self, msg):
        t = self.peek()
        raise ExtractError("derive: %s: %s at %r" % (self.where, msg, norm(self.src[t.a:t.a + 60])))

    def peek(self, k=0):
        return self.toks[min(self.i + k, len(self.toks) - 1)]

    def at(self, text, k=0):
        t = self.peek(k)
        return t.kind in ("p", "id") and t.text == text

    def eat(self, text=None):
        t = self.peek()
        if text is not None and not (t.kind in ("p", "id") and t.text == text):
            self.err("expected %r" % text)
        self.i += 1
        return t

    # ---- blocks and statements
    def block(self):
        a = self.eat("{").a
        stmts = []
        tail = None
        while not self.at("}"):
            if self.at(";"):
                self.eat(";")
                continue
            s = self.stmt()
            if s["k"] == "exprstmt" and not s["semi"]:
                if s["e"]["k"] in ("if", "match") and not self.at("}"):
                    stmts.append(s)         # block-like expression statement without ';'
                    continue
                if not self.at("}"):
                    self.err("expected ';' or '}' after expression")
                if s["e"]["k"] == "if" and s["e"]["then"]["tail"] is None:
                    stmts.append(s)         # unit-valued `if` at the end of a block: a statement
                else:
                    tail = s["e"]
                break
            stmts.append(s)
        b = self.eat("}").b
        return {"k": "block", "stmts": stmts, "tail": tail, "a": a, "b": b}

    def stmt(self):
        t = self.peek()
        a = t.a
        if self.at("#"):
            self.err("attribute inside a function body")
        if self.at("let"):
            self.eat("let")
            mut = False
            if self.at("mut"):
                self.eat("mut")
                mut = True
            pat = self.pattern()
            if self.at(":"):
                self.err("type annotation in let")
            self.eat("=")
            e = self.expr()
            b = self.eat(";").b
            return {"k": "let", "mut": mut, "pat": pat, "e": e, "a": a, "b": b}
        if self.at("use"):
            while not self.at(";"):
                self.eat()
            b = self.eat(";").b
            return {"k": "use", "a": a, "b": b}
        if self.at("for"):
            self.eat("for")
            pat = self.pattern()
            self.eat("in")
            it = self.expr()
            hb = self.peek().a + 1
            body = self.block()
            return {"k": "for", "pat": pat, "iter": it, "body": body, "a": a, "hb": hb, "b": body["b"]}
        if self.at("while"):
            self.eat("while")
            c = self.expr()
            hb = self.peek().a + 1
            body = self.block()
            return {"k": "while", "cond": c, "body": body, "a": a, "hb": hb, "b": body["b"]}
        if self.at("loop"):
            self.eat("loop")
            hb = self.peek().a + 1
            body = self.block()
            return {"k": "loop", "body": body, "a": a, "hb": hb, "b": body["b"]}
        if self.at("return"):
            self.eat("return")
            e = None
            if not self.at(";") and not self.at("}"):
                e = self.expr()
            b = self.toks[self.i - 1].b
            if self.at(";"):
                b = self.eat(";").b
            return {"k": "return", "e": e, "a": a, "b": b}
        if self.at("break"):
            b = self.eat("break").b
            if self.at(";"):
                b = self.eat(";").b
            return {"k": "break", "a": a, "b": b}
        if self.at("{"):
            blk = self.block()
            return {"k": "blockstmt", "body": blk, "a": a, "b": blk["b"]}
        e = self.expr()
        for op in ASSIGN_OPS:
            if self.at(op):
                self.eat(op)
                r = self.expr()
                b = self.eat(";").b
                return {"k": "assign", "op": op, "place": e, "e": r, "a": a, "b": b}
        semi = False
        b = self.toks[self.i - 1].b
        if self.at(";"):
            b = self.eat(";").b
            semi = True
        return {"k": "exprstmt", "e": e, "semi": semi, "a": a, "b": b}

    def pattern(self):
        if self.at("("):
            self.eat("(")
            ps = []
            while not self.at(")"):
                ps.append(self.pattern())
                if self.at(","):
                    self.eat(",")
            self.eat(")")
            return {"k": "ptuple", "ps": ps}
        if self.at("&"):
            self.eat("&")
            return self.pattern()
        t = self.eat()
        if t.kind != "id":
            self.err("unsupported pattern")
        return {"k": "pvar", "name": t.text}

    # ---- expressions
    def expr(self):
        e = self.binary(0)
        if self.at(".."):
            a = e["a"]
            self.eat("..")
            r = self.binary(0)
            return {"k": "range", "lo": e, "hi": r, "a": a, "b": r["b"]}
        return e

    def binary(self, lvl):
        if lvl == len(BINLEVELS):
            return self.unary()
        l = self.binary(lvl + 1)
        while True:
            t = self.peek()
            if t.kind == "p" and t.text in BINLEVELS[lvl]:
                self.eat()
                r = self.binary(lvl + 1)
                l = {"k": "bin", "op": t.text, "l": l, "r": r, "a": l["a"], "b": r["b"]}
                if lvl == 2 and self.peek().kind == "p" and self.peek().text in BINLEVELS[2]:
                    self.err("chained comparison")
            else:
                return l

    def unary(self):
        t = self.peek()
        if t.kind == "p" and t.text in ("!", "-", "*", "&"):
            self.eat()
            op = t.text
            if op == "&" and self.at("mut"):
                self.eat("mut")
                op = "&mut"
            e = self.unary()
            return {"k": "unary", "op": op, "e": e, "a": t.a, "b": e["b"]}
        e = self.postfix()
        while self.at("as"):
            self.eat("as")
            ty = self.eat()
            if ty.kind != "id":
                self.err("unsupported cast target")
            e = {"k": "cast", "e": e, "ty": ty.text, "a": e["a"], "b": ty.b}
        return e

    def args(self):
        self.eat("(")
        out = []
        while not self.at(")"):
            out.append(self.expr())
            if self.at(","):
                self.eat(",")
            elif not self.at(")"):
                self.err("expected ',' or ')'")
        b = self.eat(")").b
        return out, b

    def postfix(self):
        e = self.primary()
        while True:
            if self.at("."):
                self.eat(".")
                t = self.eat()
                if t.kind == "num":
                    e = {"k": "field", "e": e, "f": t.text, "a": e["a"], "b": t.b}
                elif t.kind == "id":
                    if self.at("("):
                        args, b = self.args()
                        e = {"k": "mcall", "recv": e, "m": t.text, "args": args, "a": e["a"], "b": b}
                    else:
                        self.err("named field access")
                else:
                    self.err("bad token after '.'")
            elif self.at("["):
                self.eat("[")
                ix = self.expr()
                b = self.eat("]").b
                e = {"k": "index", "e": e, "ix": ix, "a": e["a"], "b": b}
            elif self.at("(") and e["k"] == "path":
                if e["segs"] == ["Err"]:
                    # error payload: not modelled, kept as raw text
                    depth = 0
                    a0 = self.peek().a
                    while True:
                        t = self.eat()
                        if t.kind == "eof":
                            self.err("unbalanced Err(..)")
                        if t.text == "(" and t.kind == "p":
                            depth += 1
                        elif t.text == ")" and t.kind == "p":
                            depth -= 1
                            if depth == 0:
                                break
                    e = {"k": "err", "raw": self.src[a0:t.b], "a": e["a"], "b": t.b}
                else:
                    args, b = self.args()
                    e = {"k": "call", "f": e, "args": args, "a": e["a"], "b": b}
            elif self.at("?"):
                self.err("`?` operator")
            else:
                return e

    def primary(self):
        t = self.peek()
        if t.kind == "num":
            self.eat()
            return {"k": "num", "v": t.val, "suf": t.suf, "a": t.a, "b": t.b}
        if self.at("("):
            a = self.eat("(").a
            e = self.expr()
            if self.at(","):
                self.err("tuple expression")
            b = self.eat(")").b
            return {"k": "paren", "e": e, "a": a, "b": b}
        if self.at("["):
            a = self.eat("[").a
            es = []
            while not self.at("]"):
                es.append(self.expr())
                if self.at(";"):
                    self.err("array repeat expression")
                if self.at(","):
                    self.eat(",")
            b = self.eat("]").b
            return {"k": "array", "es": es, "a": a, "b": b}
        if self.at("|"):
            a = self.eat("|").a
            ps = []
            while not self.at("|"):
                ps.append(self.pattern())
                if self.at(","):
                    self.eat(",")
            self.eat("|")
            body = self.expr()
            return {"k": "closure", "ps": ps, "body": body, "a": a, "b": body["b"]}
        if self.at("if"):
            return self.ifexpr()
        if self.at("match"):
            a = self.eat("match").a
            scrut = self.expr()
            self.eat("{")
            arms = []
            while not self.at("}"):
                pat = self.path()
                self.eat("=>")
                if self.at("{"):
                    body = self.block()
                else:
                    e = self.expr()
                    body = {"k": "block", "stmts": [], "tail": e, "a": e["a"], "b": e["b"]}
                if self.at(","):
                    self.eat(",")
                arms.append((pat, body))
            b = self.eat("}").b
            return {"k": "match", "scrut": scrut, "arms": arms, "a": a, "b": b}
        if self.at("{"):
            self.err("block expression")
        if t.kind == "id" or self.at("::"):
            p = self.path()
            if self.at("!"):
                self.err("macro invocation")
            return p
        self.err("unexpected token")

    def path(self):
        a = self.peek().a
        segs = []
        if self.at("::"):
            self.eat("::")
            segs.append("")
        while True:
            t = self.eat()
            if t.kind != "id":
                self.err("bad path")
            segs.append(t.text)
            if self.at("::"):
                self.eat("::")
                if self.at("<"):
                    self.err("generic arguments in path")
            else:
                break
        return {"k": "path", "segs": segs, "a": a, "b": self.toks[self.i - 1].b}

    def ifexpr(self):
        a = self.eat("if").a
        c = self.expr()
        hb = self.peek().a + 1
        th = self.block()
        el = None
        b = th["b"]
        if self.at("else"):
            self.eat("else")
            if self.at("if"):
                e2 = self.ifexpr()
                el = {"k": "block", "stmts": [], "tail": None, "a": e2["a"], "b": e2["b"]}
                if e2["then"]["tail"] is None:
                    el["stmts"] = [{"k": "exprstmt", "e": e2, "semi": False, "a": e2["a"], "b": e2["b"]}]
                else:
                    el["tail"] = e2
                el["elseif"] = True
            else:
                el = self.block()
            b = el["b"]
        return {"k": "if", "cond": c, "then": th, "else": el, "a": a, "hb": hb, "b": b}


def parse_body(src, where):
    """src = text of `{ ... }` of a function -> block AST"""
    p = Parser(src, where)
    blk = p.block()
    if p.peek().kind != "eof":
        p.err("text after function body")
    return blk


# ================================================================ locating items in the expanded source

def match_brace(src, i, where="derive"):
    """src[i] == '{' -> index just after the matching '}' (string literals skipped)."""
    if src[i] != "{":
        raise ExtractError("%s: expected '{' at offset %d" % (where, i))
    depth = 0
    j = i
    while j < len(src):
        c = src[j]
        if c == "{":
            depth += 1
        elif c == "}":
            depth -= 1
            if depth == 0:
                return j + 1
        elif c == '"':
            k = j + 1
            while k < len(src) and src[k] != '"':
                if src[k] == "\\":
                    k += 1
                k += 1
            j = k
        j += 1
    raise ExtractError("%s: unbalanced braces" % where)


def module_span(exp, name):
    hits = [m for m in re.finditer(r"\n    (?:pub )?mod %s \{" % re.escape(name), exp)]
    if len(hits) != 1:
        raise ExtractError("derive: expected exactly one `mod %s`, found %d" % (name, len(hits)))
    ob = hits[0].end() - 1
    return ob, match_brace(exp, ob)


RE_IMPL = re.compile(r"\bimpl\s+(?:([^{};]+?)\s+for\s+)?([A-Za-z0-9_]+)\s*\{")


def impl_blocks(exp, span, types):
    """all `impl [Trait for] T {` with T in types inside span -> list of (header, T, trait, body_a, body_b)"""
    a, b = span
    out = []
    pos = a
    while True:
        m = RE_IMPL.search(exp, pos, b)
        if not m:
            break
        ob = m.end() - 1
        e = match_brace(exp, ob)
        if m.group(2) in types:
            trait = norm(m.group(1)) if m.group(1) else None
            hdr = "impl %s for %s" % (trait, m.group(2)) if trait else "impl %s" % m.group(2)
            out.append((hdr, m.group(2), trait, ob, e))
        pos = e
    return out


def split_top(s, where):
    out, depth, cur = [], 0, ""
    for c in s:
        if c in "([<":
            depth += 1
        elif c in ")]>":
            depth -= 1
        if c == "," and depth == 0:
            out.append(cur.strip())
            cur = ""
        else:
            cur += c
    if cur.strip():
        out.append(cur.strip())
    return out


def fns_in_impl(exp, ob, e, where):
    """the `fn` and `const` items directly inside the impl body exp[ob:e] ->
    ([{name, generics, params, ret, a (item start), ba, bb (body incl. braces)}], [(const name, type, expr text, a, b)])"""
    fns, consts = [], []
    i = ob + 1
    depth = 0
    while i < e - 1:
        c = exp[i]
        if c == '"':
            k = i + 1
            while exp[k] != '"':
                if exp[k] == "\\":
                    k += 1
                k += 1
            i = k + 1
            continue
        if c in "{":
            i = match_brace(exp, i)
            continue
        m = re.compile(r"\bfn\s+([A-Za-z0-9_]+)\s*").match(exp, i)
        if m and (i == 0 or not (exp[i - 1].isalnum() or exp[i - 1] == "_")):
            name = m.group(1)
            j = m.end()
            gen = ""
            if exp[j] == "<":
                d = 0
                k = j
                while True:
                    if exp[k] == "<":
                        d += 1
                    elif exp[k] == ">" and exp[k - 1] != "-":
                        d -= 1
                        if d == 0:
                            break
                    k += 1
                gen = exp[j + 1:k]
                j = k + 1
            while exp[j].isspace():
                j += 1
            if exp[j] != "(":
                raise ExtractError("derive: %s: fn %s: expected '('" % (where, name))
            d = 0
            k = j
            while True:
                if exp[k] == "(":
                    d += 1
                elif exp[k] == ")":
                    d -= 1
                    if d == 0:
                        break
                k += 1
            params = exp[j + 1:k]
            m2 = re.compile(r"\s*(?:->\s*([^{;]+?))?\s*([{;])").match(exp, k + 1)
            if not m2:
                raise ExtractError("derive: %s: fn %s: unexpected text after the parameter list" % (where, name))
            if m2.group(2) == ";":      # declaration without body (trait)
                i = m2.end()
                continue
            ba = m2.end() - 1
            bb = match_brace(exp, ba)
            fns.append({"name": name, "generics": norm(gen), "params": norm(params),
                        "ret": norm(m2.group(1)) if m2.group(1) else "", "a": i, "ba": ba, "bb": bb})
            i = bb
            continue
        m = re.compile(r"\bconst\s+([A-Z_0-9]+)\s*:\s*([A-Za-z0-9_]+)\s*=\s*([^;]+);").match(exp, i)
        if m and not (exp[i - 1].isalnum() or exp[i - 1] == "_"):
            consts.append((m.group(1), m.group(2), m.group(3), i, m.end()))
            i = m.end()
            continue
        i += 1
    return fns, consts


# ================================================================ translator

INT = ("u64", "u32", "usize", "int")
LISTS = ("Repr", "Fe", "Arr", "Limbs")


def lean_ty(t):
    if t in INT:
        return "Nat"
    if t == "bool":
        return "Bool"
    if t in LISTS:
        return "List Nat"
    if t == "Ordering":
        return "Ordering"
    if t == "Legendre":
        return "PP.Legendre"
    if isinstance(t, tuple) and t[0] == "opt":
        inner = lean_ty(t[1])
        return "Option (%s)" % inner if " " in inner else "Option %s" % inner
    raise ExtractError("derive: no Lean type for %r" % (t,))


def unify_int(a, b):
    if a == "int":
        return b
    if b == "int" or a == b:
        return a
    return None


ENUMS = {
    ("Ordering", "Less"): ("Ordering.lt", "Ordering"),
    ("Ordering", "Equal"): ("Ordering.eq", "Ordering"),
    ("Ordering", "Greater"): ("Ordering.gt", "Ordering"),
    ("LegendreSymbol", "Zero"): ("PP.Legendre.zero", "Legendre"),
    ("LegendreSymbol", "QuadraticResidue"): ("PP.Legendre.residue", "Legendre"),
    ("LegendreSymbol", "QuadraticNonResidue"): ("PP.Legendre.nonResidue", "Legendre"),
}

LEAN_KEYWORDS = {"from", "at", "end", "do", "then", "else", "fun", "in", "with", "match", "let", "have",
                 "show", "if", "open", "def", "theorem", "where", "by", "for", "instance", "class"}


class FnInfo:
    def __init__(self, lean, recv, params, ret, fuel):
        self.lean, self.recv, self.params, self.ret, self.fuel = lean, recv, params, ret, fuel


class FieldCtx:
    """everything known about one field while its functions are being translated"""

    def __init__(self, F, R, N):
        self.F, self.R, self.N = F, R, N
        self.consts = {}        # Rust const name -> (lean name, type)
        self.methods = {}       # (type, rust name) -> FnInfo
        self.unchecked = []     # (fn, rust text) of u32/usize + - * whose overflow check is not modelled


class Tr:
    """translation of ONE function body"""

    def __init__(self, ctx, selfT, where, src, recv, params, ret, lean_name, sig_doc):
        self.ctx, self.selfT, self.where, self.src = ctx, selfT, where, src
        self.recv, self.params, self.ret = recv, params, ret
        self.lean_name, self.sig_doc = lean_name, sig_doc
        self.lines = []
        self.fuel = False

    # ------------------------------------------------ helpers
    def err(self, node, msg):
        raise ExtractError("derive: %s: %s: `%s`" % (self.where, msg, norm(self.src[node["a"]:node["b"]])[:160]))

    def text(self, node, upto=None):
        return norm(self.src[node["a"]:(upto if upto is not None else node["b"])])

    def emit(self, ind, text, comment=None):
        self.lines.append((ind, text, comment))

    @staticmethod
    def par(t):
        if re.match(r"^[A-Za-z0-9_.']+$", t) or (t.startswith("(") and t.endswith(")") and Tr.balanced(t[1:-1])) \
                or (t.startswith("[") and t.endswith("]") and Tr.balanced(t[1:-1])):
            return t
        return "(" + t + ")"

    @staticmethod
    def balanced(t):
        d = 0
        for c in t:
            if c in "([":
                d += 1
            elif c in ")]":
                d -= 1
                if d < 0:
                    return False
        return d == 0

    @staticmethod
    def tup(vs):
        if not vs:
            return "()"
        if len(vs) == 1:
            return vs[0]
        return "(" + ", ".join(vs) + ")"

    def lname(self, v, node=None):
        if v in LEAN_KEYWORDS:
            raise ExtractError("derive: %s: local `%s` is a Lean keyword" % (self.where, v))
        return v

    # ------------------------------------------------ places
    def root(self, e):
        """place expression -> (root variable, index or None); `.0`, `*`, `&mut`, parens are transparent"""
        ix = None
        while True:
            k = e["k"]
            if k == "paren":
                e = e["e"]
            elif k == "unary" and e["op"] in ("*", "&mut", "&"):
                e = e["e"]
            elif k == "field" and e["f"] == "0":
                e = e["e"]
            elif k == "index":
                if ix is not None:
                    self.err(e, "nested index in a place")
                if e["ix"]["k"] != "num":
                    self.err(e, "non-literal index")
                ix = e["ix"]["v"]
                e = e["e"]
            elif k == "path" and len(e["segs"]) == 1:
                return e["segs"][0], ix
            else:
                self.err(e, "not a place")

    # ------------------------------------------------ expressions -> (lean text, type, const value or None)
    def ex(self, e, env):
        t, ty, _ = self.exc(e, env)
        return t, ty

    def exc(self, e, env):
        k = e["k"]
        ctx = self.ctx
        if k == "num":
            ty = {"u64": "u64", "usize": "usize", "u32": "u32", None: "int"}.get(e["suf"])
            if ty is None:
                self.err(e, "literal suffix")
            if e["v"] >= 2 ** 64:
                self.err(e, "literal out of range")
            return str(e["v"]), ty, e["v"]
        if k == "paren":
            t, ty, c = self.exc(e["e"], env)
            return self.par(t), ty, c
        if k == "array":
            es = []
            for x in e["es"]:
                t, ty, c = self.exc(x, env)
                if unify_int(ty, "u64") is None or c is None:
                    self.err(e, "array literal of non-literal / non-u64 elements")
                es.append(t)
            return "[" + ", ".join(es) + "]", "Arr", None
        if k == "path":
            segs = e["segs"]
            if len(segs) == 1:
                v = segs[0]
                if v in env:
                    return self.lname(v), env[v], None
                if v in ctx.consts:
                    ln, ty = ctx.consts[v]
                    return ln, ty, None
                if v == "None":
                    return "none", ("opt", None), None
                if v in ("true", "false"):
                    return v, "bool", None
                self.err(e, "unknown name")
            if len(segs) >= 2 and (segs[-2], segs[-1]) in ENUMS:
                t, ty = ENUMS[(segs[-2], segs[-1])]
                return t, ty, None
            if segs[0] == "Self" and len(segs) == 2 and ("Self::" + segs[1]) in ctx.consts:
                ln, ty = ctx.consts["Self::" + segs[1]]
                return ln, ty, None
            self.err(e, "unknown path")
        if k == "field":
            t, ty, _ = self.exc(e["e"], env)
            if e["f"] != "0":
                self.err(e, "field")
            if ty == "Fe":
                return t, "Repr", None
            if ty == "Repr":
                return t, "Arr", None
            self.err(e, "`.0` of a value that is neither a field element nor a repr")
        if k == "index":
            t, ty, _ = self.exc(e["e"], env)
            if ty != "Arr":
                self.err(e, "index into a non-array")
            if e["ix"]["k"] != "num":
                self.err(e, "non-literal index")
            i = e["ix"]["v"]
            if not i < ctx.N:
                self.err(e, "index out of bounds (array length %d)" % ctx.N)
            return "%s.getD %d 0" % (self.par(t), i), "u64", None
        if k == "unary":
            op = e["op"]
            t, ty, c = self.exc(e["e"], env)
            if op in ("*", "&", "&mut"):
                return t, ty, c
            if op == "!":
                if ty != "bool":
                    self.err(e, "`!` of a non-bool")
                return "!" + self.par(t), "bool", None
            self.err(e, "unary operator")
        if k == "cast":
            t, ty, c = self.exc(e["e"], env)
            if e["ty"] not in ("usize", "u32") or ty not in ("u32", "usize", "int"):
                self.err(e, "cast")
            if ty == "usize" and e["ty"] == "u32" and (c is None or c >= 2 ** 32):
                self.err(e, "narrowing cast of a non-constant")
            return t, e["ty"], c
        if k == "bin":
            return self.binop(e, e["op"], e["l"], e["r"], env)
        if k == "call":
            return self.call(e, env)
        if k == "mcall":
            return self.mcall(e, env)
        if k == "err":
            return "none", ("opt", None), None
        self.err(e, "unsupported expression")

    def binop(self, e, op, le, re_, env, lpre=None):
        """lpre: pre-translated left operand (for `x op= e`)"""
        ctx = self.ctx
        lt, lty, lc = lpre if lpre else self.exc(le, env)
        rt, rty, rc = self.exc(re_, env)
        L, Rr = self.par(lt), self.par(rt)
        if op in ("&&", "||"):
            if lty != "bool" or rty != "bool":
                self.err(e, "boolean operator on non-bools")
            return "%s %s %s" % (L, op, Rr), "bool", None
        if op in ("==", "!=", "<", ">", "<=", ">="):
            if lty in INT and rty in INT:
                if unify_int(lty, rty) is None:
                    self.err(e, "comparison of different integer types")
                if op == "==":
                    return "%s == %s" % (L, Rr), "bool", None
                if op == "!=":
                    return "%s != %s" % (L, Rr), "bool", None
                lop = {"<": "<", ">": ">", "<=": "≤", ">=": "≥"}[op]
                return "decide (%s %s %s)" % (L, lop, Rr), "bool", None
            if lty == "Arr" and rty == "Arr" and op in ("==", "!="):
                return "%s %s %s" % (L, op, Rr), "bool", None
            T = None
            if lty == rty and lty in ("Repr", "Fe"):
                T = lty
            if T is None:
                self.err(e, "comparison of %s with %s" % (lty, rty))
            if op in ("==", "!="):
                fi = ctx.methods.get((T, "eq"))
                if fi is None:
                    self.err(e, "`==` before PartialEq::eq has been generated")
                t = "%s %s %s" % (fi.lean, L, Rr)
                return (t if op == "==" else "!(%s)" % t), "bool", None
            fi = ctx.methods.get((T, "partial_cmp"))
            if fi is None:
                self.err(e, "`%s` before PartialOrd::partial_cmp has been generated" % op)
            pc = "%s %s %s" % (fi.lean, L, Rr)
            if op == "<":
                return "%s == some Ordering.lt" % pc, "bool", None
            if op == ">":
                return "%s == some Ordering.gt" % pc, "bool", None
            if op == "<=":
                return "(%s == some Ordering.lt || %s == some Ordering.eq)" % (pc, pc), "bool", None
            return "(%s == some Ordering.gt || %s == some Ordering.eq)" % (pc, pc), "bool", None
        if lty not in INT or rty not in INT:
            self.err(e, "arithmetic on non-integers")
        if op in ("<<", ">>"):
            if rc is not None and not rc < 64:
                self.err(e, "shift amount out of range")
            if op == ">>":
                return "%s >>> %s" % (L, Rr), lty, None
            if lty != "u64":
                self.err(e, "`<<` on a value that is not known to be u64")
            return "(%s <<< %s) %% 2 ^ 64" % (L, Rr), "u64", None
        ty = unify_int(lty, rty)
        if ty is None:
            self.err(e, "arithmetic on different integer types")
        if op in ("&", "|"):
            return "%s %s %s" % (L, {"&": "&&&", "|": "|||"}[op], Rr), ty, None
        if op in ("+", "-", "*"):
            if ty == "u64":
                self.err(e, "checked u64 arithmetic")
            c = None
            if lc is not None and rc is not None:
                c = {"+": lc + rc, "-": lc - rc, "*": lc * rc}[op]
                if not 0 <= c < 2 ** 32:
                    self.err(e, "constant arithmetic out of range")
            else:
                ctx.unchecked.append((self.where, self.text(e)))
            return "%s %s %s" % (L, op, Rr), ty, c
        self.err(e, "binary operator")

    def args(self, fi, args, e, env):
        if len(args) != len(fi.params):
            self.err(e, "wrong number of arguments")
        out = []
        for a, (pn, pty) in zip(args, fi.params):
            t, ty = self.ex(a, env)
            if not self.compat(ty, pty):
                self.err(e, "argument type %s, expected %s" % (ty, pty))
            out.append(self.par(t))
        return out

    @staticmethod
    def compat(a, b):
        if a == b:
            return True
        if a in INT and b in INT:
            return unify_int(a, b) is not None
        if a == "Arr" and b == "Limbs":
            return True
        if isinstance(a, tuple) and isinstance(b, tuple):
            return a[1] is None or b[1] is None or Tr.compat(a[1], b[1])
        return False

    def call(self, e, env):
        ctx = self.ctx
        f = e["f"]
        if f["k"] != "path":
            self.err(e, "call of a non-path")
        segs = f["segs"]
        args = e["args"]
        if segs in (["Some"], ["Ok"]):
            if len(args) != 1:
                self.err(e, "arity")
            t, ty = self.ex(args[0], env)
            return "some %s" % self.par(t), ("opt", ty), None
        if segs == [ctx.F] or segs == [ctx.R]:
            if len(args) != 1:
                self.err(e, "arity")
            t, ty = self.ex(args[0], env)
            want = "Repr" if segs == [ctx.F] else "Arr"
            if ty != want:
                self.err(e, "constructor applied to %s" % ty)
            return t, ("Fe" if segs == [ctx.F] else "Repr"), None
        if segs == ["", "core", "default", "Default", "default"] and not args:
            return "List.replicate %d 0" % ctx.N, "Arr", None
        if len(segs) == 2 and segs[0] in ("Self", ctx.F, ctx.R):
            T = self.selfT if segs[0] == "Self" else ("Fe" if segs[0] == ctx.F else "Repr")
            fi = ctx.methods.get((T, segs[1]))
            if fi is None or fi.recv is not None:
                self.err(e, "unknown associated function (not generated before)")
            if fi.fuel:
                self.err(e, "call of a function with loops in expression position")
            a = self.args(fi, args, e, env)
            return " ".join([fi.lean] + a), fi.ret, None
        self.err(e, "unknown function")

    def mcall(self, e, env):
        ctx = self.ctx
        m = e["m"]
        r = e["recv"]
        # X.iter().all(|&x| body)
        if m == "all" and r["k"] == "mcall" and r["m"] == "iter" and not r["args"]:
            t, ty = self.ex(r["recv"], env)
            if ty != "Arr" or len(e["args"]) != 1 or e["args"][0]["k"] != "closure":
                self.err(e, "unsupported use of iter().all")
            cl = e["args"][0]
            if len(cl["ps"]) != 1 or cl["ps"][0]["k"] != "pvar":
                self.err(e, "closure parameters")
            v = cl["ps"][0]["name"]
            env2 = dict(env)
            env2[v] = "u64"
            bt, bty = self.ex(cl["body"], env2)
            if bty != "bool":
                self.err(e, "closure is not a predicate")
            return "%s.all (fun %s => %s)" % (self.par(t), v, bt), "bool", None
        t, ty = self.ex(r, env)
        if m == "leading_zeros" and not e["args"]:
            if ty != "u64":
                self.err(e, "leading_zeros of a non-u64")
            return "leading_zeros %s" % self.par(t), "u32", None
        fi = ctx.methods.get((ty, m))
        if fi is None:
            self.err(e, "unknown method for type %s (not generated before)" % (ty,))
        if fi.recv is None:
            self.err(e, "associated function called as a method")
        if fi.recv == "mut":
            self.err(e, "`&mut self` method in expression position")
        if fi.fuel:
            self.err(e, "call of a function with loops in expression position")
        a = self.args(fi, e["args"], e, env)
        return " ".join([fi.lean, self.par(t)] + a), fi.ret, None

    # ------------------------------------------------ analysis of statement lists
    def prim_call(self, e):
        """`::ff::adc(x, y, &mut c)` / `::ff::sbb(..)` -> (lean primitive, x, y, c-variable) or None"""
        if e["k"] == "call" and e["f"]["k"] == "path" and e["f"]["segs"] in (["", "ff", "adc"], ["", "ff", "sbb"]):
            a = e["args"]
            if len(a) != 3 or a[2]["k"] != "unary" or a[2]["op"] != "&mut" or a[2]["e"]["k"] != "path" \
                    or len(a[2]["e"]["segs"]) != 1:
                self.err(e, "unexpected arguments of ::ff::%s" % e["f"]["segs"][2])
            return e["f"]["segs"][2], a[0], a[1], a[2]["e"]["segs"][0]
        return None

    def is_swap(self, e):
        return e["k"] == "call" and e["f"]["k"] == "path" and e["f"]["segs"] == ["", "std", "mem", "swap"]

    def mutrefs(self, e, add):
        """variables passed as `&mut x` somewhere inside expression e"""
        if not isinstance(e, dict):
            return
        if e.get("k") == "unary" and e["op"] == "&mut":
            add(self.root(e["e"])[0])
        for key in ("e", "l", "r", "recv", "f", "scrut", "ix", "lo", "hi"):
            if key in e and isinstance(e[key], dict):
                self.mutrefs(e[key], add)
        for x in e.get("args", []) + e.get("es", []):
            self.mutrefs(x, add)

    def patvars(self, pat):
        if pat["k"] == "pvar":
            return [] if pat["name"] == "_" else [pat["name"]]
        out = []
        for p in pat["ps"]:
            out += self.patvars(p)
        return out

    def assigned(self, stmts, declared, env):
        """outer variables (not in `declared`, not declared earlier in `stmts`) that the statements assign,
        in the order of their declaration in env"""
        res = []

        def walk(sts, decl):
            decl = set(decl)

            def add(v):
                if v not in decl and v not in res:
                    res.append(v)
            for s in sts:
                k = s["k"]
                if k == "let":
                    self.mutrefs(s["e"], add)
                    decl.update(self.patvars(s["pat"]))
                elif k == "assign":
                    add(self.root(s["place"])[0])
                    self.mutrefs(s["e"], add)
                elif k == "exprstmt":
                    e = s["e"]
                    if e["k"] == "if":
                        walk_if(e, decl)
                    elif e["k"] == "mcall":
                        if e["m"] in self.ctx_mutnames():
                            add(self.root(e["recv"])[0])
                        self.mutrefs(e, add)
                    elif self.is_swap(e):
                        for a in e["args"]:
                            add(self.root(a)[0])
                    else:
                        self.mutrefs(e, add)
                elif k == "for":
                    info = self.iterkind(s["iter"], None)
                    if info["mode"] == "mut":
                        add(info["root"])
                    walk(s["body"]["stmts"], decl | set(self.patvars(s["pat"])))
                elif k in ("while", "loop", "blockstmt"):
                    walk(s["body"]["stmts"], decl)
                elif k in ("return", "break", "use", "marker"):
                    pass
                else:
                    self.err(s, "unsupported statement")

        def walk_if(e, decl):
            walk(e["then"]["stmts"], decl)
            if e["else"] is not None:
                walk(e["else"]["stmts"], decl)
                if e["else"]["tail"] is not None and e["else"]["tail"]["k"] == "if":
                    walk_if(e["else"]["tail"], decl)

        walk(stmts, declared)
        for v in res:
            if v not in env:
                raise ExtractError("derive: %s: assignment to unknown variable `%s`" % (self.where, v))
        order = list(env.keys())
        return sorted(res, key=order.index)

    def ctx_mutnames(self):
        return {m for (_, m), fi in self.ctx.methods.items() if fi.recv == "mut"}

    def diverges(self, sts):
        for s in sts:
            if s["k"] in ("return", "break"):
                return True
            if s["k"] == "exprstmt" and s["e"]["k"] == "if":
                e = s["e"]
                if self.diverges(e["then"]["stmts"]) or (e["else"] is not None and self.diverges(e["else"]["stmts"])):
                    return True
            if s["k"] == "blockstmt" and self.diverges(s["body"]["stmts"]):
                return True
        return False

    def contains(self, sts, kind):
        """does the statement list contain a `return` / `break` (not inside a nested loop for break)"""
        for s in sts:
            if s["k"] == kind:
                return True
            if s["k"] == "exprstmt" and s["e"]["k"] == "if":
                e = s["e"]
                if self.contains(e["then"]["stmts"], kind) or \
                        (e["else"] is not None and self.contains(e["else"]["stmts"], kind)):
                    return True
            if s["k"] == "blockstmt" and self.contains(s["body"]["stmts"], kind):
                return True
            if kind == "return" and s["k"] in ("for", "while", "loop") and self.contains(s["body"]["stmts"], kind):
                return True
        return False

    @staticmethod
    def has_loop(node):
        if isinstance(node, dict):
            if node.get("k") in ("while", "loop"):
                return True
            return any(Tr.has_loop(v) for v in node.values())
        if isinstance(node, (list, tuple)):
            return any(Tr.has_loop(v) for v in node)
        return False

    # ------------------------------------------------ iterators of `for`
    def iterkind(self, it, env):
        """env None: classification only (no translation)"""
        def tr(x):
            if env is None:
                return "?", "Arr"
            return self.ex(x, env)

        def imm(x):
            """immutable iteration over an array -> (lean list text, elem type) or None"""
            if x["k"] == "mcall" and x["m"] == "iter" and not x["args"]:
                t, ty = tr(x["recv"])
                if ty != "Arr":
                    self.err(x, "iter() of a non-array")
                return self.par(t), "u64"
            if x["k"] == "mcall" and x["m"] == "rev" and not x["args"]:
                r = imm(x["recv"])
                if r:
                    return "%s.reverse" % r[0], r[1]
            if x["k"] == "mcall" and x["m"] == "zip" and len(x["args"]) == 1:
                l, r = imm(x["recv"]), imm(x["args"][0])
                if l and r:
                    return "(List.zip %s %s)" % (l[0], r[0]), (l[1], r[1])
            return None

        def itermut(x):
            return x["k"] == "mcall" and x["m"] == "iter_mut" and not x["args"]

        if it["k"] == "mcall" and it["m"] == "rev" and not it["args"] and itermut(it["recv"]):
            c = it["recv"]["recv"]
            return {"mode": "mut", "comb": "forMutRev", "root": self.root(c)[0], "cont": c, "other": None}
        if it["k"] == "unary" and it["op"] == "&mut":
            return {"mode": "mut", "comb": "forMut", "root": self.root(it["e"])[0], "cont": it["e"], "other": None}
        if it["k"] == "mcall" and it["m"] == "zip" and len(it["args"]) == 1 and itermut(it["recv"]):
            o = imm(it["args"][0])
            if o is None or o[1] != "u64":
                self.err(it, "unsupported zip partner")
            c = it["recv"]["recv"]
            return {"mode": "mut", "comb": "forMutZip", "root": self.root(c)[0], "cont": c, "other": o[0]}
        r = imm(it)
        if r:
            return {"mode": "list", "list": r[0], "elem": r[1]}
        if it["k"] == "call" and it["f"]["k"] == "path" and it["f"]["segs"] == ["BitIterator", "new"] \
                and len(it["args"]) == 1:
            t, ty = tr(it["args"][0])
            if env is not None and ty not in ("Limbs", "Arr"):
                self.err(it, "BitIterator over a non-slice")
            return {"mode": "list", "list": "(PP.bitsMSB %s)" % self.par(t), "elem": "bool"}
        if it["k"] == "range":
            if it["lo"]["k"] != "num" or it["lo"]["v"] != 0:
                self.err(it, "range not starting at 0")
            t, ty = tr(it["hi"])
            if env is not None and ty not in INT:
                self.err(it, "range bound")
            return {"mode": "list", "list": "(List.range %s)" % self.par(t), "elem": "int"}
        self.err(it, "unsupported iterator")

    def bind_pat(self, pat, elem, env, node):
        """-> lean binder text; binds the pattern variables in env"""
        if pat["k"] == "pvar":
            if isinstance(elem, tuple):
                self.err(node, "tuple element bound to a single variable")
            if pat["name"] != "_":
                env[pat["name"]] = elem
            return pat["name"]
        if not isinstance(elem, tuple) or len(pat["ps"]) != len(elem):
            self.err(node, "pattern does not match the iterator's element")
        return "(" + ", ".join(self.bind_pat(p, t, env, node) for p, t in zip(pat["ps"], elem)) + ")"

    # ------------------------------------------------ statements
    def seq(self, sts, i, tail, ind, env, K):
        if i == len(sts):
            return K["end"](ind, tail, env)
        s = sts[i]
        k = s["k"]

        def nxt():
            return self.seq(sts, i + 1, tail, ind, env, K)

        if k == "use":
            self.emit(ind, None, self.text(s) + "   (declaration, no code)")
            return nxt()
        if k == "marker":
            self.emit(ind, None, s["text"])
            return nxt()
        if k == "let":
            if s["pat"]["k"] != "pvar" or s["pat"]["name"] == "_":
                self.err(s, "unsupported let pattern")
            name = self.lname(s["pat"]["name"])
            pc = self.prim_call(s["e"])
            if pc:
                self.emit_prim(ind, name, pc, env, s)
                env[name] = "u64"
            else:
                t, ty = self.ex(s["e"], env)
                if ty == "unit" or (isinstance(ty, tuple) and ty[1] is None):
                    self.err(s, "let of a value of unknown type")
                self.emit(ind, "let %s := %s" % (name, t), self.text(s))
                env[name] = ty
            return nxt()
        if k == "assign":
            root, ix = self.root(s["place"])
            if root not in env:
                self.err(s, "assignment to unknown variable")
            if s["op"] == "=":
                if ix is not None:
                    if env[root] not in ("Repr", "Arr") or not ix < self.ctx.N:
                        self.err(s, "indexed assignment")
                    t, ty = self.ex(s["e"], env)
                    if ty not in INT or unify_int(ty, "u64") is None:
                        self.err(s, "limb assignment of a non-u64")
                    self.emit(ind, "let %s := %s.set %d %s" % (root, root, ix, self.par(t)), self.text(s))
                    return nxt()
                pc = self.prim_call(s["e"])
                if pc:
                    if env[root] not in INT:
                        self.err(s, "adc/sbb result assigned to a non-integer")
                    self.emit_prim(ind, root, pc, env, s)
                    return nxt()
                t, ty = self.ex(s["e"], env)
                old = env[root]
                ok = (old in LISTS and ty in LISTS) or (old in INT and ty in INT and unify_int(old, ty)) \
                    or old == ty
                if not ok:
                    self.err(s, "assignment of %s to a variable of type %s" % (ty, old))
                if old == "int":
                    env[root] = ty
                self.emit(ind, "let %s := %s" % (root, t), self.text(s))
                return nxt()
            if ix is not None:
                self.err(s, "compound assignment to an indexed place")
            op = s["op"][:-1]
            lpre = self.exc(s["place"], env)
            t, ty, _ = self.binop(s, op, None, s["e"], env, lpre=lpre)
            if env[root] == "int":
                env[root] = ty
            self.emit(ind, "let %s := %s" % (root, t), self.text(s))
            return nxt()
        if k == "exprstmt":
            e = s["e"]
            if e["k"] == "if":
                return self.ifstmt(s, e, sts, i, tail, ind, env, K)
            if self.is_swap(e):
                if len(e["args"]) != 2:
                    self.err(s, "swap arity")
                x, ix1 = self.root(e["args"][0])
                y, ix2 = self.root(e["args"][1])
                if ix1 is not None or ix2 is not None or x not in env or y not in env or x == y:
                    self.err(s, "unsupported swap")
                if not (env[x] in INT and env[y] in INT and unify_int(env[x], env[y])):
                    self.err(s, "swap of values of different types")
                ty = unify_int(env[x], env[y])
                env[x] = env[y] = ty
                self.emit(ind, "let (%s, %s) := (%s, %s)" % (x, y, y, x), self.text(s))
                return nxt()
            if e["k"] == "mcall":
                rt, rty = self.ex(e["recv"], env)
                fi = self.ctx.methods.get((rty, e["m"]))
                if fi is None:
                    self.err(s, "unknown method for type %s (not generated before)" % (rty,))
                if fi.recv != "mut":
                    self.err(s, "call statement of a method without `&mut self` (no effect)")
                if fi.fuel:
                    self.err(s, "call of a function with loops")
                root, ix = self.root(e["recv"])
                if ix is not None or root not in env:
                    self.err(s, "unsupported receiver")
                if e["m"] == "mont_reduce":
                    if len(e["args"]) != 2 * self.ctx.N:
                        self.err(s, "mont_reduce takes %d words" % (2 * self.ctx.N))
                    ws = []
                    for a in e["args"]:
                        t, ty = self.ex(a, env)
                        if ty not in INT or unify_int(ty, "u64") is None:
                            self.err(s, "mont_reduce argument is not a u64")
                        ws.append(t)
                    self.emit(ind, "let %s := %s %s [%s]" % (root, fi.lean, root, ", ".join(ws)), self.text(s))
                    return nxt()
                a = self.args(fi, e["args"], e, env)
                self.emit(ind, "let %s := %s" % (root, " ".join([fi.lean, root] + a)), self.text(s))
                return nxt()
            self.err(s, "unsupported expression statement")
        if k == "blockstmt":
            blk = s["body"]
            if blk["tail"] is not None:
                self.err(s, "block with a value used as a statement")
            for x in blk["stmts"]:
                if x["k"] == "let":
                    for v in self.patvars(x["pat"]):
                        if v in env:
                            self.err(x, "block-local variable shadows an outer variable")
            self.emit(ind, None, "{")
            mark = {"k": "marker", "text": "}", "a": s["b"] - 1, "b": s["b"]}
            return self.seq(blk["stmts"] + [mark] + sts[i + 1:], 0, tail, ind, env, K)
        if k == "return":
            if s["e"] is None:
                return K["ret"](ind, None, None, self.text(s))
            t, ty = self.ex(s["e"], env)
            return K["ret"](ind, t, ty, self.text(s))
        if k == "break":
            return K["brk"](ind, self.text(s))
        if k == "for":
            return self.forstmt(s, sts, i, tail, ind, env, K)
        if k == "while":
            return self.whilestmt(s, s["cond"], False, s["body"]["stmts"], self.text(s, s["hb"]), sts, i, tail, ind, env, K)
        if k == "loop":
            b = s["body"]["stmts"]
            ok = b and b[0]["k"] == "exprstmt" and b[0]["e"]["k"] == "if" and b[0]["e"]["else"] is None \
                and [x["k"] for x in b[0]["e"]["then"]["stmts"]] == ["break"] and not self.contains(b[1:], "break")
            if not ok or s["body"]["tail"] is not None:
                self.err(s, "`loop` that is not of the form loop { if C { break; } .. }")
            hdr = self.text(s, s["hb"]) + " " + self.text(b[0])
            return self.whilestmt(s, b[0]["e"]["cond"], True, b[1:], hdr, sts, i, tail, ind, env, K)
        self.err(s, "unsupported statement")

    def emit_prim(self, ind, dst, pc, env, s):
        prim, x, y, c = pc
        if c not in env or env[c] not in INT:
            self.err(s, "carry variable")
        xt, xty = self.ex(x, env)
        yt, yty = self.ex(y, env)
        if unify_int(xty, "u64") is None or unify_int(yty, "u64") is None:
            self.err(s, "adc/sbb on non-u64 values")
        env[c] = "u64"
        self.emit(ind, "let (%s, %s) := %s %s %s %s" % (dst, c, prim, self.par(xt), self.par(yt), c), self.text(s))

    def noflow(self, what):
        def f(*a):
            raise ExtractError("derive: %s: `return`/`break` %s" % (self.where, what))
        return f

    def ifstmt(self, s, e, sts, i, tail, ind, env, K):
        th, el = e["then"], e["else"]
        if th["tail"] is not None or (el is not None and el["tail"] is not None):
            self.err(s, "`if` with a value used as a statement")
        ct, cty = self.ex(e["cond"], env)
        if cty != "bool":
            self.err(s, "condition is not a bool")
        hdr = self.text(e, e["hb"])
        if self.diverges(th["stmts"]) or (el is not None and self.diverges(el["stmts"])):
            Kb = {"end": lambda ind2, t2, env2: self.seq(sts, i + 1, tail, ind2, env2, K),
                  "ret": K["ret"], "brk": K["brk"]}
            self.emit(ind, "if %s then" % ct, hdr)
            self.seq(th["stmts"], 0, None, ind + 2, dict(env), Kb)
            if el is not None:
                self.emit(ind, "else", "} else" + (" {" if not el.get("elseif") else ""))
                self.seq(el["stmts"], 0, None, ind + 2, dict(env), Kb)
            else:
                self.emit(ind, "else", "}")
                self.seq(sts, i + 1, tail, ind + 2, dict(env), K)
            return
        both = th["stmts"] + (el["stmts"] if el is not None else [])
        vs = self.assigned(both, set(), env)
        if not vs:
            self.err(s, "`if` statement without effect")
        if self.has_loop(both):
            self.err(s, "loop inside a non-diverging `if` statement")
        Kb = {"end": lambda ind2, t2, env2: self.emit(ind2, self.tup(vs)),
              "ret": self.noflow("inside if"), "brk": self.noflow("inside if")}
        self.emit(ind, "let %s := if %s then" % (self.tup(vs), ct), hdr)
        self.seq(th["stmts"], 0, None, ind + 4, dict(env), Kb)
        if el is not None:
            self.emit(ind + 2, "else", "} else" + (" {" if not el.get("elseif") else ""))
            self.seq(el["stmts"], 0, None, ind + 4, dict(env), Kb)
        else:
            self.emit(ind + 2, "else", "}")
            self.emit(ind + 4, self.tup(vs))
        return self.seq(sts, i + 1, tail, ind, env, K)

    def forstmt(self, s, sts, i, tail, ind, env, K):
        body = s["body"]
        if body["tail"] is not None:
            self.err(s, "loop body with a value")
        info = self.iterkind(s["iter"], env)
        hdr = self.text(s, s["hb"])
        b = body["stmts"]
        pv = set(self.patvars(s["pat"]))
        for v in pv:
            if v in env:
                self.err(s, "loop variable shadows an outer variable")
        has_ret, has_brk = self.contains(b, "return"), self.contains(b, "break")
        if self.has_loop(b):
            self.err(s, "while/loop inside a for body")
        env2 = dict(env)
        if info["mode"] == "mut":
            if has_ret or has_brk:
                self.err(s, "return/break inside a mutable iteration")
            root = info["root"]
            ct, cty = self.ex(info["cont"], env)
            if cty != "Arr" or ct != root:
                self.err(s, "mutable iteration over something that is not the limb array of a variable")
            vs = [v for v in self.assigned(b, pv, env) if v != root]
            if not vs:
                self.err(s, "mutable iteration without loop-carried state")
            if info["comb"] == "forMutZip":
                binder = self.bind_pat(s["pat"], ("u64", "u64"), env2, s)[1:-1].replace(",", "")
                elem = s["pat"]["ps"][0]["name"]
            else:
                binder = self.bind_pat(s["pat"], "u64", env2, s)
                elem = binder
            if elem == "_":
                self.err(s, "mutable iteration that ignores the element")
            st = self.tup(vs)
            self.emit(ind, "let (%s, %s) := %s (fun %s %s =>" % (st, root, info["comb"], st, binder), hdr)
            Kb = {"end": lambda ind2, t2, env3: self.emit(ind2, "(%s, %s)" % (st, elem)),
                  "ret": self.noflow("inside for"), "brk": self.noflow("inside for")}
            self.seq(b, 0, None, ind + 4, env2, Kb)
            other = (" " + info["other"]) if info["other"] else ""
            self.emit(ind + 2, ") %s %s%s" % (st, root, other), "}")
            return self.seq(sts, i + 1, tail, ind, env, K)
        binder = self.bind_pat(s["pat"], info["elem"], env2, s)
        vs = self.assigned(b, pv, env)
        st = self.tup(vs)
        if has_ret:
            if vs or has_brk:
                self.err(s, "for loop with `return` that also assigns outer variables / breaks")
            rty = []

            def kret(ind2, t, ty, comment):
                if t is None:
                    self.err(s, "`return;` inside a for loop")
                rty.append(ty)
                self.emit(ind2, "some %s" % self.par(t), comment)
            Kb = {"end": lambda ind2, t2, env3: self.emit(ind2, "none"), "ret": kret,
                  "brk": self.noflow("inside for")}
            self.emit(ind, "match List.findSome? (fun %s =>" % binder, hdr)
            self.seq(b, 0, None, ind + 4, env2, Kb)
            self.emit(ind + 2, ") %s with" % info["list"], "}")
            self.emit(ind, "| some ret =>", "(a `return` inside the loop)")
            K["ret"](ind + 2, "ret", rty[0], None)
            self.emit(ind, "| none =>", "(loop finished)")
            return self.seq(sts, i + 1, tail, ind + 2, env, K)
        if not vs:
            self.err(s, "for loop without effect")
        if has_brk:
            Kb = {"end": lambda ind2, t2, env3: self.emit(ind2, "(%s, false)" % st),
                  "ret": self.noflow("inside for"),
                  "brk": lambda ind2, comment: self.emit(ind2, "(%s, true)" % st, comment)}
            self.emit(ind, "let %s := forBreak (fun %s %s =>" % (st, st, binder), hdr)
        else:
            Kb = {"end": lambda ind2, t2, env3: self.emit(ind2, st),
                  "ret": self.noflow("inside for"), "brk": self.noflow("inside for")}
            self.emit(ind, "let %s := List.foldl (fun %s %s =>" % (st, st, binder), hdr)
        self.seq(b, 0, None, ind + 4, env2, Kb)
        self.emit(ind + 2, ") %s %s" % (st, info["list"]), "}")
        return self.seq(sts, i + 1, tail, ind, env, K)

    def whilestmt(self, s, cond, negate, b, hdr, sts, i, tail, ind, env, K):
        if not self.fuel:
            self.err(s, "internal: loop in a function without fuel")
        if self.contains(b, "return") or self.contains(b, "break"):
            self.err(s, "return/break inside a while body")
        vs = self.assigned(b, set(), env)
        if not vs:
            self.err(s, "while loop without loop-carried state")
        st = self.tup(vs)
        ct, cty = self.ex(cond, env)
        if cty != "bool":
            self.err(s, "loop condition is not a bool")
        if negate:
            ct = "!" + self.par(ct)
        self.emit(ind, "match whileFuel (fun %s => %s) (fun %s =>" % (st, ct, st), hdr)
        Kb = {"end": lambda ind2, t2, env3: self.emit(ind2, "some %s" % st),
              "ret": self.noflow("inside while"), "brk": self.noflow("inside while")}
        self.seq(b, 0, None, ind + 4, dict(env), Kb)
        self.emit(ind + 2, ") fuel %s with" % st, "}")
        self.emit(ind, "| none => none", "(the loop has not finished after `fuel` tests of its condition)")
        self.emit(ind, "| some %s =>" % st)
        return self.seq(sts, i + 1, tail, ind + 2, env, K)

    # ------------------------------------------------ tail values
    def tailvalue(self, ind, e, env, K):
        if e["k"] == "paren":
            return self.tailvalue(ind, e["e"], env, K)
        if e["k"] == "if":
            if e["else"] is None:
                self.err(e, "`if` without else used as a value")
            ct, cty = self.ex(e["cond"], env)
            if cty != "bool":
                self.err(e, "condition is not a bool")
            self.emit(ind, "if %s then" % ct, self.text(e, e["hb"]))
            self.seq(e["then"]["stmts"], 0, e["then"]["tail"], ind + 2, dict(env), K)
            self.emit(ind, "else", "} else" + (" {" if not e["else"].get("elseif") else ""))
            self.seq(e["else"]["stmts"], 0, e["else"]["tail"], ind + 2, dict(env), K)
            return
        if e["k"] == "match":
            t, ty = self.ex(e["scrut"], env)
            if ty not in ("Ordering", "Legendre"):
                self.err(e, "match on a value of type %s" % (ty,))
            comb = {"Ordering": "matchOrdering", "Legendre": "matchLegendre"}[ty]
            self.emit(ind, "%s %s" % (comb, self.par(t)), "match %s {" % self.text(e["scrut"]))
            seen = set()
            for pat, body in e["arms"]:
                segs = pat["segs"]
                key = (segs[-2], segs[-1]) if len(segs) >= 2 else None
                if key not in ENUMS or ENUMS[key][1] != ty or key in seen:
                    self.err(e, "unsupported match arm %s" % "::".join(segs))
                seen.add(key)
                self.emit(ind + 2, "(%s := fun _ =>" % ENUMS[key][0].split(".")[-1], "%s =>" % "::".join(segs))
                self.seq(body["stmts"], 0, body["tail"], ind + 4, dict(env), K)
                li, lt, lc = self.lines[-1]
                if lt is None:
                    self.err(e, "internal: match arm ends in a comment line")
                self.lines[-1] = (li, lt + ")", lc)
            if len(seen) != 3:
                self.err(e, "non-exhaustive match")
            return
        t, ty = self.ex(e, env)
        return K["ret"](ind, t, ty, self.text(e))

    # ------------------------------------------------ whole function
    def run(self, body_src):
        blk = parse_body(body_src, self.where)
        self.fuel = self.has_loop(blk)
        env = {}
        if self.recv is not None:
            env["self"] = self.selfT
        binders = []
        if self.fuel:
            binders.append("(fuel : Nat)")
        if self.recv is not None:
            binders.append("(self : List Nat)")
        for pn, pty in self.params:
            if pn != "_":
                env[self.lname(pn)] = pty
            binders.append("(%s : %s)" % (pn, lean_ty(pty)))
        if self.recv == "mut":
            if self.ret != "unit":
                raise ExtractError("derive: %s: `&mut self` method with a return value" % self.where)
            res = self.selfT
        else:
            if self.ret == "unit":
                raise ExtractError("derive: %s: function without result" % self.where)
            res = self.ret
        self.res = res

        def kret(ind, t, ty, comment):
            if t is None:
                if self.recv != "mut":
                    raise ExtractError("derive: %s: `return;` in a function with a result" % self.where)
                t, ty = "self", self.selfT
            ok = self.compat(ty, res) or (ty in LISTS and res in LISTS and self.recv == "mut")
            if not ok:
                raise ExtractError("derive: %s: returns %s, declared %s" % (self.where, ty, res))
            self.emit(ind, ("some %s" % self.par(t)) if self.fuel else t, comment)

        def kend(ind, tl, env2):
            if tl is None:
                if self.recv != "mut":
                    raise ExtractError("derive: %s: control reaches the end of a function with a result" % self.where)
                return kret(ind, "self", self.selfT, None)
            if self.recv == "mut":
                raise ExtractError("derive: %s: `&mut self` method with a tail value" % self.where)
            return self.tailvalue(ind, tl, env2, K)
        K = {"end": kend, "ret": kret, "brk": self.noflow("outside a loop")}
        self.seq(blk["stmts"], 0, blk["tail"], 2, env, K)
        rt = lean_ty(("opt", res)) if self.fuel else lean_ty(res)
        head = "def %s %s: %s :=" % (self.lean_name, "".join(b + " " for b in binders), rt)
        return [("/-- %s -/" % self.sig_doc), head] + self.render()

    def render(self):
        out = []
        for ind, text, comment in self.lines:
            if text is None:
                out.append(" " * ind + "-- " + comment)
                continue
            line = " " * ind + text
            if comment:
                line = line.ljust(63) + " -- " + comment
            out.append(line)
        return out


# ================================================================ signatures and tables

def rust_ty(text, selfT, ctx, generics, where):
    t = norm(text)
    t = re.sub(r"^&\s*(mut\s+)?", "", t)
    if t == "":
        return "unit"
    if t in ("u64", "u32", "usize", "bool"):
        return t
    if t == "Self":
        return selfT
    if t == ctx.R:
        return "Repr"
    if t == ctx.F:
        return "Fe"
    if t in ("::std::cmp::Ordering", "Ordering"):
        return "Ordering"
    if t == "::ff::LegendreSymbol":
        return "Legendre"
    m = re.match(r"^Option<(.*)>$", t)
    if m:
        return ("opt", rust_ty(m.group(1), selfT, ctx, generics, where))
    m = re.match(r"^Result<(.*),\s*PrimeFieldDecodingError>$", t)
    if m:
        return ("opt", rust_ty(m.group(1), selfT, ctx, generics, where))
    if re.match(r"^[A-Z]$", t) and squeeze(generics) == "%s:AsRef<[u64]>" % t:
        return "Limbs"
    raise ExtractError("derive: %s: unsupported type %r" % (where, t))


def parse_sig(fn, selfT, ctx, where):
    """-> (recv, [(name, type)], ret)"""
    ps = split_top(fn["params"], where)
    recv = None
    out = []
    for k, p in enumerate(ps):
        p = norm(p)
        if k == 0 and p in ("&self", "self"):
            recv = "ref"
            continue
        if k == 0 and p == "&mut self":
            recv = "mut"
            continue
        m = re.match(r"^(mut\s+)?([A-Za-z_][A-Za-z0-9_]*)\s*:\s*(.+)$", p)
        if not m:
            raise ExtractError("derive: %s: unsupported parameter %r" % (where, p))
        out.append((m.group(2), rust_ty(m.group(3), selfT, ctx, fn["generics"], where)))
    return recv, out, rust_ty(fn["ret"], selfT, ctx, fn["generics"], where)


# (impl header, Self type, Rust fn, Lean name, key under which calls find it); {F} = Fq|Fr, {R} = FqRepr|FrRepr.
# ORDER MATTERS: a function may only call what is above it.
TARGETS = [
    ("impl ::core::default::Default for {R}", "Repr", "default", "{R}.default", "default"),
    ("impl ::core::cmp::PartialEq for {R}", "Repr", "eq", "{R}.eq", "eq"),
    ("impl From<u64> for {R}", "Repr", "from", "{R}.from_u64", "from"),
    ("impl Ord for {R}", "Repr", "cmp", "{R}.cmp", "cmp"),
    ("impl PartialOrd for {R}", "Repr", "partial_cmp", "{R}.partial_cmp", "partial_cmp"),
    ("impl ::ff::PrimeFieldRepr for {R}", "Repr", "is_odd", "{R}.is_odd", "is_odd"),
    ("impl ::ff::PrimeFieldRepr for {R}", "Repr", "is_even", "{R}.is_even", "is_even"),
    ("impl ::ff::PrimeFieldRepr for {R}", "Repr", "is_zero", "{R}.is_zero", "is_zero"),
    ("impl ::ff::PrimeFieldRepr for {R}", "Repr", "shr", "{R}.shr", "shr"),
    ("impl ::ff::PrimeFieldRepr for {R}", "Repr", "div2", "{R}.div2", "div2"),
    ("impl ::ff::PrimeFieldRepr for {R}", "Repr", "mul2", "{R}.mul2", "mul2"),
    ("impl ::ff::PrimeFieldRepr for {R}", "Repr", "shl", "{R}.shl", "shl"),
    ("impl ::ff::PrimeFieldRepr for {R}", "Repr", "num_bits", "{R}.num_bits", "num_bits"),
    ("impl ::ff::PrimeFieldRepr for {R}", "Repr", "add_nocarry", "{R}.add_nocarry", "add_nocarry"),
    ("impl ::ff::PrimeFieldRepr for {R}", "Repr", "sub_noborrow", "{R}.sub_noborrow", "sub_noborrow"),
    ("impl ::std::cmp::PartialEq for {F}", "Fe", "eq", "{F}.eq", "eq"),
    ("impl {F}", "Fe", "is_valid", "{F}.is_valid", "is_valid"),
    ("impl {F}", "Fe", "reduce", "{F}.reduce", "reduce"),
    ("MONT", None, None, None, None),
    ("impl ::ff::Field for {F}", "Fe", "zero", "{F}.zero", "zero"),
    ("impl ::ff::Field for {F}", "Fe", "one", "{F}.one", "one"),
    ("impl ::ff::Field for {F}", "Fe", "is_zero", "{F}.is_zero", "is_zero"),
    ("impl ::ff::Field for {F}", "Fe", "add_assign", "{F}.add_assign", "add_assign"),
    ("impl ::ff::Field for {F}", "Fe", "double", "{F}.double", "double"),
    ("impl ::ff::Field for {F}", "Fe", "sub_assign", "{F}.sub_assign", "sub_assign"),
    ("impl ::ff::Field for {F}", "Fe", "negate", "{F}.negate", "negate"),
    ("impl ::ff::PrimeField for {F}", "Fe", "from_repr", "{F}.from_repr", "from_repr"),
    ("impl ::ff::PrimeField for {F}", "Fe", "into_repr", "{F}.into_repr", "into_repr"),
    ("impl ::ff::PrimeField for {F}", "Fe", "char", "{F}.char", "char"),
    ("impl ::ff::PrimeField for {F}", "Fe", "multiplicative_generator", "{F}.multiplicative_generator",
     "multiplicative_generator"),
    ("impl ::ff::PrimeField for {F}", "Fe", "root_of_unity", "{F}.root_of_unity", "root_of_unity"),
    ("impl Ord for {F}", "Fe", "cmp", "{F}.cmp", "cmp"),
    ("impl PartialOrd for {F}", "Fe", "partial_cmp", "{F}.partial_cmp", "partial_cmp"),
    ("impl From<{F}> for {R}", "Repr", "from", "{R}.from_fe", "from_fe"),
    ("impl ::ff::Field for {F}", "Fe", "inverse", "{F}.inverse", "inverse"),
    ("impl ::ff::Field for {F}", "Fe", "frobenius_map", "{F}.frobenius_map", "frobenius_map"),
    ("POW", None, None, None, None),
    ("impl ::ff::SqrtField for {F}", "Fe", "legendre", "{F}.legendre", "legendre"),
    ("impl ::ff::SqrtField for {F}", "Fe", "sqrt", "{F}.sqrt", "sqrt"),
]

MONT_REASON = "translated by extract_mont.py (PP/Gen/MontProg.lean, straight-line IR); called here through `{F}.%s`"
# (impl header, fn or '*') -> reason.  '*' = every fn of the block (also blocks without fn).
NOT_TRANSLATED = {
    ("impl ::core::marker::Copy for {R}", "*"): "marker trait",
    ("impl ::core::clone::TrivialClone for {R}", "*"): "marker trait",
    ("impl ::core::clone::Clone for {R}", "*"): "`clone` is `*self` (a copy; values are immutable here)",
    ("impl ::core::marker::StructuralPartialEq for {R}", "*"): "marker trait",
    ("impl ::core::cmp::Eq for {R}", "*"): "marker trait (`assert_fields_are_eq` has no code)",
    ("impl ::zeroize::Zeroize for {R}", "*"): "overwrites memory with zeros; not arithmetic",
    ("impl ::std::fmt::Debug for {R}", "*"): "formatting",
    ("impl ::std::fmt::Display for {R}", "*"): "formatting",
    ("impl AsRef<[u64]> for {R}", "*"): "view of the limb array (`&self.0`): the identity in this translation",
    ("impl AsMut<[u64]> for {R}", "*"): "view of the limb array (`&mut self.0`): the identity in this translation",
    ("impl ::std::marker::Copy for {F}", "*"): "marker trait",
    ("impl ::std::clone::Clone for {F}", "*"): "`clone` is `*self`",
    ("impl ::std::cmp::Eq for {F}", "*"): "marker trait",
    ("impl ::std::fmt::Debug for {F}", "*"): "formatting",
    ("impl ::std::fmt::Display for {F}", "*"): "formatting",
    ("impl ::zeroize::Zeroize for {F}", "*"): "overwrites memory with zeros; not arithmetic",
    ("impl ::ff::Field for {F}", "mul_assign"): MONT_REASON % "mul_assign",
    ("impl ::ff::Field for {F}", "square"): MONT_REASON % "square",
    ("impl {F}", "mont_reduce"): MONT_REASON % "mont_reduce",
    ("impl BaseFromRO for {F}", "*"): "hand-written in fq.rs / fr.rs, not derive output",
    ("impl Signum0 for {F}", "*"): "hand-written in fq.rs / fr.rs, not derive output",
    ("impl ::std::default::Default for {F}", "*"): "hand-written in fr.rs (`Fr::zero()`), not derive output",
}

MODULE_CONSTS = [("MODULUS", "Repr"), ("MODULUS_BITS", "u32"), ("REPR_SHAVE_BITS", "u32"), ("R", "Repr"),
                 ("R2", "Repr"), ("INV", "u64"), ("GENERATOR", "Repr"), ("S", "u32"), ("ROOT_OF_UNITY", "Repr")]


# ================================================================ the `ff` crate (pow, BitIterator, adc, sbb)

EXPECT_ADC = ("lettmp=u128::from(a)+u128::from(b)+u128::from(*carry);"
              "*carry=(tmp>>64)asu64;tmpasu64")
EXPECT_SBB = ("lettmp=(1u128<<64)+u128::from(a)-u128::from(b)-u128::from(*borrow);"
              "*borrow=iftmp>>64==0{1}else{0};tmpasu64")
EXPECT_MAC = ("lettmp=(u128::from(a))+u128::from(b)*u128::from(c)+u128::from(*carry);"
              "*carry=(tmp>>64)asu64;tmpasu64")
EXPECT_BITITER = ("pubstructBitIterator<E>{t:E,n:usize,}"
                  "impl<E:AsRef<[u64]>>BitIterator<E>{pubfnnew(t:E)->Self{letn=t.as_ref().len()*64;BitIterator{t,n}}}"
                  "impl<E:AsRef<[u64]>>IteratorforBitIterator<E>{typeItem=bool;fnnext(&mutself)->Option<bool>{"
                  "ifself.n==0{None}else{self.n-=1;letpart=self.n/64;letbit=self.n-(64*part);"
                  "Some(self.t.as_ref()[part]&(1<<bit)>0)}}}")


def blank_comments(s):
    out = list(s)
    i, n = 0, len(s)
    while i < n:
        if s.startswith("//", i):
            j = s.find("\n", i)
            j = n if j < 0 else j
            for k in range(i, j):
                out[k] = " "
            i = j
        elif s[i] == '"':
            j = i + 1
            while j < n and s[j] != '"':
                if s[j] == "\\":
                    j += 1
                j += 1
            i = j + 1
        else:
            i += 1
    return "".join(out)


def ff_source():
    """-> (crate-version, path, text without comments) of the `ff` crate the derive output calls into"""
    lock = open(os.path.join(REPO, "Cargo.lock")).read()
    toml = open(os.path.join(REPO, "Cargo.toml")).read()
    m = re.search(r"^\s*(ff[A-Za-z0-9_-]*)\s*=", toml, re.M)
    if not m:
        raise ExtractError("derive: no ff dependency in Cargo.toml")
    crate = m.group(1)
    m = re.search(r'name = "%s"\s*\nversion = "([^"]+)"' % re.escape(crate), lock)
    if not m:
        raise ExtractError("derive: %s not in Cargo.lock" % crate)
    ver = m.group(1)
    cargo_home = os.environ.get("CARGO_HOME", os.path.expanduser("~/.cargo"))
    cands = sorted(glob.glob(os.path.join(cargo_home, "registry", "src", "*", "%s-%s" % (crate, ver), "src", "lib.rs")))
    if not cands:
        raise ExtractError("derive: sources of %s-%s not found under %s/registry/src" % (crate, ver, cargo_home))
    return "%s-%s" % (crate, ver), cands[0], blank_comments(open(cands[0]).read())


def ff_items(tag, src):
    """check adc / sbb / mac_with_carry / BitIterator; locate `fn pow` of `trait Field`.
    -> (manifest items, pow fn record)"""
    items = []

    def rec(name, a, b):
        items.append({"item": "derive:ff:%s" % name, "file": "%s/src/lib.rs" % tag,
                      "lines": [src.count("\n", 0, a) + 1, src.count("\n", 0, b) + 1],
                      "sha256": hashlib.sha256(squeeze(src[a:b]).encode()).hexdigest()})
    for name, sig, expect in (("adc", "a: u64, b: u64, carry: &mut u64", EXPECT_ADC),
                              ("sbb", "a: u64, b: u64, borrow: &mut u64", EXPECT_SBB),
                              ("mac_with_carry", "a: u64, b: u64, c: u64, carry: &mut u64", EXPECT_MAC)):
        hits = list(re.finditer(r"pub fn %s\(([^)]*)\)\s*->\s*u64\s*\{" % name, src))
        if len(hits) != 1:
            raise ExtractError("derive: ff crate: expected one `pub fn %s`, found %d" % (name, len(hits)))
        h = hits[0]
        if norm(h.group(1)) != sig:
            raise ExtractError("derive: ff::%s: signature changed: %r" % (name, norm(h.group(1))))
        e = match_brace(src, h.end() - 1)
        if squeeze(src[h.end():e - 1]) != expect:
            raise ExtractError("derive: ff::%s: body changed: %r" % (name, norm(src[h.end():e - 1])))
        rec(name, h.start(), e)
    a = src.find("pub struct BitIterator<E>")
    m = re.search(r"impl<E: AsRef<\[u64\]>> Iterator for BitIterator<E>\s*\{", src)
    if a < 0 or not m:
        raise ExtractError("derive: ff crate: BitIterator not found")
    b = match_brace(src, m.end() - 1)
    if squeeze(src[a:b]) != EXPECT_BITITER:
        raise ExtractError("derive: ff::BitIterator changed: %r" % norm(src[a:b]))
    rec("BitIterator", a, b)
    m = re.search(r"pub trait Field\s*:[^{]*\{", src)
    if not m:
        raise ExtractError("derive: ff crate: `pub trait Field` not found")
    ob = m.end() - 1
    e = match_brace(src, ob)
    fns, _ = fns_in_impl(src, ob, e, "ff::Field")
    if [f["name"] for f in fns] != ["pow"]:
        raise ExtractError("derive: ff::Field: expected exactly the default method `pow`, found %r"
                           % [f["name"] for f in fns])
    rec("Field::pow", fns[0]["a"], fns[0]["bb"])
    return items, fns[0]


# ================================================================ Lean output

PRELUDE = '''import PP.Model.MontLimb

set_option linter.unusedVariables false   -- e.g. a loop state variable that is not read after the loop

namespace PP.Gen.D

/-! ## primitives (fixed text)

`adc`, `sbb` are the two helpers of the `ff` crate that the derive output calls (`mac_with_carry` only
occurs in the unrolled multiplication, see PP/Gen/MontProg.lean); the extractor checks on every run that
their Rust bodies in the crate sources used for the build are LITERALLY the ones quoted below, and the
same for `BitIterator` (whose meaning is the model function `PP.bitsMSB`).  `leading_zeros` is
`u64::leading_zeros` of the Rust standard library.  The loop combinators are the meaning of the loop
forms listed in the header of extract_derive.py. -/

/-- `::ff::adc(a, b, &mut carry)`: (returned value, new `*carry`) -/
def adc (a b carry : Nat) : Nat × Nat :=
  let tmp := a + b + carry                              -- let tmp = u128::from(a) + u128::from(b) + u128::from(*carry);   (< 2^128: no wrap)
  let carry := (tmp >>> 64) % 2 ^ 64                    -- *carry = (tmp >> 64) as u64;
  (tmp % 2 ^ 64, carry)                                 -- tmp as u64

/-- `::ff::sbb(a, b, &mut borrow)`: (returned value, new `*borrow`); the `u128` expression does not
    underflow for `borrow ≤ 1` (every caller starts from 0 and hands the previous result on) -/
def sbb (a b borrow : Nat) : Nat × Nat :=
  let tmp := 2 ^ 64 + a - b - borrow                    -- let tmp = (1u128 << 64) + u128::from(a) - u128::from(b) - u128::from(*borrow);
  let borrow := if tmp >>> 64 == 0 then 1 else 0        -- *borrow = if tmp >> 64 == 0 { 1 } else { 0 };
  (tmp % 2 ^ 64, borrow)                                -- tmp as u64

/-- `u64::leading_zeros` -/
def leading_zeros (w : Nat) : Nat := if w = 0 then 64 else 63 - Nat.log2 w

/-- `for x in xs.iter_mut() { body }` / `for x in &mut xs { body }`: `f state x = (state', x')` -/
def forMut {σ : Type} (f : σ → Nat → σ × Nat) : σ → List Nat → σ × List Nat
  | s, [] => (s, [])
  | s, x :: xs => ((forMut f (f s x).1 xs).1, (f s x).2 :: (forMut f (f s x).1 xs).2)

/-- `for x in xs.iter_mut().rev() { body }` -/
def forMutRev {σ : Type} (f : σ → Nat → σ × Nat) (s : σ) (xs : List Nat) : σ × List Nat :=
  ((forMut f s xs.reverse).1, (forMut f s xs.reverse).2.reverse)

/-- `for (x, y) in xs.iter_mut().zip(ys.iter()) { body }`: stops at the shorter list, the remaining
    elements of `xs` are left as they are -/
def forMutZip {σ : Type} (f : σ → Nat → Nat → σ × Nat) : σ → List Nat → List Nat → σ × List Nat
  | s, x :: xs, y :: ys => ((forMutZip f (f s x y).1 xs ys).1, (f s x y).2 :: (forMutZip f (f s x y).1 xs ys).2)
  | s, xs, _ => (s, xs)

/-- `for x in xs { body }` with `break`: `f state x = (state', broke?)` -/
def forBreak {σ α : Type} (f : σ → α → σ × Bool) : σ → List α → σ
  | s, [] => s
  | s, x :: xs => if (f s x).2 then (f s x).1 else forBreak f (f s x).1 xs

/-- `match d { LegendreSymbol::Zero => .., QuadraticResidue => .., QuadraticNonResidue => .. }` (arms as
    thunks, passed by name in source order; a definition whose body is a bare `match` on a computed value
    makes Lean's `unfold` evaluate that value) -/
def matchLegendre {α : Type} (d : PP.Legendre) (zero residue nonResidue : Unit → α) : α :=
  match d with
  | .zero => zero ()
  | .residue => residue ()
  | .nonResidue => nonResidue ()

/-- `match o { Ordering::Less => .., Equal => .., Greater => .. }` -/
def matchOrdering {α : Type} (o : Ordering) (lt eq gt : Unit → α) : α :=
  match o with
  | .lt => lt ()
  | .eq => eq ()
  | .gt => gt ()

/-- `let mut repr = [0u64; N]; for i in 0..N { repr[i] = rng.next_u64(); }`: `n` draws from the RNG, the
    first one into limb 0 (`nextU64 = RngCore::next_u64` as a function of the RNG state, new state first) -/
def drawLimbs {Rng : Type} (nextU64 : Rng → Rng × Nat) : Nat → Rng → Rng × List Nat
  | 0, rng => (rng, [])
  | n + 1, rng =>
    ((drawLimbs nextU64 n (nextU64 rng).1).1, (nextU64 rng).2 :: (drawLimbs nextU64 n (nextU64 rng).1).2)

/-- `while cond { body }`: `none` = not finished after `fuel` tests of the condition (or the body
    itself ran out of fuel) -/
def whileFuel {σ : Type} (cond : σ → Bool) (body : σ → Option σ) : Nat → σ → Option σ
  | 0, _ => none
  | fuel + 1, s =>
    if cond s then
      match body s with
      | none => none
      | some s' => whileFuel cond body fuel s'
    else some s
'''


def emit_field(exp, F, mont_items, ffsrc, ffpow, lines, items, notes):
    """translate everything of one field; appends to lines / items / notes"""
    R = F + "Repr"
    mod = F.lower()
    span = module_span(exp, mod)
    mtext_a, mtext_b = span

    def rec(item, a, b):
        items.append({"item": item, "file": "<expanded>",
                      "lines": [exp.count("\n", 0, a) + 1, exp.count("\n", 0, b) + 1],
                      "sha256": hashlib.sha256(exp[a:b].encode()).hexdigest()})

    m = re.search(r"pub struct %s\(pub \[u64; ([0-9]+)usize\]\);" % R, exp[mtext_a:mtext_b])
    if not m:
        raise ExtractError("derive: `pub struct %s(pub [u64; N]);` not found" % R)
    N = int(m.group(1))
    rec("derive:%s:struct" % R, mtext_a + m.start(), mtext_a + m.end())
    m2 = re.search(r"pub struct %s\((pub\(super\) )?%s\);" % (F, R), exp[mtext_a:mtext_b])
    if not m2:
        raise ExtractError("derive: `pub struct %s(%s);` not found" % (F, R))
    ctx = FieldCtx(F, R, N)
    lines.append("")
    lines.append("/-! ## `%s` = `[u64; %d]`, `%s` (module `%s`) -/" % (R, N, F, mod))
    lines.append("")

    # ---- module-level constants
    dummy = Tr(ctx, "Fe", "%s constants" % F, "", None, [], "unit", "", "")
    for name, ty in MODULE_CONSTS:
        hits = list(re.finditer(r"\n        const %s: ([A-Za-z0-9]+) =\s*([^;]+);" % name, exp[mtext_a:mtext_b]))
        if len(hits) != 1:
            raise ExtractError("derive: %s: expected exactly one module-level `const %s`, found %d" % (F, name, len(hits)))
        h = hits[0]
        want = {"Repr": R, "u32": "u32", "u64": "u64"}[ty]
        if h.group(1) != want:
            raise ExtractError("derive: %s: const %s has type %s, expected %s" % (F, name, h.group(1), want))
        where = "%s const %s" % (F, name)
        src = h.group(2)
        p = Parser(src, where)
        e = p.expr()
        if p.peek().kind != "eof":
            p.err("text after constant expression")
        tr = Tr(ctx, "Fe", where, src, None, [], "unit", "", "")
        t, ety, c = tr.exc(e, {})
        if ty == "Repr":
            if ety != "Repr" or e["k"] != "call" or len(e["args"][0]["es"]) != N:
                raise ExtractError("derive: %s: not a %s literal of %d limbs" % (where, R, N))
        elif unify_int(ety, ty) is None or c is None:
            raise ExtractError("derive: %s: not a %s literal" % (where, ty))
        ln = "%s.%s" % (F, name)
        ctx.consts[name] = (ln, ty)
        lines.append("/-- `const %s: %s` -/" % (name, want))
        if ty == "Repr":
            limbs = t[1:-1].split(", ")
            lines.append("def %s : List Nat :=\n  [%s]" % (ln, ",\n   ".join(limbs)))
        else:
            lines.append("def %s : Nat := %s" % (ln, t))
        lines.append("")
        rec("derive:%s:const:%s" % (F, name), mtext_a + h.start() + 1, mtext_a + h.end())

    # ---- impl blocks
    blocks = impl_blocks(exp, span, (F, R))
    byhdr = {}
    for hdr, T, trait, ob, e in blocks:
        if hdr in byhdr:
            raise ExtractError("derive: two blocks `%s`" % hdr)
        fns, consts = fns_in_impl(exp, ob, e, hdr)
        byhdr[hdr] = {"fns": {f["name"]: f for f in fns}, "consts": consts, "used": set(), "ob": ob, "e": e}
        if len(byhdr[hdr]["fns"]) != len(fns):
            raise ExtractError("derive: `%s`: duplicate fn" % hdr)

    def fmt(s):
        return s.replace("{F}", F).replace("{R}", R)

    for hdr_t, selfT, fname, lean_t, key in TARGETS:
        if hdr_t == "MONT":
            # the three functions of extract_mont.py: check they are there, with the expected signatures
            fld = byhdr.get("impl ::ff::Field for %s" % F)
            inh = byhdr.get("impl %s" % F)
            if fld is None or inh is None:
                raise ExtractError("derive: %s: impl blocks of mul_assign/square/mont_reduce not found" % F)
            for blk, nm, want in ((fld, "mul_assign", "&mut self, other: &%s" % F), (fld, "square", "&mut self")):
                f = blk["fns"].get(nm)
                if f is None or f["params"] != want or f["ret"]:
                    raise ExtractError("derive: %s::%s: missing or signature changed" % (F, nm))
            f = inh["fns"].get("mont_reduce")
            if f is None or f["ret"]:
                raise ExtractError("derive: %s::mont_reduce missing" % F)
            ps = split_top(f["params"], "mont_reduce")
            if ps[0] != "&mut self" or len(ps) != 2 * N + 1 or \
                    any(not re.match(r"^(mut )?r%d: u64$" % k, p) for k, p in enumerate(ps[1:])):
                raise ExtractError("derive: %s::mont_reduce: parameters changed: %r" % (F, f["params"]))
            up = F.upper()
            P = "PP.Mont.%sP" % mod
            lines.append("/-- `%s::mul_assign(&mut self, other: &%s)`: the extracted unrolled program, run by the interpreter of PP/Model/MontLimb.lean -/" % (F, F))
            lines.append("def %s.mul_assign (self other : List Nat) : List Nat :=\n  PP.MontLimb.runMul %s PP.Gen.%s_MUL_PROG PP.Gen.%s_MONT_REDUCE_PROG self other" % (F, P, up, up))
            lines.append("")
            lines.append("/-- `%s::square(&mut self)` -/" % F)
            lines.append("def %s.square (self : List Nat) : List Nat :=\n  PP.MontLimb.runSquare %s PP.Gen.%s_SQUARE_PROG PP.Gen.%s_MONT_REDUCE_PROG self" % (F, P, up, up))
            lines.append("")
            lines.append("/-- `%s::mont_reduce(&mut self, r0, …, r%d)` with the argument words as a list (the old `self` is overwritten) -/" % (F, 2 * N - 1))
            lines.append("def %s.mont_reduce (self : List Nat) (rs : List Nat) : List Nat :=\n  PP.MontLimb.runMontReduce %s PP.Gen.%s_MONT_REDUCE_PROG rs" % (F, P, up))
            lines.append("")
            ctx.methods[("Fe", "mul_assign")] = FnInfo("%s.mul_assign" % F, "mut", [("other", "Fe")], "unit", False)
            ctx.methods[("Fe", "square")] = FnInfo("%s.square" % F, "mut", [], "unit", False)
            ctx.methods[("Fe", "mont_reduce")] = FnInfo("%s.mont_reduce" % F, "mut", [("r%d" % k, "u64") for k in range(2 * N)], "unit", False)
            continue
        if hdr_t == "POW":
            where = "ff::Field::pow (for %s)" % F
            recv, params, ret = parse_sig(ffpow, "Fe", ctx, where)
            doc = "`fn pow<%s>(%s) -> %s` with `Self = %s`  (default method of `trait Field`, %s)" % (
                ffpow["generics"], ffpow["params"], ffpow["ret"], F, ffsrc[0])
            tr = Tr(ctx, "Fe", where, ffsrc[2], recv, params, ret, "%s.pow" % F, doc)
            lines.extend(tr.run_span(ffpow["ba"], ffpow["bb"]))
            lines.append("")
            ctx.methods[("Fe", "pow")] = FnInfo("%s.pow" % F, recv, params, ret, tr.fuel)
            continue
        hdr = fmt(hdr_t)
        blk = byhdr.get(hdr)
        if blk is None:
            raise ExtractError("derive: block `%s` not found" % hdr)
        f = blk["fns"].get(fname)
        if f is None:
            raise ExtractError("derive: fn %s not found in `%s`" % (fname, hdr))
        blk["used"].add(fname)
        lean = fmt(lean_t)
        where = "%s::%s (%s)" % (F if selfT == "Fe" else R, fname, hdr)
        recv, params, ret = parse_sig(f, selfT, ctx, where)
        sig = "fn %s%s(%s)%s" % (fname, ("<%s>" % f["generics"]) if f["generics"] else "", f["params"],
                                 (" -> " + f["ret"]) if f["ret"] else "")
        doc = "`%s`  (`%s`)" % (sig, hdr)
        tr = Tr(ctx, selfT, where, exp, recv, params, ret, lean, doc)
        lines.extend(tr.run_span(f["ba"], f["bb"]))
        lines.append("")
        ctx.methods[(selfT, key)] = FnInfo(lean, recv, params, ret, tr.fuel)
        rec("derive:%s:%s" % (hdr, fname), f["a"], f["bb"])
        if hdr == "impl ::ff::PrimeField for %s" % F and fname == "root_of_unity":
            # associated constants of the same block
            got = {c[0]: c for c in blk["consts"]}
            if sorted(got) != ["CAPACITY", "NUM_BITS", "S"]:
                raise ExtractError("derive: `%s`: associated constants changed: %r" % (hdr, sorted(got)))
            for cn in ("NUM_BITS", "CAPACITY", "S"):
                _, cty, csrc, ca, cb = got[cn]
                if cty != "u32":
                    raise ExtractError("derive: %s::%s: type %s" % (F, cn, cty))
                wh = "%s::%s (%s)" % (F, cn, hdr)
                p = Parser(csrc, wh)
                e = p.expr()
                if p.peek().kind != "eof":
                    p.err("text after constant expression")
                t, ety, c = Tr(ctx, "Fe", wh, csrc, None, [], "unit", "", "").exc(e, {})
                if ety not in INT:
                    raise ExtractError("derive: %s: not an integer" % wh)
                ln = "%s.PrimeField_%s" % (F, cn)
                ctx.consts["Self::" + cn] = (ln, "u32")
                lines.append("/-- `const %s: u32 = %s;`  (`%s`) -/" % (cn, norm(csrc), hdr))
                lines.append("def %s : Nat := %s" % (ln, t))
                lines.append("")
                rec("derive:%s:const:%s" % (hdr, cn), ca, cb)

    # ---- `Field::random`: rejection sampling from an RNG.  The loop form (`loop { .. if C { return v } }`, a
    # `for` that fills a fresh array from `rng`) is outside the statement forms of `Tr`; the body is matched
    # against the shape below (whitespace-insensitive), every number in it is read from the source, and
    # anything else is an extraction error (a broken obligation), never a silent skip.
    fld = byhdr.get("impl ::ff::Field for %s" % F)
    f = fld["fns"].get("random") if fld else None
    if f is None:
        raise ExtractError("derive: %s::random not found" % F)
    if squeeze(f["params"]) != "rng:&mutR" or squeeze(f["ret"] or "") != "Self" or \
            not re.match(r"^R:(::)?rand_core::RngCore\+\?(::)?std::marker::Sized$", squeeze(f["generics"] or "")):
        raise ExtractError("derive: %s::random: signature changed: <%s>(%s) -> %s" % (F, f["generics"], f["params"], f["ret"]))
    body = squeeze(exp[f["ba"]:f["bb"]])
    mr = re.match(r"^\{loop\{letmuttmp=\{letmutrepr=\[0u64;([0-9]+)usize\];foriin0\.\.([0-9]+)usize\{repr\[i\]=rng\.next_u64\(\);\}"
                  r"%s\(%s\(repr\)\)\};tmp\.0\.as_mut\(\)\[([0-9]+)usize\]&=(0x[0-9a-fA-F]+|[0-9]+)(u64)?>>REPR_SHAVE_BITS;"
                  r"iftmp\.is_valid\(\)\{returntmp;?\}\}\}$" % (F, R), body)
    if not mr:
        raise ExtractError("derive: %s::random: body is not of the expected rejection-sampling shape: %s" % (F, body[:400]))
    n_arr, n_loop, top, mask = int(mr.group(1)), int(mr.group(2)), int(mr.group(3)), mr.group(4)
    if n_arr != N:
        raise ExtractError("derive: %s::random: array of %d limbs, Repr has %d" % (F, n_arr, N))
    if ("Fe", "is_valid") not in ctx.methods or "REPR_SHAVE_BITS" not in ctx.consts:
        raise ExtractError("derive: %s::random: is_valid / REPR_SHAVE_BITS not translated" % F)
    fld["used"].add("random")
    lines.append("/-- `fn random<%s>(%s) -> Self`  (`impl ::ff::Field for %s`) as a function of the RNG state:\n"
                 "    `nextU64` = `RngCore::next_u64` (new state first); `fuel` bounds the number of attempts\n"
                 "    (`none` = no valid candidate among the first `fuel`); the result is the raw limb array of `%s(%s(..))` -/"
                 % (norm(f["generics"]), norm(f["params"]), F, F, R))
    lines.append("def %s.random {Rng : Type} (nextU64 : Rng → Rng × Nat) : Nat → Rng → Option (Rng × List Nat)" % F)
    lines.append("  | 0, _ => none")
    lines.append("  | fuel + 1, rng =>                                            -- loop {")
    lines.append("    let d := drawLimbs nextU64 %d rng                          -- let mut repr = [0u64; %dusize]; for i in 0..%dusize { repr[i] = rng.next_u64(); }" % (n_loop, n_arr, n_loop))
    if n_loop > n_arr:
        raise ExtractError("derive: %s::random: loop writes %d limbs into an array of %d (index out of bounds)" % (F, n_loop, n_arr))
    pad = (" ++ List.replicate %d 0" % (n_arr - n_loop)) if n_loop < n_arr else ""
    lines.append("    let tmp := d.2%s                                              -- let mut tmp = %s(%s(repr));" % (pad, F, R))
    lines.append("    let tmp := tmp.set %d (tmp.getD %d 0 &&& (%s >>> %s))" % (top, top, mask, ctx.consts["REPR_SHAVE_BITS"][0]))
    lines.append("                                                                -- tmp.0.as_mut()[%dusize] &= %s >> REPR_SHAVE_BITS;" % (top, mask))
    lines.append("    if %s tmp then some (d.1, tmp)                    -- if tmp.is_valid() { return tmp }" % ctx.methods[("Fe", "is_valid")].lean)
    lines.append("    else %s.random nextU64 fuel d.1                             -- }" % F)
    lines.append("")
    rec("derive:impl ::ff::Field for %s:random" % F, f["a"], f["bb"])

    # ---- everything else in the module must be accounted for
    nt = {fmt(h): (fn, r.replace("{F}", F)) for (h, fn), r in NOT_TRANSLATED.items() if fn == "*"}
    ntf = {(fmt(h), fn): r.replace("{F}", F) for (h, fn), r in NOT_TRANSLATED.items() if fn != "*"}
    for hdr, blk in byhdr.items():
        if hdr in nt:
            if blk["used"]:
                raise ExtractError("derive: internal: `%s` both translated and excluded" % hdr)
            names = sorted(blk["fns"])
            notes.append("%s%s: %s" % (hdr, (" {%s}" % ", ".join(names)) if names else "", nt[hdr][1]))
            continue
        for fn in blk["fns"]:
            if fn in blk["used"]:
                continue
            if (hdr, fn) in ntf:
                notes.append("%s :: %s: %s" % (hdr, fn, ntf[(hdr, fn)]))
            else:
                raise ExtractError("derive: `%s`: fn %s is neither a translation target nor listed as not translated"
                                   % (hdr, fn))
        if not blk["fns"] and not blk["used"]:
            raise ExtractError("derive: block `%s` is neither translated nor listed as not translated" % hdr)
    return ctx


def tr_run_span(self, a, b):
    """translate the function whose body (with braces) is self.src[a:b]; node offsets are made absolute"""
    body = self.src[a:b]
    full = self.src
    self.src = body
    try:
        return self.run(body)
    finally:
        self.src = full


Tr.run_span = tr_run_span


HEADER_DOC = '''/- GENERATED by /verif/extract/extract_derive.py from the macro-expanded /repo -- do not edit.

The `#[derive(PrimeField)]` output for `Fq` (module `fq`) and `Fr` (module `fr`) EXCEPT the unrolled
`mul_assign` / `square` / `mont_reduce` (PP/Gen/MontProg.lean), translated from the macro-expanded crate
(`cargo rustc -- -Zunpretty=expanded`), and the default method `Field::pow` of the `ff` crate
(%(fftag)s), translated from the crate sources once per field.
One Lean definition per Rust function, one `let` / `if` / `match` line per Rust statement (the statement
is the trailing comment); all conventions are listed in the header of extract_derive.py.  In short:
`FqRepr`, `Fq`, `[u64; N]` are `List Nat` (newtypes erased), integers are `Nat`, `&mut self` methods
return the new `self`, u64 wrap-around is explicit (`%% 2 ^ 64` after `<<<`; `adc` / `sbb`), loops are
the combinators below, a function with a `while` / `loop` takes `fuel` and returns `Option` (`none` =
not finished), `Option` / `Result` are `Option`.
PP/Proofs/GenDerive.lean and PP/Props/GenDerive.lean prove each definition equal to the hand model
`PP.Mont.*` (PP/Model/Mont.lean).

NOT MODELLED: Rust's overflow check of `+ - *` on `u32` / `usize` (panic in a debug build, wrap-around in
a release build); these are Nat operations here (`-` truncated at 0).  The occurrences:
%(unchecked)s
Shift amounts that are not literals (`n`, `64 - n` in `shr` / `shl`) are not checked to be `< 64` either
(Rust: panic in a debug build).  The error VALUE of `from_repr` (`Err(NotInField(..))`) is `none`.

NOT TRANSLATED (every `impl` block for these types in the two modules is either translated or listed):
%(notes)s
-/
'''


def translate(exp):
    fftag, ffpath, fftext = ff_source()
    ff_manifest, ffpow = ff_items(fftag, fftext)
    lines, items, notes = [], list(ff_manifest), []
    unchecked = []
    for F in ("Fq", "Fr"):
        ctx = emit_field(exp, F, None, (fftag, ffpath, fftext), ffpow, lines, items, notes)
        seen = []
        for w, t in ctx.unchecked:
            if (w, t) not in seen:
                seen.append((w, t))
        unchecked += seen
    hdr = HEADER_DOC % {
        "fftag": fftag,
        "unchecked": "\n".join("  * %s: `%s`" % (w, t) for w, t in unchecked),
        "notes": "\n".join("  * %s" % n for n in notes),
    }
    text = hdr + PRELUDE + "\n".join(lines) + "\nend PP.Gen.D\n"
    return text, items


def emit(expanded_text, gen_dir=GEN, error_cls=None):
    """Write gen_dir/Derive.lean (only when its content changes); return the manifest items."""
    global CHANGED
    try:
        text, items = translate(expanded_text)
    except ExtractError as e:
        if error_cls is not None:
            raise error_cls(str(e))
        raise
    path = os.path.join(gen_dir, "Derive.lean")
    old = open(path).read() if os.path.exists(path) else None
    CHANGED = old != text
    if CHANGED:
        with open(path + ".tmp", "w") as f:
            f.write(text)
        os.replace(path + ".tmp", path)
    return items


def cached_expanded():
    h = hashlib.sha256()
    for rel in ("src/bls12_381/fq.rs", "src/bls12_381/fr.rs", "Cargo.lock", "Cargo.toml"):
        with open(os.path.join(REPO, rel)) as f:
            h.update(f.read().encode())
    path = os.path.join(CACHE, "expanded-%s.rs" % h.hexdigest()[:24])
    if not os.path.exists(path):
        raise ExtractError("derive: %s not found -- run extract.py first (it produces the expansion)" % path)
    return open(path).read()


if __name__ == "__main__":
    try:
        out_dir = GEN
        argv = sys.argv[1:]
        if "--out" in argv:
            k = argv.index("--out")
            out_dir = argv[k + 1]
            del argv[k:k + 2]
        src = open(argv[0]).read() if argv else cached_expanded()
        its = emit(src, out_dir)
    except ExtractError as e:
        print("EXTRACT-ERROR: %s" % e)
        sys.exit(2)
    print("extract_derive: %d items, Derive.lean %s" % (len(its), "rewritten" if CHANGED else "unchanged"))
