#!/usr/bin/env python3
"""Translator: unrolled limb-level Montgomery code of the `ff_derive` proc-macro
(`mul_assign`, `square`, `mont_reduce` of Fq and Fr, read from the macro-EXPANDED crate)
-> /verif/lean/PP/Gen/MontProg.lean          (python3 stdlib only)

The translation is 1:1: every Rust statement of the three function bodies becomes exactly one
instruction of the straight-line IR below (the IR datatypes are emitted as a fixed header of the
generated file; their semantics is PP/Model/MontLimb.lean).  Anything that is not one of the
statement shapes listed in `stmt()` raises ExtractError -- nothing is skipped, nothing is guessed.

Statement shapes (after whitespace normalisation; V = r<N> | k | carry | carry2,
A = V | integer literal | (self.0).0[i] | (other.0).0[i] | MODULUS.0[i] | INV):

  [let [mut]] V = A;                                     mov V A        (covers `let mut carry = 0;`,
                                                                         `let r6 = carry;`, `let carry2 = carry;`)
  [let [mut]] V = ::ff::mac_with_carry(A, A, A, &mut carry);   mac (some V) A A A
  ::ff::mac_with_carry(A, A, A, &mut carry);             mac none A A A (result dropped, carry kept)
  [let [mut]] V = ::ff::adc(A, A, &mut carry);           adc V A A
  [let [mut]] V = A.wrapping_mul(A);                     wmul V A A
  [let [mut]] V = A >> n;                                shr V A n
  [let [mut]] V = A << n;                                shl V A n
  [let [mut]] V = (A << n) | (A >> m);                   shlOr V A n A m
  (self.0).0[i] = V;                                     store i V
  self.mont_reduce(A, .., A);                            call [A, .., A]   (must be the last statement)
  self.reduce();                                         reduce            (must be the last statement)

`let x = e` (shadowing) and `x = e` (assignment to a `mut` binding) are both a write of the register
named x: in straight-line code without inner blocks a shadowed binding is never visible again, so a
mutable register file has the same meaning.  Bodies containing `{` (blocks, closures, loops) are
rejected.

Also checked (fail loudly otherwise):
  * the parameter list of `mont_reduce` is `&mut self, r0: u64, [mut] r1: u64, ...` with the names
    r0..r(2n-1) in order (the IR `call` binds argument i to register r<i>);
  * `reduce` is `if !self.is_valid() { self.0.sub_noborrow(&MODULUS); }` and `is_valid` is
    `self.0 < MODULUS`  (the meaning of the IR instruction `reduce`);
  * the bodies of `ff::adc` and `ff::mac_with_carry` in the `ff` crate sources used for the build
    are the expected ones (the meaning of the IR instructions `adc` and `mac`).

API for extract.py:
    import extract_mont
    items = extract_mont.emit(exp, GEN, ExtractError)       # writes GEN/MontProg.lean if changed; raises
    manifest.extend(items)                                  #   ExtractError on any unrecognised shape
    if extract_mont.CHANGED: changed.append("MontProg")    # items: {"item","file","lines","sha256"}
"""
import glob
import hashlib
import os
import re
import sys

REPO = os.environ.get("PP_REPO", "/repo")
VERIF = os.path.dirname(os.path.dirname(os.path.abspath(__file__)))
GEN = os.path.join(VERIF, "lean", "PP", "Gen")
CACHE = os.path.join(VERIF, ".cache")

CHANGED = False

class ExtractError(Exception):
    pass


# ---------------------------------------------------------------- locating functions

def match_brace(src, i):
    """src[i] == '{' -> index just after the matching '}'."""
    if src[i] != "{":
        raise ExtractError("mont: expected '{' at offset %d" % i)
    depth = 0
    j = i
    while j < len(src):
        c = src[j]
        if c == "{":
            depth += 1
        elif c == "}":
            depth -= 1
            if depth == 0:
                return j + 1
        elif c == '"':
            # string literals (doc attributes) -- skip, they may contain braces
            k = j + 1
            while k < len(src) and src[k] != '"':
                if src[k] == "\\":
                    k += 1
                k += 1
            j = k
        j += 1
    raise ExtractError("mont: unbalanced braces")


def impl_block(exp, header):
    """Text span (a, b) of the unique `header {...}` block."""
    hits = [m.start() for m in re.finditer(re.escape(header) + r"\s*\{", exp)]
    if len(hits) != 1:
        raise ExtractError("mont: expected exactly one %r, found %d" % (header, len(hits)))
    a = hits[0]
    ob = exp.index("{", a + len(header))
    return a, match_brace(exp, ob)


def fn_in(exp, span, name):
    """(start, params_text, body_start, body_end) of the unique `fn name(...) {...}` inside span."""
    a, b = span
    hits = list(re.finditer(r"\bfn\s+%s\s*\(" % re.escape(name), exp[a:b]))
    if len(hits) != 1:
        raise ExtractError("mont: expected exactly one fn %s in impl block, found %d" % (name, len(hits)))
    s = a + hits[0].start()
    po = a + hits[0].end() - 1
    depth = 0
    j = po
    while True:
        if exp[j] == "(":
            depth += 1
        elif exp[j] == ")":
            depth -= 1
            if depth == 0:
                break
        j += 1
    params = exp[po + 1:j]
    rest = exp[j + 1:]
    m = re.match(r"\s*(->\s*bool\s*)?\{", rest)
    if not m:
        raise ExtractError("mont: fn %s: unexpected text between ')' and '{'" % name)
    ob = j + 1 + m.end() - 1
    e = match_brace(exp, ob)
    return s, params, ob + 1, e - 1, (m.group(1) or "").strip()


def norm(s):
    return re.sub(r"\s+", " ", s).strip()


def squeeze(s):
    return re.sub(r"\s+", "", s)


# ---------------------------------------------------------------- atoms and statements

RE_INT = re.compile(r"^(0x[0-9a-fA-F_]+|[0-9][0-9_]*)(u64|usize)?$")
RE_R = re.compile(r"^r([0-9]+)$")
RE_SELF = re.compile(r"^\(self\.0\)\.0\[([0-9]+)(usize)?\]$")
RE_OTHER = re.compile(r"^\(other\.0\)\.0\[([0-9]+)(usize)?\]$")
RE_MOD = re.compile(r"^MODULUS\.0\[([0-9]+)(usize)?\]$")


def reg(tok):
    """register name -> Lean `Reg` term, or None"""
    m = RE_R.match(tok)
    if m:
        return ".r %d" % int(m.group(1))
    if tok in ("k", "carry", "carry2"):
        return "." + tok
    return None


def atom(tok, where):
    tok = tok.strip()
    r = reg(tok)
    if r is not None:
        return ".reg (%s)" % r
    m = RE_INT.match(tok)
    if m:
        lit = m.group(1).replace("_", "")
        return ".lit %d" % int(lit, 0)
    m = RE_SELF.match(tok)
    if m:
        return ".selfL %d" % int(m.group(1))
    m = RE_OTHER.match(tok)
    if m:
        return ".otherL %d" % int(m.group(1))
    m = RE_MOD.match(tok)
    if m:
        return ".modL %d" % int(m.group(1))
    if tok == "INV":
        return ".inv"
    raise ExtractError("mont: %s: unrecognised operand %r" % (where, tok))


def split_args(s, where):
    """split a call argument list at top-level commas"""
    out = []
    depth = 0
    cur = ""
    for c in s:
        if c in "([":
            depth += 1
        elif c in ")]":
            depth -= 1
            if depth < 0:
                raise ExtractError("mont: %s: unbalanced parentheses in %r" % (where, s))
        if c == "," and depth == 0:
            out.append(cur.strip())
            cur = ""
        else:
            cur += c
    if depth != 0:
        raise ExtractError("mont: %s: unbalanced parentheses in %r" % (where, s))
    if cur.strip():
        out.append(cur.strip())
    return out


ATOM = r"(?:r[0-9]+|k|carry2|carry|INV|0x[0-9a-fA-F_]+(?:u64)?|[0-9][0-9_]*(?:u64)?|\((?:self|other)\.0\)\.0\[[0-9]+(?:usize)?\]|MODULUS\.0\[[0-9]+(?:usize)?\])"
RE_MAC = re.compile(r"^::ff::mac_with_carry\((.*), &mut carry\)$")
RE_ADC = re.compile(r"^::ff::adc\((.*), &mut carry\)$")
RE_WMUL = re.compile(r"^(%s)\.wrapping_mul\((%s)\)$" % (ATOM, ATOM))
RE_SHR = re.compile(r"^(%s) >> ([0-9]+)$" % ATOM)
RE_SHL = re.compile(r"^(%s) << ([0-9]+)$" % ATOM)
RE_SHLOR = re.compile(r"^\((%s) << ([0-9]+)\) \| \((%s) >> ([0-9]+)\)$" % (ATOM, ATOM))
RE_ASSIGN = re.compile(r"^(let (mut )?)?([A-Za-z_][A-Za-z0-9_]*) = (.*)$")
RE_STORE = re.compile(r"^\(self\.0\)\.0\[([0-9]+)(usize)?\] = (r[0-9]+|k|carry2|carry)$")
RE_CALL = re.compile(r"^self\.mont_reduce\((.*)\)$")


def shift_amount(s, where):
    n = int(s)
    if not 0 <= n < 64:
        raise ExtractError("mont: %s: shift amount %d out of range for u64" % (where, n))
    return n


def rhs(dst, e, where):
    """IR instruction for `dst = e`."""
    m = RE_MAC.match(e)
    if m:
        args = split_args(m.group(1), where)
        if len(args) != 3:
            raise ExtractError("mont: %s: mac_with_carry with %d value arguments" % (where, len(args)))
        a, b, c = (atom(x, where) for x in args)
        return ".mac (some (%s)) (%s) (%s) (%s)" % (dst, a, b, c)
    m = RE_ADC.match(e)
    if m:
        args = split_args(m.group(1), where)
        if len(args) != 2:
            raise ExtractError("mont: %s: adc with %d value arguments" % (where, len(args)))
        a, b = (atom(x, where) for x in args)
        return ".adc (%s) (%s) (%s)" % (dst, a, b)
    m = RE_WMUL.match(e)
    if m:
        return ".wmul (%s) (%s) (%s)" % (dst, atom(m.group(1), where), atom(m.group(2), where))
    m = RE_SHLOR.match(e)
    if m:
        return ".shlOr (%s) (%s) %d (%s) %d" % (
            dst, atom(m.group(1), where), shift_amount(m.group(2), where),
            atom(m.group(3), where), shift_amount(m.group(4), where))
    m = RE_SHR.match(e)
    if m:
        return ".shr (%s) (%s) %d" % (dst, atom(m.group(1), where), shift_amount(m.group(2), where))
    m = RE_SHL.match(e)
    if m:
        return ".shl (%s) (%s) %d" % (dst, atom(m.group(1), where), shift_amount(m.group(2), where))
    if re.match(r"^%s$" % ATOM, e):
        return ".mov (%s) (%s)" % (dst, atom(e, where))
    raise ExtractError("mont: %s: unrecognised right-hand side %r" % (where, e))


def stmt(s, where):
    """one normalised Rust statement (without the ';') -> one IR instruction (Lean term)"""
    m = RE_STORE.match(s)
    if m:
        return ".store %d (%s)" % (int(m.group(1)), reg(m.group(3)))
    m = RE_CALL.match(s)
    if m:
        args = [atom(x, where) for x in split_args(m.group(1), where)]
        return ".call [%s]" % ", ".join(args)
    if s == "self.reduce()":
        return ".reduce"
    m = RE_MAC.match(s)
    if m:
        args = split_args(m.group(1), where)
        if len(args) != 3:
            raise ExtractError("mont: %s: mac_with_carry with %d value arguments" % (where, len(args)))
        a, b, c = (atom(x, where) for x in args)
        return ".mac none (%s) (%s) (%s)" % (a, b, c)
    m = RE_ASSIGN.match(s)
    if m:
        dst = reg(m.group(3))
        if dst is None:
            raise ExtractError("mont: %s: unrecognised variable %r in %r" % (where, m.group(3), s))
        return rhs(dst, m.group(4), where)
    raise ExtractError("mont: %s: unrecognised statement %r" % (where, s))


def body_to_ir(body, where, last):
    """function body text -> list of (rust_statement, ir_term).  `last` = required shape of the
    final statement ('call' or 'reduce'); these two may occur only there."""
    if "{" in body or "}" in body:
        raise ExtractError("mont: %s: nested block in body" % where)
    if "//" in body or "/*" in body or "#[" in body:
        raise ExtractError("mont: %s: comment or attribute in body" % where)
    parts = body.split(";")
    if parts[-1].strip() != "":
        raise ExtractError("mont: %s: trailing expression %r" % (where, parts[-1].strip()))
    out = []
    for k, p in enumerate(parts[:-1]):
        s = norm(p)
        # rustc's pretty printer breaks lines inside call parentheses: `f(a,\n b)` -> `f(a, b)`
        s = s.replace("( ", "(").replace(" )", ")")
        ir = stmt(s, "%s statement %d" % (where, k + 1))
        is_last = k == len(parts) - 2
        if (ir.startswith(".call") or ir == ".reduce") != is_last:
            raise ExtractError("mont: %s: call/reduce must be exactly the final statement (statement %d: %r)"
                               % (where, k + 1, s))
        out.append((s, ir))
    if not out:
        raise ExtractError("mont: %s: empty body" % where)
    if last == "call" and not out[-1][1].startswith(".call"):
        raise ExtractError("mont: %s: does not end in self.mont_reduce(..)" % where)
    if last == "reduce" and out[-1][1] != ".reduce":
        raise ExtractError("mont: %s: does not end in self.reduce()" % where)
    return out


def check_params(params, field, where):
    """`&mut self, r0: u64, mut r1: u64, ...` -> number of r-parameters"""
    ps = [norm(p) for p in params.split(",")]
    if not ps or ps[0] != "&mut self":
        raise ExtractError("mont: %s: first parameter is not &mut self" % where)
    n = 0
    for p in ps[1:]:
        m = re.match(r"^(mut )?r([0-9]+): u64$", p)
        if not m or int(m.group(2)) != n:
            raise ExtractError("mont: %s: parameter %d is %r, expected `[mut] r%d: u64`" % (where, n, p, n))
        n += 1
    return n


EXPECT_REDUCE = "if!self.is_valid(){self.0.sub_noborrow(&MODULUS);}"
EXPECT_IS_VALID = "self.0<MODULUS"
EXPECT_ADC = ("lettmp=u128::from(a)+u128::from(b)+u128::from(*carry);"
              "*carry=(tmp>>64)asu64;tmpasu64")
EXPECT_MAC = ("lettmp=(u128::from(a))+u128::from(b)*u128::from(c)+u128::from(*carry);"
              "*carry=(tmp>>64)asu64;tmpasu64")


def strip_line_comments(s):
    return "\n".join(l.split("//")[0] for l in s.split("\n"))


def check_ff_helpers():
    """the `ff` crate the derive output calls into: adc / mac_with_carry have the expected bodies"""
    lock = open(os.path.join(REPO, "Cargo.lock")).read()
    toml = open(os.path.join(REPO, "Cargo.toml")).read()
    m = re.search(r"^\s*(ff[A-Za-z0-9_-]*)\s*=", toml, re.M)
    if not m:
        raise ExtractError("mont: no ff dependency in Cargo.toml")
    crate = m.group(1)
    m = re.search(r'name = "%s"\s*\nversion = "([^"]+)"' % re.escape(crate), lock)
    if not m:
        raise ExtractError("mont: %s not in Cargo.lock" % crate)
    ver = m.group(1)
    cargo_home = os.environ.get("CARGO_HOME", os.path.expanduser("~/.cargo"))
    cands = sorted(glob.glob(os.path.join(cargo_home, "registry", "src", "*", "%s-%s" % (crate, ver), "src", "lib.rs")))
    if not cands:
        raise ExtractError("mont: sources of %s-%s not found under %s/registry/src" % (crate, ver, cargo_home))
    items = []
    for path in cands:
        src = open(path).read()
        for name, sig, expect in (
                ("adc", "a: u64, b: u64, carry: &mut u64", EXPECT_ADC),
                ("mac_with_carry", "a: u64, b: u64, c: u64, carry: &mut u64", EXPECT_MAC)):
            hits = list(re.finditer(r"pub fn %s\(([^)]*)\)\s*->\s*u64\s*\{" % name, src))
            if len(hits) != 1:
                raise ExtractError("mont: %s: expected one `pub fn %s`, found %d" % (path, name, len(hits)))
            h = hits[0]
            if norm(h.group(1)) != sig:
                raise ExtractError("mont: ff::%s: signature changed: %r" % (name, norm(h.group(1))))
            e = match_brace(src, h.end() - 1)
            body = strip_line_comments(src[h.end():e - 1])
            if squeeze(body) != expect:
                raise ExtractError("mont: ff::%s: body changed: %r" % (name, norm(body)))
            items.append({
                "item": "mont:ff:%s" % name,
                "file": "%s-%s/src/lib.rs" % (crate, ver),
                "lines": [src.count("\n", 0, h.start()) + 1, src.count("\n", 0, e) + 1],
                "sha256": hashlib.sha256(src[h.start():e].encode()).hexdigest(),
            })
        break
    return items


# ---------------------------------------------------------------- Lean output

HEADER = '''/- GENERATED by /verif/extract/extract_mont.py from the macro-expanded /repo -- do not edit. -/

/-! IR of the unrolled limb-level Montgomery code (fixed text; semantics: `PP/Model/MontLimb.lean`). -/
namespace PP.MontLimb

/-- the `u64` locals of the generated functions: `r0, r1, …`, `k`, `carry`, `carry2` -/
inductive Reg where
  | r (i : Nat)
  | k
  | carry
  | carry2
  deriving DecidableEq, Repr

/-- operands -/
inductive Opd where
  /-- a local -/
  | reg (x : Reg)
  /-- integer literal -/
  | lit (n : Nat)
  /-- `(self.0).0[i]` -/
  | selfL (i : Nat)
  /-- `(other.0).0[i]` -/
  | otherL (i : Nat)
  /-- `MODULUS.0[i]` -/
  | modL (i : Nat)
  /-- `INV` -/
  | inv
  deriving DecidableEq, Repr

/-- one instruction per Rust statement -/
inductive Instr where
  /-- `[let] dst = src;` -/
  | mov (dst : Reg) (src : Opd)
  /-- `[let dst =] ::ff::mac_with_carry(a, b, c, &mut carry);` -/
  | mac (dst : Option Reg) (a b c : Opd)
  /-- `[let] dst = ::ff::adc(a, b, &mut carry);` -/
  | adc (dst : Reg) (a b : Opd)
  /-- `[let] dst = a.wrapping_mul(b);` -/
  | wmul (dst : Reg) (a b : Opd)
  /-- `[let] dst = a >> n;` -/
  | shr (dst : Reg) (a : Opd) (n : Nat)
  /-- `[let] dst = a << n;` -/
  | shl (dst : Reg) (a : Opd) (n : Nat)
  /-- `[let] dst = (a << n) | (b >> m);` -/
  | shlOr (dst : Reg) (a : Opd) (n : Nat) (b : Opd) (m : Nat)
  /-- `(self.0).0[i] = src;` -/
  | store (i : Nat) (src : Reg)
  /-- `self.mont_reduce(args);` (parameter `i` of `mont_reduce` is the local `r<i>`) -/
  | call (args : List Opd)
  /-- `self.reduce();` = `if !(self.0 < MODULUS) { self.0.sub_noborrow(&MODULUS); }` -/
  | reduce
  deriving DecidableEq, Repr

end PP.MontLimb

namespace PP.Gen
open PP.MontLimb
'''


def lean_prog(name, doc, prog):
    lines = ["/-- %s -/" % doc, "def %s : List Instr := [" % name]
    for k, (src, ir) in enumerate(prog):
        sep = "," if k + 1 < len(prog) else ""
        lines.append("    %s%s  -- %s" % (ir, sep, src))
    lines.append("  ]")
    lines.append("")
    return lines


def translate(exp):
    """-> (lean_text, manifest_items)"""
    items = []
    lines = [HEADER]

    def rec(item, a, b):
        items.append({
            "item": item,
            "file": "<expanded>",
            "lines": [exp.count("\n", 0, a) + 1, exp.count("\n", 0, b) + 1],
            "sha256": hashlib.sha256(exp[a:b].encode()).hexdigest(),
        })

    for field in ("Fq", "Fr"):
        fspan = impl_block(exp, "impl ::ff::Field for %s" % field)
        ispan = impl_block(exp, "impl %s" % field)
        progs = {}
        for fname, span, last in (("mul_assign", fspan, "call"), ("square", fspan, "call"),
                                  ("mont_reduce", ispan, "reduce")):
            where = "%s::%s" % (field, fname)
            s, params, ba, bb, ret = fn_in(exp, span, fname)
            if ret:
                raise ExtractError("mont: %s: unexpected return type" % where)
            pn = norm(params)
            if fname == "mul_assign":
                if pn != "&mut self, other: &%s" % field:
                    raise ExtractError("mont: %s: parameters %r" % (where, pn))
            elif fname == "square":
                if pn != "&mut self":
                    raise ExtractError("mont: %s: parameters %r" % (where, pn))
            else:
                progs["nparams"] = check_params(params, field, where)
            progs[fname] = body_to_ir(exp[ba:bb], where, last)
            rec("mont:%s:%s" % (field, fname), s, bb + 1)
        # the callee's arity matches both call sites
        for fname in ("mul_assign", "square"):
            nargs = len(split_args(RE_CALL.match(progs[fname][-1][0]).group(1), fname))
            if nargs != progs["nparams"]:
                raise ExtractError("mont: %s::%s passes %d arguments to mont_reduce, which takes %d"
                                   % (field, fname, nargs, progs["nparams"]))
        # reduce / is_valid
        s, params, ba, bb, ret = fn_in(exp, ispan, "reduce")
        if norm(params) != "&mut self" or ret or squeeze(exp[ba:bb]) != EXPECT_REDUCE:
            raise ExtractError("mont: %s::reduce changed: %r" % (field, norm(exp[ba:bb])))
        rec("mont:%s:reduce" % field, s, bb + 1)
        s, params, ba, bb, ret = fn_in(exp, ispan, "is_valid")
        if norm(params) != "&self" or squeeze(ret) != "->bool" or squeeze(exp[ba:bb]) != EXPECT_IS_VALID:
            raise ExtractError("mont: %s::is_valid changed: %r" % (field, norm(exp[ba:bb])))
        rec("mont:%s:is_valid" % field, s, bb + 1)

        up = field.upper()
        lines += lean_prog("%s_MUL_PROG" % up, "`%s::mul_assign(&mut self, other: &%s)`" % (field, field),
                           progs["mul_assign"])
        lines += lean_prog("%s_SQUARE_PROG" % up, "`%s::square(&mut self)`" % field, progs["square"])
        lines += lean_prog("%s_MONT_REDUCE_PROG" % up,
                           "`%s::mont_reduce(&mut self, r0, …, r%d)`" % (field, progs["nparams"] - 1),
                           progs["mont_reduce"])
        lines.append("/-- number of `u64` parameters of `%s::mont_reduce` -/" % field)
        lines.append("def %s_MONT_REDUCE_NPARAMS : Nat := %d" % (up, progs["nparams"]))
        lines.append("")
    lines.append("end PP.Gen")
    items += check_ff_helpers()
    return "\n".join(lines) + "\n", items


def emit(expanded_text, gen_dir=GEN, error_cls=None):
    """Write gen_dir/MontProg.lean (only when its content changes); return the manifest items.
    Raises ExtractError (or error_cls, if given) on anything unrecognised."""
    global CHANGED
    try:
        text, items = translate(expanded_text)
    except ExtractError as e:
        if error_cls is not None:
            raise error_cls(str(e))
        raise
    path = os.path.join(gen_dir, "MontProg.lean")
    old = open(path).read() if os.path.exists(path) else None
    CHANGED = old != text
    if CHANGED:
        with open(path + ".tmp", "w") as f:
            f.write(text)
        os.replace(path + ".tmp", path)
    return items


def cached_expanded():
    """the macro-expanded crate as cached by extract.py (same cache key)"""
    h = hashlib.sha256()
    for rel in ("src/bls12_381/fq.rs", "src/bls12_381/fr.rs", "Cargo.lock", "Cargo.toml"):
        with open(os.path.join(REPO, rel)) as f:
            h.update(f.read().encode())
    path = os.path.join(CACHE, "expanded-%s.rs" % h.hexdigest()[:24])
    if not os.path.exists(path):
        raise ExtractError("mont: %s not found -- run extract.py first (it produces the expansion)" % path)
    return open(path).read()


if __name__ == "__main__":
    try:
        src = open(sys.argv[1]).read() if len(sys.argv) > 1 else cached_expanded()
        its = emit(src, GEN)
    except ExtractError as e:
        print("EXTRACT-ERROR: %s" % e)
        sys.exit(2)
    print("extract_mont: %d items, MontProg.lean %s" % (len(its), "rewritten" if CHANGED else "unchanged"))
