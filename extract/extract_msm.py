#!/usr/bin/env python3
"""Translator: SCALAR-MULTIPLICATION TABLES / wNAF / MULTI-SCALAR code of /repo (the table functions of the
`curve_impl!` macro in src/bls12_381/ec/mod.rs, src/wnaf.rs, the `empirical_recommended_wnaf_*` functions
of ec/g1.rs, ec/g2.rs) -> /verif/lean/PP/Gen/Msm.lean  (python3 stdlib only).

Companion of extract_arith.py (whose tokenizer / parser / printer it reuses through a parser subclass):
each target function is located in the Rust source, its SIGNATURE is compared literally with the one
recorded in TARGETS below (the Lean parameter list is fixed there), its BODY is parsed and printed as ONE
Lean definition in namespace `PP.Gen.M`, one Lean line (`let` / `if` / `match`) per Rust statement with the
statement as trailing comment.  `PP/Proofs/GenMsm.lean` proves each definition equal to the hand-written
model (`PP/Model/Mul.lean`), so an edit of an index, a window boundary, the sweep order, the assert, a
digit sign .. changes the generated Lean and breaks the equality theorem of exactly that function.

Conventions of the generated Lean (fixed, independent of the hand model):
  * `Vec<T>`, `&[T]`, `&mut [T]` are `List T`; `[u64; 4]`, `FrRepr`, `&[u64; 4]` are `List Nat` (limbs, least
    significant first; newtype erased as in Derive.lean); `usize` `u64` `u32` are `Nat`, `i64` is `Int`;
    a scalar `S: Into<Repr>` is the `Nat` it denotes and `other.into()` is `limbsOf 4 other` (as in
    Arith.lean); `G: CurveProjective` / `$projective` is `Jac F`, `$affine` is `Aff F` (F the coefficient
    field, generic); `S: PrimeFieldRepr` in `wnaf_form` is instantiated with `FrRepr` (the only scalar
    representation of the crate), its methods are the GENERATED `D.FrRepr.*` of Derive.lean;
  * a `&mut self` / `&mut` parameter is returned: the result is the tuple (mutable parameters in order,
    return value), `()` components dropped.  A write `buf[i] = v` into a caller-provided buffer is
    `M.setIdx buf i v` on the INCOMING list: a slot the Rust code does not write keeps its value;
  * PANICS are `none` and make the function `Option`-valued: an index out of bounds (`xs[i]?`,
    `M.setIdx`), `assert!`, a failing `unwrap` in a callee (`into_affine`), a callee that panics, and the
    underflow of a `usize` subtraction (`M.usub`; Rust: panic with overflow checks, wrap-around
    without -- nothing after such a wrap is modelled).  Effects inside an expression are hoisted, in
    evaluation order, into `match e with | none => none | some tN =>` lines before the line of the
    statement; a repeated read `xs[i]` with `xs`, `i` unchanged since an earlier successful read of the
    same statement sequence reuses its `tN`;
  * `a[i]` on a fixed array `[u64; 4]` with a literal `i < 4` is `a.getD i 0` (cannot panic);
  * `u64`: `a >> n` = `a >>> n`, `a << n` = `(a <<< n) % 2 ^ 64`, `& | %` = `&&& ||| %`; `usize`: `+ * << >> &`
    are the Nat operations, `-` is `M.usub`; `i64`: `+ - * unary-` on `Int`, `a / b` = `Int.tdiv a b`;
    casts: `u64 <-> usize` identity, `(x : u64/usize) as i64` = `((x : Nat) : Int)`, `(x : i64) as u64/usize`
    = `x.toNat` (every occurrence is guarded by a sign test or divides a positive digit);
    an integer variable initialised by a literal is `Nat`;
  * NOT MODELLED (listed per occurrence in the generated header): shifts of integer LITERALS (`1 << n`,
    whose Rust type is fixed by inference: usize / u64 / i64, and `i32` for the three Pippenger masks) are
    `1 <<< n` on Nat without truncation, shift amounts are not reduced modulo the width, `+` / `*` / `<<` on
    usize and `i64` arithmetic do not overflow;
  * loops: `for x in L { body }` is `List.foldl (fun st x => ..; st) st L` when the body has no effect and
    `M.forIn L st (fun st x => ..; some st)` otherwise (st = the outer variables assigned in the body, in
    order of declaration); with `break`: `M.forBrkP` / `M.forBrk` (body yields `(st, broke?)`); a state-less `for` with
    an early `return`: `M.forRet`; `lo..hi` = `List.range' lo (hi - lo)`, `.rev()` = `.reverse`;
    `while c { body }` = `M.whileFuel fuel st (fun st => c) (fun st => ..; some st)` and `loop { body }` =
    `M.loopFuel fuel st (fun st => ..; some (st, broke?))`: a function with such a loop takes `fuel` as its
    first parameter, `none` = not finished (`whileFuel fuel`: the condition is tested `fuel + 1` times,
    `loopFuel fuel`: the body runs at most `fuel` times -- the conventions of `wnafFormLoop` / `pipLoop`
    of the model); a caller passes its own `fuel` on;
  * an `if` statement with a branch ending in `break` / `return` gets the rest of the block in the other
    branch; any other `if` statement is `let st := if c then ..; st else ..; st` (st = outer variables
    assigned in the branches) or, with effects, `match (if c then ..; some st else ..; some st) with ..`;
    `assert!(c);` is `if ¬(c) then none else`;
  * associated / trait functions that are not targets (`G::recommended_wnaf_for_num_scalars`,
    `Self::empirical_recommended_wnaf_for_scalar`) are leading parameters of the generated definition;
  * `struct Wnaf<W, B, S>` is `M.Wnaf W B S`; a returned struct that holds `&self.base[..]` / `&mut
    self.scalar` holds the VALUE at that moment (the write-back through the `&mut` when the borrow ends
    is part of the statements of PP/Props/GenMsm.lean); `as_ref()` / `as_mut()` are the identity;
  * calls of curve methods are calls of the definitions generated in Arith.lean (`A.Jac.double` ..), whose
    signatures are checked against the text generated by extract_arith.

Rust subset understood in addition to extract_arith's (anything else raises ExtractError naming the
function and the statement): `while` `loop` `break` `const X: T = E;` `let mut x;` `e as T` unary `-`
`a | b` `P |= E` `P -= E` `P += E` `P *= E` `(a..b).rev()` `vec![]` `vec![v; n]` `assert!(c)`
`Wnaf { f: e, .. }` `Vec::with_capacity(n)` `xs.push(v)` `xs.truncate(n)` `xs.reserve(n)` `xs.len()`
`xs.iter().rev()` `xs[i]` (read, write, receiver of a mutating method).

API for extract.py:
    import extract_msm
    manifest.extend(extract_msm.emit(REPO, GEN, ExtractError))   # writes GEN/Msm.lean if changed
    if extract_msm.CHANGED: changed.append("Msm")
"""
import hashlib
import os
import re
import sys

sys.path.insert(0, os.path.dirname(os.path.abspath(__file__)))
import extract_arith as XA                                             # noqa: E402
from extract_arith import (ExtractError, Block, Line, render, blank_comments, match_close,   # noqa: E402
                           find_container, lname)

CHANGED = False

# ================================================================ parser

BINPREC = dict(XA.BINPREC)
BINPREC["|"] = 4.1                      # Rust: `|` binds weaker than `^`, stronger than comparisons
STRUCTS = ("Wnaf",)
OPASSIGN = ("|", "-", "+", "*", "&")


class MsmParser(XA.Parser):
    """extract_arith.Parser + `while` `loop` `break` `const` `let x;` `as` unary `-` `|` op-assign
    `(a..b)` `vec![..]` `assert!(c)` struct literals of STRUCTS.
    new nodes: ('cast', e, ty) ('neg', e) ('range', lo, hi) ('vec', v|None, n|None) ('assert', c)
               statements ('while', c, Block) ('loop', Block) ('break',) ('letdecl', name)
               ('assign', 'op=', lhs, rhs)"""

    def adjacent_assign(self):
        t, u = self.peek(), self.peek(1)
        return (t is not None and u is not None and t.k == "op" and t.v in OPASSIGN and u.k == "op"
                and u.v == "=" and t.b == u.a)

    def expr(self, nostruct=False, prec=0):
        lhs = self.unary(nostruct)
        while True:
            t = self.peek()
            if t is None or t.k != "op" or t.v not in BINPREC or BINPREC[t.v] <= prec or self.adjacent_assign():
                return lhs
            self.eat()
            rhs = self.expr(nostruct, BINPREC[t.v])
            lhs = ("bin", t.v, lhs, rhs, (lhs[-1][0], rhs[-1][1]))

    def unary(self, nostruct):
        a = self.pos()
        if self.at("-"):
            self.eat()
            e = self.unary(nostruct)
            e = ("neg", e, (a, e[-1][1]))
        else:
            e = XA.Parser.unary(self, nostruct)
        while self.at("as"):
            self.eat()
            t = self.ty()
            e = ("cast", e, t, (a, self.lastend()))
        return e

    def primary(self, nostruct):
        t = self.peek()
        if t is None:
            self.err("unexpected end")
        a = t.a
        if t.k == "op" and t.v == "(":
            self.eat()
            items = []
            trailing = False
            while not self.at(")"):
                e = self.expr()
                if self.at(".."):
                    self.eat()
                    hi = self.expr()
                    e = ("range", e, hi, (e[-1][0], hi[-1][1]))
                items.append(e)
                trailing = False
                if self.at(","):
                    self.eat()
                    trailing = True
                elif not self.at(")"):
                    self.err("expected , or )")
            self.eat(")")
            if len(items) == 1 and not trailing:
                return items[0][:-1] + ((a, self.lastend()),)
            return ("tuple", items, (a, self.lastend()))
        if t.k == "id" and self.at("!", 1) and t.v in ("vec", "assert"):
            self.eat()
            self.eat("!")
            if t.v == "vec":
                self.eat("[")
                v = n = None
                if not self.at("]"):
                    v = self.expr()
                    self.eat(";")
                    n = self.expr()
                self.eat("]")
                return ("vec", v, n, (a, self.lastend()))
            self.eat("(")
            c = self.expr()
            if self.at(","):
                self.err("assert! with a message")
            self.eat(")")
            return ("assert", c, (a, self.lastend()))
        if t.k == "id" and t.v in STRUCTS and self.at("{", 1) and not nostruct:
            self.eat()
            self.eat("{")
            fields = []
            while not self.at("}"):
                f = self.ident()
                if self.at(":"):
                    self.eat()
                    v = self.expr()
                else:
                    p = self.t[self.i - 1]
                    v = ("path", [f], (p.a, p.b))
                fields.append((f, v))
                if self.at(","):
                    self.eat()
                elif not self.at("}"):
                    self.err("expected , or } in struct literal")
            self.eat("}")
            return ("struct", [t.v], fields, (a, self.lastend()))
        return XA.Parser.primary(self, nostruct)

    def stmt(self):
        a = self.pos()
        if self.at("#"):
            self.err("attributes inside bodies are not supported")
        if self.at("let") or self.at("const"):
            kw = self.eat().v
            if kw == "let" and self.at("mut") and self.peek(1).k == "id" and self.at(";", 2):
                self.eat()
                n = self.ident()
                self.eat(";")
                return ("letdecl", n, (a, self.lastend()))
            pat = self.pattern()
            if pat[0] != "pvar":
                self.err("unsupported let pattern")
            ty = None
            if self.at(":"):
                self.eat()
                ty = self.ty()
            self.eat("=")
            e = self.expr()
            self.eat(";")
            return ("let", pat, ty, e, (a, self.lastend()))
        if self.at("for"):
            self.eat()
            pat = self.pattern()
            if pat[0] != "pvar":
                self.err("unsupported `for` pattern")
            self.eat("in")
            it = self.expr(nostruct=True)
            if self.at(".."):
                self.eat()
                hi = self.expr(nostruct=True)
                it = ("range", it, hi, (it[-1][0], hi[-1][1]))
            body = self.block()
            return ("for", pat, it, body, (a, self.lastend()))
        if self.at("while"):
            self.eat()
            c = self.expr(nostruct=True)
            body = self.block()
            return ("while", c, body, (a, self.lastend()))
        if self.at("loop"):
            self.eat()
            body = self.block()
            return ("loop", body, (a, self.lastend()))
        if self.at("break"):
            self.eat()
            self.eat(";")
            return ("break", (a, self.lastend()))
        if self.at("return"):
            self.eat()
            e = None
            if not self.at(";"):
                e = self.expr()
            if self.at(";"):
                self.eat()
            elif not self.at("}"):
                self.err("expected ; after return")
            return ("return", e, (a, self.lastend()))
        if self.at("use") or self.at("fn"):
            self.err("unsupported item inside a body")
        e = self.expr()
        if self.adjacent_assign():
            op = self.eat().v + "="
            self.eat("=")
            r = self.expr()
            self.eat(";")
            return ("assign", op, e, r, (a, self.lastend()))
        if self.at("=") or self.at(">>=") or self.at("<<="):
            op = self.eat().v
            r = self.expr()
            self.eat(";")
            return ("assign", op, e, r, (a, self.lastend()))
        if self.at(";"):
            self.eat()
            return ("expr", e, (a, self.lastend()))
        if self.at("}") or e[0] in ("if", "block", "match"):
            return ("tail", e)
        self.err("expected ; or }")


def parse_body(src, o, end, what):
    p = MsmParser(src, o, end, what)
    b = p.block()
    if p.peek() is not None:
        p.err("trailing tokens after function body")
    return b


# ================================================================ types of the translation
#
# 'Nat' (usize u32) 'U64' 'Int' 'Bool' 'Unit' 'Jac' 'Aff' 'Lit' (integer literal, adapts)
# ('List', T) ('Arr', T, n) ('Tup', [T..]) ('Wnaf', W, B, S)

INTS = ("Nat", "U64", "Int", "Lit")


def lty(t, par=False):
    if t in ("Nat", "U64", "Lit", "Scalar"):
        return "Nat"
    if t in ("Int", "Bool", "Unit"):
        return t
    if t in ("Jac", "Aff"):
        s = t + " F"
    elif t[0] in ("List", "Arr"):
        s = "List " + lty(t[1], True)
    elif t[0] == "Tup":
        s = " × ".join(lty(x, True) for x in t[1])
    elif t[0] == "Wnaf":
        s = "M.Wnaf %s %s %s" % (lty(t[1], True), lty(t[2], True), lty(t[3], True))
    else:
        raise ExtractError("internal: type %r" % (t,))
    return "(" + s + ")" if par else s


def paren(s):
    if re.match(r"^[A-Za-z_][A-Za-z0-9_.']*$", s) or re.match(r"^[0-9]+$", s):
        return s
    if (s[0] == "(" and match_close(s, 0, "(", ")") == len(s)) or \
       (s[0] == "[" and match_close(s, 0, "[", "]") == len(s)):
        return s
    return "(" + s + ")"


def tup(names):
    names = list(names)
    if not names:
        return "()"
    if len(names) == 1:
        return names[0]
    return "(" + ", ".join(names) + ")"


class Var:
    __slots__ = ("lean", "ty")

    def __init__(self, lean, ty):
        self.lean, self.ty = lean, ty


class Env:
    def __init__(self, vars=None):
        self.vars = dict(vars or {})      # insertion-ordered: order of declaration

    def copy(self):
        return Env({k: Var(v.lean, v.ty) for k, v in self.vars.items()})


class NeedOpt(Exception):
    """an effect (panic) occurred while translating in pure mode"""


class FnSig:
    def __init__(self, lean, params, ret, fuel, extern, self_ty=None):
        self.lean = lean          # `M.x`
        self.params = params      # [(rust name, type, 'val'|'ref'|'mut')] incl. self
        self.ret = ret
        self.fuel = fuel
        self.extern = extern      # [(name, [argtypes], ret)]
        self.partial = False
        self.self_ty = self_ty

    def muts(self):
        return [p for p in self.params if p[2] == "mut"]

    def result_type(self):
        ts = [p[1] for p in self.muts()]
        if self.ret != "Unit":
            ts.append(self.ret)
        if not ts:
            return "Unit"
        return ts[0] if len(ts) == 1 else ("Tup", ts)


# methods that mutate their receiver: type -> {rust method: (lean function, [argument types])}
MUT_METHODS = {
    "Jac": {"double": ("A.Jac.double", []), "add_assign": ("A.Jac.add", ["Jac"]),
            "add_assign_mixed": ("A.Jac.addMixed", ["Aff"]), "sub_assign": ("A.Jac.sub", ["Jac"]),
            "negate": ("A.Jac.neg", [])},
    "Repr": {"sub_noborrow": ("D.FrRepr.sub_noborrow", ["Repr"]), "add_nocarry": ("D.FrRepr.add_nocarry", ["Repr"]),
             "div2": ("D.FrRepr.div2", [])},
}
VEC_MUT = ("push", "truncate", "reserve")
REPR = ("Arr", "U64", 4)

# the signatures of Arith.lean / Derive.lean this file relies on (checked against the generated text)
ARITH_SIGS = {
    "A.Aff.zero": "def Aff.zero : Aff F :=",
    "A.Jac.zero": "def Jac.zero : Jac F :=",
    "A.Jac.double": "def Jac.double (self : Jac F) : Jac F :=",
    "A.Jac.add": "def Jac.add (self : Jac F) (other : Jac F) : Jac F :=",
    "A.Jac.addMixed": "def Jac.addMixed (self : Jac F) (other : Aff F) : Jac F :=",
    "A.Jac.sub": "def Jac.sub (self : Jac F) (other : Jac F) : Jac F :=",
    "A.Aff.toJac": "def Aff.toJac (p : Aff F) : Jac F :=",
    "A.Jac.toAffine": "def Jac.toAffine (p : Jac F) : Option (Aff F) :=",
}
DERIVE_SIGS = [
    "def FrRepr.from_u64 (val : Nat) : List Nat :=",
    "def FrRepr.is_odd (self : List Nat) : Bool :=",
    "def FrRepr.is_zero (self : List Nat) : Bool :=",
    "def FrRepr.div2 (self : List Nat) : List Nat :=",
    "def FrRepr.num_bits (self : List Nat) : Nat :=",
    "def FrRepr.add_nocarry (self : List Nat) (other : List Nat) : List Nat :=",
    "def FrRepr.sub_noborrow (self : List Nat) (other : List Nat) : List Nat :=",
]


def is_repr(t):
    return t == REPR


def words(s):
    return set(re.findall(r"[A-Za-z_][A-Za-z0-9_']*", s))


# ================================================================ translation of one function

class Cmt:
    """the Rust statement, attached to the first Lean line emitted for it"""

    def __init__(self, text):
        self.text = " ".join(text.split())

    def take(self):
        t, self.text = self.text, ""
        return t


RUST_INT = {"usize": "Nat", "u32": "Nat", "u64": "U64", "i64": "Int"}
CMP = {"==": "=", "!=": "≠", "<": "<", ">": ">", "<=": "≤", ">=": "≥"}
NAT_OP = {"+": "+", "*": "*", "%": "%", "&": "&&&", "|": "|||", "^": "^^^", "/": "/"}


class FnT:
    def __init__(self, reg, src, what, sig, self_ty):
        self.reg, self.src, self.what, self.sig, self.self_ty = reg, src, what, sig, self_ty
        self.opt = False
        self.tmp = 0
        self.pending = []
        self.cache = {}
        self.noeff = 0
        self.hints = {}
        self.notes = []
        self.ctl = []

    # ---------------------------------------------------------------- helpers
    def text(self, span):
        return " ".join(self.src[span[0]:span[1]].split())

    def fail(self, msg, node):
        span = node[-1] if isinstance(node, tuple) else node.span
        t = self.text(span)
        if len(t) > 110:
            t = t[:106] + " ..."
        raise ExtractError("%s: %s in `%s`" % (self.what, msg, t))

    def note(self, node, why):
        n = "`%s` (%s)" % (self.text(node[-1]), why)
        if n not in self.notes:
            self.notes.append(n)

    def snapshot(self):
        return (self.tmp, dict(self.cache), len(self.notes), dict(self.hints))

    def restore(self, s):
        self.tmp, self.cache, self.hints = s[0], dict(s[1]), dict(s[3])
        del self.notes[s[2]:]
        self.pending = []

    def hoist(self, code, node, name=None):
        """bind the value of the Option-valued term `code` (none = panic) -> the bound name"""
        if self.noeff:
            self.fail("an operation that can panic inside `&&` / `||` / a loop condition / an inline `if`", node)
        if not self.opt:
            raise NeedOpt()
        if name is None:
            self.tmp += 1
            name = "t%d" % self.tmp
        self.pending.append((code, name))
        return name

    def flush(self, lines, ind, cmt):
        for code, name in self.pending:
            lines.append(Line(ind, "match %s with" % code, cmt.take()))
            lines.append(Line(ind, "| none => none"))
            lines.append(Line(ind, "| some %s =>" % name))
        self.pending = []

    def bind(self, env, name, ty, lean=None):
        ln = lean or (name if name == "_" else lname(name))
        env.vars[name] = Var(ln, ty)
        for k in [k for k in self.cache if ln in words(k[0]) or ln in words(k[1])]:
            del self.cache[k]
        return ln

    def var(self, env, name, node):
        v = env.vars.get(name)
        if v is None:
            self.fail("unknown variable `%s`" % name, node)
        if v.ty is None:
            self.fail("variable `%s` is read before it is assigned" % name, node)
        return v

    def coerce(self, x, xt, want, node):
        if xt == want or want is None:
            return x
        if want == "Int" and xt in ("Nat", "U64"):
            return "((%s : Nat) : Int)" % x
        if want == "Int" and xt == "Lit":
            return x
        if want in ("Nat", "U64") and xt in ("Nat", "U64", "Lit"):
            return x
        self.fail("type mismatch (%s where %s is expected)" % (xt, want), node)

    def rust_ty(self, t, node):
        """a Rust type in a `let` annotation or cast"""
        if t[0] in ("ref", "refmut"):
            return self.rust_ty(t[1], node)
        if t[0] == "name" and t[1] in RUST_INT:
            return RUST_INT[t[1]]
        if t[0] == "array" and t[1] == ("name", "u64") and t[2] == 4:
            return REPR
        if t[0] == "array" and t[1] == ("name", "usize"):
            return ("List", "Nat")
        self.fail("unsupported type annotation %r" % (t,), node)

    # ---------------------------------------------------------------- expressions
    def ex(self, e, env, want=None):
        """-> (Lean text, type); effects are appended to self.pending"""
        k = e[0]
        if k == "num":
            return str(e[1]), (want if want in ("Nat", "U64", "Int") else "Lit")
        if k == "neg":
            x, xt = self.ex(e[1], env, want)
            if xt == "Lit":
                return "-%s" % x, "Int"
            if xt != "Int":
                self.fail("unary `-` on %s" % (xt,), e)
            return "-%s" % paren(x), "Int"
        if k == "path":
            if e[1] in (["true"], ["false"]):
                return e[1][0], "Bool"
            if len(e[1]) == 1:
                v = self.var(env, e[1][0], e)
                return v.lean, v.ty
            self.fail("unsupported path", e)
        if k in ("ref", "refmut", "deref"):
            return self.ex(e[1], env, want)
        if k == "slice":
            if e[2] is not None or e[3] is not None:
                self.fail("only the full slice `[..]` is supported", e)
            return self.ex(e[1], env, want)
        if k == "field":
            x, xt = self.ex(e[1], env)
            f = e[2]
            if is_repr(xt) and f == "0":
                return x, xt
            if xt[0] == "Tup" and len(xt[1]) == 2 and f in ("0", "1"):
                return "%s.%d" % (paren(x), int(f) + 1), xt[1][int(f)]
            if xt[0] == "Wnaf" and f in ("base", "scalar", "window_size"):
                return "%s.%s" % (paren(x), f), xt[1 + ("window_size", "base", "scalar").index(f)]
            self.fail("unsupported field access `.%s` on %s" % (f, xt), e)
        if k == "index":
            return self.index_read(e, env)
        if k == "cast":
            return self.cast(e, env)
        if k == "bin":
            if e[1] in CMP or e[1] in ("&&", "||"):
                c, kind = self.cond(e, env)
                return (c if kind == "bool" else "decide (%s)" % c), "Bool"
            return self.binop(e, env, want)
        if k == "not":
            c, kind = self.cond(e, env)
            return (c if kind == "bool" else "decide (%s)" % c), "Bool"
        if k == "tuple":
            if not e[1]:
                return "()", "Unit"
            xs = [self.ex(x, env) for x in e[1]]
            return "(" + ", ".join(x for x, _ in xs) + ")", ("Tup", [("Nat" if t == "Lit" else t) for _, t in xs])
        if k == "array":
            xs = [self.ex(x, env) for x in e[1]]
            ts = [("Nat" if t == "Lit" else t) for _, t in xs]
            if not xs or any(t != ts[0] for t in ts):
                self.fail("array literal with mixed element types", e)
            return "[" + ", ".join(x for x, _ in xs) + "]", ("List", ts[0])
        if k == "vec":
            if e[1] is None:
                et = want[1] if want and want[0] == "List" else None
                return "[]", ("List", et)
            v, vt = self.ex(e[1], env)
            n, nt = self.ex(e[2], env, "Nat")
            return "List.replicate %s %s" % (paren(n), paren(v)), ("List", vt)
        if k == "struct":
            return self.struct_lit(e, env, want)
        if k == "block":
            b = e[1]
            if b.stmts or b.tail is None:
                self.fail("only a block consisting of one expression can be used as a value", e)
            return self.ex(b.tail, env, want)
        if k == "if":
            return self.if_value(e, env, want)
        if k == "call":
            return self.call_value(e, env, want)
        if k == "mcall":
            return self.mcall_value(e, env, want)
        self.fail("unsupported expression (%s)" % k, e)

    def if_value(self, e, env, want):
        c, _ = self.cond(e[1], env)
        self.noeff += 1
        try:
            if e[2].stmts or e[2].tail is None or e[3] is None:
                self.fail("an `if` used as a value must have the form `if c { a } else { b }`", e)
            a, at = self.ex(e[2].tail, env, want)
            b, bt = self.ex(e[3], env, want if at == "Lit" else at)
        finally:
            self.noeff -= 1
        t = bt if at == "Lit" else at
        if t == "Lit":
            t = "Nat"
        return "if %s then %s else %s" % (c, a, b), t

    def struct_lit(self, e, env, want):
        if e[1] != ["Wnaf"]:
            self.fail("unsupported struct literal", e)
        names = [f for f, _ in e[2]]
        if names != ["base", "scalar", "window_size"]:
            self.fail("the fields of `Wnaf { .. }` must be `base, scalar, window_size` in this order", e)
        wants = [want[2], want[3], want[1]] if want and want[0] == "Wnaf" else [None, None, None]
        vals = [self.ex(v, env, w) for (_, v), w in zip(e[2], wants)]
        ty = ("Wnaf", vals[2][1], vals[0][1], vals[1][1])
        if want and want[0] == "Wnaf":
            ty = want
        for t in ty[1:]:
            if t[0] == "List" and t[1] is None:
                self.fail("cannot determine the element type of `vec![]`", e)
        return "({ base := %s, scalar := %s, window_size := %s } : %s)" % (
            vals[0][0], vals[1][0], vals[2][0], lty(ty)), ty

    def index_read(self, e, env):
        base, bt = self.ex(e[1], env)
        if bt[0] == "Arr" and e[2][0] == "num":
            if e[2][1] >= bt[2]:
                self.fail("constant index out of bounds", e)
            return "List.getD %s %d 0" % (paren(base), e[2][1]), bt[1]
        if bt[0] not in ("List", "Arr"):
            self.fail("indexing a value of type %s" % (bt,), e)
        i, it = self.ex(e[2], env, "Nat")
        if it not in ("Nat", "U64", "Lit"):
            self.fail("index of type %s" % (it,), e)
        key = (base, i)
        if key not in self.cache:
            t = self.hoist("%s[%s]?" % (paren(base), i), e)
            self.cache[key] = t
        return self.cache[key], bt[1]

    def cast(self, e, env):
        t = e[2]
        if t[0] != "name" or t[1] not in RUST_INT:
            self.fail("unsupported cast", e)
        target = RUST_INT[t[1]]
        x, xt = self.ex(e[1], env)
        if xt in ("Nat", "U64", "Lit") and target in ("Nat", "U64"):
            return x, target
        if xt in ("Nat", "U64") and target == "Int":
            return "((%s : Nat) : Int)" % x, "Int"
        if xt == "Lit" and target == "Int":
            return x, "Int"
        if xt == "Int" and target in ("Nat", "U64"):
            return "Int.toNat %s" % paren(x), target
        self.fail("unsupported cast from %s" % (xt,), e)

    def binop(self, e, env, want):
        op = e[1]
        iw = want if want in ("Nat", "U64", "Int") else None
        if op in ("<<", ">>"):
            l, lt = self.ex(e[2], env, None if e[2][0] == "num" else iw)
            r, rt = self.ex(e[3], env, "Nat")
            if lt not in ("Nat", "U64", "Lit") or rt not in ("Nat", "U64", "Lit"):
                self.fail("shift on %s by %s" % (lt, rt), e)
            if op == ">>":
                return "%s >>> %s" % (paren(l), paren(r)), ("Nat" if lt == "Lit" else lt)
            if lt == "U64":
                return "(%s <<< %s) %% 2 ^ 64" % (paren(l), paren(r)), "U64"
            if lt == "Lit":
                self.note(e, "shift of a literal: not truncated")
            return "%s <<< %s" % (paren(l), paren(r)), "Nat"
        if op not in NAT_OP and op != "-":
            self.fail("unsupported operator `%s`" % op, e)
        l, lt = self.ex(e[2], env, iw)
        r, rt = self.ex(e[3], env, lt if lt in ("Nat", "U64", "Int") else iw)
        if lt not in INTS or rt not in INTS:
            self.fail("`%s` on %s and %s" % (op, lt, rt), e)
        if "Int" in (lt, rt):
            l, r = self.coerce(l, lt, "Int", e), self.coerce(r, rt, "Int", e)
            if op in ("+", "-", "*"):
                return "%s %s %s" % (paren(l), op, paren(r)), "Int"
            if op == "/":
                return "Int.tdiv %s %s" % (paren(l), paren(r)), "Int"
            self.fail("`%s` on i64" % op, e)
        t = "U64" if "U64" in (lt, rt) else ("Nat" if "Nat" in (lt, rt) else "Lit")
        if op == "-":
            if t == "Lit":
                if e[2][0] == "num" and e[3][0] == "num" and e[2][1] >= e[3][1]:
                    return str(e[2][1] - e[3][1]), "Lit"
                self.fail("subtraction of literals", e)
            return self.hoist("M.usub %s %s" % (paren(l), paren(r)), e), t
        if t == "Lit":
            t = "Nat"
        return "%s %s %s" % (paren(l), NAT_OP[op], paren(r)), t

    def cond(self, e, env):
        """-> (text, 'prop' | 'bool')"""
        k = e[0]
        if k == "bin" and e[1] in CMP:
            l, lt = self.ex(e[2], env)
            r, rt = self.ex(e[3], env, lt if lt in ("Nat", "U64", "Int") else None)
            if lt in INTS and rt in INTS:
                if "Int" in (lt, rt):
                    l, r = self.coerce(l, lt, "Int", e), self.coerce(r, rt, "Int", e)
            elif lt != rt:
                self.fail("comparison of %s and %s" % (lt, rt), e)
            return "%s %s %s" % (paren(l), CMP[e[1]], paren(r)), "prop"
        if k == "bin" and e[1] in ("&&", "||"):
            l, lk = self.cond(e[2], env)
            self.noeff += 1
            try:
                r, rk = self.cond(e[3], env)
            finally:
                self.noeff -= 1
            l = l if lk == "prop" else "%s = true" % paren(l)
            r = r if rk == "prop" else "%s = true" % paren(r)
            return "%s %s %s" % (paren(l), "∧" if e[1] == "&&" else "∨", paren(r)), "prop"
        if k == "not":
            c, ck = self.cond(e[1], env)
            return ("!%s" % paren(c), "bool") if ck == "bool" else ("¬%s" % paren(c), "prop")
        x, xt = self.ex(e, env)
        if xt != "Bool":
            self.fail("condition of type %s" % (xt,), e)
        return x, "bool"

    # ---------------------------------------------------------------- calls
    def static_call(self, segs, node):
        """classify a path call"""
        name = segs[-1]
        head = "::".join(segs[:-1])
        return head, name

    def call_value(self, e, env, want):
        head, name = self.static_call(e[1], e)
        args = e[2]
        if name == "zero" and not args:
            if head in ("Self::Projective", "G", "$projective") or (head == "Self" and self.self_ty == "Jac"):
                return "A.Jac.zero", "Jac"
            if head == "$affine" or (head == "Self" and self.self_ty == "Aff"):
                return "A.Aff.zero", "Aff"
        if head == "Vec" and name == "with_capacity" and len(args) == 1:
            self.ex(args[0], env, "Nat")
            return "[]", ("List", None)
        if head == "S" and name == "from" and len(args) == 1:
            x, xt = self.ex(args[0], env)
            if xt != "U64":
                self.fail("`S::from` of %s (only `From<u64>` is known)" % (xt,), e)
            return "D.FrRepr.from_u64 %s" % paren(x), REPR
        for en, eargs, eret in self.sig.extern:
            if name == en and head in ("Self", "G"):
                if len(args) != len(eargs):
                    self.fail("arity of `%s`" % name, e)
                xs = [self.coerce(*self.ex(a, env, t), t, a) for a, t in zip(args, eargs)]
                return "%s %s" % (en, " ".join(paren(x) for x in xs)), eret
        callee = self.reg.get(name) if head in ("Self", "") else None
        if callee is None:
            self.fail("call of an unknown function `%s`" % "::".join(e[1]), e)
        if callee.muts():
            self.fail("call of `%s` (which has `&mut` parameters) as a value" % name, e)
        return self.apply(callee, args, env, e)

    def apply(self, callee, args, env, node, name=None):
        """-> (text bound to the result, result type); hoists when the callee may panic"""
        if len(args) != len(callee.params):
            self.fail("arity of `%s`" % callee.lean, node)
        xs = []
        if callee.fuel:
            if not self.sig.fuel:
                self.fail("call of `%s` (which takes fuel) from a function without fuel" % callee.lean, node)
            xs.append("fuel")
        for en, _, _ in callee.extern:
            if not any(en == x[0] for x in self.sig.extern):
                self.fail("`%s` needs the parameter `%s`" % (callee.lean, en), node)
            xs.append(en)
        for a, (pn, pt, pm) in zip(args, callee.params):
            x, xt = self.ex(a, env, pt)
            if xt != pt and not (xt[0] == "List" and pt[0] == "List" and xt[1] in (None, pt[1])) \
                    and not (xt in ("Nat", "U64", "Lit") and pt in ("Nat", "U64")) \
                    and not (xt[0] in ("List", "Arr") and pt[0] in ("List", "Arr") and xt[1] == pt[1]):
                self.fail("argument `%s` of `%s`: %s where %s is expected" % (pn, callee.lean, xt, pt), a)
            xs.append(paren(x))
        code = "%s %s" % (callee.lean, " ".join(xs))
        rt = callee.result_type()
        if callee.partial:
            return self.hoist(code, node, name), rt
        return code, rt

    def mcall_value(self, e, env, want):
        m, args = e[2], e[3]
        x, xt = self.ex(e[1], env)
        if m in ("as_ref", "as_mut", "iter") and not args:
            if is_repr(xt) and m == "as_ref":
                return x, ("List", "U64")
            if xt[0] == "List":
                return x, xt
        if m == "into" and xt == "Scalar" and not args:
            return "limbsOf 4 %s" % paren(x), REPR
        if m == "len" and xt[0] == "List" and not args:
            return "List.length %s" % paren(x), "Nat"
        if m == "rev" and xt[0] == "List" and not args:
            return "List.reverse %s" % paren(x), xt
        if m == "into_projective" and xt == "Aff" and not args:
            return "A.Aff.toJac %s" % paren(x), "Jac"
        if m == "into_affine" and xt == "Jac" and not args:
            return self.hoist("A.Jac.toAffine %s" % paren(x), e), "Aff"
        if is_repr(xt) and m in ("is_zero", "is_odd") and not args:
            return "D.FrRepr.%s %s" % (m, paren(x)), "Bool"
        if is_repr(xt) and m == "num_bits" and not args:
            return "D.FrRepr.num_bits %s" % paren(x), "Nat"
        self.fail("unsupported method `%s` on %s" % (m, xt), e)

    # ---------------------------------------------------------------- places
    def place(self, e):
        """-> (root variable, path) with path items ('idx', ast) | ('fld', name); None if not a place"""
        k = e[0]
        if k == "path" and len(e[1]) == 1:
            return e[1][0], []
        if k in ("ref", "refmut", "deref"):
            return self.place(e[1])
        if k == "mcall" and e[2] in ("as_mut", "as_ref") and not e[3]:
            return self.place(e[1])
        if k == "slice" and e[2] is None and e[3] is None:
            return self.place(e[1])
        if k == "index":
            p = self.place(e[1])
            return None if p is None else (p[0], p[1] + [("idx", e[2])])
        if k == "field":
            p = self.place(e[1])
            return None if p is None else (p[0], p[1] + [("fld", e[2])])
        return None

    def assigned_outer(self, node, env):
        """outer variables (declared in env) assigned somewhere in `node` (an AST statement / Block)"""
        found = []

        def root(e, declared):
            p = self.place(e)
            if p is not None and p[0] not in declared and p[0] in env.vars and p[0] not in found:
                found.append(p[0])

        def expr(e, declared):
            if not isinstance(e, tuple):
                return
            if e[0] == "block":
                block(e[1], set(declared))
            elif e[0] == "if":
                expr(e[1], declared)
                block(e[2], set(declared))
                if e[3] is not None:
                    expr(e[3], declared)
            elif e[0] == "mcall":
                if e[2] in VEC_MUT[:2] or any(e[2] in d for d in MUT_METHODS.values()):
                    root(e[1], declared)
                for a in e[3]:
                    expr(a, declared)
            elif e[0] == "call":
                for a in e[2]:
                    if a[0] == "refmut" or (a[0] == "mcall" and a[2] == "as_mut"):
                        root(a, declared)
                    expr(a, declared)

        def block(b, declared):
            for s in b.stmts + ([("expr", b.tail, b.tail[-1])] if b.tail is not None else []):
                if s[0] == "let":
                    expr(s[3], declared)
                    declared.add(s[1][1])
                elif s[0] == "letdecl":
                    declared.add(s[1])
                elif s[0] == "assign":
                    root(s[2], declared)
                    expr(s[3], declared)
                elif s[0] == "expr":
                    expr(s[1], declared)
                elif s[0] == "for":
                    block(s[3], set(declared) | {s[1][1]})
                elif s[0] == "while":
                    block(s[2], set(declared))
                elif s[0] == "loop":
                    block(s[1], set(declared))

        if isinstance(node, Block):
            block(node, set())
        else:
            expr(node, set())
        return [n for n in env.vars if n in found]

    def contains(self, b, kind, through_loops=False):
        """does Block b contain a statement of this kind (not inside a nested loop)"""
        def expr(e):
            if not isinstance(e, tuple):
                return False
            if e[0] == "block":
                return blk(e[1])
            if e[0] == "if":
                return blk(e[2]) or (e[3] is not None and expr(e[3]))
            return False

        def blk(bb):
            for s in bb.stmts:
                if s[0] == kind:
                    return True
                if s[0] == "expr" and expr(s[1]):
                    return True
                if through_loops and s[0] in ("for", "while", "loop") and blk(s[-2]):
                    return True
            return bb.tail is not None and expr(bb.tail)
        return blk(b)

    def diverges(self, b):
        if isinstance(b, tuple):            # an `else if`
            if b[0] == "block":
                return self.diverges(b[1])
            return b[0] == "if" and b[3] is not None and self.diverges(b[2]) and self.diverges(b[3])
        if b.tail is not None:
            return self.diverges(b.tail) if b.tail[0] in ("if", "block") else False
        return bool(b.stmts) and b.stmts[-1][0] in ("break", "return")

    def as_block(self, e):
        if e is None:
            return Block([], None, None)
        if e[0] == "block":
            return e[1]
        return Block([("expr", e, e[-1])], None, e[-1])

    # ---------------------------------------------------------------- statements
    def seq(self, stmts, tail, env, ind, fin, unit):
        """lines for the statements, then fin(env, ind, value) (value = (text, type) of the tail | None)"""
        stmts = list(stmts)
        if unit and tail is not None:
            stmts.append(("expr", tail, tail[-1]))
            tail = None
        lines = []
        for k, s in enumerate(stmts):
            cmt = Cmt(self.text(s[-1]))
            kind = s[0]
            if kind == "let":
                self.let_stmt(s, env, ind, cmt, lines)
            elif kind == "letdecl":
                self.bind(env, s[1], None)
                lines.append(Line(ind, "", cmt.take()))
            elif kind == "assign":
                self.assign_stmt(s, env, ind, cmt, lines)
            elif kind == "for":
                self.for_stmt(s, env, ind, cmt, lines)
            elif kind == "while":
                self.while_stmt(s, env, ind, cmt, lines)
            elif kind == "loop":
                self.loop_stmt(s, env, ind, cmt, lines)
            elif kind == "break":
                if k != len(stmts) - 1 or tail is not None:
                    self.fail("statements after `break`", s)
                if not self.ctl or self.ctl[-1]["brk"] is None:
                    self.fail("`break` outside of a loop that supports it", s)
                lines.append(Line(ind, self.ctl[-1]["brk"](env), cmt.take()))
                return lines
            elif kind == "return":
                if k != len(stmts) - 1 or tail is not None:
                    self.fail("statements after `return`", s)
                if not self.ctl or self.ctl[-1]["ret"] is None or s[1] is None:
                    self.fail("`return` is only supported inside a state-less `for` loop", s)
                v, vt = self.ex(s[1], env, self.sig.ret)
                self.flush(lines, ind, cmt)
                lines.append(Line(ind, self.ctl[-1]["ret"](v), cmt.take()))
                return lines
            elif kind == "expr" and s[1][0] == "assert":
                c, ck = self.cond(s[1][1], env)
                self.flush(lines, ind, cmt)
                if not self.opt:
                    raise NeedOpt()
                lines.append(Line(ind, "if %s then none else" % ("!%s" % paren(c) if ck == "bool" else "¬%s" % paren(c)),
                                  cmt.take()))
            elif kind == "expr" and s[1][0] == "if":
                e = s[1]
                td, ed = self.diverges(e[2]), (e[3] is not None and self.diverges(e[3]))
                if td or ed:
                    c, _ = self.cond(e[1], env)
                    self.flush(lines, ind, cmt)
                    lines.append(Line(ind, "if %s then" % c, cmt.take()))
                    rest = stmts[k + 1:]
                    for blk, div, closing in ((e[2], td, "} else {" if e[3] is not None else "}"),
                                              (self.as_block(e[3]), ed, "}" if e[3] is not None else "")):
                        e2 = env.copy()
                        saved = dict(self.cache)
                        if div:
                            lines.extend(self.seq(blk.stmts, blk.tail, e2, ind + 1, None, True))
                        else:
                            lines.extend(self.seq(list(blk.stmts) + ([("expr", blk.tail, blk.tail[-1])] if blk.tail is not None else []) + rest,
                                                  tail, e2, ind + 1, fin, unit))
                        self.cache = saved
                        if blk is e[2]:
                            lines.append(Line(ind, "else", closing))
                    return lines
                self.if_mid(e, env, ind, cmt, lines)
            elif kind == "expr" and s[1][0] == "block":
                self.fail("nested block statement", s)
            elif kind == "expr":
                self.expr_stmt(s[1], env, ind, cmt, lines)
            else:
                self.fail("unsupported statement (%s)" % kind, s)
        if fin is None:
            self.fail("a branch that should end in `break` / `return` falls through", stmts[-1] if stmts else tail)
        value = None
        if tail is not None:
            cmt = Cmt(self.text(tail[-1]))
            value = self.ex(tail, env, self.sig.ret if self.sig.ret != "Unit" else None)
            self.flush(lines, ind, cmt)
            out = fin(env, ind, value)
            out[0].cmt = out[0].cmt or cmt.take()
            return lines + out
        return lines + fin(env, ind, None)

    def let_stmt(self, s, env, ind, cmt, lines):
        name = s[1][1]
        want = self.rust_ty(s[2], s) if s[2] is not None else None
        v, vt = self.ex(s[3], env, want)
        if want is not None:
            if vt == "Lit" or (vt in ("Nat", "U64") and want in ("Nat", "U64")) or \
                    (vt[0] in ("List", "Arr") and want[0] in ("List", "Arr") and vt[1] == want[1]):
                vt = want
            if vt != want:
                self.fail("declared type %s, value of type %s" % (want, vt), s)
        if vt == "Lit":
            vt = "Nat"
        self.flush(lines, ind, cmt)
        ln = self.bind(env, name, vt)
        lines.append(Line(ind, "let %s := %s" % (ln, v), cmt.take()))

    def set_place(self, env, root, path, value, vty, ind, cmt, lines, checked, node):
        """root.path := value (a Lean text); checked: an index write must test the bound"""
        v = env.vars[root]
        if not path:
            if v.ty is not None and v.ty != vty and not (v.ty in ("Nat", "U64") and vty in ("Nat", "U64", "Lit")) \
                    and not (v.ty[0] == "List" and vty[0] == "List" and (v.ty[1] is None or v.ty[1] == vty[1])):
                self.fail("assignment of %s to `%s` of type %s" % (vty, root, v.ty), node)
            ty = vty if (v.ty is None or (v.ty[0] == "List" and v.ty[1] is None)) else v.ty
            if ty == "Lit":
                ty = "Nat"
            self.flush(lines, ind, cmt)
            ln = self.bind(env, root, ty)
            asc = " : Int" if ty == "Int" and re.match(r"^-?[0-9]+$", value) else ""
            lines.append(Line(ind, "let %s%s := %s" % (ln, asc, value), cmt.take()))
            return
        if len(path) == 1 and path[0][0] == "idx":
            if v.ty[0] != "List" or (v.ty[1] != vty and not (v.ty[1] in ("Nat", "U64") and vty in ("Nat", "U64", "Lit"))):
                self.fail("write of %s into `%s` of type %s" % (vty, root, v.ty), node)
            i, it = self.ex(path[0][1], env, "Nat")
            if checked:
                self.hoist("M.setIdx %s %s %s" % (v.lean, paren(i), paren(value)), node, v.lean)
                self.flush(lines, ind, cmt)
                self.bind(env, root, v.ty)
            else:
                self.flush(lines, ind, cmt)
                self.bind(env, root, v.ty)
                lines.append(Line(ind, "let %s := List.set %s %s %s" % (v.lean, v.lean, paren(i), paren(value)), cmt.take()))
            return
        if len(path) == 1 and path[0][0] == "fld" and v.ty[0] == "Wnaf":
            self.flush(lines, ind, cmt)
            self.bind(env, root, v.ty)
            lines.append(Line(ind, "let %s := { %s with %s := %s }" % (v.lean, v.lean, path[0][1], value), cmt.take()))
            return
        self.fail("unsupported assignment target", node)

    def assign_stmt(self, s, env, ind, cmt, lines):
        op, lhs, rhs = s[1], s[2], s[3]
        p = self.place(lhs)
        if p is None or p[0] not in env.vars:
            self.fail("unsupported assignment target", s)
        root, path = p
        if op == "=":
            want = env.vars[root].ty if not path else None
            if want is None and not path:
                want = self.hints.get(root)
            v, vt = self.ex(rhs, env, want)
            if want == "Int" and vt in ("Nat", "U64", "Lit"):
                v, vt = self.coerce(v, vt, "Int", s), "Int"
            self.set_place(env, root, path, v, vt, ind, cmt, lines, True, s)
            return
        bop = {"|=": "|", "-=": "-", "+=": "+", "*=": "*", "&=": "&", ">>=": ">>", "<<=": "<<"}[op]
        if path:
            self.fail("compound assignment to an element", s)
        v, vt = self.binop(("bin", bop, lhs, rhs, s[-1]), env, env.vars[root].ty)
        self.set_place(env, root, path, v, vt, ind, cmt, lines, True, s)

    def expr_stmt(self, e, env, ind, cmt, lines):
        if e[0] == "mcall":
            p = self.place(e[1])
            m, args = e[2], e[3]
            if p is not None and p[0] in env.vars:
                root, path = p
                if not path or path[-1][0] != "fld":
                    cur, ct = self.ex(e[1], env)                     # (an indexed receiver is read here)
                    if ct[0] == "List" and m in VEC_MUT and len(args) == 1 and not path:
                        if m == "push":
                            x, xt = self.ex(args[0], env, ct[1])
                            if ct[1] is not None and xt != ct[1]:
                                self.fail("push of %s onto %s" % (xt, ct), e)
                            self.set_place(env, root, path, "%s ++ [%s]" % (cur, x), ("List", xt), ind, cmt, lines, False, e)
                        elif m == "truncate":
                            n, _ = self.ex(args[0], env, "Nat")
                            self.set_place(env, root, path, "List.take %s %s" % (paren(n), cur), ct, ind, cmt, lines, False, e)
                        else:
                            self.ex(args[0], env, "Nat")
                            self.flush(lines, ind, cmt)
                            lines.append(Line(ind, "", cmt.take() + "   (capacity only; the argument is evaluated)"))
                        return
                    tk = "Repr" if is_repr(ct) else ct
                    if tk in MUT_METHODS and m in MUT_METHODS[tk]:
                        fn, ats = MUT_METHODS[tk][m]
                        if len(ats) != len(args):
                            self.fail("arity of `%s`" % m, e)
                        xs = []
                        for a, at in zip(args, ats):
                            x, xt = self.ex(a, env)
                            if (is_repr(xt) and at == "Repr") or xt == at:
                                xs.append(paren(x))
                            else:
                                self.fail("argument of `%s`: %s where %s is expected" % (m, xt, at), a)
                        self.set_place(env, root, path, " ".join([fn, paren(cur)] + xs), ct, ind, cmt, lines, False, e)
                        return
            self.fail("unsupported method call statement `%s`" % m, e)
        if e[0] == "call":
            head, name = self.static_call(e[1], e)
            callee = self.reg.get(name) if head in ("Self", "") else None
            if callee is None or len(callee.muts()) != 1 or callee.ret != "Unit":
                self.fail("unsupported call statement", e)
            (mi,) = [i for i, prm in enumerate(callee.params) if prm[2] == "mut"]
            if mi >= len(e[2]):
                self.fail("arity", e)
            p = self.place(e[2][mi])
            if p is None or p[0] not in env.vars:
                self.fail("the `&mut` argument is not a place", e)
            v, vt = self.apply(callee, e[2], env, e)
            self.set_place(env, p[0], p[1], v, vt, ind, cmt, lines, False, e)
            return
        self.fail("unsupported expression statement", e)

    # ---------------------------------------------------------------- if / loops
    def body(self, blk, env, ind, assigned, wrap, extra_stmts=()):
        """a block printed inside a nested Lean term whose value is `wrap(state)`"""
        e2 = env.copy()
        saved = dict(self.cache)

        def fin(envx, indx, value):
            return [Line(indx, wrap(tup(envx.vars[n].lean for n in assigned)))]
        lines = self.seq(blk.stmts, blk.tail, e2, ind, fin, True)
        self.cache = saved
        return lines, e2

    def adopt(self, env, assigned, inner_envs):
        for n in assigned:
            ty = env.vars[n].ty
            for ie in inner_envs:
                if ie is not None and ie.vars[n].ty is not None and (ty is None or (ty[0] == "List" and ty[1] is None)):
                    ty = ie.vars[n].ty
            self.bind(env, n, ty)

    def if_mid(self, e, env, ind, cmt, lines):
        c, _ = self.cond(e[1], env)
        self.flush(lines, ind, cmt)
        assigned = self.assigned_outer(e, env)
        if not assigned:
            self.fail("an `if` statement that assigns no outer variable", e)
        st = tup(env.vars[n].lean for n in assigned)
        closing = "} else {" if e[3] is not None else "}"
        snap = self.snapshot()
        outer_opt = self.opt
        for mode in (False, True):
            if mode and not outer_opt:
                raise NeedOpt()
            self.opt = mode
            wrap = (lambda s: "some " + paren(s)) if mode else (lambda s: s)
            try:
                thl, e1 = self.body(e[2], env, ind + 2, assigned, wrap)
                for n in assigned:
                    if env.vars[n].ty is None and e1.vars[n].ty is not None:
                        self.hints[n] = e1.vars[n].ty
                ell, e2 = self.body(self.as_block(e[3]), env, ind + 2, assigned, wrap)
            except NeedOpt:
                self.restore(snap)
                continue
            finally:
                self.opt = outer_opt
            break
        if mode:
            out = [Line(ind, "match (", cmt.take())]
        else:
            out = [Line(ind, "let %s :=" % st, cmt.take())]
        out.append(Line(ind + 1, "if %s then" % c))
        out.extend(thl)
        out.append(Line(ind + 1, "else", closing))
        out.extend(ell)
        if mode:
            out += [Line(ind, ") with"), Line(ind, "| none => none"), Line(ind, "| some %s =>" % st)]
        if e[3] is not None:
            out[-1].cmt = out[-1].cmt or "}"
        lines.extend(out)
        self.adopt(env, assigned, [e1, e2])

    def iter_expr(self, it, env):
        """-> (Lean list, element type)"""
        rev = False
        if it[0] == "mcall" and it[2] == "rev" and not it[3] and it[1][0] == "range":
            rev, it = True, it[1]
        if it[0] == "range":
            lo, lt = self.ex(it[1], env, "Nat")
            hi, ht = self.ex(it[2], env, "Nat")
            if lt not in ("Nat", "Lit", "U64") or ht not in ("Nat", "Lit", "U64"):
                self.fail("range bounds", it)
            if it[1][0] == "num" and it[2][0] == "num":
                n = str(max(0, it[2][1] - it[1][1]))
            elif it[1][0] == "num" and it[1][1] == 0:
                n = paren(hi)
            else:
                n = "(%s - %s)" % (paren(hi), paren(lo))
            xs = "List.range' %s %s" % (paren(lo), n)
            return ("List.reverse (%s)" % xs if rev else xs), "Nat"
        xs, xt = self.ex(it, env)
        if xt[0] != "List":
            self.fail("iteration over %s" % (xt,), it)
        return xs, xt[1]

    def loop_head(self, env, assigned):
        st = tup(env.vars[n].lean for n in assigned)
        return st

    def for_stmt(self, s, env, ind, cmt, lines):
        pat, it, blk = s[1], s[2], s[3]
        xs, elt = self.iter_expr(it, env)          # (evaluated once, before the loop)
        self.flush(lines, ind, cmt)
        assigned = self.assigned_outer(blk, env)
        st = self.loop_head(env, assigned)
        x = pat[1]
        has_brk, has_ret = self.contains(blk, "break"), self.contains(blk, "return")
        head = "for %s in %s {" % (x, self.text(it[-1]))

        def inner(wrap, brk=None, ret=None):
            e2 = env.copy()
            self.bind(e2, x, elt)
            self.ctl.append(dict(brk=brk, ret=ret))
            try:
                return self.body(blk, e2, ind + 2, assigned, wrap)
            finally:
                self.ctl.pop()

        lx = x if x == "_" else lname(x)
        if has_ret:
            if assigned or has_brk:
                self.fail("`return` inside a `for` loop that assigns outer variables", s)
            if not self.opt:
                raise NeedOpt()
            body, _ = inner(lambda s_: "some none", ret=lambda v: "some (some %s)" % paren(v))
            lines.append(Line(ind, "match M.forRet %s (fun %s =>" % (paren(xs), lx), head))
            lines.extend(body)
            lines.append(Line(ind + 1, ") with", "}"))
            lines.append(Line(ind, "| none => none"))
            lines.append(Line(ind, "| some (some ret) => %s" % self.fn_result(env, "ret")))
            lines.append(Line(ind, "| some none =>"))
            return
        if not assigned:
            self.fail("a `for` loop that assigns no outer variable", s)
        snap = self.snapshot()
        outer_opt = self.opt
        body = None
        if not has_brk:
            self.opt = False
            try:
                body, e1 = inner(lambda s_: s_)
            except NeedOpt:
                self.restore(snap)
            finally:
                self.opt = outer_opt
            if body is not None:
                lines.append(Line(ind, "let %s := List.foldl (fun %s %s =>" % (st, st, lx), head))
                lines.extend(body)
                lines.append(Line(ind + 1, ") %s %s" % (st, paren(xs)), "}"))
                self.adopt(env, assigned, [e1])
                return
        if has_brk:
            self.opt = False
            try:
                body, e1 = inner(lambda s_: "(%s, false)" % s_,
                                 brk=lambda envx: "(%s, true)" % tup(envx.vars[n].lean for n in assigned))
            except NeedOpt:
                self.restore(snap)
                body = None
            finally:
                self.opt = outer_opt
            if body is not None:
                lines.append(Line(ind, "let %s := M.forBrkP %s %s (fun %s %s =>" % (st, paren(xs), st, st, lx), head))
                lines.extend(body)
                lines.append(Line(ind + 1, ")", "}"))
                self.adopt(env, assigned, [e1])
                return
        if not outer_opt:
            raise NeedOpt()
        if has_brk:
            body, e1 = inner(lambda s_: "some (%s, false)" % s_,
                             brk=lambda envx: "some (%s, true)" % tup(envx.vars[n].lean for n in assigned))
            comb = "M.forBrk"
        else:
            body, e1 = inner(lambda s_: "some " + paren(s_))
            comb = "M.forIn"
        lines.append(Line(ind, "match %s %s %s (fun %s %s =>" % (comb, paren(xs), st, st, lx), head))
        lines.extend(body)
        lines.append(Line(ind + 1, ") with", "}"))
        lines.append(Line(ind, "| none => none"))
        lines.append(Line(ind, "| some %s =>" % st))
        self.adopt(env, assigned, [e1])

    def fuel_loop(self, env, ind, lines, blk, head, comb, condtext, brk):
        if not self.sig.fuel:
            self.fail("a `while` / `loop` in a function that is not declared with fuel", blk)
        if not self.opt:
            raise NeedOpt()
        assigned = self.assigned_outer(blk, env)
        if not assigned:
            self.fail("a loop that assigns no outer variable", blk)
        st = self.loop_head(env, assigned)
        self.ctl.append(dict(brk=(lambda envx: "some (%s, true)" % tup(envx.vars[n].lean for n in assigned)) if brk else None,
                             ret=None))
        try:
            wrap = (lambda s_: "some (%s, false)" % s_) if brk else (lambda s_: "some " + paren(s_))
            body, e1 = self.body(blk, env, ind + 2, assigned, wrap)
        finally:
            self.ctl.pop()
        c = " (fun %s => %s)" % (st, condtext) if condtext is not None else ""
        lines.append(Line(ind, "match %s fuel %s%s (fun %s =>" % (comb, st, c, st), head))
        lines.extend(body)
        lines.append(Line(ind + 1, ") with", "}"))
        lines.append(Line(ind, "| none => none"))
        lines.append(Line(ind, "| some %s =>" % st))
        self.adopt(env, assigned, [e1])

    def while_stmt(self, s, env, ind, cmt, lines):
        self.noeff += 1
        try:
            c, ck = self.cond(s[1], env)
        finally:
            self.noeff -= 1
        if ck == "prop":
            c = "decide (%s)" % c
        self.fuel_loop(env, ind, lines, s[2], "while %s {" % self.text(s[1][-1]), "M.whileFuel", c, False)

    def loop_stmt(self, s, env, ind, cmt, lines):
        if not self.contains(s[1], "break"):
            self.fail("`loop` without `break`", s)
        self.fuel_loop(env, ind, lines, s[1], "loop {", "M.loopFuel", None, True)

    # ---------------------------------------------------------------- the function
    def fn_result(self, env, value):
        parts = [env.vars[p[0]].lean for p in self.sig.muts()]
        if value is not None and self.sig.ret != "Unit":
            parts.append(value)
        r = tup(parts)
        return "some " + paren(r) if self.opt else r

    def run(self, blk):
        sig = self.sig
        for mode in (False, True):
            self.opt = mode
            self.tmp, self.pending, self.cache, self.hints, self.notes, self.ctl = 0, [], {}, {}, [], []
            env = Env()
            for n, t, m in sig.params:
                self.bind(env, n, t)

            def fin(envx, indx, value):
                if (value is None) != (sig.ret == "Unit"):
                    self.fail("the value of the body does not match the declared return type", blk)
                v = None
                if value is not None:
                    v = self.coerce(value[0], value[1], sig.ret, blk) if sig.ret in ("Nat", "U64", "Int") else value[0]
                    vt = value[1]
                    if sig.ret not in ("Nat", "U64", "Int") and vt != sig.ret and not (
                            vt[0] in ("List", "Arr") and sig.ret[0] in ("List", "Arr") and vt[1] == sig.ret[1]):
                        self.fail("the body has type %s, declared %s" % (vt, sig.ret), blk)
                return [Line(indx, self.fn_result(envx, v))]
            try:
                lines = self.seq(blk.stmts, blk.tail, env, 1, fin, sig.ret == "Unit")
            except NeedOpt:
                continue
            sig.partial = mode
            return lines
        raise ExtractError("%s: internal: no translation mode" % self.what)


# ================================================================ targets

EC = "src/bls12_381/ec/mod.rs"
G1RS = "src/bls12_381/ec/g1.rs"
G2RS = "src/bls12_381/ec/g2.rs"
WNAF = "src/wnaf.rs"
MACRO = XA.MACRO
IMPL_CA = XA.IMPL_CA
IMPL_CP = XA.IMPL_CP

LJ, LA, LI = ("List", "Jac"), ("List", "Aff"), ("List", "Int")
LS = ("List", REPR)
W0 = ("Wnaf", "Unit", LJ, LI)        # Wnaf<(), Vec<G>, Vec<i64>>
W1 = ("Wnaf", "Nat", LJ, LI)         # Wnaf<usize, _, _> (every borrowed / owned form)
X_NUM = ("recommended_wnaf_for_num_scalars", ["Nat"], "Nat")
X_SC = ("recommended_wnaf_for_scalar", [REPR], "Nat")
X_ENUM = ("empirical_recommended_wnaf_for_num_scalars", ["Nat"], "Nat")
X_ESC = ("empirical_recommended_wnaf_for_scalar", [REPR], "Nat")
SCALAR_GEN = "<S: Into<<Self::Scalar as PrimeField>::Repr>>"
REPR_OF_G = "<<G as CurveProjective>::Scalar as PrimeField>::Repr"


def T(file, path, fn, lean, sig, params, ret="Unit", self_ty=None, fuel=False, extern=(), key=None):
    return dict(file=file, path=path, fn=fn, lean=lean, sig=sig, params=params, ret=ret, self_ty=self_ty,
                fuel=fuel, extern=list(extern), key=key or fn)


CA, CP = MACRO + [IMPL_CA], MACRO + [IMPL_CP]
IMPL_W0 = r"impl<G:\s*CurveProjective>\s+Wnaf<\(\),\s*Vec<G>,\s*Vec<i64>>\s*\{"
IMPL_WB = r"impl<'a,\s*G:\s*CurveProjective>\s+Wnaf<usize,\s*&'a\s*\[G\],\s*&'a\s+mut\s+Vec<i64>>\s*\{"
IMPL_WS = r"impl<'a,\s*G:\s*CurveProjective>\s+Wnaf<usize,\s*&'a\s+mut\s+Vec<G>,\s*&'a\s*\[i64\]>\s*\{"
IMPL_WEB = r"impl<B,\s*S:\s*AsRef<\[i64\]>>\s+Wnaf<usize,\s*B,\s*S>\s*\{"
IMPL_WES = r"impl<B,\s*S:\s*AsMut<Vec<i64>>>\s+Wnaf<usize,\s*B,\s*S>\s*\{"


def group_rec(g, rel):
    c = [r"impl\s+%s\s*\{\s*fn\s+empirical_recommended_wnaf_for_scalar" % g]
    return [
        T(rel, c, "empirical_recommended_wnaf_for_scalar", "%s.empiricalRecommendedWnafForScalar" % g,
          "fn empirical_recommended_wnaf_for_scalar(scalar: FrRepr) -> usize", [("scalar", REPR, "val")], "Nat",
          key="%s.esc" % g),
        T(rel, c, "empirical_recommended_wnaf_for_num_scalars", "%s.empiricalRecommendedWnafForNumScalars" % g,
          "fn empirical_recommended_wnaf_for_num_scalars(num_scalars: usize) -> usize", [("num_scalars", "Nat", "val")],
          "Nat", key="%s.enum" % g),
    ]


TARGETS = [
    # ---- the table functions of `impl CurveAffine for $affine` (macro curve_impl!)
    T(EC, CA, "precomp_3", "Aff.precomp3", "fn precomp_3(&self, pre: &mut [Self])",
      [("self", "Aff", "ref"), ("pre", LA, "mut")], self_ty="Aff"),
    T(EC, CA, "mul_precomp_3", "Aff.mulPrecomp3",
      "fn mul_precomp_3%s(&self, other: S, pre: &[Self],) -> $projective" % SCALAR_GEN,
      [("self", "Aff", "ref"), ("other", "Scalar", "val"), ("pre", LA, "ref")], "Jac", self_ty="Aff"),
    T(EC, CA, "precomp_256", "Aff.precomp256", "fn precomp_256(&self, pre: &mut [Self])",
      [("self", "Aff", "ref"), ("pre", LA, "mut")], self_ty="Aff", fuel=True),
    T(EC, CA, "mul_precomp_256", "Aff.mulPrecomp256",
      "fn mul_precomp_256%s(&self, other: S, pre: &[Self],) -> $projective" % SCALAR_GEN,
      [("self", "Aff", "ref"), ("other", "Scalar", "val"), ("pre", LA, "ref")], "Jac", self_ty="Aff"),
    T(EC, CA, "find_pippinger_window", "findPippingerWindow",
      "fn find_pippinger_window(num_components: usize) -> usize", [("num_components", "Nat", "val")], "Nat",
      self_ty="Aff"),
    T(EC, CA, "sum_of_products_pippinger", "Aff.sumOfProductsPippinger",
      "fn sum_of_products_pippinger(points: &[Self], scalars: &[&[u64; 4]], window: usize,) -> $projective",
      [("points", LA, "ref"), ("scalars", LS, "ref"), ("window", "Nat", "val")], "Jac", self_ty="Aff", fuel=True),
    T(EC, CA, "sum_of_products", "Aff.sumOfProducts",
      "fn sum_of_products(points: &[Self], scalars: &[&[u64; 4]]) -> $projective",
      [("points", LA, "ref"), ("scalars", LS, "ref")], "Jac", self_ty="Aff", fuel=True),
    T(EC, CA, "sum_of_products_precomp_256", "Aff.sumOfProductsPrecomp256",
      "fn sum_of_products_precomp_256(points: &[Self], scalars: &[&[u64; 4]], pre: &[Self],) -> $projective",
      [("points", LA, "ref"), ("scalars", LS, "ref"), ("pre", LA, "ref")], "Jac", self_ty="Aff"),
    # ---- `impl CurveProjective for $projective`
    T(EC, CP, "recommended_wnaf_for_scalar", "Jac.recommendedWnafForScalar",
      "fn recommended_wnaf_for_scalar(scalar: <Self::Scalar as PrimeField>::Repr) -> usize",
      [("scalar", REPR, "val")], "Nat", self_ty="Jac", extern=[X_ESC], key="Jac.rsc"),
    T(EC, CP, "recommended_wnaf_for_num_scalars", "Jac.recommendedWnafForNumScalars",
      "fn recommended_wnaf_for_num_scalars(num_scalars: usize) -> usize",
      [("num_scalars", "Nat", "val")], "Nat", self_ty="Jac", extern=[X_ENUM], key="Jac.rnum"),
] + group_rec("G1", G1RS) + group_rec("G2", G2RS) + [
    # ---- src/wnaf.rs
    T(WNAF, [], "wnaf_table", "wnafTable",
      "pub(crate) fn wnaf_table<G: CurveProjective>(table: &mut Vec<G>, mut base: G, window: usize)",
      [("table", LJ, "mut"), ("base", "Jac", "val"), ("window", "Nat", "val")]),
    T(WNAF, [], "wnaf_form", "wnafForm",
      "pub(crate) fn wnaf_form<S: PrimeFieldRepr>(wnaf: &mut Vec<i64>, mut c: S, window: usize)",
      [("wnaf", LI, "mut"), ("c", REPR, "val"), ("window", "Nat", "val")], fuel=True),
    T(WNAF, [], "wnaf_exp", "wnafExp",
      "pub(crate) fn wnaf_exp<G: CurveProjective>(table: &[G], wnaf: &[i64]) -> G",
      [("table", LJ, "ref"), ("wnaf", LI, "ref")], "Jac"),
    T(WNAF, [IMPL_W0], "new", "Wnaf.new", "pub fn new() -> Self", [], W0, key="Wnaf.new"),
    T(WNAF, [IMPL_W0], "base", "Wnaf.ctxBase",
      "pub fn base(&mut self, base: G, num_scalars: usize) -> Wnaf<usize, &[G], &mut Vec<i64>>",
      [("self", W0, "mut"), ("base", "Jac", "val"), ("num_scalars", "Nat", "val")], W1, extern=[X_NUM], key="Wnaf.base"),
    T(WNAF, [IMPL_W0], "scalar", "Wnaf.ctxScalar",
      "pub fn scalar(&mut self, scalar: %s,) -> Wnaf<usize, &mut Vec<G>, &[i64]>" % REPR_OF_G,
      [("self", W0, "mut"), ("scalar", REPR, "val")], W1, fuel=True, extern=[X_SC], key="Wnaf.scalar"),
    T(WNAF, [IMPL_WB], "shared", "Wnaf.baseShared", "pub fn shared(&self) -> Wnaf<usize, &'a [G], Vec<i64>>",
      [("self", W1, "ref")], W1, key="Wnaf.baseShared"),
    T(WNAF, [IMPL_WS], "shared", "Wnaf.scalarShared", "pub fn shared(&self) -> Wnaf<usize, Vec<G>, &'a [i64]>",
      [("self", W1, "ref")], W1, key="Wnaf.scalarShared"),
    T(WNAF, [IMPL_WEB], "base", "Wnaf.expBase",
      "pub fn base<G: CurveProjective>(&mut self, base: G) -> G where B: AsMut<Vec<G>>,",
      [("self", W1, "mut"), ("base", "Jac", "val")], "Jac", key="Wnaf.expBase"),
    T(WNAF, [IMPL_WES], "scalar", "Wnaf.expScalar",
      "pub fn scalar<G: CurveProjective>(&mut self, scalar: %s,) -> G where B: AsRef<[G]>," % REPR_OF_G,
      [("self", W1, "mut"), ("scalar", REPR, "val")], "Jac", fuel=True, key="Wnaf.expScalar"),
]

# text that is checked but not translated: (file, regex, expected text without whitespace | None, name)
TEXT_CHECKS = [
    (WNAF, r"pub\s+struct\s+Wnaf<W,\s*B,\s*S>\s*\{[^}]*\}", "pubstructWnaf<W,B,S>{base:B,scalar:S,window_size:W,}",
     "struct Wnaf"),
]
NOT_TRANSLATED = [
    (EC, r"\bfn\s+find_pippinger_window_via_estimate\b",
     "find_pippinger_window_via_estimate (impl CurveAffine for $affine): `f64` arithmetic (`powf`); the function only "
     "documents how the table inside `find_pippinger_window` was obtained and is not called by the library"),
    (WNAF, r"#\[derive\(Debug\)\]\s*pub\s+struct\s+Wnaf", "#[derive(Debug)] for Wnaf: formatting"),
]

GENERIC_VARS = "variable {F : Type} [Add F] [Sub F] [Mul F] [Neg F] [Zero F] [One F] [FieldOps F] [DecidableEq F]"

PRELUDE = """import PP.Model.Mul
import PP.Gen.Arith
import PP.Gen.Derive

set_option linter.unusedVariables false

namespace PP.Gen.M
open PP PP.Gen

/-! ## primitives (fixed text): the meaning of the statement forms listed in the header of extract_msm.py -/

/-- `buf[i] = v` on a slice / `Vec`: `none` = index out of bounds (panic) -/
def setIdx {α : Type} (xs : List α) (i : Nat) (v : α) : Option (List α) :=
  if i < xs.length then some (xs.set i v) else none

/-- `a - b` on `usize`: `none` = underflow (panic with overflow checks; see the header) -/
def usub (a b : Nat) : Option Nat := if b ≤ a then some (a - b) else none

/-- `for x in xs { body }` with a body that can panic -/
def forIn {σ α : Type} : List α → σ → (σ → α → Option σ) → Option σ
  | [], s, _ => some s
  | x :: xs, s, f =>
    match f s x with
    | none => none
    | some s' => forIn xs s' f

/-- `for x in xs { body }` with `break`: the body yields `(state, broke?)` -/
def forBrk {σ α : Type} : List α → σ → (σ → α → Option (σ × Bool)) → Option σ
  | [], s, _ => some s
  | x :: xs, s, f =>
    match f s x with
    | none => none
    | some (s', true) => some s'
    | some (s', false) => forBrk xs s' f

/-- `for x in xs { body }` with `break` and a body that cannot panic -/
def forBrkP {σ α : Type} : List α → σ → (σ → α → σ × Bool) → σ
  | [], s, _ => s
  | x :: xs, s, f => if (f s x).2 then (f s x).1 else forBrkP xs (f s x).1 f

/-- a state-less `for x in xs { body }` with an early `return v` (`some (some v)`) -/
def forRet {α ρ : Type} : List α → (α → Option (Option ρ)) → Option (Option ρ)
  | [], _ => some none
  | x :: xs, f =>
    match f x with
    | none => none
    | some (some r) => some (some r)
    | some none => forRet xs f

/-- `while cond { body }`: the condition is tested at most `fuel + 1` times; `none` = panic in the body, or
    the condition still holds at the last test -/
def whileFuel {σ : Type} : Nat → σ → (σ → Bool) → (σ → Option σ) → Option σ
  | 0, s, cond, _ => if cond s then none else some s
  | fuel + 1, s, cond, body =>
    if cond s then
      match body s with
      | none => none
      | some s' => whileFuel fuel s' cond body
    else some s

/-- `loop { body }`: the body (which yields `(state, broke?)`) runs at most `fuel` times; `none` = panic in
    the body, or no `break` within `fuel` runs -/
def loopFuel {σ : Type} : Nat → σ → (σ → Option (σ × Bool)) → Option σ
  | 0, _, _ => none
  | fuel + 1, s, body =>
    match body s with
    | none => none
    | some (s', true) => some s'
    | some (s', false) => loopFuel fuel s' body

/-- `pub struct Wnaf<W, B, S> { base: B, scalar: S, window_size: W }`  (src/wnaf.rs) -/
structure Wnaf (W B S : Type) where
  base : B
  scalar : S
  window_size : W

"""

HEADER = """/- GENERATED by /verif/extract/extract_msm.py from /repo -- do not edit.

The scalar-multiplication TABLES (`precomp_3`, `mul_precomp_3`, `precomp_256`, `mul_precomp_256`), the
MULTI-SCALAR multiplications (`sum_of_products*`, `find_pippinger_window`) of the macro `curve_impl!`
(src/bls12_381/ec/mod.rs), the wNAF code (src/wnaf.rs) and the window recommendations (ec/mod.rs, ec/g1.rs,
ec/g2.rs).  One Lean definition per Rust function, one `let` / `if` / `match` line per Rust statement (the
statement is the trailing comment); all conventions are listed in the header of extract_msm.py.  In short:
slices and `Vec`s are `List`s, `[u64; 4]` / `FrRepr` are limb lists, `usize` / `u64` are `Nat` (`u64 <<` is
reduced mod 2^64), `i64` is `Int`, a scalar `S: Into<Repr>` is a `Nat`; `&mut` parameters are returned; a
write into a caller-provided buffer is `M.setIdx` on the incoming list; `none` = panic (index out of
bounds, `assert!`, `unwrap`, usize underflow) or, in a function with a `fuel` parameter, a `while` /
`loop` that did not finish.  Curve operations are the definitions generated in Arith.lean (`A.`), the
`PrimeFieldRepr` operations of `wnaf_form` the ones generated in Derive.lean (`D.FrRepr.`).
PP/Proofs/GenMsm.lean and PP/Props/GenMsm.lean prove each definition equal to the hand model
(PP/Model/Mul.lean).

NOT MODELLED: integer overflow other than the truncation of `<<` on `u64`.  `+ * <<` on usize and the
arithmetic on `i64` are the exact operations, shift amounts are not reduced modulo the width, and a shift
of an integer LITERAL is exact whatever type Rust infers for it (usize / u64 / i64; `i32` for the masks of
`sum_of_products_pippinger`, which is exact for `window <= 31`).  The literal shifts:
%(notes)s

NOT TRANSLATED:
%(nots)s
-/
"""


def sig_line(sig, partial):
    ps = []
    if sig.fuel:
        ps.append("(fuel : Nat)")
    for en, eargs, eret in sig.extern:
        ps.append("(%s : %s)" % (en, " → ".join([lty(t, True) for t in eargs] + [lty(eret, True)])))
    for n, t, m in sig.params:
        ps.append("(%s : %s)" % (lname(n), lty(t)))
    rt = lty(sig.result_type(), partial)
    return "def %s %s: %s :=" % (sig.lean[2:], "".join(p + " " for p in ps), ("Option " + rt) if partial else rt)


def translate(repo_dir, gen_dir=None):
    items = []
    cache = {}

    def load(rel):
        if rel not in cache:
            p = os.path.join(repo_dir, rel)
            try:
                raw = open(p).read()
            except OSError as e:
                raise ExtractError("cannot read %s: %s" % (p, e))
            cache[rel] = (raw, blank_comments(raw))
        return cache[rel]

    def item(name, rel, raw, src, a, b):
        items.append({"item": "msm:" + name, "file": rel,
                      "lines": [src.count("\n", 0, a) + 1, src.count("\n", 0, b) + 1],
                      "sha256": hashlib.sha256(raw[a:b].encode()).hexdigest()})

    # the signatures of Arith.lean / Derive.lean this file relies on
    atext, _, anames = XA.translate(repo_dir)
    for n, sigline in ARITH_SIGS.items():
        if ("\n" + sigline + "\n") not in atext:
            raise ExtractError("Arith.lean: the generated signature of %s is not `%s`" % (n, sigline))
    if gen_dir is not None:
        try:
            dtext = open(os.path.join(gen_dir, "Derive.lean")).read()
        except OSError as e:
            raise ExtractError("cannot read Derive.lean: %s" % e)
        for sigline in DERIVE_SIGS:
            if ("\n" + sigline + "\n") not in dtext:
                raise ExtractError("Derive.lean: the generated signature `%s` is missing" % sigline)
    for rel, rx, want, name in TEXT_CHECKS:
        raw, src = load(rel)
        ms = list(re.finditer(rx, src))
        if len(ms) != 1:
            raise ExtractError("%s: %s: declaration not found" % (rel, name))
        if "".join(ms[0].group(0).split()) != want:
            raise ExtractError("%s: %s changed: `%s`" % (rel, name, " ".join(ms[0].group(0).split())))
        item("check:" + name, rel, raw, src, ms[0].start(), ms[0].end())
    nots = []
    for rel, rx, textn in NOT_TRANSLATED:
        raw, src = load(rel)
        if re.search(rx, src):
            nots.append("  * %s: %s" % (rel, textn))

    reg = {}
    body_out = []
    notes = []
    cur_file = None
    names = []
    for tg in TARGETS:
        rel = tg["file"]
        raw, src = load(rel)
        lean_name = "M." + tg["lean"]
        what = "%s: fn %s (-> %s)" % (rel, tg["fn"], lean_name)
        a, b = 0, len(src)
        for rx in tg["path"]:
            _, a, b = find_container(src, a, b, rx, what)
        if tg["path"]:
            ms = [m for m in re.finditer(r"(?:pub(?:\(crate\))?\s+)?\bfn\s+%s\b" % re.escape(tg["fn"]), src[a:b])]
        else:   # top level of the file: brace depth 0 only
            ms = [m for m in re.finditer(r"(?m)^(?:pub(?:\(crate\))?\s+)?fn\s+%s\b" % re.escape(tg["fn"]), src)]
        if len(ms) != 1:
            raise ExtractError("%s: expected exactly one `fn %s` in its container, found %d" % (what, tg["fn"], len(ms)))
        f0 = a + ms[0].start()
        o = src.index("{", f0)
        f1 = match_close(src, o)
        got = "".join(src[f0:o].split())
        if got != "".join(tg["sig"].split()):
            raise ExtractError("%s: the signature changed: `%s` (expected `%s`)" % (what, " ".join(src[f0:o].split()), tg["sig"]))
        sig = FnSig(lean_name, tg["params"], tg["ret"], tg["fuel"], tg["extern"], tg["self_ty"])
        tr = FnT(reg, src, what, sig, tg["self_ty"])
        blk = parse_body(src, o, f1, what)
        lines = tr.run(blk)
        if tg["key"] in reg:
            raise ExtractError("%s: duplicate registry key %r" % (what, tg["key"]))
        reg[tg["key"]] = sig
        for n in tr.notes:
            notes.append("  * %s: %s" % (tg["fn"], n))
        item(tg["lean"], rel, raw, src, f0, f1)
        if rel != cur_file:
            body_out.append("\n/-! ## %s -/\n" % rel)
            cur_file = rel
        l0, l1 = src.count("\n", 0, f0) + 1, src.count("\n", 0, f1) + 1
        body_out.append("/-- `%s`  (%s:%d-%d) -/" % (" ".join(src[f0:o].split()), rel, l0, l1))
        body_out.append(sig_line(sig, sig.partial))
        body_out.append(render(lines))
        body_out.append("")
        names.append(lean_name)
    out = [HEADER % dict(notes="\n".join(notes) or "  (none)", nots="\n".join(nots) or "  (nothing)") + PRELUDE,
           "section", GENERIC_VARS]
    out.extend(body_out)
    out.append("end\n")
    out.append("end PP.Gen.M")
    return "\n".join(out) + "\n", items, names


def emit(repo_dir, gen_dir, error_cls=None):
    """Write gen_dir/Msm.lean (only when its content changes); return the manifest items.
    Raises ExtractError (or error_cls, if given) on anything unrecognised."""
    global CHANGED
    try:
        text, items, _ = translate(repo_dir, gen_dir)
    except ExtractError as e:
        if error_cls is not None:
            raise error_cls("msm: " + str(e))
        raise
    path = os.path.join(gen_dir, "Msm.lean")
    old = open(path).read() if os.path.exists(path) else None
    CHANGED = old != text
    if CHANGED:
        with open(path + ".tmp", "w") as f:
            f.write(text)
        os.replace(path + ".tmp", path)
    return items


if __name__ == "__main__":
    verif = os.path.dirname(os.path.dirname(os.path.abspath(__file__)))
    repo = sys.argv[1] if len(sys.argv) > 1 else os.environ.get("PP_REPO", "/repo")
    gen = sys.argv[2] if len(sys.argv) > 2 else os.path.join(verif, "lean", "PP", "Gen")
    try:
        its = emit(repo, gen)
    except ExtractError as e:
        print("EXTRACT-ERROR: %s" % e)
        sys.exit(2)
    print("extract_msm: %d items, Msm.lean %s" % (len(its), "rewritten" if CHANGED else "unchanged"))
