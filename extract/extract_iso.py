#!/usr/bin/env python3
"""Translator: ISOGENY EVALUATION of /repo (`eval_iso` of src/bls12_381/isogeny/mod.rs and the two
`IsogenyMap::isogeny_map` impls of isogeny/g1.rs, g2.rs) -> /verif/lean/PP/Gen/Iso.lean  (python3 stdlib only).

Companion of extract_arith.py / extract_pair.py (whose tokenizer / parser / printer it reuses through the
subclass `IsoParser`): each target function is located in the Rust source, parsed, and printed as ONE Lean
definition in namespace `PP.Gen.I`, a `do` block of the `Option` monad with one line (or a few: the hoisted
bounds checks) per Rust statement and the statement as trailing comment.  `PP/Proofs/GenIso.lean` proves the
definitions equal to the hand-written FUNCTIONAL model (`PP.evalIso`, `PP.iso11`, `PP.iso3` of
`PP/Model/Map.lean`), so an edit of a power of Z, of a loop bound, of the Horner order, of the view offsets,
of the recombination, of the tables passed ... changes the generated Lean and breaks the equality theorem.

`eval_iso` is IMPERATIVE array code; it is translated LITERALLY (fixed conventions, independent of the model):
  * a fixed-size array `[T; N]`, a slice `&[T]` and an array of slices are `List`s; `[v; N]` is
    `List.replicate N v`; references are transparent; `usize` is `Nat`; `xs.len()` is `xs.length`;
  * a PANIC is `none`, every translated function is `Option`-valued: a READ `xs[i]` is `let x ← xs[i]?`, a
    WRITE `xs[i] = v` is `let xs ← I.setIdx xs i v` (`none` = index out of bounds), a `usize` subtraction is
    `let x ← I.usub a b` (`none` = underflow: the panic of a build with overflow checks; without them Rust
    wraps around -- nothing after such a wrap is modelled), `&xs[..n]` is `I.sliceTo xs n`;
  * an in-place method on an element, `xs[i].square()` / `.mul_assign(&e)` / `.add_assign(&e)`, reads the
    element (`let x ← xs[i]?`) and stores the result with `xs.set i (..)` (in bounds, as the read succeeded);
    operations on coordinates are the notations `* +` and `sq` of PP/Model/Field.lean, `T::zero()` is `0`;
  * effects INSIDE an expression (index reads, subtractions) are hoisted into `let x ← ..` lines (fresh
    names `x1 x2 ..`, reused by sibling scopes) before the line of the statement: first those of the
    right-hand side / arguments, then those of the assigned place.  The order of the bounds checks of ONE
    statement is therefore not Rust's evaluation order, which is invisible: every failure is `none`;
  * ALIASES are resolved here, statically; they never appear in the Lean text other than in comments:
      - `a.split_at_mut(k)` on an array `[T; N]` (or on a view) yields two VIEWS `a[lo .. lo + len]`, the
        offsets computed from the declared `N` and the literal `k` (`k` beyond the length is rejected);
        `view[i]` is `I.viewGet a lo len i` (`i < len`, then `a[lo + i]?`), `view[i] = v` is
        `I.viewSet a lo len i v`, an in-place method stores with `a.set (lo + i) (..)`;
      - `&mut view[i]` with a literal `i` (checked against the length of the view) is a REFERENCE to the
        element `a[lo + i]`; `*r = v`, `*r`, `r.method(..)` are writes / reads / in-place methods of it;
      - `pt.as_tuple()` gives the three coordinate VALUES `(pt.x, pt.y, pt.z)` (`pt` must not be mutated
        while they are in scope: checked); `unsafe { pt.as_tuple_mut() }` gives three REFERENCES to the
        fields of `pt`: `*x = v` is `let pt := { pt with x := v }`.  The source text of `as_tuple` /
        `as_tuple_mut` of the curve macro is checked to be the tuple of fields;
  * `for v in lo..hi { body }` is `let st ← I.loop (List.range' lo (hi - lo)) st (fun st v => do body; pure st)`
    (`List.range hi` when `lo` is the literal 0), `for v in &xs[..n]` runs over `I.sliceTo xs n`; `st` is the
    tuple of the OUTER arrays / variables the body assigns (through whatever alias), in order of declaration;
  * nested blocks are flattened into the enclosing `do` block (a declaration in a nested block must not
    shadow a variable of an enclosing scope); `let v = { ..; e }` binds the value of the block;
  * an `if` must be the last statement of a loop body; both branches end the iteration with the state;
  * a `&mut` parameter is returned: `eval_iso(pt, coeffs)` returns the new `pt`; the generic point type
    `PtT: CurveProjective` is `Jac F`, `CoordT<PtT>` (checked to be `<PtT as CurveProjective>::Base`) is `F`;
    the type classes `[Add F] [Mul F] ..` listed are exactly those of the operations used;
  * in the callers, `&XNUM[..]` .. are the tables of the caller's OWN file, i.e. the lists extracted into
    PP/Gen/Maps.lean (`Gen.ISO11_XNUM` .. for g1.rs, `Gen.ISO3_XNUM` .. for g2.rs, `.map Fq.ofMont` /
    `.map Fq2.ofMont`); the declared lengths `[Fq; N]` are emitted as theorems `tableLen_*`.  `Self` (G1 / G2)
    is checked against the instantiations of the curve macro; the G2 caller is elaborated with the
    GENERATED `Fq2` operations as local instances, as in Arith.lean.

Rust subset understood in addition to extract_pair's parser (anything else raises ExtractError naming the
function and the statement): `[v; N]`, `T::<A>::f()`, `unsafe { .. }`, `lo..hi` with any `lo`, `&xs[..n]`,
`&X[..]`, `xs[i] = e;`, `*r = e;`, `xs[i].m(..);`, `let (a, b) = ..;` of values or of aliases, block values,
`% / + - == != < <= > >=` on usize.

API for extract.py:
    import extract_iso
    manifest.extend(extract_iso.emit(REPO, GEN, ExtractError))   # writes GEN/Iso.lean if changed
    if extract_iso.CHANGED: changed.append("Iso")
"""
import hashlib
import os
import re
import sys

sys.path.insert(0, os.path.dirname(os.path.abspath(__file__)))
import extract_arith as XA                                             # noqa: E402
import extract_pair as XP                                              # noqa: E402
from extract_arith import (ExtractError, Block, Line, render, blank_comments, match_close,   # noqa: E402
                           find_container, lname)

CHANGED = False


# ================================================================ parser

class IsoParser(XP.PairParser):
    """extract_pair.PairParser + `[v; N]`, `T::<A>::f(..)`, `unsafe { .. }`.
    new nodes: ('repeat', v, n, span)  ('tcall', T, A, f, [args], span)  ('unsafe', Block, span)"""

    def primary(self, nostruct):
        t = self.peek()
        if t is not None and t.k == "op" and t.v == "[":
            a = t.a
            self.eat()
            items = []
            if not self.at("]"):
                first = self.expr()
                if self.at(";"):
                    self.eat()
                    n = self.eat()
                    if n.k != "num":
                        self.err("the length of an array repeat expression must be a literal")
                    self.eat("]")
                    return ("repeat", first, n.v, (a, self.lastend()))
                items.append(first)
                while self.at(","):
                    self.eat()
                    if self.at("]"):
                        break
                    items.append(self.expr())
            self.eat("]")
            return ("array", items, (a, self.lastend()))
        if t is not None and t.k == "id" and t.v == "unsafe" and self.at("{", 1):
            a = t.a
            self.eat()
            b = self.block()
            return ("unsafe", b, (a, self.lastend()))
        if t is not None and t.k == "id" and self.at("::", 1) and self.at("<", 2):
            a = t.a
            name = self.ident()
            self.eat("::")
            self.eat("<")
            targ = self.ty()
            self.split_shift()
            self.eat(">")
            self.eat("::")
            f = self.ident()
            if not self.at("("):
                self.err("a path with generic arguments must be a call")
            ar = self.args()
            return ("tcall", name, targ, f, ar, (a, self.lastend()))
        return XP.PairParser.primary(self, nostruct)


def parse_fn(src, a, b, what):
    """src[a:b] starts at `fn`.  -> (name, bounds {generic: bound type}, params, ret, Block)"""
    p = IsoParser(src, a, b, what)
    p.eat("fn")
    name = p.ident()
    bounds = {}
    if p.at("<"):
        p.eat()
        while not p.at(">"):
            g = p.ident()
            bounds[g] = None
            if p.at(":"):
                p.eat()
                bounds[g] = p.bound((",", ">"))
            if p.at(","):
                p.eat()
            elif not p.at(">"):
                p.err("expected , or > in the generic parameters")
        p.eat(">")
    p.eat("(")
    params = []
    while not p.at(")"):
        if p.at("&"):
            p.eat()
            p.eat("mut")
            p.eat("self")
            params.append(("self", ("refmut", ("name", "Self"))))
        else:
            if p.at("mut"):
                p.err("`mut` parameters are not supported")
            n = p.ident()
            p.eat(":")
            params.append((n, p.ty()))
        if p.at(","):
            p.eat()
        elif not p.at(")"):
            p.err("expected , or ) in the parameter list")
    p.eat(")")
    if p.at("->"):
        p.err("functions with a return value are not supported")
    if p.at("where"):
        p.err("where clauses are not supported")
    body = p.block()
    if p.peek() is not None:
        p.err("trailing tokens after function body")
    return name, bounds, params, body


# ================================================================ values of the translation
#
# types: 'F' (a coordinate), 'Nat', 'Pt' (the point), ('Arr', T, N), ('Slice', T)

class V:
    """a Lean value"""
    def __init__(self, text, ty, bound=False):
        self.text, self.ty, self.bound = text, ty, bound     # bound: `text` is a name bound by a hoisted line


class View:
    """alias of base[lo .. lo + ln] (base: name of an array variable)"""
    def __init__(self, base, lo, ln, elty):
        self.base, self.lo, self.ln, self.elty = base, lo, ln, elty

    def show(self):
        return "%s[%d..%d]" % (self.base, self.lo, self.lo + self.ln)


class ElemRef:
    """alias of the element base[idx] (idx a literal)"""
    def __init__(self, base, idx, elty):
        self.base, self.idx, self.elty = base, idx, elty

    def show(self):
        return "%s[%d]" % (self.base, self.idx)


class FieldRef:
    """alias of the field base.f"""
    def __init__(self, base, f):
        self.base, self.f = base, f

    def show(self):
        return "%s.%s" % (self.base, self.f)


class Tup:
    def __init__(self, items):
        self.items = items


class Var:
    def __init__(self, lean, ty, mut, scope, depth, alias=None):
        self.lean, self.ty, self.mut, self.scope, self.depth, self.alias = lean, ty, mut, scope, depth, alias


def is_list(t):
    return isinstance(t, tuple) and t[0] in ("Arr", "Slice")


def paren(s):
    return XP.paren(s)


OPS = {"square": ("FieldOps", 0, lambda a: "sq %s" % paren(a)),
       "mul_assign": ("Mul", 1, lambda a, b: "%s * %s" % (paren(a), paren(b))),
       "add_assign": ("Add", 1, lambda a, b: "%s + %s" % (paren(a), paren(b)))}
CLASS_ORDER = ["Add", "Sub", "Mul", "Neg", "Zero", "One", "FieldOps"]
NAT_OPS = {"/": "/", "%": "%", "+": "+", "*": "*"}
CMP = {"==": "=", "!=": "≠", "<": "<", "<=": "≤", ">": ">", ">=": "≥"}


class Sig:
    def __init__(self, lean, params, classes):
        self.lean, self.params, self.classes = lean, params, classes     # params: [(type, is_mut_ref)]


# ================================================================ translation of one function

class IsoT:
    def __init__(self, reg, src, what, field, tables):
        self.reg = reg              # {fn name: Sig}: translated functions that can be called
        self.src = src
        self.what = what
        self.field = field          # Lean name of the coordinate type: 'F' (generic) | 'Fq' | 'Fq2'
        self.tables = tables        # {Rust const: (Lean text, length)} (callers only)
        self.classes = set()
        self.ntmp = 0
        self.nscope = 0
        self.depth = 0              # loop nesting
        self.pre = []               # hoisted lines of the statement being translated
        self.frozen = {}            # variable -> scope in which it is borrowed immutably
        self.mutated = None         # recording: outer variables assigned in the loop body being analysed

    # ---- diagnostics
    def text(self, span):
        return " ".join(self.src[span[0]:span[1]].split())

    def fail(self, msg, node):
        if isinstance(node, Block):
            span = node.span
        elif len(node) == 2 and isinstance(node[0], int):
            span = node
        else:
            span = node[-1]
        raise ExtractError("%s: %s: `%s`" % (self.what, msg, self.text(span)[:160]))

    # ---- types
    def lty(self, t, par=False):
        if t == "F":
            s = self.field
        elif t == "Pt":
            s = "Jac %s" % self.field
        elif t == "Nat":
            s = "Nat"
        elif is_list(t):
            s = "List %s" % self.lty(t[1], True)
        else:
            raise ExtractError("%s: internal: type %r" % (self.what, t))
        return "(%s)" % s if par and " " in s else s

    def conv_ty(self, t, generics):
        k = t[0]
        if k in ("ref", "refmut"):
            return self.conv_ty(t[1], generics)
        if k == "name":
            if t[1] in generics or t[1] == "Self":
                return "Pt"
            if t[1] == "usize":
                return "Nat"
        if k == "app" and t[1] == "CoordT" and len(t[2]) == 1 and t[2][0][0] == "name" and t[2][0][1] in generics:
            return "F"
        if k == "slice":
            return ("Slice", self.conv_ty(t[1], generics))
        if k == "array":
            return ("Arr", self.conv_ty(t[1], generics), t[2])
        raise ExtractError("%s: unsupported type %r" % (self.what, t))

    def same_ty(self, a, b):
        """types up to array / slice (both are lists; an array coerces to a slice)"""
        if is_list(a) and is_list(b):
            return self.same_ty(a[1], b[1])
        return a == b

    # ---- names
    def fresh(self, env):
        while True:
            self.ntmp += 1
            n = "x%d" % self.ntmp
            if n not in env and not any(v.lean == n for v in env.values()):
                return n

    def hoist(self, code):
        self.pre.append(code)

    def flush(self, ind, cmt):
        out = []
        for code in self.pre:
            out.append(Line(ind, code, cmt.take()))
        self.pre = []
        return out

    def var(self, env, name, node):
        if name not in env:
            self.fail("unknown variable `%s`" % name, node)
        return env[name]

    def declare(self, env, name, var, node):
        old = env.get(name)
        if old is not None and old.scope != var.scope:
            self.fail("`%s` declared in a nested block / loop body shadows a variable of an enclosing scope "
                      "(nested blocks are flattened into one `do` block)" % name, node)
        if name in self.frozen and old is not None:
            del self.frozen[name]
        env.pop(name, None)          # declaration order = insertion order
        env[name] = var

    def mutate(self, env, base, node):
        """the Lean variable `base` (an array, the point, a scalar) is assigned here"""
        v = self.var(env, base, node)
        if v.alias is not None:
            self.fail("internal: mutation of the alias `%s`" % base, node)
        if not v.mut:
            self.fail("mutation of `%s`, which is not declared `mut`" % base, node)
        if base in self.frozen:
            self.fail("`%s` is mutated while values borrowed from it (`as_tuple`) are in scope" % base, node)
        if self.mutated is not None:
            for rec, depth in self.mutated:
                if v.depth < depth and base not in rec:
                    rec.append(base)
        return v

    # ---- expressions
    def atom(self, e, env, want=None):
        v = self.eval(e, env)
        if not isinstance(v, V):
            self.fail("an alias (view / reference) is used as a value", e)
        if want is not None and not self.same_ty(v.ty, want):
            self.fail("type mismatch: expected %s, found %s" % (self.lty(want), self.lty(v.ty)), e)
        return v

    def list_base(self, e, env):
        """the thing that is indexed / split: a View (of an array variable or of a view) | a list value V"""
        r = e
        while r[0] in ("ref", "refmut", "deref"):
            r = r[1]
        if r[0] == "path" and len(r[1]) == 1 and r[1][0] in env:
            v = env[r[1][0]]
            if isinstance(v.alias, View):
                return v.alias
            if v.alias is None and isinstance(v.ty, tuple) and v.ty[0] == "Arr":
                return ("arr", r[1][0], v)
        v = self.atom(r, env)
        if not is_list(v.ty):
            self.fail("indexing of a value of type %s" % self.lty(v.ty), e)
        return v

    def read_index(self, e, env, hint):
        base = self.list_base(e[1], env)
        if e[2] is None:
            self.fail("unsupported index", e)
        i = self.atom(e[2], env, "Nat")
        x = hint or self.fresh(env)
        if isinstance(base, View):
            self.hoist("let %s ← I.viewGet %s %d %d %s" % (x, env[base.base].lean, base.lo, base.ln, paren(i.text)))
            return V(x, base.elty, True)
        if isinstance(base, tuple):
            _, _, var = base
            self.hoist("let %s ← %s[%s]?" % (x, var.lean, i.text))
            return V(x, var.ty[1], True)
        self.hoist("let %s ← %s[%s]?" % (x, paren(base.text), i.text))
        return V(x, base.ty[1], True)

    def read_place(self, pl, env, hint=None):
        k = pl[0]
        if k == "var":
            return V(env[pl[1]].lean, env[pl[1]].ty)
        if k == "field":
            return V("%s.%s" % (env[pl[1]].lean, pl[2]), "F")
        x = hint or self.fresh(env)
        if k == "elem":
            self.hoist("let %s ← %s[%s]?" % (x, env[pl[1]].lean, pl[2]))
            return V(x, pl[3], True)
        if k == "velem":
            self.hoist("let %s ← I.viewGet %s %d %d %s" % (x, env[pl[1]].lean, pl[2], pl[3], paren(pl[4])))
            return V(x, pl[5], True)
        raise ExtractError("internal: place %r" % (pl,))

    def eval(self, e, env, hint=None):
        """-> V | View | ElemRef | FieldRef | Tup ; effects are hoisted into self.pre"""
        k = e[0]
        if k == "refmut":
            r = e[1]
            if r[0] == "index":
                base = self.list_base(r[1], env)
                if r[2] is None or r[2][0] != "num":
                    self.fail("`&mut a[i]` needs a literal index", e)
                i = r[2][1]
                if isinstance(base, View):
                    if i >= base.ln:
                        self.fail("`&mut view[%d]` is out of bounds (the view has %d elements): the code always "
                                  "panics" % (i, base.ln), e)
                    return ElemRef(base.base, base.lo + i, base.elty)
                if isinstance(base, tuple):
                    _, name, var = base
                    if i >= var.ty[2]:
                        self.fail("`&mut a[%d]` is out of bounds (the array has %d elements): the code always panics"
                                  % (i, var.ty[2]), e)
                    return ElemRef(name, i, var.ty[1])
            self.fail("unsupported `&mut` expression", e)
        if k in ("ref", "deref"):
            return self.eval(e[1], env, hint)
        if k == "num":
            return V(str(e[1]), "Nat")
        if k == "path":
            segs = e[1]
            if len(segs) == 1 and segs[0] in env:
                v = env[segs[0]]
                if v.alias is None:
                    return V(v.lean, v.ty)
                if isinstance(v.alias, View):
                    return v.alias
                return self.read_place(self.place(e, env), env, hint)
            if len(segs) == 1 and segs[0] in self.tables:
                self.fail("a table is used other than as `&TABLE[..]`", e)
            self.fail("unknown name `%s`" % "::".join(segs), e)
        if k == "index":
            return self.read_index(e, env, hint)
        if k == "slice":
            lo, hi = e[2], e[3]
            r = e[1]
            if lo is None and hi is None and r[0] == "path" and len(r[1]) == 1 and r[1][0] in self.tables \
                    and r[1][0] not in env:
                text, n = self.tables[r[1][0]]
                return V(text, ("Arr", "F", n))
            if lo is None and hi is not None:
                base = self.list_base(r, env)
                if isinstance(base, View):
                    self.fail("a sub-slice of a view is not supported", e)
                n = self.atom(hi, env, "Nat")
                x = hint or self.fresh(env)
                if isinstance(base, tuple):
                    self.hoist("let %s ← I.sliceTo %s %s" % (x, base[2].lean, paren(n.text)))
                    return V(x, ("Slice", base[2].ty[1]), True)
                self.hoist("let %s ← I.sliceTo %s %s" % (x, paren(base.text), paren(n.text)))
                return V(x, ("Slice", base.ty[1]), True)
            self.fail("unsupported slice expression", e)
        if k == "repeat":
            v = self.atom(e[1], env)
            return V("List.replicate %d %s" % (e[2], paren(v.text)), ("Arr", v.ty, e[2]))
        if k == "array":
            if not e[1]:
                self.fail("empty array literal", e)
            items = [self.atom(x, env) for x in e[1]]
            for it in items[1:]:
                if not self.same_ty(it.ty, items[0].ty):
                    self.fail("array literal with elements of different types", e)
            t0 = items[0].ty
            if is_list(t0):
                t0 = ("Slice", t0[1])
            return V("[" + ", ".join(i.text for i in items) + "]", ("Arr", t0, len(items)))
        if k == "tuple":
            return Tup([self.eval(x, env) for x in e[1]])
        if k == "tcall":
            _, name, targ, f, args, _ = e
            if name == "CoordT" and f == "zero" and not args and self.conv_ty(("app", "CoordT", [targ]), self.generics) == "F":
                self.classes.add("Zero")
                return V("(0 : %s)" % self.field, "F")
            self.fail("unsupported call", e)
        if k == "unsafe":
            b = e[1]
            if b.stmts or b.tail is None or b.tail[0] != "mcall" or b.tail[2] != "as_tuple_mut":
                self.fail("unsupported `unsafe` block (only `unsafe { p.as_tuple_mut() }`)", e)
            return self.eval(b.tail, env)
        if k == "mcall":
            return self.mcall_value(e, env, hint)
        if k == "bin":
            op = e[1]
            if op == "-":
                a = self.atom(e[2], env, "Nat")
                b = self.atom(e[3], env, "Nat")
                x = hint or self.fresh(env)
                self.hoist("let %s ← I.usub %s %s" % (x, paren(a.text), paren(b.text)))
                return V(x, "Nat", True)
            if op in NAT_OPS:
                a = self.atom(e[2], env, "Nat")
                b = self.atom(e[3], env, "Nat")
                return V("%s %s %s" % (paren(a.text), NAT_OPS[op], paren(b.text)), "Nat")
            self.fail("unsupported operator %s" % op, e)
        if k == "block":
            self.fail("a block value is only supported as the right-hand side of a `let`", e)
        self.fail("unsupported expression", e)

    def mcall_value(self, e, env, hint):
        recv, m, args = e[1], e[2], e[3]
        if m == "len" and not args:
            v = self.atom(recv, env)
            if not is_list(v.ty):
                self.fail("`len()` of a value of type %s" % self.lty(v.ty), e)
            return V("%s.length" % paren(v.text), "Nat")
        if m == "split_at_mut" and len(args) == 1:
            base = self.list_base(recv, env)
            if args[0][0] != "num":
                self.fail("`split_at_mut` needs a literal argument", e)
            k = args[0][1]
            if isinstance(base, tuple):
                _, name, var = base
                base = View(name, 0, var.ty[2], var.ty[1])
            if not isinstance(base, View):
                self.fail("`split_at_mut` on something that is not a fixed-size array or a view of one", e)
            self.mutate_check(env, base.base, e)
            if k > base.ln:
                self.fail("`split_at_mut(%d)` on %d elements: the code always panics" % (k, base.ln), e)
            return Tup([View(base.base, base.lo, k, base.elty), View(base.base, base.lo + k, base.ln - k, base.elty)])
        if m in ("as_tuple", "as_tuple_mut") and not args:
            r = recv
            while r[0] in ("ref", "refmut", "deref"):
                r = r[1]
            if r[0] != "path" or len(r[1]) != 1 or r[1][0] not in env or env[r[1][0]].alias is not None \
                    or env[r[1][0]].ty != "Pt":
                self.fail("`%s` on something that is not the point" % m, e)
            name = r[1][0]
            if m == "as_tuple":
                self.frozen[name] = self.cur_scope
                return Tup([V("%s.%s" % (env[name].lean, f), "F") for f in "xyz"])
            self.mutate_check(env, name, e)
            return Tup([FieldRef(name, f) for f in "xyz"])
        self.fail("unsupported method call `%s` in a value position" % m, e)

    def mutate_check(self, env, base, node):
        """a mutable borrow of `base`: it must be mutable and not frozen (the borrow itself assigns nothing)"""
        v = self.var(env, base, node)
        if not v.mut:
            self.fail("mutable borrow of `%s`, which is not declared `mut`" % base, node)
        if base in self.frozen:
            self.fail("`%s` is borrowed mutably while values borrowed from it (`as_tuple`) are in scope" % base, node)

    # ---- places
    def place(self, e, env):
        """-> ('var', name) | ('elem', base, index text, elty) | ('velem', base, lo, len, index text, elty)
              | ('field', base, f)      (effects of the index expression are hoisted)"""
        k = e[0]
        if k == "deref":
            return self.place(e[1], env)
        if k == "path" and len(e[1]) == 1 and e[1][0] in env:
            v = env[e[1][0]]
            if v.alias is None:
                return ("var", e[1][0])
            if isinstance(v.alias, ElemRef):
                return ("elem", v.alias.base, str(v.alias.idx), v.alias.elty)
            if isinstance(v.alias, FieldRef):
                return ("field", v.alias.base, v.alias.f)
            self.fail("a view is used as a place", e)
        if k == "index":
            base = self.list_base(e[1], env)
            if e[2] is None:
                self.fail("unsupported index", e)
            i = self.atom(e[2], env, "Nat")
            if isinstance(base, View):
                return ("velem", base.base, base.lo, base.ln, i.text, base.elty)
            if isinstance(base, tuple):
                return ("elem", base[1], i.text, base[2].ty[1])
            self.fail("assignment through a value that is not a local array", e)
        self.fail("unsupported place expression", e)

    def store(self, pl, val, env, node):
        """lines that assign val (a Lean text) to the place"""
        k = pl[0]
        v = self.mutate(env, pl[1], node)
        if k == "var":
            return "let %s := %s" % (v.lean, val)
        if k == "elem":
            return "let %s ← I.setIdx %s %s %s" % (v.lean, v.lean, paren(pl[2]), paren(val))
        if k == "velem":
            return "let %s ← I.viewSet %s %d %d %s %s" % (v.lean, v.lean, pl[2], pl[3], paren(pl[4]), paren(val))
        if k == "field":
            return "let %s := { %s with %s := %s }" % (v.lean, v.lean, pl[2], val)
        raise ExtractError("internal: place %r" % (pl,))

    def update(self, pl, fn, env, node):
        """in-place method: read the place, store fn(old value) (in bounds: the read succeeded)"""
        k = pl[0]
        old = self.read_place(pl, env)
        v = self.mutate(env, pl[1], node)
        new = fn(old.text)
        if k == "var":
            return "let %s := %s" % (v.lean, new)
        if k == "elem":
            return "let %s := %s.set %s (%s)" % (v.lean, v.lean, paren(pl[2]), new)
        if k == "velem":
            return "let %s := %s.set (%d + %s) (%s)" % (v.lean, v.lean, pl[2], paren(pl[4]), new)
        if k == "field":
            return "let %s := { %s with %s := %s }" % (v.lean, v.lean, pl[2], new)
        raise ExtractError("internal: place %r" % (pl,))

    def place_ty(self, pl, env):
        if pl[0] == "var":
            return env[pl[1]].ty
        if pl[0] == "field":
            return "F"
        return pl[-1]

    # ---- conditions
    def cond(self, e, env):
        if e[0] == "bin" and e[1] in CMP:
            a = self.atom(e[2], env, "Nat")
            b = self.atom(e[3], env, "Nat")
            return "%s %s %s" % (a.text, CMP[e[1]], b.text)
        self.fail("unsupported condition (only comparisons of usize values)", e)

    # ---- statements
    def new_scope(self):
        self.nscope += 1
        return self.nscope

    def block(self, blk, env, ind, endk=None):
        """the statements of blk, printed at indentation ind in the scope env (modified in place).
        -> (lines, value of the tail expression | None).  endk (loop bodies): lines that end the iteration."""
        out = []
        stmts = list(blk.stmts)
        tail = blk.tail
        if tail is not None and tail[0] in ("if", "block") and endk is not None:
            stmts.append(("expr", tail, tail[-1]))
            tail = None
        for n, s in enumerate(stmts):
            last = n == len(stmts) - 1 and tail is None
            out += self.stmt(s, env, ind, endk if last else None)
        if stmts and stmts[-1][0] == "expr" and stmts[-1][1][0] == "if" and tail is None and endk is not None:
            return out, None          # the branches of the `if` ended the iteration
        val = None
        if tail is not None:
            if endk is not None:
                self.fail("the value of a loop body is dropped", tail)
            cmt = XP.Cmt(self.text(tail[-1]))
            self.pre = []
            val = self.eval(tail, env)
            out += self.flush(ind, cmt)
        if endk is not None:
            out += endk(env, ind)
        return out, val

    def nested(self, blk, env, ind):
        """a nested block, flattened: -> (lines, value, inner env is dropped)"""
        inner = dict(env)
        saved_scope, saved_frozen = self.cur_scope, dict(self.frozen)
        self.cur_scope = self.new_scope()
        try:
            lines, val = self.block(blk, inner, ind)
        finally:
            self.cur_scope = saved_scope
        self.frozen = saved_frozen
        # assignments to outer variables inside the block are visible afterwards (flat `let`s): nothing to do,
        # the Lean names are the same; the inner declarations go out of scope
        return lines, val

    def check_escape(self, val, env, node):
        """an alias that leaves a block must refer to a variable of the enclosing scope"""
        if isinstance(val, Tup):
            for it in val.items:
                self.check_escape(it, env, node)
        elif isinstance(val, (View, ElemRef, FieldRef)):
            if val.base not in env or env[val.base].alias is not None:
                self.fail("an alias of a variable of the block leaves the block", node)

    def stmt(self, s, env, ind, endk):
        cmt = XP.Cmt(self.text(s[-1]))
        kind = s[0]
        self.pre = []
        if kind == "let":
            return self.let_stmt(s, env, ind, cmt)
        if kind == "assign":
            op, lhs, rhs = s[1], s[2], s[3]
            if op != "=":
                self.fail("unsupported assignment", s)
            val = self.atom(rhs, env)
            pl = self.place(lhs, env)
            if not self.same_ty(self.place_ty(pl, env), val.ty) or is_list(val.ty):
                self.fail("unsupported assignment (type %s)" % self.lty(val.ty), s)
            line = self.store(pl, val.text, env, s)
            return self.flush(ind, cmt) + [Line(ind, line, cmt.take())]
        if kind == "for":
            return self.for_stmt(s, env, ind, cmt)
        if kind == "expr":
            e = s[1]
            if e[0] == "block":
                lines, val = self.nested(e[1], env, ind)
                if val is not None:
                    self.fail("the value of a block in statement position is dropped", e)
                return [Line(ind, "", "{")] + lines + [Line(ind, "", "}")]
            if e[0] == "if":
                if endk is None:
                    self.fail("an `if` is only supported as the last statement of a loop body", e)
                return self.if_stmt(e, env, ind, endk)
            if e[0] == "mcall":
                return self.mcall_stmt(e, env, ind, cmt)
            if e[0] == "call":
                return self.call_stmt(e, env, ind, cmt)
            self.fail("expression statement without effect", s)
        self.fail("unsupported statement", s)

    def if_stmt(self, e, env, ind, endk):
        c, th, el = e[1], e[2], e[3]
        self.pre = []
        cs = self.cond(c, env)
        if self.pre:
            self.fail("effect (index / subtraction) inside a condition", c)
        if el is not None and el[0] != "block":
            self.fail("`else if` is not supported", e)
        out = [Line(ind, "if %s then" % cs, "if %s {" % self.text(c[-1]))]
        for n, blk in enumerate((th, el[1] if el is not None else None)):
            if n == 1:
                out.append(Line(ind, "else", "} else {" if el is not None else "}"))
            inner = dict(env)
            saved = (self.ntmp, self.cur_scope, dict(self.frozen))
            self.cur_scope = self.new_scope()
            if blk is None:
                out += endk(inner, ind + 1)
            else:
                lines, _ = self.block(blk, inner, ind + 1, endk)
                out += lines
            self.ntmp, self.cur_scope, self.frozen = saved
        return out

    def mcall_stmt(self, e, env, ind, cmt):
        recv, m, args = e[1], e[2], e[3]
        if m not in OPS:
            self.fail("unsupported method call in statement position", e)
        cls, nargs, fn = OPS[m]
        if len(args) != nargs:
            self.fail("wrong number of arguments", e)
        avs = [self.atom(a, env, "F") for a in args]
        pl = self.place(recv, env)
        if self.place_ty(pl, env) != "F":
            self.fail("`%s` on a value of type %s" % (m, self.lty(self.place_ty(pl, env))), e)
        self.classes.add(cls)
        line = self.update(pl, lambda old: fn(old, *[a.text for a in avs]), env, e)
        return self.flush(ind, cmt) + [Line(ind, line, cmt.take())]

    def call_stmt(self, e, env, ind, cmt):
        segs, args = e[1], e[2]
        if len(segs) != 1 or segs[0] not in self.reg:
            self.fail("call of `%s`, which has not been translated" % "::".join(segs), e)
        sig = self.reg[segs[0]]
        if len(args) != len(sig.params):
            self.fail("wrong number of arguments", e)
        texts, muts = [], []
        for a, (pt, ismut) in zip(args, sig.params):
            if ismut:
                r = a
                while r[0] in ("refmut",):
                    r = r[1]
                if r[0] != "path" or len(r[1]) != 1 or r[1][0] not in env or env[r[1][0]].alias is not None:
                    self.fail("a `&mut` argument must be a local variable", a)
                v = self.mutate(env, r[1][0], a)
                if v.ty != pt:
                    self.fail("type mismatch in a `&mut` argument", a)
                texts.append(v.lean)
                muts.append(v.lean)
            else:
                v = self.atom(a, env)
                if not self.same_ty(v.ty, pt) or (pt[0] == "Arr" and v.ty[0] == "Arr" and pt[2] != v.ty[2]):
                    self.fail("type mismatch: expected %s, found %s" % (self.lty(pt), self.lty(v.ty)), a)
                texts.append(paren(v.text))
        if len(muts) != 1:
            self.fail("unsupported kind of callee", e)
        self.classes |= set(sig.classes)
        line = "let %s ← %s %s" % (muts[0], sig.lean, " ".join(texts))
        return self.flush(ind, cmt) + [Line(ind, line, cmt.take())]

    def describe(self, names, vals):
        views = ["%s = %s" % (n, v.show()) for n, v in zip(names, vals) if isinstance(v, View)]
        refs = ["%s = %s" % (n, v.show()) for n, v in zip(names, vals) if isinstance(v, (ElemRef, FieldRef))]
        parts = []
        if views:
            parts.append("views: " + ", ".join(views))
        if refs:
            parts.append("references: " + ", ".join(refs))
        return "   (" + "; ".join(parts) + ")"

    def bind(self, pat, val, mut, env, ind, cmt, node):
        """declare the variables of a `let` pattern for an evaluated right-hand side -> lines"""
        out = self.flush(ind, cmt)
        if pat[0] == "pvar":
            names, vals = [pat[1]], [val]
        elif pat[0] == "ptuple":
            if not isinstance(val, Tup) or len(val.items) != len(pat[1]):
                self.fail("tuple pattern does not match the value", node)
            names, vals = pat[1], val.items
        else:
            self.fail("unsupported `let` pattern", node)
        if all(isinstance(v, V) for v in vals):
            for n, v in zip(names, vals):
                if v.ty == "Pt":
                    self.fail("copies of the point are not supported", node)
                self.declare(env, n, Var(lname(n), v.ty, mut, self.cur_scope, self.depth), node)
            if len(vals) == 1:
                if vals[0].bound and vals[0].text == lname(names[0]):
                    if out and not out[0].cmt:
                        out[0].cmt = cmt.take()
                    return out
                t = vals[0].text
                if t[0] == "(" and match_close(t, 0, "(", ")") == len(t) and not t.startswith("(0 :"):
                    t = t[1:-1]
                return out + [Line(ind, "let %s := %s" % (lname(names[0]), t), cmt.take())]
            return out + [Line(ind, "let (%s) := (%s)" % (", ".join(lname(n) for n in names),
                                                         ", ".join(v.text for v in vals)), cmt.take())]
        if all(isinstance(v, (View, ElemRef, FieldRef)) for v in vals):
            for n, v in zip(names, vals):
                self.declare(env, n, Var(None, None, False, self.cur_scope, self.depth, alias=v), node)
            return out + [Line(ind, "", cmt.take() + self.describe(names, vals))]
        self.fail("a `let` that mixes values and aliases (views / references)", node)

    def let_stmt(self, s, env, ind, cmt):
        pat, ty, e = s[1], s[2], s[3]
        if ty is not None:
            self.fail("type annotations on `let` are not supported", s)
        mut = self.src[s[-1][0]:pat[-1][1]].split()[1:2] == ["mut"]
        if mut and pat[0] != "pvar":
            self.fail("unsupported `let` pattern", s)
        if e[0] == "block":
            head = self.text((s[-1][0], e[-1][0] + 1))
            lines, val = self.nested(e[1], env, ind)
            if val is None:
                self.fail("a block without value on the right-hand side of a `let`", s)
            self.check_escape(val, env, s)
            tail = e[1].tail
            self.pre = []
            b = self.bind(pat, val, mut, env, ind, XP.Cmt(self.text(tail[-1]) + " };"), s)
            return [Line(ind, "", head)] + lines + b
        hint = lname(pat[1]) if pat[0] == "pvar" and pat[1] not in env else None
        val = self.eval(e, env, hint)
        return self.bind(pat, val, mut, env, ind, cmt, s)

    # ---- loops
    def for_stmt(self, s, env, ind, cmt):
        pat, it, body = s[1], s[2], s[3]
        if pat[0] != "pvar":
            self.fail("unsupported `for` pattern", s)
        hdr = "for %s in %s {" % (self.text(pat[-1]), self.text(it[-1]))
        cmt = XP.Cmt(hdr)
        if it[0] == "range":
            lo = self.atom(it[1], env, "Nat")
            hi = self.atom(it[2], env, "Nat")
            if it[1][0] != "num":
                self.fail("the lower bound of a range must be a literal", it)
            if it[1][1] == 0:
                src = "List.range %s" % paren(hi.text)
            else:
                src = "List.range' %s (%s - %s)" % (lo.text, hi.text if re.match(r"^\w+$", hi.text) else paren(hi.text),
                                                    lo.text)
            elt = "Nat"
            borrowed = None
        else:
            v = self.atom(it, env)
            if not is_list(v.ty) or it[0] != "ref":
                self.fail("`for` over something that is not a range or a borrowed slice", it)
            src, elt = v.text, v.ty[1]
            r = it[1]
            while r[0] in ("slice", "index"):
                r = r[1]
            borrowed = r[1][0] if r[0] == "path" and len(r[1]) == 1 else None
        pre = self.flush(ind, cmt)
        lv = pat[1]
        # first pass: which outer variables does the body assign?
        rec = []
        saved = (self.ntmp, self.nscope, self.cur_scope, dict(self.frozen), self.mutated, self.classes.copy())
        self.mutated = (self.mutated or []) + [(rec, self.depth + 1)]
        self.depth += 1
        try:
            self.loop_body(body, env, lv, elt, ind, [], s)
        finally:
            self.depth -= 1
            self.ntmp, self.nscope, self.cur_scope, self.frozen, self.mutated, self.classes = saved
        muts = [n for n in env if n in rec]
        if not muts:
            self.fail("loop without effect", s)
        if borrowed is not None and borrowed in muts:
            self.fail("the slice the loop runs over is modified in the loop", s)
        if lv in muts:
            self.fail("the loop variable shadows a variable assigned in the loop", s)
        for n in muts:
            self.mutate(env, n, s)          # assigned with respect to the enclosing loops, too
        saved = (self.ntmp, self.cur_scope, dict(self.frozen))
        self.depth += 1
        try:
            inner = self.loop_body(body, env, lv, elt, ind, muts, s)
        finally:
            self.depth -= 1
            self.ntmp, self.cur_scope, self.frozen = saved
        st = self.state([env[n].lean for n in muts])
        out = pre + [Line(ind, "let %s ← I.loop %s %s (fun %s %s => do" % (st, paren(src), st, st, lname(lv)), cmt.take())]
        inner[-1].code += ")"
        if not inner[-1].cmt:
            inner[-1].cmt = "}"
        return out + inner

    def state(self, names):
        return names[0] if len(names) == 1 else "(" + ", ".join(names) + ")"

    def loop_body(self, body, env, lv, elt, ind, muts, node):
        benv = dict(env)
        self.cur_scope = self.new_scope()
        if lv in benv:
            self.fail("the loop variable shadows a variable of an enclosing scope", node)
        benv[lv] = Var(lname(lv), elt, False, self.cur_scope, self.depth)

        def endk(env2, ind2):
            return [Line(ind2, "pure %s" % self.state([env2[n].lean for n in muts]))] if muts else [Line(ind2, "pure ()")]
        lines, _ = self.block(body, benv, ind + 2, endk)
        return lines

    # ---- the function itself
    def run(self, fn_ast, lean_name):
        name, bounds, params, body = fn_ast
        self.generics = set()
        for g, b in bounds.items():
            if b != ("name", "CurveProjective"):
                raise ExtractError("%s: unsupported bound on the generic parameter %s: %r" % (self.what, g, b))
            self.generics.add(g)
        env = {}
        self.cur_scope = 0
        plist, lean_params, rets = [], [], []
        for n, t in params:
            ct = self.conv_ty(t, self.generics)
            ismut = t[0] == "refmut"
            if ismut and ct != "Pt":
                raise ExtractError("%s: unsupported `&mut` parameter %s" % (self.what, n))
            if not ismut and ct == "Pt":
                raise ExtractError("%s: the point must be passed as `&mut`" % self.what)
            env[n] = Var(lname(n), ct, ismut, 0, 0)
            plist.append((ct, ismut))
            lean_params.append("(%s : %s)" % (lname(n), self.lty(ct)))
            if ismut:
                rets.append(lname(n))
        if len(rets) != 1:
            raise ExtractError("%s: exactly one `&mut` parameter is supported" % self.what)
        lines, val = self.block(body, env, 1)
        if val is not None:
            raise ExtractError("%s: the function has a value" % self.what)
        lines.append(Line(1, "pure %s" % rets[0]))
        classes = [c for c in CLASS_ORDER if c in self.classes]
        return lean_params, "Option (Jac %s)" % self.field, lines, Sig("I." + lean_name, plist, classes)


# ================================================================ targets

ISO = "src/bls12_381/isogeny/mod.rs"
ISO_G1 = "src/bls12_381/isogeny/g1.rs"
ISO_G2 = "src/bls12_381/isogeny/g2.rs"
EC = "src/bls12_381/ec/mod.rs"

# declarations that are checked (normalised text)
DECL_CHECKS = [
    ("CoordT", ISO, r"\btype\s+CoordT\b[^;]*;", "type CoordT<PtT> = <PtT as CurveProjective>::Base;"),
]
# inside `impl CurveProjective for $projective` of the curve macro
PROJ_IMPL = [r"macro_rules!\s*curve_impl\s*\{", r"impl\s+CurveProjective\s+for\s+\$projective\s*\{"]
PROJ_CHECKS = [
    ("Base", r"\btype\s+Base\s*=[^;]*;", "type Base = $basefield;"),
    ("as_tuple", r"\bfn\s+as_tuple\s*\([^{]*\{[^}]*\}",
     "fn as_tuple(&self) -> (&$basefield, &$basefield, &$basefield) { (&self.x, &self.y, &self.z) }"),
    ("as_tuple_mut", r"\bunsafe\s+fn\s+as_tuple_mut\s*\([^{]*\{[^}]*\}",
     "unsafe fn as_tuple_mut( &mut self, ) -> (&mut $basefield, &mut $basefield, &mut $basefield) "
     "{ (&mut self.x, &mut self.y, &mut self.z) }"),
]
# the callers: (file, Self, coordinate field, prefix of the tables in Gen/Maps.lean, Lean namespace)
CALLERS = [
    (ISO_G1, "G1", "Fq", "ISO11_", "G1", "G1Affine"),
    (ISO_G2, "G2", "Fq2", "ISO3_", "G2", "G2Affine"),
]
TABLE_NAMES = ("XNUM", "XDEN", "YNUM", "YDEN")

HEADER = """/- GENERATED by /verif/extract/extract_iso.py from /repo -- do not edit.

The ISOGENY EVALUATION: `eval_iso` (src/bls12_381/isogeny/mod.rs) and `IsogenyMap::isogeny_map` for G1 and G2
(isogeny/g1.rs, g2.rs).  One Lean definition per Rust function, a `do` block of the `Option` monad with one
line per Rust statement (the statement is the trailing comment) preceded by the lines of its hoisted bounds
checks.  All conventions are listed in the header of extract_iso.py.  In short: arrays and slices are
`List`s (`[v; N]` = `List.replicate N v`), `usize` is `Nat`, `none` = panic (index out of bounds, `usize`
underflow); a read `xs[i]` is `let x ← xs[i]?`, a write `xs[i] = v` is `let xs ← I.setIdx xs i v`, an
in-place method `xs[i].m(..)` reads the element and stores with `xs.set i`; the `split_at_mut` VIEWS and the
`&mut` REFERENCES to array elements / to the coordinates of `pt` are resolved statically to the underlying
array / field (shown in the comments; `I.viewGet a lo len i` = `a[lo + i]` for `i < len`); `for` loops are
`I.loop` over the tuple of the outer variables the body assigns; nested blocks are flattened.  Operations on
coordinates are `* +` `sq` `0` of PP/Model/Field.lean; the tables are those of PP/Gen/Maps.lean.
PP/Proofs/GenIso.lean and PP/Props/GenIso.lean prove each definition equal to the hand model
(`PP.evalIso`, `PP.iso11`, `PP.iso3` of PP/Model/Map.lean).

NOT MODELLED: wrap-around of `usize` subtraction (a build without overflow checks): `I.usub` is `none` on
underflow; `+ * / %` on `usize` are the exact operations on `Nat`.  NOT TRANSLATED (not in /repo): array / slice indexing, `split_at_mut`, ranges, `len` (core) are the
list operations above.
-/
import PP.Gen.Arith

set_option linter.unusedVariables false

namespace PP.Gen.I
open PP PP.Gen

/-! ## primitives (fixed text): the meaning of the statement forms listed in the header of extract_iso.py -/

/-- `xs[i] = v` on an array / slice: `none` = index out of bounds (panic) -/
def setIdx {α : Type} (xs : List α) (i : Nat) (v : α) : Option (List α) :=
  if i < xs.length then some (xs.set i v) else none

/-- `a - b` on `usize`: `none` = underflow (panic with overflow checks; see the header) -/
def usub (a b : Nat) : Option Nat := if b ≤ a then some (a - b) else none

/-- `view[i]` where `view` is the sub-slice `xs[lo .. lo + len]` obtained by `split_at_mut` -/
def viewGet {α : Type} (xs : List α) (lo len i : Nat) : Option α :=
  if i < len then xs[lo + i]? else none

/-- `view[i] = v` where `view` is the sub-slice `xs[lo .. lo + len]` obtained by `split_at_mut` -/
def viewSet {α : Type} (xs : List α) (lo len i : Nat) (v : α) : Option (List α) :=
  if i < len then setIdx xs (lo + i) v else none

/-- `&xs[..n]`: `none` = `n` beyond the length (panic) -/
def sliceTo {α : Type} (xs : List α) (n : Nat) : Option (List α) :=
  if n ≤ xs.length then some (xs.take n) else none

/-- `for x in xs { body }` with a body that can panic -/
def loop {σ α : Type} : List α → σ → (σ → α → Option σ) → Option σ
  | [], s, _ => some s
  | x :: xs, s, f =>
    match f s x with
    | none => none
    | some s' => loop xs s' f
"""

FQ2_LOCAL = XP.FQ2_LOCAL


def translate(repo_dir):
    items = []
    cache = {}

    def load(rel):
        if rel not in cache:
            p = os.path.join(repo_dir, rel)
            try:
                raw = open(p).read()
            except OSError as e:
                raise ExtractError("cannot read %s: %s" % (p, e))
            cache[rel] = (raw, blank_comments(raw))
        return cache[rel]

    def item(name, rel, a, b):
        raw, src = load(rel)
        items.append({"item": "isoeval:" + name, "file": rel,
                      "lines": [src.count("\n", 0, a) + 1, src.count("\n", 0, b) + 1],
                      "sha256": hashlib.sha256(raw[a:b].encode()).hexdigest()})

    def check_decl(name, rel, src, a, b, rx, want):
        ms = list(re.finditer(rx, src[a:b]))
        if len(ms) != 1:
            raise ExtractError("%s: declaration /%s/ not found exactly once" % (rel, rx))
        got = " ".join(src[a + ms[0].start():a + ms[0].end()].split())
        if got != want:
            raise ExtractError("%s: the declaration of %s changed: `%s`" % (rel, name, got))
        item("decl:" + name, rel, a + ms[0].start(), a + ms[0].end())

    def locate_fn(rel, path, fn, what):
        _, src = load(rel)
        a, b = 0, len(src)
        for rx in path:
            _, a, b = find_container(src, a, b, rx, what)
        ms = [m for m in re.finditer(r"\bfn\s+%s\b" % re.escape(fn), src[a:b])]
        if len(ms) != 1:
            raise ExtractError("%s: expected exactly one `fn %s` in its container, found %d" % (what, fn, len(ms)))
        f0 = a + ms[0].start()
        o, depth = f0, 0
        while o < b and not (src[o] == "{" and depth == 0):
            if src[o] in "([":
                depth += 1
            elif src[o] in ")]":
                depth -= 1
            elif src[o] == ";" and depth == 0:
                raise ExtractError("%s: the function has no body" % what)
            o += 1
        if o >= b:
            raise ExtractError("%s: the function has no body" % what)
        return src, f0, o, match_close(src, o)

    # declarations the translation relies on
    for name, rel, rx, want in DECL_CHECKS:
        _, src = load(rel)
        check_decl(name, rel, src, 0, len(src), rx, want)
    _, esrc = load(EC)
    pa, pb = 0, len(esrc)
    for rx in PROJ_IMPL:
        _, pa, pb = find_container(esrc, pa, pb, rx, EC)
    for name, rx, want in PROJ_CHECKS:
        check_decl("CurveProjective::" + name, EC, esrc, pa, pb, rx, want)
    insts = XP.macro_instances(load, EC)

    out = [HEADER]
    names = []
    reg = {}

    # ---- eval_iso
    what = "%s: fn eval_iso (-> evalIso)" % ISO
    src, f0, o, f1 = locate_fn(ISO, [], "eval_iso", what)
    if len(re.findall(r"\beval_iso\b", src)) != 1:
        raise ExtractError("%s: `eval_iso` occurs more than once in its file" % what)
    tr = IsoT(reg, src, what, "F", {})
    lean_params, rty, lines, sig = tr.run(parse_fn(src, f0, f1, what), "evalIso")
    reg["eval_iso"] = sig
    item("evalIso", ISO, f0, f1)
    l0, l1 = src.count("\n", 0, f0) + 1, src.count("\n", 0, f1) + 1
    out.append("\n/-! ## %s -/\n" % ISO)
    out.append("/-- `%s`  (%s:%d-%d) -/" % (" ".join(src[f0:o].split()), ISO, l0, l1))
    out.append("def evalIso {F : Type} %s %s : %s := do" % (" ".join("[%s F]" % c for c in sig.classes),
                                                           " ".join(lean_params), rty))
    out.append(render(lines))
    out.append("")
    names.append("evalIso")

    # ---- the callers
    for rel, self_ty, field, prefix, ns, inst in CALLERS:
        raw, src = load(rel)
        lean_name = "%s.isogenyMap" % ns
        what = "%s: fn isogeny_map (-> %s)" % (rel, lean_name)
        d = insts[inst][0]
        if d.get("$projective") != self_ty or d.get("$basefield") != field:
            raise ExtractError("%s: the curve macro is not instantiated with $projective = %s, $basefield = %s"
                               % (what, self_ty, field))
        # `eval_iso` must be the function of isogeny/mod.rs, the tables those of this file
        uses = " ".join(" ".join(m.group(0).split()) for m in re.finditer(r"\buse\s[^;]*;", src))
        if not re.search(r"\buse super::\{[^}]*\beval_iso\b[^}]*\};", uses) or len(re.findall(r"\bfn\s+eval_iso\b", src)):
            raise ExtractError("%s: `eval_iso` is not imported from the parent module" % what)
        tables = {}
        out.append("\n/-! ## %s -/\n" % rel)
        for tn in TABLE_NAMES:
            ms = list(re.finditer(r"\bconst\s+%s\s*:\s*\[\s*(\w+)\s*;\s*(\d+)\s*\]\s*=" % tn, src))
            if len(ms) != 1 or len(re.findall(r"\b(?:const|static|let|fn|mod|use)\s+(?:mut\s+)?%s\b" % tn, src)) != 1:
                raise ExtractError("%s: expected exactly one declaration `const %s: [%s; N]`" % (what, tn, field))
            if ms[0].group(1) != field:
                raise ExtractError("%s: the table %s has element type %s, expected %s" % (what, tn, ms[0].group(1), field))
            n = int(ms[0].group(2))
            tables[tn] = ("(Gen.%s%s.map %s.ofMont)" % (prefix, tn, field), n)
            item("decl:%s:%s" % (ns, tn), rel, ms[0].start(), ms[0].end())
            out.append("/-- `%s`  (the table itself: PP/Gen/Maps.lean) -/" % " ".join(ms[0].group(0).split()))
            out.append("theorem tableLen_%s_%s : Gen.%s%s.length = %d := rfl\n" % (ns, tn, prefix, tn, n))
        src2, f0, o, f1 = locate_fn(rel, [r"impl\s+IsogenyMap\s+for\s+%s\s*\{" % self_ty], "isogeny_map", what)
        tr = IsoT(reg, src2, what, field, tables)
        lean_params, rty, lines, sig = tr.run(parse_fn(src2, f0, f1, what), lean_name)
        item(lean_name, rel, f0, f1)
        l0, l1 = src2.count("\n", 0, f0) + 1, src2.count("\n", 0, f1) + 1
        if field == "Fq2":
            out.append(FQ2_LOCAL)
        out.append("/-- `impl IsogenyMap for %s { %s }`  (%s:%d-%d) -/" % (self_ty, " ".join(src2[f0:o].split()), rel, l0, l1))
        out.append("def %s %s : %s := do" % (lean_name, " ".join(lean_params), rty))
        out.append(render(lines))
        out.append("")
        if field == "Fq2":
            out.append("end\n")
        names.append(lean_name)
    out.append("end PP.Gen.I")
    return "\n".join(out) + "\n", items, names


def emit(repo_dir, gen_dir, error_cls=None):
    """Write gen_dir/Iso.lean (only when its content changes); return the manifest items.
    Raises ExtractError (or error_cls, if given) on anything unrecognised."""
    global CHANGED
    try:
        text, items, _ = translate(repo_dir)
    except ExtractError as e:
        if error_cls is not None:
            raise error_cls("iso: " + str(e))
        raise
    path = os.path.join(gen_dir, "Iso.lean")
    old = open(path).read() if os.path.exists(path) else None
    CHANGED = old != text
    if CHANGED:
        with open(path + ".tmp", "w") as f:
            f.write(text)
        os.replace(path + ".tmp", path)
    return items


if __name__ == "__main__":
    verif = os.path.dirname(os.path.dirname(os.path.abspath(__file__)))
    repo = sys.argv[1] if len(sys.argv) > 1 else os.environ.get("PP_REPO", "/repo")
    gen = sys.argv[2] if len(sys.argv) > 2 else os.path.join(verif, "lean", "PP", "Gen")
    try:
        its = emit(repo, gen)
    except ExtractError as e:
        print("EXTRACT-ERROR: %s" % e)
        sys.exit(2)
    print("extract_iso: %d items, Iso.lean %s" % (len(its), "rewritten" if CHANGED else "unchanged"))
