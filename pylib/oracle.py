"""Independent spec-level oracle on Python integers (stdlib only).

Used (a) to CONSTRUCT directed inputs without relying on the code under test (points of prescribed
order, alternative Jacobian representatives, colliding SSWU arguments, non-residues ...), and (b) as the
spec side of the failing-input search when a proof obligation or the model correspondence breaks.

Nothing here is derived from /repo: the BLS12-381 parameters are spelled out from the standard.
"""
import hashlib
import os

Q = 0x1a0111ea397fe69a4b1ba7b6434bacd764774b84f38512bf6730d2a0f6b0f6241eabfffeb153ffffb9feffffffffaaab
R = 0x73eda753299d7d483339d80809a1d80553bda402fffe5bfeffffffff00000001
X = -0xd201000000010000          # BLS parameter
H1 = (X - 1) ** 2 // 3           # cofactor of E(Fq)
H2 = (X ** 8 - 4 * X ** 7 + 5 * X ** 6 - 4 * X ** 4 + 6 * X ** 3 - 4 * X ** 2 - 4 * X + 13) // 9
HEFF1 = 0xd201000000010001
HEFF2 = 0xbc69f08f2ee75b3584c6a0ea91b352888e2a8e9145ad7689986ff031508ffe1329c2f178731db956d82bf015d1212b02ec0ec69d7477c1ae954cbc06689f6a359894c0adebbf6b4e8020005aaa95551
assert R == X ** 4 - X ** 2 + 1 and Q == (X - 1) ** 2 * R // 3 + X
assert HEFF2 == 3 * (X * X - 1) * H2


# ------------------------------------------------------------------ Fq / Fq2 (tuples)

def finv(a, p=Q):
    return pow(a, p - 2, p)


def fsqrt(a):
    """square root in Fq (q = 3 mod 4) or None"""
    a %= Q
    s = pow(a, (Q + 1) // 4, Q)
    return s if s * s % Q == a else None


def is_sq(a):
    a %= Q
    return a == 0 or pow(a, (Q - 1) // 2, Q) == 1


class F1:
    """Fq as a 'field descriptor' so curve code is generic"""
    zero = 0
    one = 1
    @staticmethod
    def add(a, b): return (a + b) % Q
    @staticmethod
    def sub(a, b): return (a - b) % Q
    @staticmethod
    def mul(a, b): return a * b % Q
    @staticmethod
    def neg(a): return (-a) % Q
    @staticmethod
    def inv(a): return finv(a)
    @staticmethod
    def is_zero(a): return a % Q == 0
    @staticmethod
    def sqrt(a): return fsqrt(a)
    @staticmethod
    def from_int(n): return n % Q
    @staticmethod
    def lt(a, b): return a < b
    @staticmethod
    def sgn0(a): return a % 2
    @staticmethod
    def show(a): return "%x" % a
    @staticmethod
    def rand(rng): return rng.randrange(Q)


class F2:
    zero = (0, 0)
    one = (1, 0)
    @staticmethod
    def add(a, b): return ((a[0] + b[0]) % Q, (a[1] + b[1]) % Q)
    @staticmethod
    def sub(a, b): return ((a[0] - b[0]) % Q, (a[1] - b[1]) % Q)
    @staticmethod
    def mul(a, b): return ((a[0] * b[0] - a[1] * b[1]) % Q, (a[0] * b[1] + a[1] * b[0]) % Q)
    @staticmethod
    def neg(a): return ((-a[0]) % Q, (-a[1]) % Q)
    @staticmethod
    def inv(a):
        n = finv((a[0] * a[0] + a[1] * a[1]) % Q)
        return (a[0] * n % Q, (-a[1]) * n % Q)
    @staticmethod
    def is_zero(a): return a[0] % Q == 0 and a[1] % Q == 0
    @staticmethod
    def pow(a, e):
        r = (1, 0)
        while e:
            if e & 1:
                r = F2.mul(r, a)
            a = F2.mul(a, a)
            e >>= 1
        return r
    @staticmethod
    def sqrt(a):
        """a square root in Fq2 or None (independent of the repo's algorithm: via the norm)"""
        a = (a[0] % Q, a[1] % Q)
        if a == (0, 0):
            return (0, 0)
        if a[1] == 0:
            s = fsqrt(a[0])
            if s is not None:
                return (s, 0)
            s = fsqrt((-a[0]) % Q)
            return (0, s)
        n = fsqrt((a[0] * a[0] + a[1] * a[1]) % Q)
        if n is None:
            return None
        half = finv(2)
        for nn in (n, (-n) % Q):
            t = (a[0] + nn) * half % Q
            x = fsqrt(t)
            if x is not None and x != 0:
                y = a[1] * finv(2 * x % Q) % Q
                if F2.mul((x, y), (x, y)) == a:
                    return (x, y)
        return None
    @staticmethod
    def from_int(n): return (n % Q, 0)
    @staticmethod
    def lt(a, b): return (a[1], a[0]) < (b[1], b[0])
    @staticmethod
    def sgn0(a): return a[0] % 2 if a[0] % Q != 0 else a[1] % 2
    @staticmethod
    def show(a): return "%x,%x" % (a[0] % Q, a[1] % Q)
    @staticmethod
    def rand(rng): return (rng.randrange(Q), rng.randrange(Q))


def f2_is_sq(a):
    return F2.sqrt(a) is not None


# ------------------------------------------------------------------ short Weierstrass curves, affine

class Curve:
    """y^2 = x^3 + a x + b over field descriptor K; points are None (identity) or (x, y)"""
    def __init__(self, K, a, b):
        self.K, self.a, self.b = K, a, b

    def rhs(self, x):
        K = self.K
        return K.add(K.add(K.mul(K.mul(x, x), x), K.mul(self.a, x)), self.b)

    def on_curve(self, P):
        if P is None:
            return True
        K = self.K
        return K.mul(P[1], P[1]) == self.rhs(P[0])

    def neg(self, P):
        return None if P is None else (P[0], self.K.neg(P[1]))

    def add(self, P, Qp):
        K = self.K
        if P is None:
            return Qp
        if Qp is None:
            return P
        if P[0] == Qp[0]:
            if K.is_zero(K.add(P[1], Qp[1])):
                return None
            num = K.add(K.mul(K.from_int(3), K.mul(P[0], P[0])), self.a)
            lam = K.mul(num, K.inv(K.add(P[1], P[1])))
        else:
            lam = K.mul(K.sub(Qp[1], P[1]), K.inv(K.sub(Qp[0], P[0])))
        x3 = K.sub(K.sub(K.mul(lam, lam), P[0]), Qp[0])
        y3 = K.sub(K.mul(lam, K.sub(P[0], x3)), P[1])
        return (x3, y3)

    def mul(self, P, k):
        """[k]P, computed in Jacobian coordinates (general a) with one final inversion"""
        if k < 0:
            return self.mul(self.neg(P), -k)
        if P is None or k == 0:
            return None
        K = self.K
        m, sq = K.mul, (lambda t: K.mul(t, t))
        X, Y, Z = None, None, None          # accumulator (None = identity)
        px, py = P
        for bit in bin(k)[2:]:
            if X is not None:
                # doubling, general a:  dbl-2007-bl style
                if K.is_zero(Y):
                    X = None
                else:
                    XX, YY, ZZ = sq(X), sq(Y), sq(Z)
                    S = m(K.from_int(4), m(X, YY))
                    M = K.add(m(K.from_int(3), XX), m(self.a, sq(ZZ)))
                    X3 = K.sub(sq(M), K.add(S, S))
                    Y3 = K.sub(m(M, K.sub(S, X3)), m(K.from_int(8), sq(YY)))
                    Z3 = m(K.add(Y, Y), Z)
                    X, Y, Z = X3, Y3, Z3
            if bit == "1":
                if X is None:
                    X, Y, Z = px, py, K.one
                else:
                    ZZ = sq(Z)
                    U2, S2 = m(px, ZZ), m(py, m(ZZ, Z))
                    if U2 == X:
                        if S2 == Y:
                            # doubling of the accumulator == adding P to itself
                            A = self.add((px, py), (px, py))
                            if A is None:
                                X = None
                            else:
                                X, Y, Z = A[0], A[1], K.one
                        else:
                            X = None
                    else:
                        H, Rr = K.sub(U2, X), K.sub(S2, Y)
                        HH = sq(H)
                        HHH = m(H, HH)
                        V = m(X, HH)
                        X3 = K.sub(K.sub(sq(Rr), HHH), K.add(V, V))
                        Y3 = K.sub(m(Rr, K.sub(V, X3)), m(Y, HHH))
                        Z3 = m(Z, H)
                        X, Y, Z = X3, Y3, Z3
        if X is None or K.is_zero(Z):
            return None
        zi = K.inv(Z)
        zi2 = sq(zi)
        return (m(X, zi2), m(Y, m(zi2, zi)))

    def mul_slow(self, P, k):
        if k < 0:
            return self.mul_slow(self.neg(P), -k)
        Rr = None
        for bit in bin(k)[2:] if k else "":
            Rr = self.add(Rr, Rr)
            if bit == "1":
                Rr = self.add(Rr, P)
        return Rr

    def lift_x(self, x):
        y = self.K.sqrt(self.rhs(x))
        return None if y is None else (x, y)

    def random_point(self, rng):
        while True:
            x = self.K.rand(rng)
            P = self.lift_x(x)
            if P is not None:
                if rng.randrange(2):
                    P = self.neg(P)
                return P


E1 = Curve(F1, 0, 4)
E2 = Curve(F2, (0, 0), (4, 4))
G1_GEN = (0x17f1d3a73197d7942695638c4fa9ac0fc3688c4f9774b905a14e3a3f171bac586c55e83ff97a1aeffb3af00adb22c6bb,
          0x08b3f481e3aaa0f1a09e30ed741d8ae4fcf5e095d5d00af600db18cb2c04b3edd03cc744a2888ae40caa232946c5e7e1)
G2_GEN = ((0x024aa2b2f08f0a91260805272dc51051c6e47ad4fa403b02b4510b647ae3d1770bac0326a805bbefd48056c8c121bdb8,
           0x13e02b6052719f607dacd3a088274f65596bd0d09920b61ab5da61bbdc7f5049334cf11213945d57e5ac7d055d042b7e),
          (0x0ce5d527727d6e118cc9cdc6da2e351aadfd9baa8cbdd3a76d429a695160d12c923ac9cc3baca289e193548608b82801,
           0x0606c4a02ea734cc32acd2b02bc28b99cb3e287e85a763af267492ab572e99ab3f370d275cec1da1aaa9075ff05f79be))
assert E1.on_curve(G1_GEN) and E2.on_curve(G2_GEN)

# isogenous curves of RFC 9380 section 8.8
E1P_A = 0x144698a3b8e9433d693a02c96d4982b0ea985383ee66a8d8e8981aefd881ac98936f8da0e0f97f5cf428082d584c1d
E1P_B = 0x12e2908d11688030018b12e8753eee3b2016c1f0f24f4070a0b9c14fcef35ef55a23215a316ceaa5d1cc48e98e172be0
E1P = Curve(F1, E1P_A, E1P_B)
E2P = Curve(F2, (0, 240), (1012, 1012))
SSWU_Z1 = 11
SSWU_Z2 = ((-2) % Q, (-1) % Q)


def sswu(C, Z, u, is_square, sqrt):
    """RFC 9380 6.6.2 map_to_curve_simple_swu, straight from the text"""
    K = C.K
    A, B = C.a, C.b
    u2 = K.mul(u, u)
    zu2 = K.mul(Z, u2)
    tv1 = K.add(K.mul(zu2, zu2), zu2)
    tv1 = K.zero if K.is_zero(tv1) else K.inv(tv1)
    x1 = K.mul(K.mul(K.neg(B), K.inv(A)), K.add(K.one, tv1))
    if K.is_zero(tv1):
        x1 = K.mul(B, K.inv(K.mul(Z, A)))
    gx1 = C.rhs(x1)
    x2 = K.mul(zu2, x1)
    gx2 = C.rhs(x2)
    if is_square(gx1):
        x, y = x1, sqrt(gx1)
    else:
        x, y = x2, sqrt(gx2)
    if K.sgn0(u) != K.sgn0(y):
        y = K.neg(y)
    return (x, y)


def sswu1(u):
    return sswu(E1P, SSWU_Z1, u % Q, is_sq, fsqrt)


def sswu2(u):
    return sswu(E2P, SSWU_Z2, u, f2_is_sq, F2.sqrt)


# ------------------------------------------------------------------ points of prescribed order

def factor_small(n, bound=1 << 22):
    fs = []
    d = 2
    while d * d <= n and d < bound:
        while n % d == 0:
            fs.append(d)
            n //= d
        d += 1 if d == 2 else 2
    return fs, n


def point_of_order(C, cof_times_r, ell, rng, tries=64):
    """a point of exact prime order ell on C (group order cof_times_r, ell | order)"""
    assert cof_times_r % ell == 0
    m = cof_times_r
    while m % ell == 0:
        m //= ell
    for _ in range(tries):
        P = C.mul(C.random_point(rng), m)      # in the ell-Sylow subgroup
        if P is None:
            continue
        while True:
            Pn = C.mul(P, ell)
            if Pn is None:
                break
            P = Pn
        assert C.mul(P, ell) is None and P is not None
        return P
    raise RuntimeError("no point of order %d found" % ell)


def subgroup_point(C, cof, rng):
    while True:
        P = C.mul(C.random_point(rng), cof)
        if P is not None:
            return P


# ------------------------------------------------------------------ representations / formatting

def jac_of(K, P, lam=None):
    """Jacobian triple (lam^2 x, lam^3 y, lam) of an affine point; identity -> (0,1,0)-like with z=0"""
    if P is None:
        return (K.zero, K.one, K.zero)
    if lam is None:
        return (P[0], P[1], K.one)
    l2 = K.mul(lam, lam)
    return (K.mul(P[0], l2), K.mul(P[1], K.mul(l2, lam)), lam)


def show_jac(K, T):
    return "/".join(K.show(c) for c in T)


def show_aff(K, P):
    return "inf" if P is None else K.show(P[0]) + "/" + K.show(P[1])


def parse_f(K, s):
    if K is F1:
        return int(s, 16)
    a, b = s.split(",")
    return (int(a, 16), int(b, 16))


def parse_aff(K, s):
    if s == "inf":
        return None
    x, y = s.split("/")
    return (parse_f(K, x), parse_f(K, y))


# ------------------------------------------------------------------ encodings (ZCash format), spec side

def enc_f(K, a):
    if K is F1:
        return a.to_bytes(48, "big")
    return a[1].to_bytes(48, "big") + a[0].to_bytes(48, "big")


def encode(K, P, compressed):
    sz = 48 if K is F1 else 96
    if P is None:
        b = bytearray(sz if compressed else 2 * sz)
        b[0] |= 0x40
    elif compressed:
        b = bytearray(enc_f(K, P[0]))
        if K.lt(K.neg(P[1]), P[1]):
            b[0] |= 0x20
    else:
        b = bytearray(enc_f(K, P[0]) + enc_f(K, P[1]))
    if compressed:
        b[0] |= 0x80
    return bytes(b)


def dec_f(K, bs):
    """(value or None if out of range, label of the failing component)"""
    if K is F1:
        v = int.from_bytes(bs, "big")
        return (v, None) if v < Q else (None, "")
    c1 = int.from_bytes(bs[:48], "big")
    c0 = int.from_bytes(bs[48:], "big")
    if c0 >= Q:
        return (None, " (c0)")
    if c1 >= Q:
        return (None, " (c1)")
    return ((c0, c1), None)


def decode(C, cof_order_r, bs, compressed, checked=True):
    """spec of the decoders: returns ('ok', P) or ('err', name)"""
    K = C.K
    sz = 48 if K is F1 else 96
    assert len(bs) == (sz if compressed else 2 * sz)
    b0 = bs[0]
    if bool(b0 & 0x80) != compressed:
        return ("err", "UnexpectedCompressionMode")
    if b0 & 0x40:
        rest = bytes([b0 & 0x3f]) + bs[1:]
        return ("ok", None) if not any(rest) else ("err", "UnexpectedInformation")
    if not compressed and (b0 & 0x20):
        return ("err", "UnexpectedInformation")
    body = bytes([b0 & 0x1f]) + bs[1:]
    x, lab = dec_f(K, body[:sz])
    if x is None:
        return ("err", "CoordinateDecodingError(x coordinate%s)" % lab)
    if compressed:
        y = K.sqrt(C.rhs(x))
        if y is None:
            return ("err", "NotOnCurve")
        ny = K.neg(y)
        big, small = (y, ny) if K.lt(ny, y) else (ny, y)
        P = (x, big if (b0 & 0x20) else small)
    else:
        y, lab = dec_f(K, body[sz:])
        if y is None:
            return ("err", "CoordinateDecodingError(y coordinate%s)" % lab)
        P = (x, y)
        if checked and not C.on_curve(P):
            return ("err", "NotOnCurve")
    if checked and C.mul(P, R) is not None:
        return ("err", "NotInSubgroup")
    return ("ok", P)


# ------------------------------------------------------------------ RFC 9380 section 5

def i2osp(n, l):
    return n.to_bytes(l, "big")


def expand_xmd(hname, msg, dst, length):
    h = lambda b: hashlib.new(hname, b).digest()
    b_in, s_in = hashlib.new(hname).digest_size, hashlib.new(hname).block_size
    ell = -(-length // b_in)
    if ell > 255:
        return None
    dstp = dst + i2osp(len(dst), 1)
    b0 = h(bytes(s_in) + msg + i2osp(length, 2) + b"\x00" + dstp)
    bi = h(b0 + b"\x01" + dstp)
    out = bi
    for i in range(2, ell + 1):
        bi = h(bytes(x ^ y for x, y in zip(b0, bi)) + i2osp(i, 1) + dstp)
        out += bi
    return out[:length]


def expand_xof(hname, msg, dst, length):
    dstp = dst + i2osp(len(dst), 1)
    return hashlib.new(hname, msg + i2osp(length, 2) + dstp).digest(length)


def expander(name):
    return {
        "xmd256": lambda m, d, l: expand_xmd("sha256", m, d, l),
        "xmd512": lambda m, d, l: expand_xmd("sha512", m, d, l),
        "xmd224": lambda m, d, l: expand_xmd("sha224", m, d, l),
        "xmd384": lambda m, d, l: expand_xmd("sha384", m, d, l),
        "xof128": lambda m, d, l: expand_xof("shake_128", m, d, l),
        "xof256": lambda m, d, l: expand_xof("shake_256", m, d, l),
    }[name]


def hash_to_field(name, msg, dst, count, m, L, p):
    ub = expander(name)(msg, dst, count * m * L)
    if ub is None:
        return None
    out = []
    for i in range(count):
        es = []
        for j in range(m):
            off = L * (j + i * m)
            es.append(int.from_bytes(ub[off:off + L], "big") % p)
        out.append(es[0] if m == 1 else tuple(es))
    return out


# ------------------------------------------------------------------ tower (schoolbook), spec side

XI = (1, 1)   # v^3 = XI,  w^2 = v


def f6_add(a, b): return tuple(F2.add(x, y) for x, y in zip(a, b))
def f6_sub(a, b): return tuple(F2.sub(x, y) for x, y in zip(a, b))
def f6_neg(a): return tuple(F2.neg(x) for x in a)


def f6_mul(a, b):
    m = F2.mul
    c = [(0, 0)] * 5
    for i in range(3):
        for j in range(3):
            c[i + j] = F2.add(c[i + j], m(a[i], b[j]))
    return (F2.add(c[0], m(XI, c[3])), F2.add(c[1], m(XI, c[4])), c[2])


F6_ZERO = ((0, 0), (0, 0), (0, 0))
F6_ONE = ((1, 0), (0, 0), (0, 0))


def f6_mul_v(a):
    return (F2.mul(XI, a[2]), a[0], a[1])


def f12_mul(a, b):
    a0b0 = f6_mul(a[0], b[0])
    a1b1 = f6_mul(a[1], b[1])
    return (f6_add(a0b0, f6_mul_v(a1b1)), f6_add(f6_mul(a[0], b[1]), f6_mul(a[1], b[0])))


F12_ONE = (F6_ONE, F6_ZERO)
F12_ZERO = (F6_ZERO, F6_ZERO)


def f12_pow(a, e):
    r = F12_ONE
    while e:
        if e & 1:
            r = f12_mul(r, a)
        a = f12_mul(a, a)
        e >>= 1
    return r


def f6_pow(a, e):
    r = F6_ONE
    while e:
        if e & 1:
            r = f6_mul(r, a)
        a = f6_mul(a, a)
        e >>= 1
    return r


def f12_flat(a):
    return [c for f6 in a for f2 in f6 for c in f2]


def f12_unflat(l):
    return (((l[0], l[1]), (l[2], l[3]), (l[4], l[5])), ((l[6], l[7]), (l[8], l[9]), (l[10], l[11])))


def show_f12(a): return ",".join("%x" % c for c in f12_flat(a))
def parse_f12(s): return f12_unflat([int(t, 16) for t in s.split(",")])
def show_f6(a): return ",".join("%x" % c for f2 in a for c in f2)
def parse_f6(s):
    l = [int(t, 16) for t in s.split(",")]
    return ((l[0], l[1]), (l[2], l[3]), (l[4], l[5]))


FINAL_EXP = 3 * (Q ** 12 - 1) // R
assert (Q ** 12 - 1) % R == 0


# ------------------------------------------------------------------ textbook reduced ate pairing (spec side)
# No sparse products, no twist-specific line formulas, no projective coordinates: Q is untwisted into
# E(Fq12), the Miller function f_{|x|,Q} is evaluated at P with affine tangent/chord lines over Fq12
# (vertical lines dropped: they lie in a proper subfield), then conj (x < 0) and ^(3(q^12-1)/r).

def f6_inv(a):
    m, s = F2.mul, F2.sub
    a0, a1, a2 = a
    t0 = s(m(a0, a0), m(XI, m(a1, a2)))
    t1 = s(m(XI, m(a2, a2)), m(a0, a1))
    t2 = s(m(a1, a1), m(a0, a2))
    n = F2.add(m(a0, t0), m(XI, F2.add(m(a2, t1), m(a1, t2))))
    ni = F2.inv(n)
    return (m(t0, ni), m(t1, ni), m(t2, ni))


def f12_add(a, b): return (f6_add(a[0], b[0]), f6_add(a[1], b[1]))
def f12_sub(a, b): return (f6_sub(a[0], b[0]), f6_sub(a[1], b[1]))
def f12_conj(a): return (a[0], f6_neg(a[1]))


def f12_inv(a):
    n = f6_sub(f6_mul(a[0], a[0]), f6_mul_v(f6_mul(a[1], a[1])))
    ni = f6_inv(n)
    return (f6_mul(a[0], ni), f6_neg(f6_mul(a[1], ni)))


def f12_of_f2(c): return ((c, (0, 0), (0, 0)), F6_ZERO)
def f12_of_fq(c): return f12_of_f2((c % Q, 0))


F12_W = (F6_ZERO, F6_ONE)


def untwist(Qp):
    """E'(Fq2) -> E(Fq12), (x, y) -> (x / w^2, y / w^3)   (w^6 = xi, E': y^2 = x^3 + 4 xi)"""
    w2 = f12_mul(F12_W, F12_W)
    w3 = f12_mul(w2, F12_W)
    return (f12_mul(f12_of_f2(Qp[0]), f12_inv(w2)), f12_mul(f12_of_f2(Qp[1]), f12_inv(w3)))


def ate_pairing(P, Qp):
    """P affine on E(Fq), Qp affine on E'(Fq2) (both finite): conj(f_{|x|,psi(Q)}(P)) ^ (3 (q^12 - 1) / r)"""
    xq, yq = untwist(Qp)
    assert f12_sub(f12_mul(yq, yq), f12_add(f12_mul(xq, f12_mul(xq, xq)), f12_of_fq(4))) == F12_ZERO
    xp, yp = f12_of_fq(P[0]), f12_of_fq(P[1])
    xt, yt = xq, yq
    f = F12_ONE
    three, two = f12_of_fq(3), f12_of_fq(2)
    n = -X
    for i in range(n.bit_length() - 2, -1, -1):
        lam = f12_mul(f12_mul(three, f12_mul(xt, xt)), f12_inv(f12_mul(two, yt)))
        line = f12_sub(f12_sub(yp, yt), f12_mul(lam, f12_sub(xp, xt)))
        f = f12_mul(f12_mul(f, f), line)
        x3 = f12_sub(f12_mul(lam, lam), f12_add(xt, xt))
        yt = f12_sub(f12_mul(lam, f12_sub(xt, x3)), yt)
        xt = x3
        if (n >> i) & 1:
            lam = f12_mul(f12_sub(yq, yt), f12_inv(f12_sub(xq, xt)))
            line = f12_sub(f12_sub(yp, yt), f12_mul(lam, f12_sub(xp, xt)))
            f = f12_mul(f, line)
            x3 = f12_sub(f12_sub(f12_mul(lam, lam), xt), xq)
            yt = f12_sub(f12_mul(lam, f12_sub(xt, x3)), yt)
            xt = x3
    return f12_pow(f12_conj(f), FINAL_EXP)


# ------------------------------------------------------------------ polynomial root finding over Fq / Fq2
# (used to construct inputs with special OUTPUTS: kernel points of the isogenies = roots of XDEN,
#  points whose image has x = 0 = roots of XNUM, ...).  Polynomials are coefficient lists, constant term first.

def _ptrim(K, p):
    while p and K.is_zero(p[-1]):
        p = p[:-1]
    return p


def _pmod(K, a, m):
    a = list(a)
    m = _ptrim(K, m)
    inv_lead = K.inv(m[-1])
    while len(a) >= len(m):
        c = K.mul(a[-1], inv_lead)
        if not K.is_zero(c):
            off = len(a) - len(m)
            for i, mc in enumerate(m):
                a[off + i] = K.sub(a[off + i], K.mul(c, mc))
        a.pop()
    return _ptrim(K, a)


def _pmulmod(K, a, b, m):
    if not a or not b:
        return []
    r = [K.zero] * (len(a) + len(b) - 1)
    for i, x in enumerate(a):
        if K.is_zero(x):
            continue
        for j, y in enumerate(b):
            r[i + j] = K.add(r[i + j], K.mul(x, y))
    return _pmod(K, r, m)


def _ppowmod(K, a, e, m):
    r = [K.one]
    a = _pmod(K, a, m)
    while e:
        if e & 1:
            r = _pmulmod(K, r, a, m)
        a = _pmulmod(K, a, a, m)
        e >>= 1
    return r


def _pgcd(K, a, b):
    a, b = _ptrim(K, a), _ptrim(K, b)
    while b:
        a, b = b, _pmod(K, a, b)
    if a:
        il = K.inv(a[-1])
        a = [K.mul(c, il) for c in a]
    return a


def _psub(K, a, b):
    n = max(len(a), len(b))
    a = a + [K.zero] * (n - len(a))
    b = b + [K.zero] * (n - len(b))
    return _ptrim(K, [K.sub(x, y) for x, y in zip(a, b)])


def poly_roots(K, f, rng, field_order=None):
    """all roots in K of the polynomial f (list, constant term first), K in {F1, F2}"""
    n = field_order or (Q if K is F1 else Q * Q)
    f = _ptrim(K, list(f))
    if len(f) <= 1:
        return []
    # split off the product of distinct linear factors: gcd(x^n - x, f)
    xn = _ppowmod(K, [K.zero, K.one], n, f)
    g = _pgcd(K, _psub(K, xn, [K.zero, K.one]), f)
    roots = []

    def split(h):
        h = _ptrim(K, h)
        if len(h) <= 1:
            return
        if len(h) == 2:
            roots.append(K.mul(K.neg(h[0]), K.inv(h[1])))
            return
        while True:
            a = K.rand(rng)
            t = _ppowmod(K, [a, K.one], (n - 1) // 2, h)
            d = _pgcd(K, _psub(K, t, [K.one]), h)
            if 1 < len(d) < len(h):
                split(d)
                # quotient h / d by repeated gcd trick: use roots of d removed via exact division
                q = _pdiv_exact(K, h, d)
                split(q)
                return
    split(g)
    return roots


def _pdiv_exact(K, a, b):
    a = list(a)
    b = _ptrim(K, b)
    il = K.inv(b[-1])
    q = [K.zero] * (len(a) - len(b) + 1)
    while len(a) >= len(b):
        c = K.mul(a[-1], il)
        q[len(a) - len(b)] = c
        off = len(a) - len(b)
        for i, bc in enumerate(b):
            a[off + i] = K.sub(a[off + i], K.mul(c, bc))
        a.pop()
    return _ptrim(K, q)


def gen_constants(path=os.path.join(os.path.dirname(os.path.dirname(os.path.abspath(__file__))), "lean", "PP", "Gen", "Maps.lean")):
    """decode the extracted raw (Montgomery) isogeny coefficient tables of lean/PP/Gen/Maps.lean"""
    import re
    src = open(path).read()
    Rinv = finv(pow(2, 384, Q))
    out = {}
    for m in re.finditer(r"def (ISO\d+_\w+) : List \(?([^:=]*?)\)? := \[(.*?)\]\n", src, re.S):
        name, body = m.group(1), m.group(3)
        if "(" in body:
            vals = [(int(a, 16) * Rinv % Q, int(b, 16) * Rinv % Q) for a, b in re.findall(r"\((0x[0-9a-f]+|\d+), (0x[0-9a-f]+|\d+)\)", body.replace("0x", "0x"))]
        else:
            vals = [int(t, 16 if t.startswith("0x") else 10) * Rinv % Q for t in re.findall(r"0x[0-9a-f]+|\b\d+\b", body)]
        out[name] = vals
    return out
