"""Shared machinery of /verif/bin/check: build steps, obligation bookkeeping, correspondence runs,
evidence files, violation reporting."""
import fcntl
import hashlib
import json
import os
import random
import re
import subprocess
import sys
import time

VERIF = os.path.dirname(os.path.dirname(os.path.abspath(__file__)))
REPO = os.environ.get("PP_REPO", "/repo")
LEAN = os.path.join(VERIF, "lean")
HARNESS = os.path.join(VERIF, "harness")
PPDRV = os.path.join(LEAN, ".lake", "build", "bin", "ppdrv")
PPEXEC = os.path.join(HARNESS, "target", "release", "ppexec")
WORK = os.path.join(VERIF, "work")
ALLOWED_AXIOMS = {"propext", "Classical.choice", "Quot.sound"}
FORBIDDEN = re.compile(r"\b(sorry|admit|native_decide|bv_decide|implemented_by)\b|^\s*axiom\s|\bunsafe\s|maxHeartbeats\s+0\b")


def sh(cmd, cwd=None, env=None, timeout=None):
    t = time.time()
    r = subprocess.run(cmd, cwd=cwd, env=env, stdout=subprocess.PIPE, stderr=subprocess.STDOUT, text=True, timeout=timeout)
    return r.returncode, r.stdout, time.time() - t


class Lock:
    def __init__(self, name):
        os.makedirs(WORK, exist_ok=True)
        self.path = os.path.join(WORK, name + ".lock")

    def __enter__(self):
        self.f = open(self.path, "w")
        fcntl.flock(self.f, fcntl.LOCK_EX)

    def __exit__(self, *a):
        fcntl.flock(self.f, fcntl.LOCK_UN)
        self.f.close()


def strip_lean_comments(src):
    out = []
    i = 0
    depth = 0
    n = len(src)
    while i < n:
        if src.startswith("/-", i):
            depth += 1
            i += 2
        elif src.startswith("-/", i) and depth > 0:
            depth -= 1
            i += 2
        elif depth > 0:
            if src[i] == "\n":
                out.append("\n")
            i += 1
        elif src.startswith("--", i):
            j = src.find("\n", i)
            i = n if j < 0 else j
        else:
            out.append(src[i])
            i += 1
    return "".join(out)


def lean_imports_closure(mod):
    """all PP.* modules reachable from module `mod` (by parsing import lines)"""
    seen = []
    todo = [mod]
    while todo:
        m = todo.pop()
        if m in seen:
            continue
        path = os.path.join(LEAN, *m.split(".")) + ".lean"
        if not os.path.exists(path):
            continue
        seen.append(m)
        for line in open(path):
            mm = re.match(r"\s*import\s+(PP\.[\w.]+)", line)
            if mm:
                todo.append(mm.group(1))
    return seen


def theorems_in(mod):
    """(namespace-qualified) theorem names declared in a Props module, in order"""
    path = os.path.join(LEAN, *mod.split(".")) + ".lean"
    if not os.path.exists(path):
        return []
    src = strip_lean_comments(open(path).read())
    names = []
    ns = []
    for line in src.split("\n"):
        m = re.match(r"\s*namespace\s+([\w.]+)", line)
        if m:
            ns.append(m.group(1))
            continue
        m = re.match(r"\s*end\s+([\w.]+)\s*$", line)
        if m and ns and ns[-1] == m.group(1):
            ns.pop()
            continue
        if re.match(r"\s*(?:@\[[^\]]*\]\s*)?private\s", line):
            continue
        m = re.match(r"\s*(?:@\[[^\]]*\]\s*)?(?:protected\s+)?(?:noncomputable\s+)?theorem\s+([\w.'!?]+)", line)
        if m:
            names.append(".".join(ns + [m.group(1)]))
    return names


class Check:
    """One run of one property's check."""

    def __init__(self, pid, tier, seed):
        self.pid = pid
        self.tier = tier
        self.seed = seed
        self.rng = random.Random((seed << 8) ^ int(hashlib.sha256(pid.encode()).hexdigest()[:8], 16))
        self.t0 = time.time()
        self.evaluations = 0
        self.classes = {}
        self.distinct = set()
        self.samples = []
        self.disagreements = []      # impl != model
        self.oracle_failures = []    # impl != spec (python oracle / algebraic check)
        self.obligations = []        # (name, ok, detail)
        self.axioms = {}
        self.notes = []
        self.known = load_known_findings()
        self.known_hits = []
        self.extract_manifest = None
        self.partial_clauses = []
        self.timing = {}

    # ------------------------------------------------------------ obligations
    def oblige(self, name, ok, detail=""):
        self.obligations.append((name, bool(ok), detail))

    def broken(self):
        return [o for o in self.obligations if not o[1]]

    # ------------------------------------------------------------ build steps
    # which generated sections a property's model/theorems depend on (Fields, FqConsts: everything)
    SECTION_PROPS = {
        "Curve": {"C02", "C03", "C06", "C07", "C10", "C11", "C12", "C14", "C17"},
        "Maps": {"C06", "C14", "C15", "C16"},
        "Chains": {"C06", "C14", "C15", "C17"},
        "MontProg": {"C08"},
        "Enc": {"C04", "C05", "C19", "C07"},
        "Derive": {"C08", "C18"},
        "Pair": {"C03", "C11"},
        "Msm": {"C02", "C10", "C20"},
        "Iso": {"C16", "C14", "C06"},
        "Hash": {"C13", "C06"},
        "Rest": {"C01", "C07", "C18", "C05"},
    }
    ARITH_ALL = {"C01", "C02", "C03", "C04", "C05", "C06", "C07", "C09", "C11", "C12", "C14", "C15", "C17", "C18"}

    @staticmethod
    def arith_props(name):
        """properties concerned by a translated function / equality theorem, by its name"""
        n = name.lower()
        if "maptocurve" in n or "map2tocurve" in n or "map_to_curve" in n or "map2_to_curve" in n:
            return {"C14", "C06"}
        if "osswu" in n:
            return {"C15", "C14", "C06"}
        if "clearh" in n or "clear_h" in n:
            return {"C17", "C14", "C06"}
        if "sgn0" in n or "negateif" in n or "negate_if" in n:
            return {"C18", "C15", "C14", "C06"}
        if "sqrt" in n or "legendre" in n:
            return {"C18", "C15", "C04"}
        if "cmp" in n:
            return {"C18", "C04", "C05"}
        if "insubgroup" in n or "in_subgroup" in n or "correctsubgroup" in n or "correct_subgroup" in n:
            return {"C07", "C04"}
        if "getpointfromx" in n or "get_point_from_x" in n:
            return {"C04", "C18"}
        if "mulbits" in n or "mul_bits" in n or "mulassign" in n or n in ("aff_mul", "jac_mul"):
            return {"C02", "C07"}
        if any(k in n for k in ("doublingstep", "doubling_step", "additionstep", "addition_step", "ell")) and "fq" not in n:
            return {"C03", "C11"}
        if "expbyx" in n or "exp_by_x" in n or "finalexp" in n or "final_exp" in n:
            return {"C12", "C03", "C11"}
        if n.startswith("jac_") or n.startswith("aff_") or "curve_impl" in n or "ec/mod.rs" in n:
            return {"C01", "C07"}
        if "fq2" in n or "fq6" in n or "fq12" in n:
            return {"C09", "C12", "C03", "C11"}
        return set(Check.ARITH_ALL)

    def step_extract(self):
        with Lock("extract"):
            rc, out, dt = sh([sys.executable, os.path.join(VERIF, "extract", "extract.py")])
        self.timing["extract_s"] = round(dt, 2)
        try:
            gm = json.load(open(os.path.join(VERIF, "gen_manifest.json")))
            self.extract_manifest = gm["items"]
            sections = gm.get("sections", {})
        except Exception:
            self.extract_manifest, sections = [], {}
        if not sections:
            self.oblige("extract:translator", False, out.strip()[-400:])
            return False
        ok = True
        for sec, st in sections.items():
            if sec == "Arith":
                if st == "ok":
                    continue   # its obligations are the equality theorems (step_genarith)
                concerned = self.arith_props(st)
            else:
                concerned = self.SECTION_PROPS.get(sec)    # None = every property
            if concerned is None or self.pid in concerned:
                self.oblige("extract:%s" % sec, st == "ok", "" if st == "ok" else st[:400])
                ok = ok and st == "ok"
        return ok

    ENC_ALL = {"C04", "C05", "C19", "C07"}
    DERIVE_ALL = {"C08", "C18"}

    @staticmethod
    def enc_props(name):
        n = name.lower()
        if "intoaffine" in n or "into_affine" in n:
            return {"C04", "C19", "C07"}
        if "fromaffine" in n or "from_affine" in n:
            return {"C05", "C19"}
        if "deserialize" in n:
            return {"C19", "C04"}
        if "serialize" in n:
            return {"C19", "C05"}
        return {"C04", "C05", "C19"}

    @staticmethod
    def pair_props(name):
        n = name.lower()
        if "multi" in n or "product" in n or "miller" in n:
            return {"C11", "C03"}
        return {"C03", "C11"}

    @staticmethod
    def msm_props(name):
        n = name.lower()
        if "wnaf" in n or "recommended" in n or "recommend" in n:
            return {"C02", "C20"}
        if "sumofproducts" in n or "sum_of_products" in n or "pippinger" in n or "pippenger" in n:
            return {"C10"}
        if "precomp256" in n or "precomp_256" in n:
            return {"C02", "C10"}
        return {"C02"}

    @staticmethod
    def rest_props(name):
        n = name.lower()
        if "batch" in n or "normaliz" in n:
            return {"C01", "C07"}
        if "random" in n or "cofactor" in n or "subgroup" in n or "oncurve" in n:
            return {"C07"}
        if "ord" in n or "cmp" in n or "sgn" in n or "signum" in n:
            return {"C18"}
        if "compress" in n:
            return {"C05", "C04"}
        return {"C01", "C07"}

    @staticmethod
    def hash_props(name):
        n = name.lower()
        if "tocurve" in n or "to_curve" in n:
            return {"C06"}
        return {"C13", "C06"}

    @staticmethod
    def derive_props(name):
        n = name.lower()
        if "sqrt" in n or "legendre" in n:
            return {"C18", "C08"}
        return {"C08"}

    COVERAGE_KNOWN = ("find_pippinger_window_via_estimate",)
    COVERAGE_FILES = [
        ("bls12_381/fq.rs", {"C08", "C18", "C13"}), ("bls12_381/fr.rs", {"C08", "C18", "C13"}), ("mod fq", {"C08", "C18"}), ("mod fr", {"C08", "C18"}),
        ("bls12_381/fq2.rs", {"C09", "C18", "C12"}), ("bls12_381/fq6.rs", {"C09", "C12"}), ("bls12_381/fq12.rs", {"C09", "C12"}),
        ("bls12_381/ec/", {"C01", "C02", "C04", "C05", "C07", "C10", "C19"}), ("bls12_381/mod.rs", {"C03", "C11", "C12"}),
        ("wnaf.rs", {"C02", "C20"}), ("serdes.rs", {"C19"}), ("hash_to_field.rs", {"C13", "C06"}), ("hash_to_curve.rs", {"C06"}), ("map_to_curve.rs", {"C14", "C06"}),
        ("osswu_map", {"C15"}), ("isogeny", {"C16"}), ("cofactor.rs", {"C17"}), ("signum.rs", {"C18"}), ("lib.rs", {"C03", "C11", "C05", "C02", "C10"}),
    ]

    def step_coverage(self):
        """every function of /repo/src that has behaviour is known to a translator (or on the short list of known exceptions):
        a NEW function the translators do not know (for instance an inherent method that shadows a trait method the generated
        code resolves) makes the translation unsound without changing any generated definition"""
        script = os.path.join(VERIF, "extract", "coverage.py")
        if not os.path.exists(script):
            return
        rc, out, dt = sh([sys.executable, script, "--stdout"])
        self.timing["coverage_s"] = round(dt, 2)
        if rc != 0 or "NOT COVERED (" not in out:
            self.oblige("coverage:audit-ran", False, out[-300:])
            return
        tail = out[out.rindex("NOT COVERED ("):].split("\n")[1:]
        new = [l.strip() for l in tail if l.startswith("  ") and not any(k in l for k in self.COVERAGE_KNOWN)]
        mine = []
        for l in new:
            concerned = None
            for key, props in self.COVERAGE_FILES:
                if key in l.split("  ")[0] or key in l[:80]:
                    concerned = props; break
            if concerned is None or self.pid in concerned:
                mine.append(l[:200])
        self.oblige("coverage:every-function-known-to-a-translator", not mine, "; ".join(mine[:3]))

    def step_genarith(self):
        """equality theorems `generated-from-Rust = hand model` (arithmetic, encoding layer, derive output); only the ones
        that concern this property are its obligations, and a failure is attributed to the theorem it occurs in"""
        self._translated("PP.Props.GenArith", "GenArith.lean", self.arith_props, self.ARITH_ALL, "lake_genarith_s")
        self._translated("PP.Props.GenEnc", "GenEnc.lean", self.enc_props, self.ENC_ALL, "lake_genenc_s")
        self._translated("PP.Props.GenDerive", "GenDerive.lean", self.derive_props, self.DERIVE_ALL, "lake_genderive_s")
        self._translated("PP.Props.GenPair", "GenPair.lean", self.pair_props, {"C03", "C11"}, "lake_genpair_s")
        self._translated("PP.Props.GenMsm", "GenMsm.lean", self.msm_props, {"C02", "C10", "C20"}, "lake_genmsm_s")
        self._translated("PP.Props.GenIso", "GenIso.lean", lambda n: {"C16", "C14", "C06"}, {"C16", "C14", "C06"}, "lake_geniso_s")
        self._translated("PP.Props.GenHash", "GenHash.lean", self.hash_props, {"C13", "C06"}, "lake_genhash_s")
        self._translated("PP.Props.GenRest", "GenRest.lean", self.rest_props, {"C01", "C07", "C18", "C05", "C04"}, "lake_genrest_s")

    def _translated(self, mod, proofs_file, props_of, all_props, tkey):
        if self.pid not in all_props:
            return
        if not os.path.exists(os.path.join(LEAN, *mod.split(".")) + ".lean"):
            return
        names = [n for n in theorems_in(mod)]
        mine = [n for n in names if self.pid in props_of(n.split(".")[-1])]
        if not mine:
            return
        with Lock("lake"):
            rc, out, dt = sh(["lake", "build", mod], cwd=LEAN)
        self.timing[tkey] = round(dt, 2)
        if rc == 0:
            for n in mine:
                self.oblige("translated=model:%s" % n.split(".")[-1], True)
            # these modules are part of the proof base: same token audit as the property modules
            hits = []
            for m in lean_imports_closure(mod):
                pth = os.path.join(LEAN, *m.split(".")) + ".lean"
                src = strip_lean_comments(open(pth).read())
                for ln, line in enumerate(src.split("\n"), 1):
                    if FORBIDDEN.search(line):
                        hits.append("%s:%d:%s" % (m, ln, line.strip()[:60]))
            self.oblige("audit:forbidden-tokens:%s" % mod, not hits, "; ".join(hits[:5]))
            return
        # attribute errors of the proofs file to the theorem containing the line
        src_path = os.path.join(LEAN, "PP", "Proofs", proofs_file)
        starts = []
        if os.path.exists(src_path):
            for ln, line in enumerate(open(src_path).read().split("\n"), 1):
                m = re.match(r"\s*(?:private\s+)?theorem\s+([\w.']+)", line)
                if m:
                    starts.append((ln, m.group(1)))
        bad = set()
        unattributed = False
        for m in re.finditer(r"(?:error: \S*PP/Proofs/%s:(\d+):\d+)|(?:PP/Proofs/%s:(\d+):\d+: error)" % (re.escape(proofs_file), re.escape(proofs_file)), out):
            ln = int(m.group(1) or m.group(2))
            cand = [nm for (st_, nm) in starts if st_ <= ln]
            if cand:
                bad.add(cand[-1].replace("_eq", ""))
            else:
                unattributed = True
        if not bad and not unattributed:
            unattributed = True     # failed elsewhere (e.g. the generated file itself does not compile)
        short_names = set(n.split(".")[-1] for n in names)
        if any(b not in short_names for b in bad):
            unattributed = True     # a helper lemma failed: every theorem after it is unchecked
        for n in mine:
            short = n.split(".")[-1]
            broken = unattributed or short in bad or short.replace("_eq", "") in bad
            self.oblige("translated=model:%s" % short, not broken, tail_errors(out) if broken else "")

    def step_driver(self):
        with Lock("lake"):
            rc, out, dt = sh(["lake", "build", "ppdrv"], cwd=LEAN)
        self.timing["lake_driver_s"] = round(dt, 2)
        self.oblige("build:model-driver", rc == 0, tail_errors(out))
        return rc == 0

    def step_proofs(self, mods):
        """build the Props modules; one obligation per theorem; audit axioms and forbidden tokens"""
        thms = []
        for mod in mods:
            path = os.path.join(LEAN, *mod.split(".")) + ".lean"
            if not os.path.exists(path):
                self.notes.append("no theorem module %s yet" % mod)
                continue
            with Lock("lake"):
                rc, out, dt = sh(["lake", "build", mod], cwd=LEAN)
            self.timing["lake_%s_s" % mod] = round(dt, 2)
            names = theorems_in(mod)
            if rc != 0:
                # map errors back to theorem names where possible
                bad_lines = set(int(m.group(1)) for m in re.finditer(r"%s:(\d+):\d+: error" % re.escape(mod.replace(".", "/") + ".lean"), out))
                failed_mods = re.findall(r"- (PP\.[\w.]+)", out)
                self.oblige("build:%s" % mod, False, "failed modules: %s; %s" % (",".join(failed_mods), tail_errors(out)))
                for n in names:
                    self.oblige("theorem:%s" % n, False, "module did not build")
                continue
            # forbidden tokens in the module and everything of ours it imports
            hits = []
            for m in lean_imports_closure(mod):
                p = os.path.join(LEAN, *m.split(".")) + ".lean"
                src = strip_lean_comments(open(p).read())
                for ln, line in enumerate(src.split("\n"), 1):
                    if FORBIDDEN.search(line):
                        hits.append("%s:%d:%s" % (m, ln, line.strip()[:60]))
            self.oblige("audit:forbidden-tokens:%s" % mod, not hits, "; ".join(hits[:5]))
            thms += [(mod, n) for n in names]
        if thms:
            self.audit_axioms(thms)
        if self.tier == "thorough" and thms:
            self.recheck([m for m in mods if os.path.exists(os.path.join(LEAN, *m.split(".")) + ".lean")])
        return not self.broken()

    def recheck(self, mods):
        """thorough tier: the toolchain's independent checker replays every declaration of the property modules and of
        all of our modules they import (the compiled .olean files, not the elaborator, are what is re-checked)"""
        from concurrent.futures import ThreadPoolExecutor
        closure = []
        for m in mods:
            for c in lean_imports_closure(m):
                if c not in closure:
                    closure.append(c)
        t0 = time.time()

        def one(m):
            r = subprocess.run(["lake", "env", "leanchecker", m], cwd=LEAN, stdout=subprocess.PIPE, stderr=subprocess.STDOUT, text=True)
            return m, r.returncode, r.stdout[-300:]
        bad = []
        with Lock("lake"):
            with ThreadPoolExecutor(8) as ex:
                for m, rc, out in ex.map(one, closure):
                    if rc != 0:
                        bad.append("%s: %s" % (m, out.strip().replace("\n", " ")[-200:]))
        self.timing["leanchecker_s"] = round(time.time() - t0, 2)
        self.oblige("recheck:leanchecker(%d modules)" % len(closure), not bad, "; ".join(bad[:4]))

    def audit_axioms(self, thms):
        os.makedirs(os.path.join(LEAN, "PP", "Audit"), exist_ok=True)
        mods = sorted(set(m for m, _ in thms))
        path = os.path.join(WORK, "Audit_%s.lean" % self.pid)
        os.makedirs(WORK, exist_ok=True)
        with open(path, "w") as f:
            for m in mods:
                f.write("import %s\n" % m)
            for _, n in thms:
                f.write("#print axioms %s\n" % n)
        with Lock("lake"):
            rc, out, dt = sh(["lake", "env", "lean", path], cwd=LEAN)
        self.timing["audit_s"] = round(dt, 2)
        found = {}
        for m in re.finditer(r"^'(.+?)' (?:depends on axioms: \[([^\]]*)\]|does not depend on any axioms)", out, re.S | re.M):
            found[m.group(1)] = [a.strip() for a in (m.group(2) or "").replace("\n", " ").split(",") if a.strip()]
        for _, n in thms:
            key = n
            ax = found.get(key)
            if ax is None:
                # Lean prints fully qualified names; try suffix match
                cands = [k for k in found if k.endswith("." + n) or k == n]
                ax = found.get(cands[0]) if cands else None
            if ax is None:
                self.oblige("theorem:%s" % n, False, "axiom audit produced no line for it: %s" % out[-300:])
                continue
            self.axioms[n] = ax
            extra = [a for a in ax if a not in ALLOWED_AXIOMS]
            self.oblige("theorem:%s" % n, not extra, "uses axioms %s" % extra if extra else "")

    def step_harness(self):
        env = dict(os.environ)
        env["RUSTFLAGS"] = "--cfg pairing_plus_verif"
        env["CARGO_NET_OFFLINE"] = "true"
        env["CARGO_TARGET_DIR"] = os.path.join(HARNESS, "target")
        lock_src = os.path.join(REPO, "Cargo.lock")
        with Lock("cargo"):
            try:
                if open(lock_src).read() != open(os.path.join(HARNESS, "Cargo.lock")).read():
                    pass  # harness keeps its own lock (superset of /repo's)
            except Exception:
                pass
            rc, out, dt = sh(["cargo", "build", "--release", "--offline", "--quiet"], cwd=HARNESS, env=env)
        self.timing["cargo_s"] = round(dt, 2)
        self.oblige("build:harness-against-repo", rc == 0, tail_errors(out))
        return rc == 0

    # ------------------------------------------------------------ correspondence
    def run(self, cases, klass=None, gate=True):
        """cases: list of str or (class, str). Runs impl and model; returns list of (impl, model).
        With gate=True a difference is recorded as a correspondence failure."""
        lines = []
        labels = []
        for c in cases:
            if isinstance(c, tuple):
                labels.append(c[0])
                lines.append(c[1])
            else:
                labels.append(klass or "case")
                lines.append(c)
        if not lines:
            return []
        inp = "\n".join(lines) + "\n"
        pi = subprocess.Popen([PPEXEC], stdin=subprocess.PIPE, stdout=subprocess.PIPE, stderr=subprocess.DEVNULL, text=True)
        pm = subprocess.Popen([PPDRV], stdin=subprocess.PIPE, stdout=subprocess.PIPE, stderr=subprocess.DEVNULL, text=True)
        import threading
        res = {}

        def feed(p, key):
            o, _ = p.communicate(inp)
            res[key] = o.split("\n")
        ti = threading.Thread(target=feed, args=(pi, "i"))
        tm = threading.Thread(target=feed, args=(pm, "m"))
        ti.start(); tm.start(); ti.join(); tm.join()
        oi, om = res["i"], res["m"]
        out = []
        for k, line in enumerate(lines):
            a = oi[k] if k < len(oi) else "<no output: executor died>"
            b = om[k] if k < len(om) else "<no output: driver died>"
            self.evaluations += 1
            self.classes[labels[k]] = self.classes.get(labels[k], 0) + 1
            self.distinct.add(hashlib.sha1(line.encode()).hexdigest()[:16])
            if len(self.samples) < 6 and (k % max(1, len(lines) // 3) == 0):
                self.samples.append({"class": labels[k], "case": clip(line), "impl": clip(a), "model": clip(b)})
            if gate and a != b:
                self.disagreements.append({"class": labels[k], "case": line, "impl": a, "model": b})
            if a == "BAD-CASE" or b == "BAD-CASE":
                self.notes.append("BAD-CASE from %s on: %s" % ("impl" if a == "BAD-CASE" else "model", clip(line)))
            out.append((a, b))
        return out

    def expect(self, cond, klass, case, got, want, what):
        """a spec-level (oracle) expectation about the IMPLEMENTATION's output"""
        self.classes["oracle:" + klass] = self.classes.get("oracle:" + klass, 0) + 1
        if not cond:
            self.oracle_failures.append({"class": klass, "case": case, "impl": got, "spec": want, "what": what})

    # ------------------------------------------------------------ verdict
    def finish(self, level, level_text_extra=None, trusted_base=None, assumptions=None):
        wall = time.time() - self.t0
        broken = self.broken()
        violations = []
        # known findings: matched on the specific input class
        def is_known(rec):
            for kf in self.known:
                if kf["property"] == self.pid and kf["kind"] == "finding" and kf["match"] in (rec.get("class", "") + " " + rec.get("case", "")):
                    return kf
            return None
        for rec in self.oracle_failures:
            kf = is_known(rec)
            if kf:
                self.known_hits.append((kf, rec))
            else:
                violations.append(("impl-vs-spec", rec))
        for rec in self.disagreements:
            kf = is_known(rec)
            if kf:
                self.known_hits.append((kf, rec))
            else:
                violations.append(("impl-vs-model", rec))
        os.makedirs(os.path.join(VERIF, "replays"), exist_ok=True)
        exit_code = 0
        lines = []
        seen_kf = set()
        for kf, rec in self.known_hits:
            if kf["text"] not in seen_kf:
                seen_kf.add(kf["text"])
                lines.append("KNOWN-FINDING: property=%s %s" % (self.pid, kf["text"]))
        if violations:
            kind, rec = violations[0]
            path = os.path.join(VERIF, "replays", "%s-%s-%d.json" % (self.pid, kind, int(time.time())))
            json.dump({"property": self.pid, "kind": kind, "first": rec, "count": len(violations),
                       "broken_obligations": [b[0] for b in broken],
                       "replay": "echo '%s' | %s   # real code;   | %s   # Lean model" % (rec.get("case", ""), PPEXEC, PPDRV)},
                      open(path, "w"), indent=1)
            lines.append("VIOLATION property=%s replay=%s" % (self.pid, path))
            exit_code = 1
        elif broken:
            path = os.path.join(VERIF, "replays", "%s-obligation-%d.json" % (self.pid, int(time.time())))
            json.dump({"property": self.pid, "kind": "obligation-no-longer-checks",
                       "broken_obligations": [{"name": b[0], "detail": b[2]} for b in broken],
                       "searched": {"evaluations": self.evaluations, "classes": self.classes}},
                      open(path, "w"), indent=1)
            lines.append("VIOLATION property=%s replay=%s no-failing-input-found" % (self.pid, path))
            exit_code = 1
        n_ob = len(self.obligations)
        n_ok = len([o for o in self.obligations if o[1]])
        ev = {
            "property_id": self.pid,
            "tier": self.tier,
            "seed": self.seed,
            "level": level,
            "coverage": {
                "obligations": n_ob,
                "discharged": n_ok,
                "checker_cmd": "cd /verif/lean && lake build PP.Props.%s && lake env lean <#print axioms of every theorem> ; differential: ppexec (real code) vs ppdrv (Lean model) on generated cases" % self.pid,
                "trusted_base": trusted_base or [],
                "obligation_list": [{"name": o[0], "ok": o[1], **({"detail": o[2]} if o[2] else {})} for o in self.obligations],
                "axioms_per_theorem": self.axioms,
                "evaluations": self.evaluations,
                "distinct_nontrivial": len(self.distinct),
                "rule": "cases are generated per input class (see classes); distinct = distinct case lines (sha1); every case is executed on the real code and on the Lean model and the canonical outputs compared; 'oracle:*' classes count independent spec-level expectations checked on the implementation's outputs",
                "classes": self.classes,
                "samples": self.samples,
                "traces_validated_against_impl": self.evaluations,
                "disagreements_impl_vs_model": len(self.disagreements),
                "failures_impl_vs_spec": len(self.oracle_failures),
                "known_finding_hits": len(self.known_hits),
                "partial_clauses": self.partial_clauses,
                "extraction_items": len(self.extract_manifest or []),
                "timing": self.timing,
                "notes": self.notes[:20],
            },
            "assumptions": assumptions or [],
            "wall_s": round(wall, 2),
            "violations": len(violations) + (1 if (broken and not violations) else 0),
        }
        if level_text_extra:
            ev["coverage"]["explanation"] = level_text_extra
        os.makedirs(os.path.join(VERIF, "evidence"), exist_ok=True)
        json.dump(ev, open(os.path.join(VERIF, "evidence", "%s.json" % self.pid), "w"), indent=1)
        for l in lines:
            print(l)
        print("%s %s tier=%s seed=%d: obligations %d/%d, cases %d (distinct %d), impl-vs-model diffs %d, impl-vs-spec failures %d, %.1fs"
              % ("OK" if exit_code == 0 else "FAIL", self.pid, self.tier, self.seed, n_ok, n_ob, self.evaluations,
                 len(self.distinct), len(self.disagreements), len(self.oracle_failures), wall))
        return exit_code


def clip(s, n=160):
    return s if len(s) <= n else s[:n] + "...(%d chars)" % len(s)


def tail_errors(out):
    errs = [l for l in out.split("\n") if "error" in l.lower()]
    return " | ".join(errs[:4])[-600:] if errs else out.strip()[-300:]


def load_known_findings():
    path = os.path.join(VERIF, "known_findings.txt")
    out = []
    if not os.path.exists(path):
        return out
    for line in open(path):
        line = line.strip()
        if not line or line.startswith("#"):
            continue
        m = re.match(r"(finding|fixed):\s*property=(C\d+)\s+(?:match=(\S+)\s+)?(.*)$", line)
        if m:
            out.append({"kind": m.group(1), "property": m.group(2), "match": m.group(3) or "\x00", "text": m.group(4)})
    return out
