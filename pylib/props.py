"""Per-property case generators and spec-level expectations (used by /verif/bin/check)."""
import oracle as O
from oracle import F1, F2, Q, R


class Grp:
    def __init__(self, tag):
        self.tag = tag
        if tag == "g1":
            self.K, self.C, self.cof, self.gen, self.heff = F1, O.E1, O.H1, O.G1_GEN, O.HEFF1
            self.small = [3, 11, 10177]
            self.CP, self.sswu = O.E1P, O.sswu1
        else:
            self.K, self.C, self.cof, self.gen, self.heff = F2, O.E2, O.H2, O.G2_GEN, O.HEFF2
            self.small = [13, 23, 2713]
            self.CP, self.sswu = O.E2P, O.sswu2
        self._cache = {}

    def J(self, P, lam=None):
        return O.show_jac(self.K, O.jac_of(self.K, P, lam))

    def A(self, P):
        return O.show_aff(self.K, P)

    def pa(self, s):
        return O.parse_aff(self.K, s)

    def sub_pt(self, rng):
        """random point of the order-r subgroup (cheap: random multiple of the generator)"""
        return self.C.mul(self.gen, rng.randrange(1, R))

    def low(self, ell, rng):
        key = ("low", ell)
        if key not in self._cache:
            self._cache[key] = O.point_of_order(self.C, self.cof * R, ell, rng)
        return self._cache[key]

    def full(self, rng):
        return self.C.random_point(rng)

    def lam(self, rng):
        while True:
            l = self.K.rand(rng)
            if not self.K.is_zero(l):
                return l


GS = {"g1": None, "g2": None}


def grp(tag):
    if GS[tag] is None:
        GS[tag] = Grp(tag)
    return GS[tag]


def scalar_classes(rng, n_random=6, allow_big=False):
    out = [("zero", 0), ("one", 1), ("two", 2), ("r-1", R - 1), ("r", R), ("r+1", R + 1), ("2^255-1", 2 ** 255 - 1)]
    for i in (0, 1, 31, 32, 33, 63, 64, 65, 127, 128, 129, 191, 192, 193, 254):
        out.append(("pow2", 1 << i))
        out.append(("pow2-1", (1 << i) - 1 if i else 0))
        out.append(("pow2+1", (1 << i) + 1))
    for (i, j) in ((63, 64), (31, 32), (127, 128), (191, 192), (62, 65), (95, 96), (159, 160), (223, 224)):
        out.append(("straddle", (1 << i) + (1 << j)))
    out.append(("allones-limb0", 2 ** 64 - 1))
    out.append(("allones-limb12", (2 ** 128 - 1) << 64))
    out.append(("allones-255", 2 ** 255 - 1))
    for _ in range(n_random):
        out.append(("random<r", rng.randrange(R)))
        out.append(("random<2^255", rng.randrange(2 ** 255)))
    if allow_big:
        out += [("2^255", 2 ** 255), ("2^256-1", 2 ** 256 - 1), ("random>=2^255", (1 << 255) | rng.randrange(2 ** 255))]
    return out


def point_classes(g, rng, nrand=3, low=True):
    out = [("identity", None), ("generator", g.gen)]
    for _ in range(nrand):
        out.append(("subgroup", g.sub_pt(rng)))
    if low:
        for ell in g.small[:2]:
            out.append(("order-%d" % ell, g.low(ell, rng)))
        out.append(("full-curve", g.full(rng)))
    return out


# ====================================================================== C01

def check_C01(ck):
    rng = ck.rng
    thorough = ck.tier == "thorough"
    for tag in ("g1", "g2"):
        g = grp(tag)
        K, C = g.K, g.C
        pts = point_classes(g, rng, nrand=4 if not thorough else 12)
        P3 = g.low(g.small[0], rng)
        omega = pow(2, (Q - 1) // 3, Q)       # cube root of unity in Fq: same y, different x
        pairs = []
        for (ca, P) in pts:
            for (cb, Qp) in pts[:6]:
                pairs.append((ca + "+" + cb, P, Qp))
            pairs.append((ca + "+same", P, P))
            pairs.append((ca + "+neg", P, C.neg(P)))
            if P is not None:
                Pw = (K.mul(K.from_int(omega), P[0]), P[1])
                assert C.on_curve(Pw)
                pairs.append((ca + "+same-y-other-x", P, Pw))
        pairs.append(("order3: 2P=-P", P3, P3))
        cases, exp = [], []
        for (cl, P, Qp) in pairs:
            for rep in ("z1", "lam", "lam-1"):
                lp = None if rep == "z1" else (g.lam(rng) if rep == "lam" else K.neg(K.one))
                lq = None if rep == "z1" else g.lam(rng)
                JP, JQ = g.J(P, lp), g.J(Qp, lq)
                S = C.add(P, Qp)
                D = C.add(P, C.neg(Qp))
                for op, want in (("add", g.A(S)), ("sub", g.A(D)), ("eq", "true" if P == Qp else "false")):
                    cases.append((cl + "/" + rep + "/" + op, "%s %s %s %s" % (tag, op, JP, JQ)))
                    exp.append(want)
                for op, want in (("addm", g.A(S)), ("subm", g.A(D))):
                    cases.append((cl + "/" + rep + "/" + op, "%s %s %s %s" % (tag, op, JP, g.A(Qp))))
                    exp.append(want)
            cases.append((cl + "/dbl", "%s dbl %s" % (tag, g.J(P, g.lam(rng)))))
            exp.append(g.A(C.add(P, P)))
            cases.append((cl + "/neg", "%s neg %s" % (tag, g.J(P, g.lam(rng)))))
            exp.append(g.A(C.neg(P)))
            cases.append((cl + "/toaff", "%s toaff %s" % (tag, g.J(P, g.lam(rng)))))
            exp.append(g.A(P))
        res = ck.run(cases)
        for (c, (impl, _)), want in zip(zip(cases, res), exp):
            ck.expect(impl == want, "grouplaw:" + c[0].split("/")[-1], c[1], impl, want, "chord-tangent law (python affine oracle)")
        # batch normalisation: mix identity / normalised / duplicates / inverses
        for _ in range(6 if not thorough else 40):
            n = rng.randrange(0, 9)
            lst, want = [], []
            for _ in range(n):
                _, P = rng.choice(pts)
                kind = rng.randrange(4)
                if kind == 0:
                    lst.append(g.J(P)); want.append(P)
                elif kind == 1:
                    lst.append(g.J(P, g.lam(rng))); want.append(P)
                elif kind == 2:
                    lst.append(g.J(C.neg(P), g.lam(rng))); want.append(C.neg(P))
                else:
                    lst.append(g.J(None)); want.append(None)
            line = "%s batch %s" % (tag, ";".join(lst) if lst else "-")
            (impl, _), = ck.run([("batch", line)])
            if impl not in ("PANIC", "-"):
                outs = impl.split(";")
                ok = len(outs) == n
                for o, P in zip(outs, want):
                    x, y, z = o.split("/")
                    if P is None:
                        ok = ok and O.parse_f(K, z) == K.zero
                    else:
                        ok = ok and O.parse_f(K, z) == K.one and (O.parse_f(K, x), O.parse_f(K, y)) == P
                ck.expect(ok, "batch", line, impl, "same points, z=1", "batch normalisation preserves points")
            else:
                ck.expect(n == 0 and impl == "-", "batch", line, impl, "no panic", "batch normalisation")
        # random programs over 6 registers, biased to reuse registers
        nprog, plen = (6, 40) if not thorough else (30, 400)
        for _ in range(nprog):
            regs = [rng.choice(pts)[1] for _ in range(6)]
            regs[1] = regs[0]
            regs[3] = C.neg(regs[2])
            start = ";".join(g.J(P, g.lam(rng)) for P in regs)
            cur = list(regs)
            prog = []
            for _ in range(plen):
                op = rng.choice(["add", "add", "sub", "dbl", "neg", "addm", "subm", "aff", "norm", "cp"])
                i, j = rng.randrange(6), rng.randrange(6)
                if op == "add": cur[i] = C.add(cur[i], cur[j]); prog.append("add,%d,%d" % (i, j))
                elif op == "sub": cur[i] = C.add(cur[i], C.neg(cur[j])); prog.append("sub,%d,%d" % (i, j))
                elif op == "dbl": cur[i] = C.add(cur[i], cur[i]); prog.append("dbl,%d" % i)
                elif op == "neg": cur[i] = C.neg(cur[i]); prog.append("neg,%d" % i)
                elif op == "addm": cur[i] = C.add(cur[i], cur[j]); prog.append("addm,%d,%d" % (i, j))
                elif op == "subm": cur[i] = C.add(cur[i], C.neg(cur[j])); prog.append("subm,%d,%d" % (i, j))
                elif op == "aff": prog.append("aff,%d" % i)
                elif op == "norm": prog.append("norm")
                else: cur[i] = cur[j]; prog.append("cp,%d,%d" % (i, j))
            line = "%s prog %s %s" % (tag, start, ";".join(prog))
            (impl, _), = ck.run([("program", line)])
            want = ";".join(g.A(P) for P in cur)
            ck.expect(impl == want, "program", line, impl, want, "operation sequence ends in the abstract group's point")


# ====================================================================== C02

def check_C02(ck):
    rng = ck.rng
    thorough = ck.tier == "thorough"
    for tag in ("g1", "g2"):
        g = grp(tag)
        C = g.C
        pts = point_classes(g, rng, nrand=2)
        scal = scalar_classes(rng, n_random=3 if not thorough else 20, allow_big=True)
        cases, exp = [], []
        for (cp, P) in pts:
            for (cs, k) in (scal if cp in ("generator", "subgroup") else scal[:12] + scal[-6:]):
                want = g.A(C.mul(P, k))
                cases.append(("mul/%s/%s" % (cp, cs), "%s mul %s %x" % (tag, g.J(P, g.lam(rng)), k))); exp.append(want)
                cases.append(("affmul/%s/%s" % (cp, cs), "%s affmul %s %x" % (tag, g.A(P), k))); exp.append(want)
        base_pts = [p for p in pts if p[0] in ("generator", "subgroup", "identity")]
        for (cp, P) in base_pts[:3]:
            for (cs, k) in scal:
                want = g.A(C.mul(P, k))
                cases.append(("mulpre3/%s/%s" % (cp, cs), "%s mulpre3 %s %x" % (tag, g.A(P), k))); exp.append(want)
            for (cs, k) in (scal if thorough or tag == "g1" else scal[::3]):
                cases.append(("mulpre256/%s/%s" % (cp, cs), "%s mulpre256 %s %x" % (tag, g.A(P), k))); exp.append(g.A(C.mul(P, k)))
        windows = list(range(2, 13)) if not thorough else list(range(2, 19 if tag == "g1" else 16))
        small_scal = [s for s in scal if s[1] < 2 ** 255]
        for w in windows:
            sub = small_scal if (w <= 5 or thorough) else (small_scal[::4] if w <= 8 else small_scal[::9])
            for (cp, P) in base_pts[1:2] if (w > 8 and not thorough) else base_pts:
                for (cs, k) in sub:
                    cases.append(("wnaf/w%d/%s/%s" % (w, cp, cs), "%s wnaf %x %s %x" % (tag, w, g.J(P, g.lam(rng)), k)))
                    exp.append(g.A(C.mul(P, k)))
        for (cs, k) in small_scal:
            for w in (2, 3, 4, 5, 8, 13, 22):
                cases.append(("wnafform/w%d" % w, "%s wnafform %x %x" % (tag, w, k))); exp.append(None)
        res = ck.run(cases)
        for (c, (impl, _)), want in zip(zip(cases, res), exp):
            if want is not None:
                ck.expect(impl == want, "smul:" + c[0].split("/")[0], c[1], impl, want, "[k]P (python oracle)")
            else:
                if impl not in ("PANIC", "BAD-CASE"):
                    toks = c[1].split()
                    w, k = int(toks[2], 16), int(toks[3], 16)
                    ds = [] if impl == "-" else [int(t) for t in impl.split(";")]
                    ok = sum(d << i for i, d in enumerate(ds)) == k and all(d == 0 or (d % 2 == 1 and abs(d) < (1 << w)) for d in ds)
                    ck.expect(ok, "wnafform", c[1], impl, "sum d_i 2^i = k, digits odd, |d|<2^w", "wNAF recoding")
        # context reuse histories
        for _ in range(4 if not thorough else 25):
            hist, want = [], []
            for _ in range(rng.randrange(1, 9)):
                _, P = rng.choice(base_pts)
                k = rng.choice(small_scal)[1]
                if rng.randrange(2):
                    n = rng.choice([0, 1, 2, 4, 8, 21, 44, 121, 300, 70000, 100000])
                    hist.append("bs:%s:%x:%x" % (g.J(P, g.lam(rng)), n, k))
                else:
                    hist.append("sb:%x:%s" % (k, g.J(P, g.lam(rng))))
                want.append(g.A(C.mul(P, k)))
            line = "%s wnafhist %s" % (tag, ";".join(hist))
            (impl, _), = ck.run([("wnaf-history", line)])
            ck.expect(impl == ";".join(want), "wnaf-history", line, impl, ";".join(want), "reused context = fresh context = [k]P")
        rec = []
        for n in [0, 1, 2, 3, 4, 7, 8, 9, 20, 21, 43, 44, 47, 48, 120, 121, 126, 127, 260, 261, 273, 274, 563, 564, 826, 827, 1501, 1502, 1630, 1631,
                  3128, 3129, 4555, 4556, 7933, 7934, 62569, 62570, 84071, 84072, 10 ** 6, 2 ** 32, 2 ** 63]:
            rec.append(("recnum", "%s recnum %x" % (tag, n)))
        for (cs, k) in scal + [("bits", (1 << b) - 1) for b in (33, 34, 35, 36, 37, 38, 102, 103, 104, 129, 130, 131)]:
            rec.append(("recscalar", "%s recscalar %x" % (tag, k % (1 << 256))))
        for (c, (impl, _)) in zip(rec, ck.run(rec)):
            ck.expect(impl.isdigit() and 2 <= int(impl) <= 22, "recommend-range", c[1], impl, "2..=22", "recommended window in range")
