"""Per-property case generators and spec-level expectations (used by /verif/bin/check)."""
import oracle as O
from oracle import F1, F2, Q, R


class Grp:
    def __init__(self, tag):
        self.tag = tag
        if tag == "g1":
            self.K, self.C, self.cof, self.gen, self.heff = F1, O.E1, O.H1, O.G1_GEN, O.HEFF1
            self.small = [3, 11, 10177]
            self.CP, self.sswu = O.E1P, O.sswu1
        else:
            self.K, self.C, self.cof, self.gen, self.heff = F2, O.E2, O.H2, O.G2_GEN, O.HEFF2
            self.small = [13, 23, 2713]
            self.CP, self.sswu = O.E2P, O.sswu2
        self._cache = {}

    def J(self, P, lam=None):
        return O.show_jac(self.K, O.jac_of(self.K, P, lam))

    def A(self, P):
        return O.show_aff(self.K, P)

    def pa(self, s):
        return O.parse_aff(self.K, s)

    def sub_pt(self, rng):
        """random point of the order-r subgroup (cheap: random multiple of the generator)"""
        return self.C.mul(self.gen, rng.randrange(1, R))

    def low(self, ell, rng):
        key = ("low", ell)
        if key not in self._cache:
            self._cache[key] = O.point_of_order(self.C, self.cof * R, ell, rng)
        return self._cache[key]

    def full(self, rng):
        return self.C.random_point(rng)

    def lam(self, rng):
        while True:
            l = self.K.rand(rng)
            if not self.K.is_zero(l):
                return l


def junk_identity(g, rng):
    """an identity representative (X, Y, 0) with arbitrary X, Y (what P + (-P) leaves behind)"""
    K = g.K
    return "%s/%s/%s" % (K.show(K.rand(rng)), K.show(K.rand(rng)), K.show(K.zero))


def scaled_off_curve(g, P, s_):
    """(s^2 x, s^3 y): an order-preserving image of P on the isomorphic curve y^2 = x^3 + b s^6 (NOT on E unless s^6 = 1);
    the a = 0 formulas do not involve b, so r times it is still the identity"""
    K = g.K
    s2 = K.mul(s_, s_)
    return (K.mul(s2, P[0]), K.mul(K.mul(s2, s_), P[1]))


def rep_lams(g, rng):
    """scalings lambda for Jacobian representatives (lambda^2 x, lambda^3 y, lambda): z = 1, -1, 2, limb-structured, random"""
    K = g.K
    out = [("z=1", None), ("z=-1", K.neg(K.one)), ("z=2", K.from_int(2)), ("z=2^64", K.from_int(1 << 64)), ("z=random", g.lam(rng)),
           ("z=R^-1 (raw Montgomery limbs 1)", K.from_int(pow(1 << 384, -1, Q)))]
    if K is F2:
        out += [("z=u", (0, 1)), ("z=t*u", (0, rng.randrange(1, Q))), ("z=real", (rng.randrange(1, Q), 0)), ("z=c+c*u", (5, 5))]
    return out


GS = {"g1": None, "g2": None}


def grp(tag):
    if GS[tag] is None:
        GS[tag] = Grp(tag)
    return GS[tag]


def scalar_classes(rng, n_random=6, allow_big=False):
    out = [("zero", 0), ("one", 1), ("two", 2), ("r-1", R - 1), ("r", R), ("r+1", R + 1), ("2^255-1", 2 ** 255 - 1)]
    for i in (0, 1, 31, 32, 33, 63, 64, 65, 127, 128, 129, 191, 192, 193, 254):
        out.append(("pow2", 1 << i))
        out.append(("pow2-1", (1 << i) - 1 if i else 0))
        out.append(("pow2+1", (1 << i) + 1))
    for (i, j) in ((63, 64), (31, 32), (127, 128), (191, 192), (62, 65), (95, 96), (159, 160), (223, 224)):
        out.append(("straddle", (1 << i) + (1 << j)))
    out.append(("allones-limb0", 2 ** 64 - 1))
    out.append(("allones-limb12", (2 ** 128 - 1) << 64))
    out.append(("allones-255", 2 ** 255 - 1))
    for _ in range(n_random):
        out.append(("random<r", rng.randrange(R)))
        out.append(("random<2^255", rng.randrange(2 ** 255)))
    if allow_big:
        out += [("2^255", 2 ** 255), ("2^256-1", 2 ** 256 - 1), ("random>=2^255", (1 << 255) | rng.randrange(2 ** 255))]
    return out


def limb_specials(rng, n=3):
    """canonical Fq values with limb structure: low limb(s) zero, single limb set, all-ones limbs"""
    out = [1 << 64, 1 << 128, 1 << 192, 1 << 320, (1 << 64) * 5 + (1 << 320), ((1 << 64) - 1) << 64, (1 << 64) - 1, (1 << 381) - (1 << 64)]
    for _ in range(n):
        out.append((rng.randrange(Q) >> 64) << 64)          # low limb zero
        out.append((rng.randrange(Q) >> 128) << 128)        # two low limbs zero
        out.append(rng.randrange(1 << 64))                  # only the low limb
    # values whose MONTGOMERY representation is structured (raw limbs 1, 2, 2^64-1, 2^64, a single top limb)
    Rinv = pow(1 << 384, -1, Q)
    out += [(r_ * Rinv) % Q for r_ in (1, 2, (1 << 64) - 1, 1 << 64, 1 << 320)]
    return [v % Q for v in out]


def point_classes(g, rng, nrand=3, low=True):
    out = [("identity", None), ("generator", g.gen)]
    for _ in range(nrand):
        out.append(("subgroup", g.sub_pt(rng)))
    if low:
        for ell in g.small[:2]:
            out.append(("order-%d" % ell, g.low(ell, rng)))
        out.append(("full-curve", g.full(rng)))
    return out


# ====================================================================== C01

def check_C01(ck):
    rng = ck.rng
    thorough = ck.tier == "thorough"
    for tag in ("g1", "g2"):
        g = grp(tag)
        K, C = g.K, g.C
        pts = point_classes(g, rng, nrand=4 if not thorough else 12)
        P3 = g.low(g.small[0], rng)
        omega = pow(2, (Q - 1) // 3, Q)       # cube root of unity in Fq: same y, different x
        pairs = []
        for (ca, P) in pts:
            for (cb, Qp) in pts[:6]:
                pairs.append((ca + "+" + cb, P, Qp))
            pairs.append((ca + "+same", P, P))
            pairs.append((ca + "+neg", P, C.neg(P)))
            if P is not None:
                Pw = (K.mul(K.from_int(omega), P[0]), P[1])
                assert C.on_curve(Pw)
                pairs.append((ca + "+same-y-other-x", P, Pw))
        jc, je = [], []
        for (ca, P) in pts[1:4]:
            ji = junk_identity(g, rng)
            for op, a1, a2, want in (("add", ji, g.J(P, g.lam(rng)), g.A(P)), ("add", g.J(P, g.lam(rng)), ji, g.A(P)), ("sub", g.J(P), ji, g.A(P)),
                                     ("add", ji, junk_identity(g, rng), "inf"), ("eq", ji, g.J(None), "true"), ("eq", ji, g.J(P), "false")):
                jc.append(("junk-identity/" + op, "%s %s %s %s" % (tag, op, a1, a2))); je.append(want)
            for op, want in (("dbl", "inf"), ("neg", "inf"), ("toaff", "inf"), ("isnorm", "true")):
                jc.append(("junk-identity/" + op, "%s %s %s" % (tag, op, junk_identity(g, rng)))); je.append(want)
            jc.append(("junk-identity/addm", "%s addm %s %s" % (tag, junk_identity(g, rng), g.A(P)))); je.append(g.A(P))
        for c, (impl, _), want in zip(jc, ck.run(jc), je):
            ck.expect(impl == want, "grouplaw:junk-identity", c[1], impl, want, "any (X, Y, 0) is the identity")
        pairs.append(("order3: 2P=-P", P3, P3))
        repcases, repexp = [], []
        for (ca, P) in pts[1:4]:
            for (cb, Qp) in (("same", P), ("neg", C.neg(P)), ("other", pts[2][1])):
                for (la, lp) in rep_lams(g, rng):
                    for (lb, lq) in rep_lams(g, rng):
                        repcases.append(("reps/%s/%s+%s" % (cb, la, lb), "%s add %s %s" % (tag, g.J(P, lp), g.J(Qp, lq)))); repexp.append(g.A(C.add(P, Qp)))
                        repcases.append(("reps/%s/%s+%s" % (cb, la, lb), "%s eq %s %s" % (tag, g.J(P, lp), g.J(Qp, lq)))); repexp.append("true" if P == Qp else "false")
        for c, (impl, _), want in zip(repcases, ck.run(repcases), repexp):
            ck.expect(impl == want, "grouplaw:representatives", c[1], impl, want, "result independent of the Jacobian representatives")
        cases, exp = [], []
        for (cl, P, Qp) in pairs:
            for rep in ("z1", "lam", "lam-1"):
                lp = None if rep == "z1" else (g.lam(rng) if rep == "lam" else K.neg(K.one))
                lq = None if rep == "z1" else g.lam(rng)
                JP, JQ = g.J(P, lp), g.J(Qp, lq)
                S = C.add(P, Qp)
                D = C.add(P, C.neg(Qp))
                for op, want in (("add", g.A(S)), ("sub", g.A(D)), ("eq", "true" if P == Qp else "false")):
                    cases.append((cl + "/" + rep + "/" + op, "%s %s %s %s" % (tag, op, JP, JQ)))
                    exp.append(want)
                for op, want in (("addm", g.A(S)), ("subm", g.A(D))):
                    cases.append((cl + "/" + rep + "/" + op, "%s %s %s %s" % (tag, op, JP, g.A(Qp))))
                    exp.append(want)
            cases.append((cl + "/dbl", "%s dbl %s" % (tag, g.J(P, g.lam(rng)))))
            exp.append(g.A(C.add(P, P)))
            cases.append((cl + "/neg", "%s neg %s" % (tag, g.J(P, g.lam(rng)))))
            exp.append(g.A(C.neg(P)))
            cases.append((cl + "/toaff", "%s toaff %s" % (tag, g.J(P, g.lam(rng)))))
            exp.append(g.A(P))
            if P is not None and cl.startswith(("generator", "subgroup")):
                for (rc, lam) in rep_lams(g, rng):
                    cases.append((cl + "/toaff/" + rc, "%s toaff %s" % (tag, g.J(P, lam)))); exp.append(g.A(P))
                    cases.append((cl + "/dbl/" + rc, "%s dbl %s" % (tag, g.J(P, lam)))); exp.append(g.A(C.add(P, P)))
        res = ck.run(cases)
        for (c, (impl, _)), want in zip(zip(cases, res), exp):
            ck.expect(impl == want, "grouplaw:" + c[0].split("/")[-1], c[1], impl, want, "chord-tangent law (python affine oracle)")
        # batch normalisation: mix identity / normalised / duplicates / inverses
        for _ in range(6 if not thorough else 40):
            n = rng.randrange(0, 9)
            lst, want = [], []
            for _ in range(n):
                _, P = rng.choice(pts)
                kind = rng.randrange(4)
                if kind == 0:
                    lst.append(g.J(P)); want.append(P)
                elif kind == 1:
                    lst.append(g.J(P, g.lam(rng))); want.append(P)
                elif kind == 2:
                    lst.append(g.J(C.neg(P), g.lam(rng))); want.append(C.neg(P))
                else:
                    lst.append(g.J(None)); want.append(None)
            line = "%s batch %s" % (tag, ";".join(lst) if lst else "-")
            (impl, _), = ck.run([("batch", line)])
            if impl not in ("PANIC", "-"):
                outs = impl.split(";")
                ok = len(outs) == n
                for o, P in zip(outs, want):
                    x, y, z = o.split("/")
                    if P is None:
                        ok = ok and O.parse_f(K, z) == K.zero
                    else:
                        ok = ok and O.parse_f(K, z) == K.one and (O.parse_f(K, x), O.parse_f(K, y)) == P
                ck.expect(ok, "batch", line, impl, "same points, z=1", "batch normalisation preserves points")
            else:
                ck.expect(n == 0 and impl == "-", "batch", line, impl, "no panic", "batch normalisation")
        # directed batch shapes
        Pn = [p_ for (_, p_) in pts if p_ is not None]
        shapes = [["n", "j", "j"], ["j", "j", "n"], ["i", "j"], ["j", "i"], ["n", "n", "n"], ["j"], ["n"], ["i"], ["j", "j"], ["j", "n", "i", "j", "n", "j"], ["dup", "dup"], ["neg", "j"]]
        for sh in shapes:
            lst, want = [], []
            base = Pn[rng.randrange(len(Pn))]
            lamd = g.lam(rng)
            for kind in sh:
                if kind == "n": P = Pn[rng.randrange(len(Pn))]; lst.append(g.J(P)); want.append(P)
                elif kind == "j": P = Pn[rng.randrange(len(Pn))]; lst.append(g.J(P, g.lam(rng))); want.append(P)
                elif kind == "i": lst.append(g.J(None)); want.append(None)
                elif kind == "dup": lst.append(g.J(base, lamd)); want.append(base)
                elif kind == "neg": lst.append(g.J(C.neg(base), lamd)); want.append(C.neg(base))
            line = "%s batch %s" % (tag, ";".join(lst))
            (impl, _), = ck.run([("batch-shape:" + "".join(k[0] for k in sh), line)])
            outs = impl.split(";") if impl not in ("PANIC", "-", "BAD-CASE") else []
            ok = len(outs) == len(want)
            for o, P in zip(outs, want):
                x, y, z = o.split("/")
                if P is None:
                    ok = ok and O.parse_f(K, z) == K.zero
                else:
                    ok = ok and O.parse_f(K, z) == K.one and (O.parse_f(K, x), O.parse_f(K, y)) == P
            ck.expect(ok, "batch", line, impl[:100], "same points, z=1", "batch normalisation preserves points (directed shapes)")
        # random programs over 6 registers, biased to reuse registers
        nprog, plen = (6, 40) if not thorough else (30, 400)
        for _ in range(nprog):
            regs = [rng.choice(pts)[1] for _ in range(6)]
            regs[1] = regs[0]
            regs[3] = C.neg(regs[2])
            start = ";".join(g.J(P, g.lam(rng)) for P in regs)
            cur = list(regs)
            prog = []
            for _ in range(plen):
                op = rng.choice(["add", "add", "sub", "dbl", "neg", "addm", "subm", "aff", "norm", "cp"])
                i, j = rng.randrange(6), rng.randrange(6)
                if op == "add": cur[i] = C.add(cur[i], cur[j]); prog.append("add,%d,%d" % (i, j))
                elif op == "sub": cur[i] = C.add(cur[i], C.neg(cur[j])); prog.append("sub,%d,%d" % (i, j))
                elif op == "dbl": cur[i] = C.add(cur[i], cur[i]); prog.append("dbl,%d" % i)
                elif op == "neg": cur[i] = C.neg(cur[i]); prog.append("neg,%d" % i)
                elif op == "addm": cur[i] = C.add(cur[i], cur[j]); prog.append("addm,%d,%d" % (i, j))
                elif op == "subm": cur[i] = C.add(cur[i], C.neg(cur[j])); prog.append("subm,%d,%d" % (i, j))
                elif op == "aff": prog.append("aff,%d" % i)
                elif op == "norm": prog.append("norm")
                else: cur[i] = cur[j]; prog.append("cp,%d,%d" % (i, j))
            line = "%s prog %s %s" % (tag, start, ";".join(prog))
            (impl, _), = ck.run([("program", line)])
            want = ";".join(g.A(P) for P in cur)
            ck.expect(impl == want, "program", line, impl, want, "operation sequence ends in the abstract group's point")


# ====================================================================== C02

def check_C02(ck):
    rng = ck.rng
    thorough = ck.tier == "thorough"
    for tag in ("g1", "g2"):
        g = grp(tag)
        C = g.C
        pts = point_classes(g, rng, nrand=2)
        scal = scalar_classes(rng, n_random=3 if not thorough else 20, allow_big=True)
        cases, exp = [], []
        for (cp, P) in pts:
            for (cs, k) in (scal if cp in ("generator", "subgroup") else scal[:12] + scal[-6:]):
                want = g.A(C.mul(P, k))
                cases.append(("mul/%s/%s" % (cp, cs), "%s mul %s %x" % (tag, g.J(P, g.lam(rng)), k))); exp.append(want)
                cases.append(("affmul/%s/%s" % (cp, cs), "%s affmul %s %x" % (tag, g.A(P), k))); exp.append(want)
        base_pts = [p for p in pts if p[0] in ("generator", "subgroup", "identity")]
        # table multiplications on points of small order (outside the subgroup): [2^32]T = +-T etc. make table entries coincide
        for l_ in g.small[:2]:
            Pl = g.low(l_, rng)
            for k in (1 + (1 << 32), (1 << 64) + 1, (1 << 64) + (1 << 32) + 1, l_, l_ + 1, R, R + 1, (1 << 255) | 5, rng.randrange(1 << 256)):
                cases.append(("mulpre256/order-%d" % l_, "%s mulpre256 %s %x" % (tag, g.A(Pl), k))); exp.append(g.A(C.mul(Pl, k)))
                cases.append(("mulpre3/order-%d" % l_, "%s mulpre3 %s %x" % (tag, g.A(Pl), k))); exp.append(g.A(C.mul(Pl, k)))
                cases.append(("mul/order-%d" % l_, "%s mul %s %x" % (tag, g.J(Pl, g.lam(rng)), k))); exp.append(g.A(C.mul(Pl, k)))
        for (cp, P) in base_pts[:3]:
            for (cs, k) in scal:
                want = g.A(C.mul(P, k))
                cases.append(("mulpre3/%s/%s" % (cp, cs), "%s mulpre3 %s %x" % (tag, g.A(P), k))); exp.append(want)
            for (cs, k) in (scal if thorough or tag == "g1" else scal[::3]):
                cases.append(("mulpre256/%s/%s" % (cp, cs), "%s mulpre256 %s %x" % (tag, g.A(P), k))); exp.append(g.A(C.mul(P, k)))
        windows = list(range(2, 13)) if not thorough else list(range(2, 19 if tag == "g1" else 16))
        small_scal = [s for s in scal if s[1] < 2 ** 255]
        for w in windows:
            sub = small_scal if (w <= 5 or thorough) else (small_scal[::4] if w <= 8 else small_scal[::9])
            for (cp, P) in base_pts[1:2] if (w > 8 and not thorough) else base_pts:
                for (cs, k) in sub:
                    cases.append(("wnaf/w%d/%s/%s" % (w, cp, cs), "%s wnaf %x %s %x" % (tag, w, g.J(P, g.lam(rng)), k)))
                    exp.append(g.A(C.mul(P, k)))
        for (cs, k) in small_scal:
            for w in (2, 3, 4, 5, 8, 13, 22):
                cases.append(("wnafform/w%d" % w, "%s wnafform %x %x" % (tag, w, k))); exp.append(None)
        res = ck.run(cases)
        for (c, (impl, _)), want in zip(zip(cases, res), exp):
            if want is not None:
                ck.expect(impl == want, "smul:" + c[0].split("/")[0], c[1], impl, want, "[k]P (python oracle)")
            else:
                if impl not in ("PANIC", "BAD-CASE"):
                    toks = c[1].split()
                    w, k = int(toks[2], 16), int(toks[3], 16)
                    ds = [] if impl == "-" else [int(t) for t in impl.split(";")]
                    ok = sum(d << i for i, d in enumerate(ds)) == k and all(d == 0 or (d % 2 == 1 and abs(d) < (1 << w)) for d in ds)
                    ck.expect(ok, "wnafform", c[1], impl, "sum d_i 2^i = k, digits odd, |d|<2^w", "wNAF recoding")
        # context reuse histories
        for _ in range(4 if not thorough else 25):
            hist, want = [], []
            for _ in range(rng.randrange(1, 9)):
                _, P = rng.choice(base_pts)
                k = rng.choice(small_scal)[1]
                kind = rng.randrange(4)
                if kind in (0, 2):
                    n = rng.choice([0, 1, 2, 4, 8, 21, 44, 121, 300, 70000, 100000])
                    hist.append("%s:%s:%x:%x" % ("bs" if kind == 0 else "bsh", g.J(P, g.lam(rng)), n, k))
                else:
                    hist.append("%s:%x:%s" % ("sb" if kind == 1 else "sbh", k, g.J(P, g.lam(rng))))
                want.append(g.A(C.mul(P, k)))
            line = "%s wnafhist %s" % (tag, ";".join(hist))
            (impl, _), = ck.run([("wnaf-history", line)])
            ck.expect(impl == ";".join(want), "wnaf-history", line, impl, ";".join(want), "reused context = fresh context = [k]P")
        # directed histories: big table, then small window with another base, then a medium window with the same base
        B1, B2 = base_pts[1][1], g.sub_pt(rng)
        k1, k2, k3 = rng.randrange(1, R), rng.randrange(1, R), rng.randrange(1, R)
        for hist, want in (
            (["bs:%s:%x:%x" % (g.J(B1), 100, k1), "bs:%s:%x:%x" % (g.J(B2), 1, k2), "bs:%s:%x:%x" % (g.J(B2), 10, k3)], [(B1, k1), (B2, k2), (B2, k3)]),
            (["bs:%s:%x:%x" % (g.J(B1), 300, k1), "sb:%x:%s" % (5, g.J(B2)), "bs:%s:%x:%x" % (g.J(B2), 21, k3)], [(B1, k1), (B2, 5), (B2, k3)]),
            (["bs:%s:%x:%x" % (g.J(B2), 2, k1), "bs:%s:%x:%x" % (g.J(B1), 121, k2), "bs:%s:%x:%x" % (g.J(B2), 2, k3), "bs:%s:%x:%x" % (g.J(B2), 44, k1)], [(B2, k1), (B1, k2), (B2, k3), (B2, k1)]),
        ):
            line = "%s wnafhist %s" % (tag, ";".join(hist))
            (impl, _), = ck.run([("wnaf-history/shrinking-windows", line)])
            w_ = ";".join(g.A(C.mul(P, k)) for (P, k) in want)
            ck.expect(impl == w_, "wnaf-history", line[:160], impl[:120], w_[:120], "reused context = fresh context = [k]P (table sizes shrink and grow again)")
        # directed histories: a zero (and a tiny) scalar right after a non-zero one on the same buffers
        kk = rng.randrange(1, R)
        P0 = base_pts[1][1]
        for kinds in (("bs", "bs", "bs", "bs"), ("sb", "sb", "sb", "sb"), ("bsh", "bsh", "bs", "bsh"), ("sbh", "sb", "sbh", "sb"), ("bs", "sb", "bs", "sb")):
            hist, want = [], []
            for kd, k in zip(kinds, (kk, 0, 1, kk // 3)):
                if kd in ("bs", "bsh"):
                    hist.append("%s:%s:%x:%x" % (kd, g.J(P0, g.lam(rng)), 4, k))
                else:
                    hist.append("%s:%x:%s" % (kd, k, g.J(P0, g.lam(rng))))
                want.append(g.A(C.mul(P0, k)))
            line = "%s wnafhist %s" % (tag, ";".join(hist))
            (impl, _), = ck.run([("wnaf-history/zero-after-nonzero", line)])
            ck.expect(impl == ";".join(want), "wnaf-history", line, impl, ";".join(want), "reused context = fresh context = [k]P (zero scalar after non-zero)")
        rec = []
        for n in [0, 1, 2, 3, 4, 7, 8, 9, 20, 21, 43, 44, 47, 48, 120, 121, 126, 127, 260, 261, 273, 274, 563, 564, 826, 827, 1501, 1502, 1630, 1631,
                  3128, 3129, 4555, 4556, 7933, 7934, 62569, 62570, 84071, 84072, 10 ** 6, 2 ** 32, 2 ** 63]:
            rec.append(("recnum", "%s recnum %x" % (tag, n)))
        for (cs, k) in scal + [("bits", (1 << b) - 1) for b in (33, 34, 35, 36, 37, 38, 102, 103, 104, 129, 130, 131)]:
            rec.append(("recscalar", "%s recscalar %x" % (tag, k % (1 << 256))))
        for (c, (impl, _)) in zip(rec, ck.run(rec)):
            ck.expect(impl.isdigit() and 2 <= int(impl) <= 22, "recommend-range", c[1], impl, "2..=22", "recommended window in range")


# ====================================================================== C03 / C11 / C12 (pairing)

def check_C03(ck):
    rng = ck.rng
    thorough = ck.tier == "thorough"
    g1, g2 = grp("g1"), grp("g2")
    n = 3 if not thorough else 12
    base = []
    for _ in range(n):
        base.append((g1.sub_pt(rng), g2.sub_pt(rng)))
    base.append((g1.gen, g2.gen))
    cases = []
    for (P, Qp) in base:
        cases.append(("pairing/base", "pairing %s %s" % (g1.A(P), g2.A(Qp))))
    for (P, Qp) in base[:2]:
        cases.append(("pairing_with/g1-initiates", "pairwith1 %s %s" % (g1.A(P), g2.A(Qp))))
        cases.append(("pairing_with/g2-initiates", "pairwith2 %s %s" % (g1.A(P), g2.A(Qp))))
    nb = len(base)
    cases.append(("pairing/identity-left", "pairing inf %s" % g2.A(g2.gen)))
    cases.append(("pairing/identity-right", "pairing %s inf" % g1.A(g1.gen)))
    cases.append(("pairing/identity-both", "pairing inf inf"))
    # projective arguments converted by the library's own into_affine: identity representatives (X, Y, 0) with junk X, Y
    # (what P + (-P) or [r]P leave behind), and finite points with a random Z
    jc, jexp = [], []
    P_, Q_ = base[0]
    for op in ("pairjac", "pairjacprep"):
        for _ in range(2):
            jc.append(("identity-junk-representative/G2", "%s %s %s" % (op, g1.J(P_, g1.lam(rng)), junk_identity(g2, rng)))); jexp.append("one")
            jc.append(("identity-junk-representative/G1", "%s %s %s" % (op, junk_identity(g1, rng), g2.J(Q_, g2.lam(rng))))); jexp.append("one")
        jc.append(("identity-junk-representative/both", "%s %s %s" % (op, junk_identity(g1, rng), junk_identity(g2, rng)))); jexp.append("one")
        jc.append(("projective-arguments", "%s %s %s" % (op, g1.J(P_, g1.lam(rng)), g2.J(Q_, g2.lam(rng))))); jexp.append("base0")
    res = ck.run(cases)
    one = O.show_f12(O.F12_ONE)
    for c, (impl, _), w in zip(jc, ck.run(jc), jexp):
        want = one if w == "one" else res[0][0]
        ck.expect(impl == want, "identity->1" if w == "one" else "same-value-either-side", c[1], impl, want, "e(P,Q) on projective arguments; 1 for every representative of the identity")
    for i in range(2):
        ck.expect(res[nb + 2 * i][0] == res[i][0] and res[nb + 2 * i + 1][0] == res[i][0], "same-value-either-side", cases[nb + 2 * i][1], res[nb + 2 * i][0], res[i][0], "pairing_with from G1 or G2 = Engine::pairing")
    for c, (impl, _) in zip(cases[len(base) + 4:], res[len(base) + 4:]):
        ck.expect(impl == one, "identity->1", c[1], impl, one, "e(P,Q)=1 when P or Q is the identity")
    evals = [O.parse_f12(impl) if impl.count(",") == 11 else None for (impl, _) in res[:len(base)]]
    scal = [0, 1, 2, R - 1, R, R + 1, rng.randrange(R), rng.randrange(R), (1 << 255) | rng.randrange(1 << 255)]
    c2, exp = [], []
    for (P, Qp), e in zip(base, evals):
        if e is None:
            continue
        ck.expect(O.f12_pow(e, R) == O.F12_ONE and e != O.F12_ONE, "order-r,non-degenerate", "pairing", "e", "e^r=1,e!=1", "e(P,Q) has order r for non-identity P,Q")
        for (a, b) in [(rng.choice(scal), rng.choice(scal)) for _ in range(3 if not thorough else 10)] + [(R, 1), (1, R), (R - 1, R - 1), (0, 5)]:
            aP, bQ = g1.C.mul(P, a), g2.C.mul(Qp, b)
            c2.append(("bilinear", "pairing %s %s" % (g1.A(aP), g2.A(bQ))))
            exp.append(O.show_f12(O.f12_pow(e, (a * b) % R)))
    for c, (impl, _), want in zip(c2, ck.run(c2), exp):
        ck.expect(impl == want, "bilinear", c[1], impl, want, "e([a]P,[b]Q) = e(P,Q)^(ab)")
    # [a]P, [b]Q computed by the implementation's own mul_assign (FrRepr scalars incl. values >= r and >= 2^255)
    P, Qp = base[0]
    e0 = evals[0]
    if e0 is not None:
        sc = [(1, (1 << 255) + 5), ((1 << 256) - 1, 1), (2 * R + 5, 3), (R - 1, R + 2), (rng.randrange(1 << 256), rng.randrange(1 << 256))]
        nproj = len(sc)
        # the same through CurveAffine::mul, with scalars at limb boundaries (a zero limb below a non-zero one, single high limbs)
        sc += [(1 << 64, 3), ((1 << 128) + 5, 1 << 64), (1 << 192, (1 << 192) + (1 << 64)), (rng.randrange(R), (rng.randrange(1 << 64) << 128) | 7), (R, 1), (5, R + 1)]
        # limb-structured scalars: single limbs all ones / just above and below the limbs of r (a comparison or carry that
        # looks at limbs in the wrong order or one limb only shows here), through both routes
        rl = [(R >> (64 * i)) & ((1 << 64) - 1) for i in range(4)]
        limbsc = [(1 << 64) - 1, rl[0] + 1, rl[0] - 1, ((1 << 64) - 1) << 64, (rl[3] << 192) | ((1 << 192) - 1) if ((rl[3] << 192) | ((1 << 192) - 1)) < (1 << 256) else 1,
                  (rl[3] << 192), ((rl[3] - 1) << 192) | ((1 << 192) - 1), (1 << 128) - 1, rl[0] | (1 << 64), ((1 << 64) - 1) | (rl[1] << 64) | (rl[2] << 128) | (rl[3] << 192)]
        limbpairs = [(limbsc[i], limbsc[(i + 3) % len(limbsc)]) for i in range(len(limbsc))]
        nlimb0 = len(sc)
        sc += limbpairs
        mc = []
        for i_, (a, b) in enumerate(sc):
            if i_ < nproj or (i_ >= nlimb0 and (i_ - nlimb0) % 2 == 0):
                mc.append(("impl-mul", "g1 mul %s %x" % (g1.J(P), a)))
                mc.append(("impl-mul", "g2 mul %s %x" % (g2.J(Qp), b)))
            else:
                mc.append(("impl-affine-mul", "g1 affmul %s %x" % (g1.A(P), a)))
                mc.append(("impl-affine-mul", "g2 affmul %s %x" % (g2.A(Qp), b)))
        mr = ck.run(mc)
        pc, pe = [], []
        for i, (a, b) in enumerate(sc):
            pc.append(("bilinear/impl-scalar-mul", "pairing %s %s" % (mr[2 * i][0], mr[2 * i + 1][0])))
            pe.append(O.show_f12(O.f12_pow(e0, (a * b) % R)))
        for c, (impl, _), want in zip(pc, ck.run(pc), pe):
            ck.expect(impl == want, "bilinear", c[1], impl, want, "e([a]P,[b]Q) = e(P,Q)^(ab) with [a]P from mul_assign, a up to 2^256-1")
    # [a]P obtained through batch_normalization of a batch that mixes normalised and non-normalised representatives
    Pg, Qg = g1.gen, g2.gen
    eg = evals[len(base) - 1] if len(evals) >= len(base) else None
    if eg is not None:
        for order in ((5, 1, 11), (1, 5, 11), (5, 11, 1), (5, 0, 1, 11)):
            reps1 = [g1.J(g1.C.mul(Pg, a_)) if a_ in (0, 1) else g1.J(g1.C.mul(Pg, a_), g1.lam(rng)) for a_ in order]
            reps2 = [g2.J(g2.C.mul(Qg, a_)) if a_ in (0, 1) else g2.J(g2.C.mul(Qg, a_), g2.lam(rng)) for a_ in order]
            (b1, _), (b2, _) = ck.run([("batch-normalised-arguments", "g1 batch %s" % ";".join(reps1)), ("batch-normalised-arguments", "g2 batch %s" % ";".join(reps2))])
            if ";" in b1 and ";" in b2:
                pj = [("bilinear/batch-normalised", "pairjac %s %s" % (x_, y_)) for x_, y_ in zip(b1.split(";"), b2.split(";"))]
                for a_, c, (impl, _) in zip(order, pj, ck.run(pj)):
                    want = O.show_f12(O.f12_pow(eg, (a_ * a_) % R))
                    ck.expect(impl == want, "bilinear", c[1][:120], impl[:60], want[:60], "e([a]P,[a]Q) = e(P,Q)^(a^2) with both arguments taken from batch_normalization")
    # agreement with the textbook evaluation: an independent affine Miller loop over Fq12 on the untwisted point
    # (oracle.ate_pairing; the theorem PP.Props.C03Lines.pairing_is_reduced_ate states the same for the model).
    # P only needs to be a finite curve point, Q a finite twist point whose small multiples are non-zero.
    tb = [(P, Qp, "subgroup") for (P, Qp) in (base[:2] if not thorough else base)] + [(g1.gen, g2.gen, "generators")]
    tb.append((g1.full(rng), g2.sub_pt(rng), "P-outside-subgroup"))
    tb.append((g1.sub_pt(rng), g2.full(rng), "Q-outside-subgroup"))
    tb.append((g1.C.neg(g1.gen), g2.gen, "negated-P"))
    tcases = [("textbook/" + cl, "pairing %s %s" % (g1.A(P), g2.A(Qp))) for (P, Qp, cl) in tb]
    for c, (impl, _), (P, Qp, cl) in zip(tcases, ck.run(tcases), tb):
        want = O.show_f12(O.ate_pairing(P, Qp))
        ck.expect(impl == want, "textbook-ate:" + cl, c[1], impl, want, "pairing = conj(f_{|x|,Q}(P))^(3(q^12-1)/r), affine tangent/chord Miller loop over Fq12")
    # published value e(g1,g2): the repository's own relic vector (extracted on the fly from the test source)
    import re, os
    src = open(os.path.join(os.environ.get("PP_REPO", "/repo"), "src/bls12_381/tests/mod.rs")).read()
    m = re.search(r"fn test_pairing_result_against_relic.*?\n}\n", src, re.S)
    if m:
        nums = re.findall(r'from_str\("(\d+)"\)', m.group(0))
        if len(nums) == 12:
            want = ",".join("%x" % int(t) for t in nums)
            ck.expect(res[len(base) - 1][0] == want, "kat:e(g1,g2)", cases[len(base) - 1][1], res[len(base) - 1][0], want, "published e(g1,g2) (relic vector pinned in the repository's tests)")


def check_C11(ck):
    rng = ck.rng
    thorough = ck.tier == "thorough"
    g1, g2 = grp("g1"), grp("g2")
    pool = [(g1.sub_pt(rng), g2.sub_pt(rng)) for _ in range(4)] + [(g1.gen, g2.gen)]
    singles = [("single", "pairing %s %s" % (g1.A(P), g2.A(Qp))) for (P, Qp) in pool]
    sres = ck.run(singles)
    val = {i: O.parse_f12(sres[i][0]) for i in range(len(pool)) if sres[i][0].count(",") == 11}
    cases, exp = [], []
    long_lens = [16, 17, 33] if not thorough else [15, 16, 17, 20, 31, 32, 33, 48, 49, 64, 65]
    trials = [rng.choice([0, 1, 2, 3, 5, 8] if not thorough else list(range(0, 13))) for _ in range(6 if not thorough else 40)] + long_lens
    for ln in trials:
        ps, qs, prod = [], [], O.F12_ONE
        for _ in range(ln):
            kind = rng.randrange(5)
            i = rng.randrange(len(pool))
            if kind == 0:
                ps.append(None); qs.append(pool[i][1])
            elif kind == 1:
                ps.append(pool[i][0]); qs.append(None)
            else:
                ps.append(pool[i][0]); qs.append(pool[i][1])
                if i in val:
                    prod = O.f12_mul(prod, val[i])
        sp = ";".join(g1.A(P) for P in ps) or "-"
        sq = ";".join(g2.A(Qp) for Qp in qs) or "-"
        cases.append(("multi/len%d" % ln, "pairmulti %s %s" % (sp, sq))); exp.append(O.show_f12(prod))
        cases.append(("miller/len%d" % ln, "miller %s %s" % (sp, sq))); exp.append(None)
        if ln == 2:
            cases.append(("pairprod", "pairprod %s %s %s %s" % (g1.A(ps[0]), g2.A(qs[0]), g1.A(ps[1]), g2.A(qs[1])))); exp.append(O.show_f12(prod))
    # adjacent entries that are +-the same point (a caching/"re-use the prepared element" bug needs exactly this)
    P0, Q0 = pool[0]
    if 0 in val:
        inv0 = O.f12_pow(val[0], R - 1)
        for signs in ([1, -1, -1], [1, -1, 1], [-1, -1, 1], [1, 1, -1, -1], [1, -1, 1, -1], [1, 1, 1]):
            for side in ("q", "p"):
                ps = [P0 if (side == "q" or sg > 0) else g1.C.neg(P0) for sg in signs]
                qs = [Q0 if (side == "p" or sg > 0) else g2.C.neg(Q0) for sg in signs]
                prod = O.F12_ONE
                for sg in signs:
                    prod = O.f12_mul(prod, val[0] if sg > 0 else inv0)
                cases.append(("multi/sign-pattern-%s" % side, "pairmulti %s %s" % (";".join(g1.A(P) for P in ps), ";".join(g2.A(Qp) for Qp in qs)))); exp.append(O.show_f12(prod))
    # long lists (any batching of the slice helper must not change the product), ending in a cancelling pair
    if 0 in val:
        for ln in ([17, 33] if not thorough else [16, 17, 31, 33, 47, 65]):
            ps = [P0] * (ln - 1) + [g1.C.mul(P0, R - (ln - 1))]
            qs = [Q0] * ln
            cases.append(("multi/long-cancelling-len%d" % ln, "pairmulti %s %s" % (";".join(g1.A(P) for P in ps), ";".join(g2.A(Qp) for Qp in qs)))); exp.append(O.show_f12(O.F12_ONE))
    # long lists whose blocks of 8 differ widely in COST: real pairs in one block, pairs with an identity member (which cost
    # nothing to prepare) in the others.  Any batching / parallel preparation that reassembles blocks in completion order
    # pairs the wrong elements exactly here.
    if 0 in val and 1 in val:
        for (cl, head_real) in (("multi/real-head-identity-tail-len40", True), ("multi/identity-head-real-tail-len40", False), ("multi/real-blocks-alternating-len48", None)):
            ps, qs, prod = [], [], O.F12_ONE
            n_ = 48 if head_real is None else 40
            for j in range(n_):
                blk = j // 8
                real = (blk == 0) if head_real is True else (blk == n_ // 8 - 1) if head_real is False else (blk % 2 == 0)
                i = j % 2
                if real:
                    ps.append(pool[i][0]); qs.append(pool[i][1]); prod = O.f12_mul(prod, val[i])
                else:
                    ps.append(pool[1 - i][0]); qs.append(None)
            cases.append((cl, "pairmulti %s %s" % (";".join(g1.A(P) for P in ps), ";".join(g2.A(Qp) for Qp in qs)))); exp.append(O.show_f12(prod))
    # cancelling exponents: e(aP,Q) e(-aP,Q) = 1 ; sum a_i b_i = 0 mod r
    P, Qp = pool[0]
    a = rng.randrange(1, R)
    cases.append(("cancel", "pairprod %s %s %s %s" % (g1.A(g1.C.mul(P, a)), g2.A(Qp), g1.A(g1.C.neg(g1.C.mul(P, a))), g2.A(Qp)))); exp.append(O.show_f12(O.F12_ONE))
    b = rng.randrange(1, R)
    cases.append(("cancel", "pairmulti %s;%s %s;%s" % (g1.A(g1.C.mul(g1.gen, a)), g1.A(g1.C.mul(g1.gen, b)), g2.A(g2.C.mul(g2.gen, b)), g2.A(g2.C.mul(g2.gen, R - a))))); exp.append(O.show_f12(O.F12_ONE))
    # the two-pair entry point on every combination of {identity, point} x {same, different} members: an identity in either
    # slot of either group, with the SAME or a different partner point in the other pair
    if 0 in val and 1 in val:
        (Pa, Qa), (Pb, Qb) = pool[0], pool[1]
        eab = O.parse_f12(ck.run([("single", "pairing %s %s" % (g1.A(Pb), g2.A(Qa)))])[0][0])
        for (cl, p1, q1, p2, q2, want) in (
                ("id-p1/same-q", None, Qa, Pa, Qa, val[0]), ("id-p2/same-q", Pa, Qa, None, Qa, val[0]),
                ("id-p1/other-q", None, Qb, Pa, Qa, val[0]), ("id-p2/other-q", Pa, Qa, None, Qb, val[0]),
                ("id-q1/same-p", Pa, None, Pa, Qa, val[0]), ("id-q2/same-p", Pa, Qa, Pa, None, val[0]),
                ("id-q1/other-p", Pb, None, Pa, Qa, val[0]), ("id-q2/other-p", Pa, Qa, Pb, None, val[0]),
                ("same-q", Pa, Qa, Pb, Qa, O.f12_mul(val[0], eab)), ("same-p-same-q", Pa, Qa, Pa, Qa, O.f12_mul(val[0], val[0])),
                ("both-id-p", None, Qa, None, Qb, O.F12_ONE), ("id-p1-id-q2", None, Qa, Pa, None, O.F12_ONE)):
            cases.append(("pairprod/" + cl, "pairprod %s %s %s %s" % (g1.A(p1), g2.A(q1), g1.A(p2), g2.A(q2)))); exp.append(O.show_f12(want))
    # slice helper with lists of different lengths: more G2 than G1 points -> product over the G1 list; fewer -> panic
    if 0 in val and 1 in val:
        cases.append(("multi/more-q-than-p", "pairmulti %s %s;%s" % (g1.A(pool[0][0]), g2.A(pool[0][1]), g2.A(pool[1][1])))); exp.append(O.show_f12(val[0]))
        cases.append(("multi/more-q-than-p", "pairmulti %s;%s %s;%s;%s" % (g1.A(pool[0][0]), g1.A(pool[1][0]), g2.A(pool[0][1]), g2.A(pool[1][1]), g2.A(pool[0][1])))); exp.append(O.show_f12(O.f12_mul(val[0], val[1])))
        cases.append(("multi/fewer-q-than-p", "pairmulti %s;%s %s" % (g1.A(pool[0][0]), g1.A(pool[1][0]), g2.A(pool[0][1])))); exp.append("PANIC")
        cases.append(("multi/empty-q", "pairmulti %s -" % g1.A(pool[0][0]))); exp.append("PANIC")
        cases.append(("multi/empty-p", "pairmulti - %s" % g2.A(pool[0][1]))); exp.append(O.show_f12(O.F12_ONE))
    # the pair list handed to miller_loop as lazy iterators (filter / skip_while / chain: inexact size hints)
    for ln in (1, 3, 4):
        idx = [rng.randrange(len(pool)) for _ in range(ln)]
        prod = O.F12_ONE
        for i_ in idx:
            if i_ in val:
                prod = O.f12_mul(prod, val[i_])
        if all(i_ in val for i_ in idx):
            cases.append(("miller/lazy-iterators/len%d" % ln, "millerlazy %s %s" % (";".join(g1.A(pool[i_][0]) for i_ in idx), ";".join(g2.A(pool[i_][1]) for i_ in idx)))); exp.append(O.show_f12(prod))
    cases.append(("miller/lazy-iterators/with-identity", "millerlazy %s;inf;%s %s;%s;inf" % (g1.A(pool[0][0]), g1.A(pool[1][0]), g2.A(pool[0][1]), g2.A(pool[1][1])))); exp.append(O.show_f12(val[0]) if 0 in val else None)
    # the product against the independent textbook ate pairing (not against the implementation's own single pairings)
    if len(pool) >= 2:
        (Pa, Qa), (Pb, Qb) = pool[0], pool[1]
        cases.append(("multi/textbook-ate-product", "pairmulti %s;%s %s;%s" % (g1.A(Pa), g1.A(Pb), g2.A(Qa), g2.A(Qb))))
        exp.append(O.show_f12(O.f12_mul(O.ate_pairing(Pa, Qa), O.ate_pairing(Pb, Qb))))
    # ONE prepared element (the same reference) serving several pairs of one Miller loop, incl. G1 points that cancel;
    # the loop is evaluated twice with the same prepared elements (millerref prints FE of the loop)
    if 0 in val and 1 in val:
        P1, Q1 = pool[1]
        mulP = lambda k: g1.C.mul(P0, k % R)
        def mref(cl, ps, qs, pis, qis, want):
            cases.append(("shared-prepared/" + cl, "millerref %s %s %s %s" % (";".join(g1.A(P) for P in ps), ";".join(g2.A(Qp) for Qp in qs),
                          ";".join("%x" % i for i in pis), ";".join("%x" % i for i in qis))))
            exp.append(O.show_f12(want))
        mref("P,-P same Q", [P0, g1.C.neg(P0)], [Q0], [0, 1], [0, 0], O.F12_ONE)
        mref("5P,11P,-16P same Q", [mulP(5), mulP(11), mulP(-16)], [Q0], [0, 1, 2], [0, 0, 0], O.F12_ONE)
        mref("2P,3P same Q", [mulP(2), mulP(3)], [Q0], [0, 1], [0, 0], O.f12_pow(val[0], 5))
        mref("same P, Q and -Q", [P0], [Q0, g2.C.neg(Q0)], [0, 0], [0, 1], O.F12_ONE)
        mref("same P same Q twice", [P0], [Q0], [0, 0], [0, 0], O.f12_pow(val[0], 2))
        mref("cancelling pair then another", [P0, g1.C.neg(P0), P1], [Q0, Q1], [0, 1, 2], [0, 0, 1], val[1])
        mref("other pair between cancelling ones", [P0, P1, g1.C.neg(P0)], [Q0, Q1], [0, 1, 2], [0, 1, 0], val[1])
        mref("identity shares the prepared Q", [None, P0], [Q0], [0, 1], [0, 0], val[0])
        mref("identity Q shared", [P0, P1], [None, Q1], [0, 1, 1], [0, 0, 1], val[1])
        a_ = rng.randrange(1, R)
        mref("aP,(r-a)P same Q", [mulP(a_), mulP(R - a_)], [Q0], [0, 1], [0, 0], O.F12_ONE)
    res = ck.run(cases)
    mil = []
    for c, (impl, _), want in zip(cases, res, exp):
        if want is not None:
            ck.expect(impl == want, "product", c[1], impl, want, "FE(joint Miller loop) = product of individual pairings")
        elif impl.count(",") == 11:
            mil.append((c, impl))
    fe = ck.run([("finalexp-of-miller", "finalexp %s" % m) for (_, m) in mil])
    for ((c, _), (impl, _)) in zip(mil, fe):
        # must equal the pairmulti of the same lists (previous case in the list)
        idx = cases.index(c)
        ck.expect(impl == res[idx - 1][0], "fe(miller)=multi", c[1], impl, res[idx - 1][0], "final_exponentiation(miller_loop(pairs)) = pairing_multi_product")


def check_C12(ck):
    rng = ck.rng
    thorough = ck.tier == "thorough"
    els = [("zero", O.F12_ZERO), ("one", O.F12_ONE)]
    m1 = O.f12_unflat([Q - 1] + [0] * 11)
    els.append(("minus-one", m1))
    for _ in range(2 if not thorough else 8):
        els.append(("Fq", O.f12_unflat([rng.randrange(1, Q)] + [0] * 11)))
        els.append(("Fq2", O.f12_unflat([rng.randrange(Q), rng.randrange(1, Q)] + [0] * 10)))
        els.append(("Fq6", O.f12_unflat([rng.randrange(Q) for _ in range(6)] + [0] * 6)))
        # Fq4 = fixed field of x -> x^(q^4): elements a + b w^3 ... simplest: x^((q^12-1)/(q^4-1)) lands in Fq4
        x = O.f12_unflat([rng.randrange(Q) for _ in range(12)])
        els.append(("random", x))
        els.append(("Fq4", O.f12_pow(x, (Q ** 12 - 1) // (Q ** 4 - 1) * 0 + sum(Q ** (4 * i) for i in range(3)))))
    # structured elements: pure-w multiples (c0 = 0), single non-zero coefficient in each of the 12 slots,
    # sparse 014-shaped elements (line functions), elements with a zero Fq6 half
    els.append(("c0=0 (w multiple)", (O.F6_ZERO, ((rng.randrange(Q), rng.randrange(Q)), F2.rand(rng), F2.rand(rng)))))
    els.append(("w", (O.F6_ZERO, O.F6_ONE)))
    els.append(("v*w (Fq4)", (O.F6_ZERO, ((0, 0), (rng.randrange(1, Q), rng.randrange(Q)), (0, 0)))))
    for slot in (range(12) if thorough else rng.sample(range(12), 4)):
        l = [0] * 12
        l[slot] = rng.randrange(1, Q)
        els.append(("single-slot-%d" % slot, O.f12_unflat(l)))
    els.append(("sparse-014", ((F2.rand(rng), F2.rand(rng), (0, 0)), ((0, 0), F2.rand(rng), (0, 0)))))
    els += mult_special_f12(rng, 1 if not thorough else 5)
    for k_ in mont_specials()[:3 if not thorough else 8]:          # a coefficient whose raw Montgomery limbs are 1, 2, 3 ...
        for slot in (range(6) if k_ == mont_specials()[0] or thorough else (0, 3)):
            cs = [F2.rand(rng) for _ in range(6)]; cs[slot] = (k_, 0)
            els.append(("mont-special-coefficient", ((cs[0], cs[1], cs[2]), (cs[3], cs[4], cs[5]))))
    els += [("related-coefficients", a) for (_, a) in related_coeff_f12(rng, with_zero=False)]
    zp = zero_pattern_f12(rng)
    zres = ck.run([("fe/zero-pattern", "finalexp %s" % O.show_f12(a)) for (_, a) in zp])
    for (mask, a), (impl, _) in rng.sample(list(zip(zp, zres)), 6 if not thorough else 30):
        want = O.show_f12(O.f12_pow(a, O.FINAL_EXP))
        ck.expect(impl == want, "fe=pow", "finalexp zero-pattern %d" % mask, impl[:60], want[:60], "f^(3(q^12-1)/r) on a zero-pattern element")
    cases = [("fe/" + c, "finalexp %s" % O.show_f12(x)) for (c, x) in els]
    res = ck.run(cases)
    for (c, x), (impl, _), case in zip(els, res, cases):
        if c == "zero":
            ck.expect(impl == "none", "fe(0)=none", case[1], impl, "none", "failure exactly for 0")
            continue
        want = O.show_f12(O.f12_pow(x, O.FINAL_EXP))
        ck.expect(impl == want, "fe=pow", case[1], impl, want, "f^(3(q^12-1)/r)")
        if c in ("Fq", "Fq2", "Fq6", "Fq4", "one", "minus-one", "v*w (Fq4)"):
            ck.expect(impl == O.show_f12(O.F12_ONE), "subfield->1", case[1], impl, "1", "proper subfield elements map to 1")
    # multiplicativity on impl outputs
    xs = [x for (c, x) in els if c == "random"][:2]
    if len(xs) == 2:
        (r1, _), (r2, _), (r12, _) = ck.run([("mult", "finalexp %s" % O.show_f12(t)) for t in (xs[0], xs[1], O.f12_mul(xs[0], xs[1]))])
        if r1.count(",") == 11 and r2.count(",") == 11:
            ck.expect(r12 == O.show_f12(O.f12_mul(O.parse_f12(r1), O.parse_f12(r2))), "multiplicative", "finalexp(xy)", r12, "fe(x)fe(y)", "multiplicative")
    # the final exponentiation applied to its own outputs (values of pairings fed back in)
    fb = [(c, impl) for (c, x), (impl, _) in zip(els, res) if c in ("random", "norm-one-over-Fq6", "single-slot-1", "sparse-014") and impl.count(",") == 11][:3 if not thorough else 12]
    for (c, v), (impl, _) in zip(fb, ck.run([("fe/applied-twice", "finalexp %s" % v) for (_, v) in fb])):
        want = O.show_f12(O.f12_pow(O.parse_f12(v), O.FINAL_EXP))
        ck.expect(impl == want, "fe=pow", "finalexp(finalexp(%s))" % c, impl[:60], want[:60], "f^(3(q^12-1)/r) on a value of the final exponentiation")
    # outputs of Miller loops
    g1, g2 = grp("g1"), grp("g2")
    (mres, _), = ck.run([("miller-output", "miller %s %s" % (g1.A(g1.gen), g2.A(g2.sub_pt(rng))))])
    if mres.count(",") == 11:
        (impl, _), = ck.run([("fe/miller-output", "finalexp %s" % mres)])
        ck.expect(impl == O.show_f12(O.f12_pow(O.parse_f12(mres), O.FINAL_EXP)), "fe=pow", "finalexp(miller)", impl, "pow", "f^(3(q^12-1)/r) on a Miller output")


# ====================================================================== C04 / C05 / C19 / C07 (bytes, membership)

def _enc_classes(g, rng, thorough):
    """(class, bytes, compressed) byte strings for the decoders"""
    K, C = g.K, g.C
    sz = 48 if K is F1 else 96
    out = []
    pts = [("identity", None), ("generator", g.gen)] + [("subgroup", g.sub_pt(rng)) for _ in range(3 if not thorough else 10)]
    pts += header_byte_points(g)
    low = [("order-%d" % l, g.low(l, rng)) for l in g.small] + [("full-curve", g.full(rng)) for _ in range(2)]
    low.append(("low+subgroup", C.add(g.low(g.small[0], rng), g.sub_pt(rng))))
    for comp in (True, False):
        ln = sz if comp else 2 * sz
        for (cl, P) in pts + low:
            bs = O.encode(K, P, comp)
            out.append(("valid-enc/" + cl, bs, comp))
            # every flag combination on the same body
            for fl in range(8):
                b2 = bytearray(bs); b2[0] = (b2[0] & 0x1f) | (fl << 5)
                out.append(("flags%d/%s" % (fl, cl), bytes(b2), comp))
            # other sort flag on same x (compressed), both roots
            if P is not None:
                out.append(("neg-point/" + cl, O.encode(K, C.neg(P), comp), comp))
            # single-bit corruptions
            nbits = 8 * ln
            positions = range(nbits) if (thorough and cl in ("generator", "identity")) else [rng.randrange(nbits) for _ in range(6)]
            for pos in positions:
                b2 = bytearray(bs); b2[pos // 8] ^= 1 << (7 - pos % 8)
                out.append(("bitflip/" + cl, bytes(b2), comp))
        # coordinate range: each Fq component set to q-1, q, q+1, 2^381-1, 2^384-1 (masked)
        ncomp = ln // 48
        for idx in range(ncomp):
            for (cv, v) in (("q-1", Q - 1), ("q", Q), ("q+1", Q + 1), ("2^381-1", 2 ** 381 - 1), ("0", 0)):
                body = bytearray(O.encode(K, g.gen, comp))
                body[48 * idx:48 * idx + 48] = v.to_bytes(48, "big")
                if idx == 0:
                    body[0] = (body[0] & 0x1f) | (0x80 if comp else 0)
                out.append(("coord%d=%s" % (idx, cv), bytes(body), comp))
        # precedence: several things wrong at once (flag errors must win over range errors, range over curve ...)
        for fl in range(8):
            for (bc, xv) in (("x>=q", Q + 5), ("x=2^381-1", 2 ** 381 - 1)):
                body = bytearray(O.encode(K, g.gen, comp))
                body[0:48] = xv.to_bytes(48, "big")
                body[0] = (body[0] & 0x1f) | (fl << 5)
                out.append(("precedence/flags%d+%s" % (fl, bc), bytes(body), comp))
            if not comp:
                body = bytearray(O.encode(K, g.gen, comp))
                body[sz:sz + 48] = (Q + 1).to_bytes(48, "big")          # y out of range
                body[0:48] = (Q + 1).to_bytes(48, "big")                # and x out of range: x reported
                body[0] = (body[0] & 0x1f) | (fl << 5)
                out.append(("precedence/flags%d+x,y>=q" % fl, bytes(body), comp))
                body = bytearray(O.encode(K, g.full(rng), comp))          # on curve, not in subgroup
                body[sz + 47 if K is F1 else 2 * sz - 1] ^= 1              # and off-curve: NotOnCurve wins
                out.append(("precedence/off-curve-and-not-subgroup", bytes(body), comp))
        # identity with garbage
        for pos in (0, 1, ln - 1):
            b2 = bytearray(O.encode(K, None, comp)); b2[pos] |= 1 if pos else 0x01
            out.append(("identity+garbage", bytes(b2), comp))
        # identity with garbage in SEVERAL bytes (a test of "all remaining bytes are zero" by an accumulated sum / xor /
        # or of the bytes can cancel): byte sums that are multiples of 256, xors that vanish, values above 255 in total
        for junk in ([(1, 0x80), (2, 0x80)], [(ln - 1, 0xff), (ln - 2, 0x01)], [(1, 0x40), (2, 0x40), (3, 0x40), (4, 0x40)], [(5, 0x55), (ln - 5, 0x55)],
                     [(i_, 0xff) for i_ in range(1, ln)], [(1, 0xff), (2, 0xff), (3, 0x02)], [(ln // 2, 0x80), (ln // 2 + 1, 0x7f), (ln - 1, 0x01)]):
            b2 = bytearray(O.encode(K, None, comp))
            for (pos, v) in junk:
                b2[pos] = v
            out.append(("identity+multi-byte-garbage", bytes(b2), comp))
            b3 = bytearray(b2); b3[0] |= 0x20                          # and with the sort flag
            out.append(("identity+multi-byte-garbage+sort-flag", bytes(b3), comp))
        # x with / without root: small x
        for xv in range(0, 12 if not thorough else 200):
            x = K.from_int(xv)
            b2 = bytearray(O.enc_f(K, x)) if comp else bytearray(O.enc_f(K, x) + O.enc_f(K, K.from_int(xv + 1)))
            if comp:
                b2[0] |= 0x80 | (0x20 if xv % 2 else 0)
            out.append(("small-x", bytes(b2), comp))
        for s_ in ([K.from_int(2), K.from_int(3)] + ([(1, 1), (0, 1)] if K is F2 else [])):
            Pt = scaled_off_curve(g, g.sub_pt(rng), s_)
            if not C.on_curve(Pt):
                out.append(("order-r-point-of-isomorphic-curve", O.encode(K, Pt, comp), comp))
        if K is F2:
            P1 = grp("g1").sub_pt(rng)
            out.append(("g1-point-embedded-in-fq2", O.encode(K, ((P1[0], 0), (P1[1], 0)), comp), comp))
        if K is F2:
            for (kind, P) in g2_special_y_points(rng, 6 if not thorough else 12):
                for Pt in (P, C.neg(P)):
                    out.append(("special-y/" + kind, O.encode(K, Pt, comp), comp))
        for _ in range(6 if not thorough else 60):
            out.append(("random-bytes", bytes(rng.randrange(256) for _ in range(ln)), comp))
            b2 = bytearray(rng.randrange(256) for _ in range(ln)); b2[0] = (b2[0] & 0x1f) | (0x80 if comp else 0)
            out.append(("random-body-good-flags", bytes(b2), comp))
    return out


def g2_special_y_points(rng, n=3):
    """points of E2 (not in the subgroup in general) whose y lies in Fq (c1 = 0) or is purely imaginary (c0 = 0):
    x = s + b u with 3 s^2 b - b^3 + 4 = 0 makes x^3 + 4(1+u) an element of Fq"""
    out = []
    tries = 0
    while len(out) < 2 * n and tries < 400:
        tries += 1
        b = rng.randrange(1, Q)
        s2 = (b * b * b - 4) * O.finv(3 * b % Q) % Q
        s_ = O.fsqrt(s2)
        if s_ is None:
            continue
        x = (s_, b)
        rhs = O.E2.rhs(x)
        if rhs[1] != 0:
            continue
        y = F2.sqrt(rhs)
        kind = "y-in-Fq" if y[1] == 0 else "y-purely-imaginary"
        if sum(1 for k, _ in out if k == kind) < n:
            out.append((kind, (x, y)))
    return out


def _show_dec(g, r):
    return g.A(r[1]) if r[0] == "ok" else "ERR:" + r[1]


def check_C04(ck):
    rng = ck.rng
    for tag in ("g1", "g2"):
        g = grp(tag)
        cl = _enc_classes(g, rng, ck.tier == "thorough")
        cases, exp = [], []
        for (c, bs, comp) in cl:
            h = bs.hex()
            for chk in (True, False):
                op = ("dec_c" if comp else "dec_u") + ("" if chk else "u")
                cases.append(("%s/%s" % (op, c), "%s %s %s" % (tag, op, h)))
                exp.append(_show_dec(g, O.decode(g.C, None, bs, comp, chk)))
        res = ck.run(cases)
        for c, (impl, _), want in zip(cases, res, exp):
            ck.expect(impl == want, "decode:" + c[0].split("/")[0], c[1], impl, want, "ZCash decoding spec (python oracle), first failed validation")


def check_C05(ck):
    rng = ck.rng
    thorough = ck.tier == "thorough"
    for tag in ("g1", "g2"):
        g = grp(tag)
        K, C = g.K, g.C
        pts = [("identity", None), ("generator", g.gen)] + [("subgroup", g.sub_pt(rng)) for _ in range(8 if not thorough else 60)]
        # small-x points (leading zero bytes) in the subgroup are rare; use cofactor-cleared lifts of small x for variety of y order
        for _ in range(4):
            P = g.sub_pt(rng)
            pts.append(("neg-of-subgroup", C.neg(P)))
        cases, exp = [], []
        if K is F2:
            for (kind, P) in g2_special_y_points(rng, 6):
                for Pt in (P, C.neg(P)):
                    cases.append(("enc/special-y/" + kind, "%s enc_c %s" % (tag, g.A(Pt)))); exp.append(O.encode(K, Pt, True).hex())
                    cases.append(("dec-unchecked/special-y/" + kind, "%s dec_cu %s" % (tag, O.encode(K, Pt, True).hex()))); exp.append(g.A(Pt))
        for (c, P) in pts:
            for comp in (True, False):
                want = O.encode(K, P, comp).hex()
                cases.append(("enc/" + c, "%s %s %s" % (tag, "enc_c" if comp else "enc_u", g.A(P)))); exp.append(want)
                cases.append(("roundtrip/" + c, "%s %s %s" % (tag, "dec_c" if comp else "dec_u", want))); exp.append(g.A(P))
                cases.append(("ser_jac/" + c, "%s ser_jac %s %d" % (tag, g.J(P, g.lam(rng)), 1 if comp else 0))); exp.append(want)
                if c in ("generator", "subgroup") and P is not None:
                    for (rc, lam) in rep_lams(g, rng):
                        cases.append(("ser_jac/" + rc, "%s ser_jac %s %d" % (tag, g.J(P, lam), 1 if comp else 0))); exp.append(want)
                cases.append(("into_(un)compressed/" + c, "%s %s %s" % (tag, "intocomp" if comp else "intouncomp", g.A(P)))); exp.append(want)
        for comp in (True, False):
            for _ in range(3):
                cases.append(("ser_jac/identity-with-junk-coordinates", "%s ser_jac %s %d" % (tag, junk_identity(g, rng), 1 if comp else 0))); exp.append(O.encode(K, None, comp).hex())
        res = ck.run(cases)
        for c, (impl, _), want in zip(cases, res, exp):
            ck.expect(impl == want, "zcash:" + c[0].split("/")[0], c[1], impl, want, "byte-for-byte ZCash format / round trip")
        # reverse direction: whatever the IMPLEMENTATION accepts must re-encode to exactly the same bytes
        cl = _enc_classes(g, rng, False)
        dcs = [("accepts?/" + c, "%s %s %s" % (tag, "dec_c" if comp else "dec_u", bs.hex())) for (c, bs, comp) in cl]
        acc = []
        for (c, bs, comp), d, (impl, _) in zip(cl, dcs, ck.run(dcs)):
            if not impl.startswith("ERR") and impl not in ("PANIC", "BAD-CASE"):
                acc.append((bs, comp, impl))
        c2 = [("re-encode", "%s %s %s" % (tag, "enc_c" if comp else "enc_u", pt)) for (bs, comp, pt) in acc]
        for (bs, comp, pt), c, (impl, _) in zip(acc, c2, ck.run(c2)):
            ck.expect(impl == bs.hex(), "canonical", "%s decodes to %s" % (bs.hex()[:40] + "...", pt[:40]), impl[:80], bs.hex()[:80], "decode(bs)=P => encode(P)=bs (only accepted preimage)")


def header_byte_points(g, n=400):
    """subgroup points k*G whose encodings have boundary HEADER bytes: leading coordinate < 2^376 (top byte 0, so the
    first byte consists of the flag bits only: 0x80 / 0xa0 compressed, 0x00 uncompressed), for both values of the sort
    flag; and leading coordinate with the maximal top byte 0x1a / 0x19.  Found by walking through multiples of the generator."""
    key = "hdr"
    if key in g._cache:
        return g._cache[key]
    K, C = g.K, g.C
    want = {}
    P = None
    for k in range(1, n + 1):
        P = C.add(P, g.gen)
        if P is None:
            continue
        lead = P[0] if K is F1 else P[0][1]
        top = lead >> 376
        yneg = K.neg(P[1])
        big = K.lt(yneg, P[1])
        cls = None
        if top == 0:
            cls = "header-flags-only/sort=%d" % (1 if big else 0)
        elif top >= 0x19:
            cls = "header-max-top-byte/sort=%d" % (1 if big else 0)
        if cls and cls not in want:
            want[cls] = P
        if len(want) == 4:
            break
    g._cache[key] = sorted(want.items())
    return g._cache[key]


def check_C19(ck):
    rng = ck.rng
    thorough = ck.tier == "thorough"
    cases, exp = [], []
    # Fr
    for v in [0, 1, R - 1, rng.randrange(R), rng.randrange(R)]:
        bs = v.to_bytes(32, "big")
        cases.append(("fr/ser", "ser_fr %x" % v)); exp.append(bs.hex())
        tail = bytes(rng.randrange(256) for _ in range(rng.randrange(0, 5)))
        cases.append(("fr/deser+tail", "deser_fr %s" % (bs + tail).hex())); exp.append("%x 32" % v)
        cases.append(("fr/chunked-reader", "deser_fr_ch %s %x" % ((bs + tail).hex(), rng.choice([1, 3, 7, 31])))); exp.append("%x 32" % v)
    for v in [R, R + 1, 2 ** 256 - 1]:
        cases.append(("fr/non-reduced", "deser_fr %s" % v.to_bytes(32, "big").hex())); exp.append("ERR:notInField")
    for ln in (list(range(0, 32)) if thorough else [0, 1, 8, 31]):
        cases.append(("fr/truncated", "deser_fr %s" % (bytes(ln).hex() or "-"))); exp.append("ERR:eof")
    # Fq12
    for _ in range(2 if not thorough else 8):
        x = [rng.randrange(Q) for _ in range(12)]
        bs = b"".join(c.to_bytes(48, "big") for c in x)
        sx = ",".join("%x" % c for c in x)
        cases.append(("fq12/ser", "ser_fq12 %s" % sx)); exp.append(bs.hex())
        cases.append(("fq12/deser+tail", "deser_fq12 %s" % (bs + b"\x01\x02").hex())); exp.append("%s 576" % sx)
        cases.append(("fq12/chunked-reader", "deser_fq12_ch %s %x" % ((bs + b"\x01\x02").hex(), rng.choice([1, 5, 47, 49, 100])))); exp.append("%s 576" % sx)
        for ln in ([0, 47, 48, 100, 575] if not thorough else list(range(0, 576, 7)) + [575]):
            cases.append(("fq12/truncated", "deser_fq12 %s" % (bs[:ln].hex() or "-"))); exp.append("ERR:eof")
        for k in range(12):
            bad = bytearray(bs); bad[48 * k:48 * k + 48] = (Q + rng.randrange(3)).to_bytes(48, "big")
            cases.append(("fq12/non-reduced-coeff%d" % k, "deser_fq12 %s" % bytes(bad).hex())); exp.append("ERR:notInField")
            ok_ = bytearray(bs); ok_[48 * k:48 * k + 48] = (Q - 1).to_bytes(48, "big")
            xs = list(x); xs[k] = Q - 1
            cases.append(("fq12/max-coeff%d" % k, "deser_fq12 %s" % bytes(ok_).hex())); exp.append("%s 576" % ",".join("%x" % c for c in xs))
    for tag in ("g1", "g2"):
        g = grp(tag)
        K, C = g.K, g.C
        sz = 48 if K is F1 else 96
        pts = [None, g.gen, g.sub_pt(rng), g.sub_pt(rng)] + [P for (_, P) in header_byte_points(g)]
        for P in pts:
            for comp in (True, False):
                bs = O.encode(K, P, comp)
                fl = 1 if comp else 0
                for kind in ("aff", "jac"):
                    arg = g.A(P) if kind == "aff" else g.J(P, g.lam(rng))
                    cases.append(("%s/ser_%s" % (tag, kind), "%s ser_%s %s %d" % (tag, kind, arg, fl))); exp.append(bs.hex())
                    tail = bytes(rng.randrange(256) for _ in range(rng.randrange(0, 4)))
                    cases.append(("%s/deser_%s+tail" % (tag, kind), "%s deser_%s %s %d" % (tag, kind, (bs + tail).hex(), fl))); exp.append("%s %d" % (g.A(P), len(bs)))
                    cases.append(("%s/flag-mismatch" % tag, "%s deser_%s %s %d" % (tag, kind, (bs + bytes(2 * sz)).hex(), 1 - fl))); exp.append("ERR:compressness")
                    for ch in (1, sz - 1, sz + 1):
                        cases.append(("%s/chunked-reader" % tag, "%s deser_%s_ch %s %d %x" % (tag, kind, (bs + tail).hex(), fl, ch))); exp.append("%s %d" % (g.A(P), len(bs)))
                lens = range(0, len(bs)) if thorough else [0, 1, sz - 1, sz, len(bs) - 1]
                for ln in lens:
                    if ln >= len(bs):
                        continue
                    cases.append(("%s/truncated" % tag, "%s deser_aff %s %d" % (tag, bs[:ln].hex() or "-", fl))); exp.append("ERR:eof")
        for comp in (True, False):
            cases.append(("%s/ser_jac-junk-identity" % tag, "%s ser_jac %s %d" % (tag, junk_identity(g, rng), 1 if comp else 0))); exp.append(O.encode(K, None, comp).hex())
        # every rejected class of C04 -> error (never a value)
        for (c, bs, comp) in _enc_classes(g, rng, False)[:: (5 if not thorough else 1)]:
            r = O.decode(C, None, bs, comp, True)
            fl = 1 if comp else 0
            if bool(bs[0] & 0x80) != comp:
                want = "ERR:compressness"
            elif r[0] == "ok":
                want = "%s %d" % (g.A(r[1]), len(bs))
            else:
                want = "ERR:decode:" + r[1]
            cases.append(("%s/c04-class" % tag, "%s deser_aff %s %d" % (tag, bs.hex(), fl))); exp.append(want)
    res = ck.run(cases)
    for c, (impl, _), want in zip(cases, res, exp):
        ck.expect(impl == want, "serdes:" + c[0], c[1], impl, want, "round trip / exact consumption / error")


def check_C07(ck):
    rng = ck.rng
    thorough = ck.tier == "thorough"
    for tag in ("g1", "g2"):
        g = grp(tag)
        K, C = g.K, g.C
        cases, exp = [], []
        pts = [("identity", None), ("generator", g.gen)] + [("subgroup", g.sub_pt(rng)) for _ in range(4)]
        pts += [("order-%d" % l, g.low(l, rng)) for l in g.small] + [("full-curve", g.full(rng)) for _ in range(3)]
        pts.append(("low+subgroup", C.add(g.low(g.small[0], rng), g.sub_pt(rng))))
        for (c, P) in pts:
            cases.append(("insub/" + c, "%s insub %s" % (tag, g.A(P)))); exp.append("true" if C.mul(P, R) is None else "false")
        # off-curve pairs and twist points (y^2 = x^3 + b' with another b')
        for _ in range(6):
            x, y = K.rand(rng), K.rand(rng)
            cases.append(("insub/off-curve", "%s insub %s" % (tag, g.A((x, y))))); exp.append("true" if (C.on_curve((x, y)) and C.mul((x, y), R) is None) else "false")
        twist = O.Curve(K, K.zero, K.add(C.b, K.one))
        for _ in range(4):
            T = twist.random_point(rng)
            cases.append(("insub/other-curve", "%s insub %s" % (tag, g.A(T)))); exp.append("false")
        for s_ in ([K.from_int(2), K.from_int(3), K.from_int(5)] + ([(1, 1), (0, 1)] if K is F2 else [])):
            T = scaled_off_curve(g, g.sub_pt(rng), s_)
            if not C.on_curve(T):
                cases.append(("insub/order-r-point-of-isomorphic-curve", "%s insub %s" % (tag, g.A(T)))); exp.append("false")
        if tag == "g2":
            g1g = grp("g1")
            for _ in range(4):
                P1 = g1g.sub_pt(rng)             # order r on y^2 = x^3 + 4, read as a pair over Fq2: not on E2
                T = ((P1[0], 0), (P1[1], 0))
                cases.append(("insub/order-r-point-of-a-twist", "%s insub %s" % (tag, g.A(T)))); exp.append("false")
                cases.append(("oncurve/order-r-point-of-a-twist", "%s oncurve %s" % (tag, g.A(T)))); exp.append("false")
        res = ck.run(cases)
        for c, (impl, _), want in zip(cases, res, exp):
            ck.expect(impl == want, "predicate", c[1], impl, want, "in_subgroup <=> identity or (on curve and [r]P = O)")
        # safe API outputs are members: monitor on results of operations
        outs = []
        outs.append(("generator", "%s generator" % tag))
        # every binary group operation (projective and mixed) on every combination of identity / member operands, the
        # identity in several representations: O - O, O + O, P - O, O - P ... must come out as members (or the identity)
        Pm = g.sub_pt(rng)
        for op in ("add", "sub"):
            for a_ in (g.J(None), junk_identity(g, rng), g.J(Pm, g.lam(rng))):
                for b_ in (g.J(None), junk_identity(g, rng), g.J(Pm), g.J(C.neg(Pm), g.lam(rng))):
                    outs.append(("identity-operands/" + op, "%s %s %s %s" % (tag, op, a_, b_)))
        for op in ("addm", "subm"):
            for a_ in (g.J(None), junk_identity(g, rng), g.J(Pm, g.lam(rng))):
                for b_ in (g.A(None), g.A(Pm), g.A(C.neg(Pm))):
                    outs.append(("identity-operands/" + op, "%s %s %s %s" % (tag, op, a_, b_)))
        for _ in range(3):
            outs.append(("scale_by_cofactor", "%s scalecof %s" % (tag, g.A(g.full(rng)))))
            outs.append(("clear_h", "%s clearh %s" % (tag, g.J(g.full(rng), g.lam(rng)))))
            outs.append(("map", "%s map %s" % (tag, K.show(K.rand(rng)))))
            u0, u1 = K.rand(rng), K.rand(rng)
            outs.append(("map2", "%s map2 %s %s" % (tag, K.show(u0), K.show(u1))))
            outs.append(("h2c", "h2c %s xmd256 ro %s 51" % (tag, bytes(rng.randrange(256) for _ in range(5)).hex())))
            outs.append(("mul", "%s mul %s %x" % (tag, g.J(g.sub_pt(rng), g.lam(rng)), rng.randrange(1 << 256))))
            outs.append(("add", "%s add %s %s" % (tag, g.J(g.sub_pt(rng), g.lam(rng)), g.J(g.sub_pt(rng), g.lam(rng)))))
        # every decoding / deserialization route hands out members only: points of the curve outside the subgroup and pairs off
        # the curve, in both encodings, through EncodedPoint::into_affine and the four SerDes impls (affine / projective)
        bad_pts = [("low-order", g.low(g.small[0], rng)), ("full-curve", g.full(rng)), ("low+subgroup", C.add(g.low(g.small[-1], rng), g.sub_pt(rng)))]
        xo = K.rand(rng)
        bad_pts.append(("off-curve", (xo, K.rand(rng))))
        dcases = []
        for (cl, Pb) in bad_pts:
            for comp in (True, False):
                if cl == "off-curve" and comp:
                    continue
                bs = O.encode(K, Pb, comp).hex()
                fl = 1 if comp else 0
                dcases.append(("decode-route/%s/%s" % (cl, "c" if comp else "u"), "%s %s %s" % (tag, "dec_c" if comp else "dec_u", bs)))
                for kind in ("aff", "jac"):
                    dcases.append(("deser-route/%s/%s/%s" % (cl, kind, "c" if comp else "u"), "%s deser_%s %s %d" % (tag, kind, bs, fl)))
                    dcases.append(("deser-route-chunked/%s/%s/%s" % (cl, kind, "c" if comp else "u"), "%s deser_%s_ch %s %d %x" % (tag, kind, bs, fl, 7)))
        for c, (impl, _) in zip(dcases, ck.run(dcases)):
            ck.expect(impl.startswith("ERR"), "invariant:decoders-hand-out-members-only", c[1][:120], impl[:80], "ERR:*", "a point outside the subgroup / off the curve is rejected by every decoding route")
        # precomputed tables (3 and 256 entries) of the identity and of subgroup points consist of members; table multiplication
        for (cl, Pt) in (("identity", None), ("subgroup", g.sub_pt(rng))):
            for op in ("pre3", "pre256"):
                (impl_, _), = ck.run([("table-entries/%s/%s" % (op, cl), "%s %s %s" % (tag, op, g.A(Pt)))])
                okt = impl_ not in ("PANIC", "BAD-CASE", "-")
                if okt:
                    for ent in impl_.split(";"):
                        try:
                            Pe = g.pa(ent)
                            okt = okt and C.on_curve(Pe) and C.mul(Pe, R) is None
                        except Exception:
                            okt = False
                ck.expect(okt, "invariant:table-entries", "%s %s %s" % (tag, op, g.A(Pt)), impl_[:80], "members", "every table entry is a subgroup member (identity entries stay the identity)")
            for k_ in (1, (1 << 64) | 5, (1 << 200) | (1 << 130) | 3, rng.randrange(1 << 256)):
                outs.append(("mul_precomp_3/%s" % cl, "%s mulpre3 %s %x" % (tag, g.A(Pt), k_)))
                outs.append(("mul_precomp_256/%s" % cl, "%s mulpre256 %s %x" % (tag, g.A(Pt), k_)))
        # multi-scalar multiplication with the identity among the inputs (first, last, alone in its bucket), every small window
        Sa, Sb = g.sub_pt(rng), g.sub_pt(rng)
        for ps in ([None, Sa], [Sa, None], [None, Sa, Sb], [None, None, Sa], [None]):
            ks = [rng.randrange(1, 1 << 255) for _ in ps]
            pl = ";".join(g.A(P_) for P_ in ps); kl = ";".join("%x" % k_ for k_ in ks)
            outs.append(("sum_of_products/with-identity", "%s sop %s %s" % (tag, pl, kl)))
            outs.append(("sum_of_products_precomp/with-identity", "%s soppre %s %s" % (tag, pl, kl)))
            for w_ in ((1, 2, 3, 5, 7) if not thorough else range(1, 9)):
                outs.append(("pippenger/with-identity/w%d" % w_, "%s pip %x %s %s" % (tag, w_, pl, kl)))
        # map2_to_curve on input pairs whose SSWU images coincide or cancel (the sum needs the doubling / inverse case)
        us7 = [K.zero, K.one] + [K.rand(rng) for _ in range(4 if not thorough else 16)]
        if tag == "g1":
            s7 = O.fsqrt((-O.finv(O.SSWU_Z1)) % Q)
            if s7 is not None:
                us7 += [s7, (-s7) % Q]
                outs += [("map2/zero-and-exceptional", "%s map2 %s %s" % (tag, K.show(0), K.show(e_))) for e_ in (s7, (-s7) % Q)]
        for (cl, (u0, u1)) in map_input_pairs(g, tag, us7, rng):
            if cl != "random":
                outs.append(("map2/" + cl, "%s map2 %s %s" % (tag, K.show(u0), K.show(u1))))
        rnd = [("random", "%s random %x" % (tag, rng.randrange(1 << 128))) for _ in range(4)]
        for c, (impl, _) in zip(rnd, ck.run(rnd, gate=False)):
            try:
                P = g.pa(impl)
                ok = P is not None and C.on_curve(P) and C.mul(P, R) is None
            except Exception:
                ok = False
            ck.expect(ok, "invariant:random", c[1], impl, "non-identity subgroup point", "random() returns a subgroup member")
        # CurveProjective::random on a replayed word stream, real code vs model (`Jac.randomSpec`): rejected abscissae, the
        # abscissa 0 (on E1 the point (0, 2) of order 3, which the cofactor kills: retry), rejected Fq candidates, both signs
        rnd2 = [("random/replayed-stream", "%s rnd %s" % (tag, ",".join("%x" % rng.randrange(1 << 64) for _ in range(n_))))
                for n_ in ((1, 7, 13, 20, 40) if not thorough else tuple(range(1, 60)))]
        rnd2.append(("random/abscissa-zero-first", "%s rnd %s" % (tag, ",".join(["0"] * (7 if tag == "g1" else 13)))))
        rnd2.append(("random/rejected-field-candidates", "%s rnd %s" % (tag, ",".join(["ffffffffffffffff"] * 20))))
        rnd2.append(("random/sign-bit", "%s rnd %s" % (tag, ",".join(["5"] * 6 + ["100000001"] + ["5"] * 6 + ["100000000"]))))
        for c, (impl, _) in zip(rnd2, ck.run(rnd2)):
            try:
                P = g.pa(impl.split(" ")[0])
                ok = P is not None and C.on_curve(P) and C.mul(P, R) is None
            except Exception:
                ok = False
            ck.expect(ok, "invariant:random", c[1], impl, "non-identity subgroup point", "random() returns a subgroup member")
        zc = ck.run([("zero", "%s jaczero" % tag), ("zero", "%s affzero" % tag), ("zero", "%s jaciszero %s" % (tag, g.J(None))), ("zero", "%s affiszero inf" % tag)])
        ck.expect(zc[1][0] == "inf" and zc[2][0] == "true" and zc[3][0] == "true", "identity-constructors", "zero()", str([z[0] for z in zc]), "identity", "zero() is the identity")
        # batch normalisation of valid points (with identity entries produced in several ways) keeps the invariant
        S1, S2 = g.sub_pt(rng), g.sub_pt(rng)
        for lst in ([g.J(None), g.J(S1, g.lam(rng))], [g.J(S1, g.lam(rng)), g.J(None), g.J(S2)], [g.J(None)], [g.J(S1), g.J(None), g.J(None), g.J(S2, g.lam(rng))]):
            line = "%s batch %s" % (tag, ";".join(lst))
            (impl, _), = ck.run([("batch-with-identity", line)])
            ok = impl not in ("PANIC", "BAD-CASE", "-")
            if ok:
                for o in impl.split(";"):
                    x, y, z = [O.parse_f(K, t) for t in o.split("/")]
                    if K.is_zero(z):
                        continue
                    zi = K.inv(z); zi2 = K.mul(zi, zi)
                    Pt = (K.mul(x, zi2), K.mul(y, K.mul(zi2, zi)))
                    ok = ok and C.on_curve(Pt) and C.mul(Pt, R) is None
            ck.expect(ok, "invariant:batch_normalization", line, impl[:100], "members", "batch normalisation output stays in the subgroup (identity entries stay the identity)")
        ores = ck.run(outs)
        for c, (impl, _) in zip(outs, ores):
            try:
                P = g.pa(impl)
                ok = C.on_curve(P) and C.mul(P, R) is None
            except Exception:
                ok = False
            ck.expect(ok, "invariant:" + c[0], c[1], impl, "on curve and [r]P=O", "safe API output is a subgroup member")


# ====================================================================== C08 / C09 / C18 (fields)

def _fq_specials(p, rng, n_rand=4):
    W = 1 << (384 if p == Q else 256)
    Rm = W % p
    Ri = pow(W, -1, p)
    vals = [0, 1, 2, 3, p - 1, p - 2, (p - 1) // 2, (p + 1) // 2, Rm, (Rm - 1) % p, Rm * Rm % p,
            Ri, 2 * Ri % p, ((1 << 64) - 1) * Ri % p, (1 << 64) * Ri % p, (p - 1) * Ri % p, Ri * Ri % p]     # raw Montgomery limbs 1, 2, 2^64-1, 2^64, p-1
    nb = p.bit_length()
    for k in range(63, nb, 64):
        for d in (-1, 0, 1):
            vals.append(((1 << k) + d) % p)
            vals.append(((1 << (k + 1)) + d) % p)
    vals.append((1 << 64) - 1)
    vals.append(((1 << 128) - 1) << 64)
    vals += [rng.randrange(p) for _ in range(n_rand)]
    return sorted(set(v % p for v in vals))


def check_C08(ck):
    rng = ck.rng
    thorough = ck.tier == "thorough"
    cases, exp = [], []
    for (f, p, nl) in (("fq", Q, 6), ("fr", R, 4)):
        sp = _fq_specials(p, rng, 4 if not thorough else 30)
        W = 1 << (64 * nl)
        pairs = [(a, b) for a in sp for b in (sp if thorough else sp[::3] + [a, (p - a) % p])]
        for (a, b) in pairs:
            for op, want in (("add", (a + b) % p), ("sub", (a - b) % p), ("mul", a * b % p)):
                cases.append(("%s/%s" % (f, op), "%s %s %x %x" % (f, op, a, b))); exp.append("%x" % want)
            cases.append(("%s/lt" % f, "%s lt %x %x" % (f, a, b))); exp.append("true" if a < b else "false")
            cases.append(("%s/eq" % f, "%s eq %x %x" % (f, a, b))); exp.append("true" if a == b else "false")
            # Montgomery level on raw (reduced) representations: compared impl vs model only
            cases.append(("m%s/raw" % f, "m%s add %x %x" % (f, a, b))); exp.append(None)
            cases.append(("m%s/raw" % f, "m%s sub %x %x" % (f, a, b))); exp.append(None)
            cases.append(("m%s/raw" % f, "m%s mul %x %x" % (f, a, b))); exp.append(None)
            # limb-level program extracted from the macro-expanded source (also on NON-reduced raw values)
            cases.append(("l%s/limb-program" % f, "l%s mul %x %x" % (f, a, b))); exp.append("%x" % (a * b * pow(W, p - 2, p) % p))
        for _ in range(20 if not thorough else 300):
            a, b = rng.randrange(W), rng.randrange(W)
            cases.append(("l%s/limb-program-unreduced" % f, "l%s mul %x %x" % (f, a, b))); exp.append(None)
            cases.append(("l%s/limb-program-unreduced" % f, "l%s sq %x" % (f, a))); exp.append(None)
        for a in sp:
            cases.append(("l%s/limb-program" % f, "l%s sq %x" % (f, a))); exp.append("%x" % (a * a * pow(W, p - 2, p) % p))
            for op, want in (("neg", (-a) % p), ("dbl", 2 * a % p), ("sq", a * a % p)):
                cases.append(("%s/%s" % (f, op), "%s %s %x" % (f, op, a))); exp.append("%x" % want)
            cases.append(("%s/inv" % f, "%s inv %x" % (f, a))); exp.append("none" if a == 0 else "%x" % pow(a, p - 2, p))
            cases.append(("%s/iszero" % f, "%s iszero %x" % (f, a))); exp.append("true" if a == 0 else "false")
            for op in ("neg", "dbl", "sq", "inv", "intorepr"):
                cases.append(("m%s/raw" % f, "m%s %s %x" % (f, op, a))); exp.append(None)
            cases.append(("m%s/intorepr" % f, "m%s intorepr %x" % (f, a))); exp.append("%x" % (a * pow(W, p - 2, p) % p))
        cases.append(("m%s/one" % f, "m%s one" % f)); exp.append("%x" % (W % p))
        # from_repr: values below / at / above the modulus, maximal representation
        for x in [0, 1, p - 1, p, p + 1, W - 1, W - p, (1 << (p.bit_length())) - 1, rng.randrange(W), rng.randrange(p)]:
            cases.append(("%s/fromrepr" % f, "%s fromrepr %x" % (f, x))); exp.append("%x" % x if x < p else "ERR:NotInField")
            cases.append(("m%s/fromrepr" % f, "m%s fromrepr %x" % (f, x))); exp.append("%x" % (x * W % p) if x < p else "none")
        # exponents of 0..12 limbs, zero limbs on top
        for a in sp[:: (4 if not thorough else 1)][:12]:
            for nlimbs in (0, 1, 2, 4, 6, 7, 12):
                ls = [rng.randrange(1 << 64) for _ in range(nlimbs)]
                if nlimbs >= 2 and rng.randrange(2):
                    ls[-1] = 0
                if nlimbs >= 1 and rng.randrange(3) == 0:
                    ls = [0] * nlimbs
                e = sum(l << (64 * i) for i, l in enumerate(ls))
                cases.append(("%s/pow%d" % (f, nlimbs), "%s pow %x %s" % (f, a, ";".join("%x" % l for l in ls) or "-"))); exp.append("%x" % pow(a, e, p))
                cases.append(("m%s/pow" % f, "m%s pow %x %s" % (f, a * W % p, " ".join("%x" % l for l in ls)))); exp.append("%x" % (pow(a, e, p) * W % p))
        # representation type
        vals = [0, 1, W - 1, W >> 1, (W >> 1) - 1, p, (1 << 64) - 1, 1 << 64, (1 << 64) + 1] + [rng.randrange(W) for _ in range(4 if not thorough else 20)]
        for a in vals:
            for b in vals[:6] + [rng.randrange(W)]:
                if a + b < W:
                    cases.append(("repr%d/add_nocarry" % nl, "repr %d add_nocarry %x %x" % (nl, a, b))); exp.append("%x" % (a + b))
                if b <= a:
                    cases.append(("repr%d/sub_noborrow" % nl, "repr %d sub_noborrow %x %x" % (nl, a, b))); exp.append("%x" % (a - b))
                cases.append(("repr%d/cmp" % nl, "repr %d cmp %x %x" % (nl, a, b))); exp.append(str((a > b) - (a < b)))
            for k in ([0, 1, 63, 64, 65, 127, 128, 64 * nl - 1, 64 * nl, 64 * nl + 1, 400] if not thorough else list(range(0, 401, 1))):
                cases.append(("repr%d/shr" % nl, "repr %d shr %x %x" % (nl, a, k))); exp.append("%x" % (a >> k))
                cases.append(("repr%d/shl" % nl, "repr %d shl %x %x" % (nl, a, k))); exp.append("%x" % ((a << k) % W))
            for ch in (1, 3, 7, 8, 8 * nl - 1, 8 * nl, 8 * nl + 1, 12 * nl, 1000):
                b2 = a.to_bytes(8 * nl, "big") + ((a * 7 + 1) % W).to_bytes(8 * nl, "big") + bytes([0xee] * 5)
                cases.append(("repr%d/read_be-twice-short-reads" % nl, "repr %d read_be2 %s %x" % (nl, b2.hex(), ch))); exp.append("%x %x %d" % (a, (a * 7 + 1) % W, 16 * nl))
            cases.append(("repr%d/div2" % nl, "repr %d div2 %x" % (nl, a))); exp.append("%x" % (a >> 1))
            cases.append(("repr%d/mul2" % nl, "repr %d mul2 %x" % (nl, a))); exp.append("%x" % ((a << 1) % W))
            cases.append(("repr%d/num_bits" % nl, "repr %d num_bits %x" % (nl, a))); exp.append(str(a.bit_length()))
            cases.append(("repr%d/is_odd" % nl, "repr %d is_odd %x" % (nl, a))); exp.append("true" if a & 1 else "false")
            cases.append(("repr%d/is_zero" % nl, "repr %d is_zero %x" % (nl, a))); exp.append("true" if a == 0 else "false")
        cases.append(("repr%d/from_u64" % nl, "repr %d from_u64 %x" % (nl, (1 << 64) - 1))); exp.append("%x" % ((1 << 64) - 1))
        for a in vals[:10]:
            be = a.to_bytes(8 * nl, "big"); le = a.to_bytes(8 * nl, "little")
            cases.append(("repr%d/write_be" % nl, "repr %d write_be %x" % (nl, a))); exp.append(be.hex())
            cases.append(("repr%d/write_le" % nl, "repr %d write_le %x" % (nl, a))); exp.append(le.hex())
            cases.append(("repr%d/read_be" % nl, "repr %d read_be %s" % (nl, (be + b"\x07").hex()))); exp.append("%x" % a)
            cases.append(("repr%d/read_le" % nl, "repr %d read_le %s" % (nl, le.hex()))); exp.append("%x" % a)
        cases.append(("repr%d/read_be-short" % nl, "repr %d read_be %s" % (nl, bytes(8 * nl - 1).hex()))); exp.append("ERR:eof")
        # Field::random on a replayed word stream (rejection sampling): candidates below / at / above the modulus, junk in the
        # shaved top bits, several rejected candidates before an accepted one, stream exhausted (zeros follow)
        def _rnd_spec(words):
            pos, calls = 0, 0
            nbits = p.bit_length()
            while True:
                ws = [(words[pos + i] if pos + i < len(words) else calls + i + 1) for i in range(nl)]
                pos += nl; calls += nl
                c = sum(w << (64 * i) for i, w in enumerate(ws)) & ((1 << nbits) - 1)
                if c < p:
                    return "%x %d" % (c, calls)
        def _words(v): return [(v >> (64 * i)) & ((1 << 64) - 1) for i in range(nl)]
        M64 = (1 << 64) - 1
        streams = []
        for v in (0, 1, p - 1, p, p + 1, (1 << p.bit_length()) - 1, rng.randrange(p), rng.randrange(W)):
            for junk in (0, 1, 2, 7 if p == Q else 1):
                streams.append(("candidate-at-boundary", _words((v % (1 << p.bit_length())) | (junk << p.bit_length()) if (junk << p.bit_length()) < W else v)))
        streams.append(("rejected-then-accepted", [M64] * nl + _words(p) + _words(p - 1) + [5]))
        streams.append(("rejected-then-accepted", [M64] * (3 * nl) + _words(rng.randrange(p))))
        streams.append(("stream-exhausted", [M64] * nl))
        streams.append(("stream-exhausted", [M64] * (nl + 2)))
        streams.append(("stream-exhausted", [3]))
        for _ in range(6 if not thorough else 200):
            streams.append(("random-stream", [rng.randrange(1 << 64) for _ in range(rng.randrange(1, 4 * nl))]))
        for cls, ws in streams:
            cases.append(("%s/random:%s" % (f, cls), "rnd %s %s" % (f, ",".join("%x" % w for w in ws)))); exp.append(_rnd_spec(ws))
        gen = 2 if p == Q else 7
        s2 = 1 if p == Q else 32
        cases.append(("%s/consts" % f, "consts %s" % f)); exp.append("%x %d %d %d %x %x" % (p, p.bit_length(), p.bit_length() - 1, s2, gen, pow(gen, (p - 1) >> s2, p)))
    res = ck.run(cases)
    for c, (impl, _), want in zip(cases, res, exp):
        if want is not None:
            ck.expect(impl == want, "mod-arith:" + c[0], c[1], impl, want, "integer arithmetic modulo q / r; 384-/256-bit unsigned integers")


def _f2s(a): return F2.show(a)


def mult_special_f12(rng, n=2):
    """Fq12 elements with special multiplicative structure (where a fast path for inversion, squaring or the easy part of
    the final exponentiation would apply): relative norm one over Fq6 (g/conj g), norm one over Fq2-in-Fq6-steps,
    r-th roots of unity (values of pairings), small-order roots of unity, elements of the cyclotomic subgroup"""
    out = []
    rnd = lambda: O.f12_unflat([rng.randrange(Q) for _ in range(12)])
    for _ in range(n):
        g = rnd()
        u = O.f12_mul(g, O.f12_inv(O.f12_conj(g)))                # N_{Fq12/Fq6}(u) = u * conj(u) = 1
        out.append(("norm-one-over-Fq6", u))
        out.append(("norm-one-inverse", O.f12_conj(u)))
        cyc = O.f12_mul(O.f12_pow(u, Q * Q), u)                    # easy part done: cyclotomic subgroup
        out.append(("cyclotomic", cyc))
        out.append(("rth-root-of-unity", O.f12_pow(g, O.FINAL_EXP)))
    omega = pow(2, (Q - 1) // 3, Q)                                # cube root of unity in Fq (2 is a cubic non-residue or gives 1)
    if omega == 1:
        omega = pow(3, (Q - 1) // 3, Q)
    out.append(("cube-root-of-unity", O.f12_unflat([omega] + [0] * 11)))
    out.append(("fourth-root-of-unity (u)", O.f12_unflat([0, 1] + [0] * 10)))
    # norm one inside Fq2 (a^2 + b^2 = 1), embedded
    a = F2.rand(rng)
    while F2.is_zero(a):
        a = F2.rand(rng)
    n1 = F2.mul(a, F2.inv((a[0], (-a[1]) % Q)))
    out.append(("norm-one-in-Fq2", O.f12_of_f2(n1)))
    return out


def mont_specials(p=Q, nlimbs=6):
    """field elements whose MONTGOMERY representation (a * 2^(64 nlimbs) mod p, the raw limbs the library stores) is a
    structured limb pattern: raw 1 (= R^-1, which a comparison of raw limbs with `Repr::from(1)` takes for the field's one),
    raw 2, a single top limb, all-ones limbs, raw p-1 ...  (limb_specials covers the canonical representation)"""
    Rinv = pow(1 << (64 * nlimbs), -1, p)
    raws = [1, 2, 3, (1 << 64) - 1, 1 << 64, (1 << 64) + 1, 1 << (64 * (nlimbs - 1)), ((1 << 64) - 1) << 64, p - 1, p - 2, (p - 1) // 2]
    return [(r * Rinv) % p for r in raws]


def related_coeff_f12(rng, with_zero=True):
    """Fq12 elements two of whose six Fq2 coefficients are EQUAL or OPPOSITE (each of the 15 pairs, both signs), alone and
    together with one more coefficient equal to zero: where a shortcut keyed on a sum / difference of coefficients
    vanishing (`c1 + c2 == 0`, `o.c2.is_zero()` after adding the halves) takes an operand for a sparse / scalar one"""
    out = []
    for i in range(6):
        for j in range(i + 1, 6):
            for sg in (1, -1):
                for k in ([None] + [k for k in range(6) if k not in (i, j)] if with_zero else [None]):
                    cs = [F2.rand(rng) for _ in range(6)]
                    cs[j] = cs[i] if sg == 1 else F2.neg(cs[i])
                    if k is not None:
                        cs[k] = (0, 0)
                    out.append(("c%d=%sc%d%s" % (j, "" if sg == 1 else "-", i, "" if k is None else ",c%d=0" % k), ((cs[0], cs[1], cs[2]), (cs[3], cs[4], cs[5]))))
    return out


def zero_pattern_f12(rng, patterns=None):
    """Fq12 elements for every zero/non-zero pattern of the six Fq2 coefficients (63 non-zero patterns)"""
    out = []
    for mask in (patterns if patterns is not None else range(1, 64)):
        cs = [F2.rand(rng) if (mask >> i) & 1 else (0, 0) for i in range(6)]
        out.append((mask, ((cs[0], cs[1], cs[2]), (cs[3], cs[4], cs[5]))))
    return out


def check_C09(ck):
    rng = ck.rng
    thorough = ck.tier == "thorough"
    cases, exp = [], []
    def r2(): return F2.rand(rng)
    def r6(): return (r2(), r2(), r2())
    def r12(): return (r6(), r6())
    sp2 = [(0, 0), (1, 0), (0, 1), (1, 1), (Q - 1, 0), (0, Q - 1), (rng.randrange(Q), 0), (0, rng.randrange(Q))] + [r2() for _ in range(4)]
    for a in sp2:
        for b in sp2[:: (1 if thorough else 2)]:
            cases.append(("fq2/mul", "fq2 mul %s %s" % (_f2s(a), _f2s(b)))); exp.append(_f2s(F2.mul(a, b)))
            cases.append(("fq2/add", "fq2 add %s %s" % (_f2s(a), _f2s(b)))); exp.append(_f2s(F2.add(a, b)))
            cases.append(("fq2/sub", "fq2 sub %s %s" % (_f2s(a), _f2s(b)))); exp.append(_f2s(F2.sub(a, b)))
        cases.append(("fq2/sq", "fq2 sq %s" % _f2s(a))); exp.append(_f2s(F2.mul(a, a)))
        cases.append(("fq2/dbl", "fq2 dbl %s" % _f2s(a))); exp.append(_f2s(F2.add(a, a)))
        cases.append(("fq2/neg", "fq2 neg %s" % _f2s(a))); exp.append(_f2s(F2.neg(a)))
        cases.append(("fq2/inv", "fq2 inv %s" % _f2s(a))); exp.append("none" if a == (0, 0) else _f2s(F2.inv(a)))
        cases.append(("fq2/nonres", "fq2 nonres %s" % _f2s(a))); exp.append(_f2s(F2.mul(a, O.XI)))
        cases.append(("fq2/norm", "fq2 norm %s" % _f2s(a))); exp.append("%x" % ((a[0] * a[0] + a[1] * a[1]) % Q))
        for k in (list(range(0, 8)) + [2 ** 32, 2 ** 64 - 1]) if a in sp2[-3:] or thorough else (0, 1, 2, 3):
            cases.append(("fq2/frob", "fq2 frob %s %x" % (_f2s(a), k))); exp.append(_f2s(F2.pow(a, Q ** (k % 2))))
    # cross product: every unary Fq2 operation on (s, 0), (0, s), (s, s), (s, s') for every structured value s
    # (canonical limb patterns and Montgomery-raw patterns), and every binary operation with a structured RIGHT and LEFT operand
    ls2 = limb_specials(rng, 1)
    gen2 = r2()
    for i_, s_ in enumerate(ls2):
        for a in ((s_, 0), (0, s_), (s_, s_), (s_, ls2[(i_ + 3) % len(ls2)])):
            for (op, fn) in (("sq", lambda x: F2.mul(x, x)), ("dbl", lambda x: F2.add(x, x)), ("neg", F2.neg), ("nonres", lambda x: F2.mul(x, O.XI))):
                cases.append(("fq2/structured/" + op, "fq2 %s %s" % (op, _f2s(a)))); exp.append(_f2s(fn(a)))
            cases.append(("fq2/structured/inv", "fq2 inv %s" % _f2s(a))); exp.append("none" if a == (0, 0) else _f2s(F2.inv(a)))
            cases.append(("fq2/structured/norm", "fq2 norm %s" % _f2s(a))); exp.append("%x" % ((a[0] * a[0] + a[1] * a[1]) % Q))
            for (op, fn) in (("mul", F2.mul), ("add", F2.add), ("sub", F2.sub)):
                cases.append(("fq2/structured/%s-right" % op, "fq2 %s %s %s" % (op, _f2s(gen2), _f2s(a)))); exp.append(_f2s(fn(gen2, a)))
                cases.append(("fq2/structured/%s-left" % op, "fq2 %s %s %s" % (op, _f2s(a), _f2s(gen2)))); exp.append(_f2s(fn(a, gen2)))
    e = rng.randrange(1, Q)
    sp2 += [(e, e), (e, (-e) % Q), (e, 0), (0, e)]
    sp6 = [O.F6_ZERO, O.F6_ONE, ((e, e), (e, e), (e, e)), ((e, 0), (e, 0), (e, 0)), ((0, 0), (0, 0), r2()), (r2(), r2(), (0, 0)), ((0, 0), (1, 0), (0, 0)), ((0, 0), (0, 0), (1, 0)), ((rng.randrange(Q), 0), (0, 0), (0, 0)), (r2(), (0, 0), (0, 0)), ((0, 0), r2(), (0, 0))] + [r6() for _ in range(3)]
    S6 = O.show_f6
    for a in sp6:
        for b in sp6[:: (1 if thorough else 2)]:
            cases.append(("fq6/mul", "fq6 mul %s %s" % (S6(a), S6(b)))); exp.append(S6(O.f6_mul(a, b)))
            cases.append(("fq6/add", "fq6 add %s %s" % (S6(a), S6(b)))); exp.append(S6(O.f6_add(a, b)))
            cases.append(("fq6/sub", "fq6 sub %s %s" % (S6(a), S6(b)))); exp.append(S6(O.f6_sub(a, b)))
        cases.append(("fq6/sq", "fq6 sq %s" % S6(a))); exp.append(S6(O.f6_mul(a, a)))
        cases.append(("fq6/neg", "fq6 neg %s" % S6(a))); exp.append(S6(O.f6_neg(a)))
        cases.append(("fq6/dbl", "fq6 dbl %s" % S6(a))); exp.append(S6(O.f6_add(a, a)))
        cases.append(("fq6/nonres", "fq6 nonres %s" % S6(a))); exp.append(S6(O.f6_mul_v(a)))
        c0, c1 = r2(), r2()
        cases.append(("fq6/mulby1", "fq6 mulby1 %s %s" % (S6(a), _f2s(c1)))); exp.append(S6(O.f6_mul(a, ((0, 0), c1, (0, 0)))))
        cases.append(("fq6/mulby01", "fq6 mulby01 %s %s %s" % (S6(a), _f2s(c0), _f2s(c1)))); exp.append(S6(O.f6_mul(a, (c0, c1, (0, 0)))))
        cases.append(("fq6/inv", "fq6 inv %s" % S6(a))); exp.append("none" if a == O.F6_ZERO else "?inv6")
        for k in ((0, 1, 2, 5, 6, 7) if a in sp6[-2:] else (1,)):
            cases.append(("fq6/frob", "fq6 frob %s %x" % (S6(a), k))); exp.append(S6(O.f6_pow(a, Q ** (k % 6))))
    w = (O.F6_ZERO, O.F6_ONE)
    ee = r6()
    sp12 = [O.F12_ZERO, O.F12_ONE, w, (ee, ee), (ee, O.f6_neg(ee)), ((r2(), (0, 0), (0, 0)), ((0, 0), r2(), (0, 0))), (sp6[2], O.F6_ZERO), (r6(), O.F6_ZERO), (O.F6_ZERO, r6())] + [r12() for _ in range(3)]
    S12 = O.show_f12
    def conj(a): return (a[0], O.f6_neg(a[1]))
    for a in sp12:
        for b in sp12[:: (1 if thorough else 3)]:
            cases.append(("fq12/mul", "fq12 mul %s %s" % (S12(a), S12(b)))); exp.append(S12(O.f12_mul(a, b)))
            cases.append(("fq12/add", "fq12 add %s %s" % (S12(a), S12(b)))); exp.append(S12((O.f6_add(a[0], b[0]), O.f6_add(a[1], b[1]))))
        cases.append(("fq12/sq", "fq12 sq %s" % S12(a))); exp.append(S12(O.f12_mul(a, a)))
        cases.append(("fq12/conj", "fq12 conj %s" % S12(a))); exp.append(S12(conj(a)))
        cases.append(("fq12/inv", "fq12 inv %s" % S12(a))); exp.append("none" if a == O.F12_ZERO else "?inv12")
        c0, c1, c4 = r2(), r2(), r2()
        sparse = ((c0, c1, (0, 0)), ((0, 0), c4, (0, 0)))
        cases.append(("fq12/mulby014", "fq12 mulby014 %s %s %s %s" % (S12(a), _f2s(c0), _f2s(c1), _f2s(c4)))); exp.append(S12(O.f12_mul(a, sparse)))
    gen12 = r12()
    gen6x = r6()
    for (cl_, a) in related_coeff_f12(rng):
        cases.append(("fq12/related-coefficients/mul", "fq12 mul %s %s" % (S12(a), S12(gen12)))); exp.append(S12(O.f12_mul(a, gen12)))
        cases.append(("fq12/related-coefficients/mul-rev", "fq12 mul %s %s" % (S12(gen12), S12(a)))); exp.append(S12(O.f12_mul(gen12, a)))
        if ",c" not in cl_:
            cases.append(("fq12/related-coefficients/sq", "fq12 sq %s" % S12(a))); exp.append(S12(O.f12_mul(a, a)))
            cases.append(("fq12/related-coefficients/inv", "fq12 inv %s" % S12(a))); exp.append("?inv12")
            for half in (0, 1):        # the same relations inside one Fq6 half, as Fq6 operands
                a6 = a[half]
                cases.append(("fq6/related-coefficients/mul", "fq6 mul %s %s" % (S6(gen6x), S6(a6)))); exp.append(S6(O.f6_mul(gen6x, a6)))
                cases.append(("fq6/related-coefficients/mul-rev", "fq6 mul %s %s" % (S6(a6), S6(gen6x)))); exp.append(S6(O.f6_mul(a6, gen6x)))
    for (mask, a) in zero_pattern_f12(rng):
        cases.append(("fq12/zero-pattern/mul", "fq12 mul %s %s" % (S12(a), S12(gen12)))); exp.append(S12(O.f12_mul(a, gen12)))
        cases.append(("fq12/zero-pattern/mul-rev", "fq12 mul %s %s" % (S12(gen12), S12(a)))); exp.append(S12(O.f12_mul(gen12, a)))
        cases.append(("fq12/zero-pattern/sq", "fq12 sq %s" % S12(a))); exp.append(S12(O.f12_mul(a, a)))
        cases.append(("fq12/zero-pattern/inv", "fq12 inv %s" % S12(a))); exp.append("?inv12")
    # coefficients / norms whose Montgomery representation is special (raw limbs = 1 is NOT the field's one)
    ms = mont_specials()
    for k_ in ms[:6]:
        for a2 in ((k_, 0), (0, k_), (k_, k_), (k_, 1)):
            cases.append(("fq2/mont-special/inv", "fq2 inv %s" % _f2s(a2))); exp.append(_f2s(F2.inv(a2)))
            cases.append(("fq2/mont-special/mul", "fq2 mul %s %s" % (_f2s(sp2[-1]), _f2s(a2)))); exp.append(_f2s(F2.mul(sp2[-1], a2)))
            cases.append(("fq2/mont-special/mul-left", "fq2 mul %s %s" % (_f2s(a2), _f2s(sp2[-2])))); exp.append(_f2s(F2.mul(a2, sp2[-2])))
            cases.append(("fq2/mont-special/sq", "fq2 sq %s" % _f2s(a2))); exp.append(_f2s(F2.mul(a2, a2)))
        for b_ in (1, 2, 3, 5):
            a_ = O.fsqrt((k_ - b_ * b_) % Q)
            if a_ is not None:                     # norm a^2 + b^2 has the special Montgomery form
                cases.append(("fq2/norm-mont-special/inv", "fq2 inv %s" % _f2s((a_, b_)))); exp.append(_f2s(F2.inv((a_, b_))))
                cases.append(("fq2/norm-mont-special/norm", "fq2 norm %s" % _f2s((a_, b_)))); exp.append("%x" % k_)
                break
        for slot in range(6):
            cs = [r2() for _ in range(6)]; cs[slot] = (k_, 0)
            a12 = ((cs[0], cs[1], cs[2]), (cs[3], cs[4], cs[5]))
            cases.append(("fq12/mont-special-coefficient/inv", "fq12 inv %s" % S12(a12))); exp.append("?inv12")
            if slot < 3:
                a6 = tuple(cs[:3])
                cases.append(("fq6/mont-special-coefficient/inv", "fq6 inv %s" % S6(a6))); exp.append("?inv6")
                cases.append(("fq6/mont-special-coefficient/mul", "fq6 mul %s %s" % (S6(gen6x), S6(a6)))); exp.append(S6(O.f6_mul(gen6x, a6)))
    for (cl, a) in mult_special_f12(rng, 2 if not thorough else 6):
        cases.append(("fq12/%s/inv" % cl, "fq12 inv %s" % S12(a))); exp.append("?inv12")
        cases.append(("fq12/%s/sq" % cl, "fq12 sq %s" % S12(a))); exp.append(S12(O.f12_mul(a, a)))
        cases.append(("fq12/%s/mul" % cl, "fq12 mul %s %s" % (S12(a), S12(gen12)))); exp.append(S12(O.f12_mul(a, gen12)))
        cases.append(("fq12/%s/mul-conj" % cl, "fq12 mul %s %s" % (S12(a), S12(conj(a))))); exp.append(S12(O.f12_mul(a, conj(a))))
        if cl == "norm-one-in-Fq2":
            a2 = a[0][0]
            cases.append(("fq2/norm-one/inv", "fq2 inv %s" % _f2s(a2))); exp.append(_f2s(F2.inv(a2)))
            cases.append(("fq2/norm-one/sq", "fq2 sq %s" % _f2s(a2))); exp.append(_f2s(F2.mul(a2, a2)))
            cases.append(("fq6/norm-one/inv", "fq6 inv %s" % S6(a[0]))); exp.append("?inv6")
    gen6 = r6()
    for mask in range(1, 8):
        a = tuple(F2.rand(rng) if (mask >> i) & 1 else (0, 0) for i in range(3))
        cases.append(("fq6/zero-pattern/mul", "fq6 mul %s %s" % (S6(a), S6(gen6)))); exp.append(S6(O.f6_mul(a, gen6)))
        cases.append(("fq6/zero-pattern/mul-rev", "fq6 mul %s %s" % (S6(gen6), S6(a)))); exp.append(S6(O.f6_mul(gen6, a)))
        cases.append(("fq6/zero-pattern/sq", "fq6 sq %s" % S6(a))); exp.append(S6(O.f6_mul(a, a)))
        cases.append(("fq6/zero-pattern/inv", "fq6 inv %s" % S6(a))); exp.append("?inv6")
    for a in sp12[-2:] + [w]:
        for k in (list(range(0, 14)) + [2 ** 32 + 5, 2 ** 64 - 1] if thorough else (0, 1, 2, 3, 6, 11, 12, 13, 2 ** 64 - 1)):
            cases.append(("fq12/frob", "fq12 frob %s %x" % (S12(a), k))); exp.append(S12(O.f12_pow(a, Q ** (k % 12))))
    res = ck.run(cases)
    follow = []
    for c, (impl, _), want in zip(cases, res, exp):
        if want == "?inv6":
            a = O.parse_f6(c[1].split()[2])
            ok = impl != "none" and O.f6_mul(a, O.parse_f6(impl)) == O.F6_ONE
            ck.expect(ok, "tower:fq6/inv", c[1], impl, "a*inv(a)=1", "inverse in the quotient ring")
        elif want == "?inv12":
            a = O.parse_f12(c[1].split()[2])
            ok = impl != "none" and O.f12_mul(a, O.parse_f12(impl)) == O.F12_ONE
            ck.expect(ok, "tower:fq12/inv", c[1], impl, "a*inv(a)=1", "inverse in the quotient ring")
        else:
            ck.expect(impl == want, "tower:" + c[0], c[1], impl, want, "schoolbook quotient-ring arithmetic / x^(q^k)")


def fq2_alpha_specials(rng):
    """Fq2 elements a whose intermediate value alpha = a^((q-1)/2) of the sqrt algorithm (Adj-Rodriguez, alg. 9) has a
    prescribed special form.  alpha always has norm +-1 (norm 1: a is a square, norm -1: it is not); the norm-(+-1)
    elements form a cyclic group of order 2(q+1) on which x -> x^((q-1)/2) is a bijection (gcd((q-1)/2, 2(q+1)) = 1), so
    a = alpha^e * s^2 with e = ((q-1)/2)^-1 mod 2(q+1), s in Fq*, has exactly this alpha."""
    import math
    m = 2 * (Q + 1)
    h = (Q - 1) // 2
    if math.gcd(h, m) != 1:
        return []
    e = pow(h, -1, m)
    out = []
    targets = []
    for c0 in (Q - 1, 1, 0, 2, Q - 2, (Q - 1) // 2, (Q + 1) // 2, 1 << 64, (1 << 320) % Q):
        for nrm in (1, Q - 1):
            c1 = O.fsqrt((nrm - c0 * c0) % Q)
            if c1 is not None:
                targets.append(("alpha.c0=%s,norm=%s" % ("-1" if c0 == Q - 1 else "%x" % c0 if c0 > 9 else c0, "1" if nrm == 1 else "-1"), (c0, c1)))
                if c1 != 0:
                    targets.append(("alpha.c0=%s,norm=%s" % ("-1" if c0 == Q - 1 else "%x" % c0 if c0 > 9 else c0, "1" if nrm == 1 else "-1"), (c0, (-c1) % Q)))
    for c1 in (1, Q - 1, 2):
        for nrm in (1, Q - 1):
            c0 = O.fsqrt((nrm - c1 * c1) % Q)
            if c0 is not None:
                targets.append(("alpha.c1=%s,norm=%s" % ("-1" if c1 == Q - 1 else c1, "1" if nrm == 1 else "-1"), (c0, c1)))
    for (cl, al) in targets:
        assert (al[0] * al[0] + al[1] * al[1]) % Q in (1, Q - 1)
        a = F2.pow(al, e)
        assert F2.pow(a, h) == (al[0] % Q, al[1] % Q)
        sc = rng.randrange(1, Q)
        out.append((cl, a))
        out.append((cl + ",scaled", F2.mul(a, ((sc * sc) % Q, 0))))
    return out


def check_C18(ck):
    rng = ck.rng
    thorough = ck.tier == "thorough"
    cases, kinds = [], []
    n = 6 if not thorough else 60
    for (f, p, g) in (("fq", Q, 2), ("fr", R, 7)):
        vals = [0, 1, 4, p - 1, g, (p - 1) // 2]
        for _ in range(n):
            s = rng.randrange(1, p)
            vals.append(s * s % p)          # square
            vals.append(g * s * s % p)      # non-square (g is a non-residue)
        if f == "fr":
            # elements of every 2-adic order: omega^(2^j)
            om = pow(7, (R - 1) >> 32, R)
            for j in range(0, 33, 1 if thorough else 5):
                vals.append(pow(om, 1 << j, R))
                vals.append(pow(om, 1 << j, R) * pow(rng.randrange(1, R), 1 << 32, R) % R)
        for a in vals:
            cases.append(("%s/sqrt" % f, "%s sqrt %x" % (f, a))); kinds.append((f, p, a, "sqrt"))
            cases.append(("%s/legendre" % f, "%s legendre %x" % (f, a))); kinds.append((f, p, a, "leg"))
            if f == "fq":
                cases.append(("fq/sgn0", "fq sgn0 %x" % a)); kinds.append((f, p, a, "sgn"))
                cases.append(("fq/sgn0-neg", "fq sgn0 %x" % ((-a) % p))); kinds.append((f, p, (-a) % p, "sgn"))
                cases.append(("fq/lt-neg", "fq lt %x %x" % (a, (-a) % p))); kinds.append((f, p, a, "ltneg"))
    # Fq2
    v2 = [(0, 0), (1, 0), (0, 1), (Q - 1, 0), (4, 0), (2, 0), (0, 2), (0, Q - 2)]
    ls = limb_specials(rng, 2)
    v2 += [(a, b) for a in ls[:6] for b in (1, 2)] + [(0, a) for a in ls[:4]] + [(a, 0) for a in ls[:4]]
    for a in ls:
        cases.append(("fq/sgn0-limbs", "fq sgn0 %x" % a)); kinds.append(("fq", Q, a, "sgn"))
        cases.append(("fq/lt-limbs", "fq lt %x %x" % (a, (-a) % Q))); kinds.append(("fq", Q, a, "ltneg"))
    for _ in range(n):
        s = F2.rand(rng)
        sq = F2.mul(s, s)
        v2.append(sq)
        v2.append(F2.mul(sq, O.XI))            # xi = 1+u is a non-square
        v2.append((rng.randrange(Q), 0))       # element of Fq: root real or purely imaginary
        v2.append((0, rng.randrange(Q)))       # purely imaginary
        t = rng.randrange(1, Q)
        v2.append(((-t * t) % Q, 0))           # alpha = -1 branch candidates: a in Fq with a = -t^2
    # every comparison entry point (Ord::cmp, partial_cmp, < <= > >=, max, min) on pairs that tie in the high part:
    # equal top limbs with lower limbs ordered both ways (Fq, Fr), equal u-coefficients (Fq2), equal elements
    cmp_pairs = []
    for (f, p) in (("fq", Q), ("fr", R)):
        top = (p >> (p.bit_length() - 40)) << (p.bit_length() - 40)
        vs = [1, 1 << 64, (1 << 64) + 1, (1 << 128) | 1, (1 << 128), top >> 1, (top >> 1) | (1 << 64), (top >> 1) | 1, p - 1, p - (1 << 64), rng.randrange(p)]
        for a in vs:
            for b in (vs if thorough else rng.sample(vs, 5) + [a]):
                cmp_pairs.append((f, "%x" % a, "%x" % b, (a > b) - (a < b), "%x" % max(a, b), "%x" % min(a, b)))
    v2 = [(1, 1), (2, 1), (1 << 64, 1), (1, 2), (Q - 1, 1), (0, 0), (0, 1), (1, 0), (Q - 1, 0), F2.rand(rng)]
    for a in v2:
        for b in (v2 if thorough else rng.sample(v2, 5) + [a]):
            c_ = (F2.lt(b, a)) - (F2.lt(a, b))
            cmp_pairs.append(("fq2", _f2s(a), _f2s(b), c_, _f2s(a if c_ == 1 else b), _f2s(b if c_ == 1 else a)))
    # pairs that agree in every limb above the deciding one and whose deciding 64-bit limbs differ by 2^63 or more (where
    # the sign of a wrapping limb difference is the wrong way round), the deciding limb at every position, both orders
    for k in range(6):
        for (lo, hi) in ((0, (1 << 63) + 5), (3, (1 << 63) + 3), (1, (1 << 64) - 1), ((1 << 63) - 1, (1 << 64) - 2)):
            base_hi = ((Q >> (64 * (k + 1))) >> 1) << (64 * (k + 1))          # common upper limbs, below q
            a, b = base_hi | (lo << (64 * k)) | 9 * (k > 0), base_hi | (hi << (64 * k))
            if a >= Q or b >= Q:
                continue
            for (x, y) in ((a, b), (b, a)):
                cmp_pairs.append(("fq", "%x" % x, "%x" % y, (x > y) - (x < y), "%x" % max(x, y), "%x" % min(x, y)))
                for (xa, xb) in (((x, 1), (y, 1)), ((0, x), (0, y)), ((x, 7), (y, 0))):     # c0 decides / c1 decides / c1 decides against c0
                    c_ = (F2.lt(xb, xa)) - (F2.lt(xa, xb))
                    cmp_pairs.append(("fq2", _f2s(xa), _f2s(xb), c_, _f2s(xa if c_ == 1 else xb), _f2s(xb if c_ == 1 else xa)))
            if k < 4 and b < R:
                for (x, y) in ((a, b), (b, a)):
                    cmp_pairs.append(("fr", "%x" % x, "%x" % y, (x > y) - (x < y), "%x" % max(x, y), "%x" % min(x, y)))
    for (f, a, b, c_, mx, mn) in cmp_pairs:
        tb = lambda v: "true" if v else "false"
        cases.append(("%s/compare-all-entry-points" % f, "%s cmpall %s %s" % (f, a, b)))
        kinds.append((f, Q, "%d %d %s %s %s %s %s %s" % (c_, c_, tb(c_ == -1), tb(c_ != 1), tb(c_ == 1), tb(c_ != -1), mx, mn), "exact-s"))
    # negate_if on zero and non-zero elements, both signs (the result must be the canonical representation: a non-canonical
    # zero is printed as NONCANONICAL-RAW by the executor); Sgn0Result xor table
    for a in [0, 1, Q - 1, 2, rng.randrange(Q)]:
        for sg in (0, 1):
            cases.append(("fq/negate_if", "fq negif %x %d" % (a, sg))); kinds.append(("fq", Q, ((-a) % Q) if sg else a, "exact"))
    for a in [(0, 0), (1, 0), (0, 1), (0, Q - 1), F2.rand(rng)]:
        for sg in (0, 1):
            cases.append(("fq2/negate_if", "fq2 negif %s %d" % (_f2s(a), sg))); kinds.append(("fq2", Q, _f2s(F2.neg(a) if sg else a), "exact-s"))
    for sa in (0, 1):
        for sb in (0, 1):
            cases.append(("sgn0/xor", "fq sgnxor %d %d" % (sa, sb))); kinds.append(("fq", Q, "Negative" if sa != sb else "NonNegative", "exact-s"))
    for (cl, a) in fq2_alpha_specials(rng):
        cases.append(("fq2/sqrt/" + cl, "fq2 sqrt %s" % _f2s(a))); kinds.append(("fq2", Q, a, "sqrt"))
        cases.append(("fq2/legendre/" + cl, "fq2 legendre %s" % _f2s(a))); kinds.append(("fq2", Q, a, "leg"))
    for a in v2:
        cases.append(("fq2/sqrt", "fq2 sqrt %s" % _f2s(a))); kinds.append(("fq2", Q, a, "sqrt"))
        cases.append(("fq2/legendre", "fq2 legendre %s" % _f2s(a))); kinds.append(("fq2", Q, a, "leg"))
        cases.append(("fq2/sgn0", "fq2 sgn0 %s" % _f2s(a))); kinds.append(("fq2", Q, a, "sgn"))
        cases.append(("fq2/lt-neg", "fq2 lt %s %s" % (_f2s(a), _f2s(F2.neg(a))))); kinds.append(("fq2", Q, a, "ltneg"))
    res = ck.run(cases)
    for c, (impl, _), (f, p, a, k) in zip(cases, res, kinds):
        if k == "exact":
            ck.expect(impl == "%x" % a, "negate_if:" + f, c[1], impl, "%x" % a, "negate_if = negate when the sign is Negative, identity otherwise (canonical result)")
            continue
        if k == "exact-s":
            ck.expect(impl == a, "negate_if/xor:" + f, c[1], impl, a, "negate_if / Sgn0Result xor")
            continue
        if f != "fq2":
            issq = a == 0 or pow(a, (p - 1) // 2, p) == 1
            if k == "sqrt":
                ok = (impl == "none") if not issq else (impl != "none" and pow(int(impl, 16), 2, p) == a)
                ck.expect(ok, "sqrt:" + f, c[1], impl, "root iff square", "sqrt returns a root exactly for squares")
            elif k == "leg":
                want = "Zero" if a == 0 else ("QuadraticResidue" if issq else "QuadraticNonResidue")
                ck.expect(impl == want, "legendre:" + f, c[1], impl, want, "Euler's criterion")
            elif k == "sgn":
                want = "Negative" if a % 2 else "NonNegative"
                ck.expect(impl == want, "sgn0:" + f, c[1], impl, want, "parity of the canonical integer")
            elif k == "ltneg":
                want = "true" if a < (-a) % p else "false"
                ck.expect(impl == want, "order:" + f, c[1], impl, want, "order of canonical integers")
        else:
            issq = O.f2_is_sq(a)
            if k == "sqrt":
                ok = (impl == "none") if not issq else (impl != "none" and F2.mul(O.parse_f(F2, impl), O.parse_f(F2, impl)) == (a[0] % Q, a[1] % Q))
                ck.expect(ok, "sqrt:fq2", c[1], impl, "root iff square", "sqrt returns a root exactly for squares")
            elif k == "leg":
                nrm = (a[0] * a[0] + a[1] * a[1]) % Q
                want = "Zero" if nrm == 0 else ("QuadraticResidue" if pow(nrm, (Q - 1) // 2, Q) == 1 else "QuadraticNonResidue")
                ck.expect(impl == want, "legendre:fq2", c[1], impl, want, "Euler's criterion of the norm")
            elif k == "sgn":
                want = "Negative" if F2.sgn0(a) else "NonNegative"
                ck.expect(impl == want, "sgn0:fq2", c[1], impl, want, "parity of first non-zero coefficient")
            elif k == "ltneg":
                want = "true" if F2.lt(a, F2.neg(a)) else "false"
                ck.expect(impl == want, "order:fq2", c[1], impl, want, "lexicographic, u-coefficient most significant")


# ====================================================================== C10 (MSM)

def check_C10(ck):
    rng = ck.rng
    thorough = ck.tier == "thorough"
    for tag in ("g1", "g2"):
        g = grp(tag)
        C = g.C
        pool = [g.sub_pt(rng) for _ in range(5)] + [g.gen, None]
        pool += [C.neg(pool[0]), pool[1]]            # inverse and duplicate entries
        scal = [s for s in scalar_classes(rng, 4) if s[1] < 2 ** 255]
        def msm(ps, ks):
            acc = {}
            for P, k in zip(ps, ks):
                key = None if P is None else P
                acc[key] = acc.get(key, 0) + k
            tot = None
            for P, k in acc.items():
                tot = C.add(tot, C.mul(P, k % R if P is None or C.mul(P, R) is None else k))
            return tot
        cases, exp = [], []
        def add_case(cl, op, ps, ks, want):
            sp = ";".join(g.A(P) for P in ps) or "-"
            sk = ";".join("%x" % k for k in ks) or "-"
            cases.append((cl, "%s %s %s %s" % (tag, op, sp, sk))); exp.append(want)
        windows = list(range(1, 9)) + [12, 16, 20] if not thorough else list(range(1, 21))
        if tag == "g2" and not thorough:
            windows = [1, 2, 3, 4, 5, 7, 11]
        def small_digit_scalar(w, maxd=12):
            """scalar < 2^255 whose every window digit (top-aligned windows of width w) is < 2^maxd, so that the
            bucket reduction (cost ~ max digit per window) stays cheap for large windows"""
            k = 0
            lo = 256 - w
            while lo > -w:
                base = max(lo, 0)
                width = min(maxd, (lo + w) - base)
                if width > 0:
                    k |= rng.randrange(1 << width) << base
                lo -= w
            return k % (1 << 255)
        for w in windows:
            big = w > 10
            shapes = [(0, 0), (1, 1), (2, 2), (3, 5), (5, 3), (7, 7)] if w <= 8 else [(3, 3), (2, 4)]
            for (np_, nk) in shapes:
                ps = [rng.choice(pool) for _ in range(np_)]
                ks = [small_digit_scalar(w) if big else rng.choice(scal)[1] for _ in range(nk)]
                n = min(np_, nk)
                add_case("pip/w%d/n%d" % (w, n), "pip %x" % w, ps, ks, g.A(msm(ps[:n], ks[:n])))
            # single bit at positions around word boundaries: walks the window across limbs
            bits = [0, 1, 62, 63, 64, 65, 127, 128, 191, 192, 193, 253, 254] if not thorough else list(range(0, 255, 1 if w <= 4 else 5)) + [63, 64, 127, 128, 191, 192]
            if big:
                # keep only positions whose digit is small (offset inside its window <= 13), plus one expensive one
                def off(bit):
                    lo = 256 - w
                    while lo > bit:
                        lo -= w
                    return bit - max(lo, 0)
                cheap = [b for b in range(255) if off(b) <= 13]
                bits = [b for b in bits if b in cheap][:8] + ([cheap[-1]] if cheap else []) + ([191] if w <= 16 else [])
            for bit in bits:
                P = pool[0]
                k2 = small_digit_scalar(w) if big else (1 << 255) - 1 - (1 << bit)
                add_case("pip/w%d/single-bit" % w, "pip %x" % w, [P, pool[1]], [1 << bit, k2], g.A(msm([P, pool[1]], [1 << bit, k2])))
            # scalar with top bit set -> the assert fires
            add_case("pip/w%d/top-bit-panic" % w, "pip %x" % w, [pool[0]], [1 << 255], "PANIC")
        # default entry point around the window-selection boundaries
        bounds = [0, 1, 2, 3, 19, 20, 21, 42, 43, 44, 104, 105, 106] + ([238, 239, 240, 577, 578, 579] if tag == "g1" or thorough else [])
        if thorough:
            bounds += [1257, 1258, 1259, 3463, 3464, 3465, 6491, 6492, 6493]
        for n in bounds:
            ps = [pool[rng.randrange(len(pool))] for _ in range(n)]
            ks = [rng.randrange(2 ** 255) for _ in range(n)]
            add_case("sop/n%d" % n, "sop", ps, ks, g.A(msm(ps, ks)))
        add_case("sop/mismatch", "sop", pool[:4], [3, 5], g.A(msm(pool[:2], [3, 5])))
        for n in (0, 1, 2, 3, 5):
            ps = [rng.choice([p for p in pool]) for _ in range(n)]
            ks = [rng.choice(scalar_classes(rng, 2, allow_big=True))[1] for _ in range(n)]
            add_case("soppre/n%d" % n, "soppre", ps, ks, g.A(msm(ps, ks)))
        # identity points among the inputs of the table-driven variant (their tables are built into a caller-provided buffer
        # that holds stale entries)
        nz = [p for p in pool if p is not None]
        for ps in ([None], [nz[0], None, nz[1]], [None, nz[0]], [nz[1], nz[0], None], [None, None]):
            ks = [rng.randrange(1, 2 ** 255) for _ in ps]
            add_case("soppre/with-identity", "soppre", ps, ks, g.A(msm(ps, ks)))
        # points of small order (on the curve, outside the subgroup: 2^32 T = +-T etc. make table entries coincide) in every variant
        lows = [g.low(l_, rng) for l_ in g.small[:2]]
        for Pl in lows:
            for ks in ([1 + (1 << 32)], [(1 << 64) + (1 << 32) + 1], [rng.randrange(1, 2 ** 255)]):
                add_case("soppre/low-order-point", "soppre", [Pl], ks, g.A(msm([Pl], ks)))
                add_case("sop/low-order-point", "sop", [Pl, nz[0]], ks + [5], g.A(msm([Pl, nz[0]], ks + [5])))
                add_case("pip/w4/low-order-point", "pip 4", [Pl, nz[0]], ks + [7], g.A(msm([Pl, nz[0]], ks + [7])))
        # mismatched lengths in the table-driven variant: a PREFIX of the points with the full scalar list and the full table buffer
        for (n_, tot) in ((0, 3), (1, 3), (2, 4), (3, 4), (4, 4)):
            ps = [rng.choice(nz) for _ in range(tot)]
            ks = [rng.randrange(1, 2 ** 255) for _ in range(tot)]
            pl = ";".join(g.A(P_) for P_ in ps) or "-"; kl = ";".join("%x" % k_ for k_ in ks) or "-"
            cases.append(("soppre/prefix-of-points-full-tables", "%s soppre_prefix %x %s %s" % (tag, n_, pl, kl))); exp.append(g.A(msm(ps[:n_], ks[:n_])))
        # a REJECTED request (the library panics on a scalar with bit 255 set, after other scalars have already been put into
        # buckets) followed by valid requests with the same window: nothing of the failed call may leak into the next result
        for w_ in (2, 3, 5):
            bad = [(3 << 253) | 5, (1 << 254) | 9, 1 << 255]
            pts3 = [nz[0], nz[1 % len(nz)], nz[0]]
            cases.append(("pip/w%d/rejected-request" % w_, "%s pip %x %s %s" % (tag, w_, ";".join(g.A(P_) for P_ in pts3), ";".join("%x" % k_ for k_ in bad)))); exp.append("PANIC")
            for ks in ([(3 << 253) | 1, rng.randrange(1, 2 ** 254)], [(7 << 252) | 1, 5]):
                ps = [nz[1 % len(nz)], nz[0]]
                cases.append(("pip/w%d/after-rejected-request" % w_, "%s pip %x %s %s" % (tag, w_, ";".join(g.A(P_) for P_ in ps), ";".join("%x" % k_ for k_ in ks)))); exp.append(g.A(msm(ps, ks)))
            cases.append(("sop/after-rejected-request", "%s sop %s %s" % (tag, ";".join(g.A(P_) for P_ in [nz[0], nz[1 % len(nz)]]), "%x;%x" % ((5 << 252) | 3, 9)))); exp.append(g.A(msm([nz[0], nz[1 % len(nz)]], [(5 << 252) | 3, 9])))
        res = ck.run(cases)
        for c, (impl, _), want in zip(cases, res, exp):
            ck.expect(impl == want, "msm:" + c[0].split("/")[0], c[1], impl, want, "sum [k_i]P_i over the first min entries")
        fw = [("findwin", "%s findwin %x" % (tag, n)) for n in [0, 1, 2, 19, 20, 42, 43, 104, 105, 238, 239, 577, 578, 1257, 1258, 3463, 3464, 6491, 6492, 17145, 17146,
                                                                33675, 33676, 60318, 60319, 218188, 218189, 303279, 303280, 543650, 543651, 10 ** 7, 2 ** 40]]
        prev = 0
        for c, (impl, _) in zip(fw, ck.run(fw)):
            ok = impl.isdigit() and 1 <= int(impl) <= 16 and int(impl) >= prev
            prev = int(impl) if impl.isdigit() else prev
            ck.expect(ok, "findwin-range", c[1], impl, "1..=16, monotone", "window heuristic range")


# ====================================================================== C13 / C06 (hashing)

def _msgs(rng, thorough):
    lens = [0, 1, 3, 55, 56, 63, 64, 65, 111, 112, 127, 128, 129, 135, 136, 167, 168] + ([200, 1024] if not thorough else [169, 255, 256, 1000, 1024, 4096, 65536])
    return [bytes(rng.randrange(256) for _ in range(l)) for l in lens]


DST_BOUNDARY = (0, 1, 16, 31, 32, 33, 43, 63, 64, 65, 127, 128, 129, 253, 254, 255)


def _dsts(rng):
    return [bytes(rng.randrange(256) for _ in range(l)) for l in DST_BOUNDARY]


def _dsts_all(rng):
    """one tag of every admissible length 0..255 (a length-dependent fast path can sit at any of them)"""
    return [bytes(rng.randrange(256) for _ in range(l)) for l in range(256)]


def check_C13(ck):
    rng = ck.rng
    thorough = ck.tier == "thorough"
    cases, exp = [], []
    msgs, dsts = _msgs(rng, thorough), _dsts(rng)
    hx = lambda b: b.hex() or "-"
    for (hn, pyn, olen) in (("sha256", "sha256", None), ("sha512", "sha512", None), ("shake128", "shake_128", 77), ("shake256", "shake_256", 200)):
        import hashlib
        for m in msgs:
            if olen is None:
                cases.append(("hash/" + hn, "hash %s %s" % (hn, hx(m)))); exp.append(hashlib.new(pyn, m).hexdigest())
            else:
                cases.append(("hash/" + hn, "hash %s %s %x" % (hn, hx(m), olen))); exp.append(hashlib.new(pyn, m).hexdigest(olen))
    # "any Merkle-Damgard hash": SHA-224 and SHA-384 have block size != 2 x digest size (64/28, 128/48)
    for x in ("xmd256", "xmd512", "xof128", "xof256", "xmd224", "xmd384"):
        b = {"xmd256": 32, "xmd224": 28, "xmd384": 48}.get(x, 64)
        lens = [0, 1, b - 1, b, b + 1, 2 * b, 2 * b + 1, 127, 128, 129, 255 * b - 1, 255 * b] if x.startswith("xmd") else [0, 1, 32, 136, 137, 168, 169, 500, 8160, 65535]
        ex = O.expander(x)
        for d in (_dsts_all(rng) if x not in ("xmd224", "xmd384") or thorough else _dsts(rng)):       # every tag length 0..255 with every expander
            m = rng.choice(msgs)
            l = rng.choice([32, 64, 96, 128])
            cases.append(("expand/%s/dstlen%d" % (x, len(d)), "expand %s %s %s %x" % (x, hx(m), hx(d), l))); exp.append(hx(ex(m, d, l)))
        for l in lens:
            for (m, d) in [(rng.choice(msgs), rng.choice(dsts)) for _ in range(2)] + [(msgs[0], dsts[0])]:
                want = ex(m, d, l)
                cases.append(("expand/%s/len%d" % (x, l), "expand %s %s %s %x" % (x, hx(m), hx(d), l))); exp.append(hx(want))
        if x.startswith("xmd"):
            for l in (255 * b + 1, 256 * b, 65535):
                cases.append(("expand/%s/too-long" % x, "expand %s %s %s %x" % (x, hx(msgs[1]), hx(dsts[2]), l))); exp.append("PANIC")
        for (fld, m_, L, p) in (("fq", 1, 64, Q), ("fr", 1, 48, R), ("fq2", 2, 64, Q)):
            for cnt in ([0, 1, 2, 3, 5, 9] if x in ("xmd256", "xof128") or thorough else ([1, 2] if x in ("xmd224", "xmd384") else [2])):
                m, d = rng.choice(msgs), rng.choice(dsts)
                want = O.hash_to_field(x, m, d, cnt, m_, L, p)
                if want is None:
                    w = "PANIC"
                else:
                    w = ";".join(("%x" % e) if m_ == 1 else ("%x,%x" % e) for e in want) or "-"
                cases.append(("h2f/%s/%s/count%d" % (fld, x, cnt), "h2f %s %s %s %s %x" % (fld, x, hx(m), hx(d), cnt))); exp.append(w)
    # same (msg, dst, length) back-to-back with different expanders / element types
    m0, d0 = msgs[2], dsts[3]
    for (fld, m_, L, p, cnt) in (("fq", 1, 64, Q, 2), ("fq2", 2, 64, Q, 1), ("fr", 1, 48, R, 2), ("fq", 1, 64, Q, 2)):
        for x in ("xmd256", "xmd512", "xof128", "xof256"):
            want = O.hash_to_field(x, m0, d0, cnt, m_, L, p)
            w = ";".join(("%x" % e) if m_ == 1 else ("%x,%x" % e) for e in want)
            cases.append(("h2f/back-to-back", "h2f %s %s %s %s %x" % (fld, x, hx(m0), hx(d0), cnt))); exp.append(w)
    # reduction blocks
    for (fld, L, p) in (("fq", 64, Q), ("fr", 48, R)):
        blocks = [bytes([0xff] * L), bytes(L), (p).to_bytes(L, "big"), (p + 1).to_bytes(L, "big"), (p * 12345 + 7).to_bytes(L, "big"),
                  bytes([0xff] * (L // 2)) + bytes(L // 2), bytes(L // 2) + bytes([0xff] * (L // 2))] + [bytes(rng.randrange(256) for _ in range(L)) for _ in range(6)]
        for bk in blocks:
            cases.append(("okm/" + fld, "okm %s %s" % (fld, bk.hex()))); exp.append("%x" % (int.from_bytes(bk, "big") % p))
    for _ in range(4):
        bk = bytes(rng.randrange(256) for _ in range(128))
        cases.append(("okm/fq2", "okm fq2 %s" % bk.hex())); exp.append("%x,%x" % (int.from_bytes(bk[:64], "big") % Q, int.from_bytes(bk[64:], "big") % Q))
    res = ck.run(cases)
    for c, (impl, _), want in zip(cases, res, exp):
        ck.expect(impl == want, "rfc9380-5:" + c[0].split("/")[0], c[1], impl, want, "RFC 9380 section 5 (python hashlib reference)")


def _rfc_map(g, us):
    """clear_cofactor(sum_i iso(sswu(u_i))) using the driver-independent parts only where possible:
    sswu from the python oracle; iso must be evaluated by the caller (we have no independent coefficients)"""
    raise NotImplementedError


def _compose_map(ck, g, tag, us_list, klass):
    """spec composition for map/map2: python sswu -> `iso` op (checked separately in C16, and the image is
    checked here to be on the target curve) -> python group law on the target curve -> python [h_eff]."""
    K, C = g.K, g.C
    flat = [u for us in us_list for u in us]
    sw = [g.sswu(u) for u in flat]
    iso_cases = [("iso-of-sswu", "%s iso %s" % (tag, g.J(P))) for P in sw]
    ires = ck.run(iso_cases)
    imgs = []
    for (impl, model) in ires:
        P = g.pa(impl)
        imgs.append(P)
    out, k = [], 0
    for us in us_list:
        acc = None
        for _ in us:
            acc = C.add(acc, imgs[k]); k += 1
        out.append(C.mul(acc, g.heff))
    return out, sw, imgs


def sswu_preimages_of_x(g, tag, x):
    """all u with x(sswu(u)) = x: invert x0(t) = (-B/A)(1 + 1/(t^2+t)) and x1(t) = t x0(t), t = Z u^2"""
    K = g.K
    Z = K.from_int(O.SSWU_Z1) if tag == "g1" else O.SSWU_Z2
    A_, B_ = g.CP.a, g.CP.b
    sq = (lambda v: K.sqrt(v)) if K is F2 else (lambda v: O.fsqrt(v))
    d = K.neg(K.mul(K.mul(A_, x), K.inv(B_)))                     # d = -A x / B
    ts = []
    c = K.sub(d, K.one)                                          # x0: 1/(t^2+t) = c
    if not K.is_zero(c):
        ci = K.inv(c)
        sd = sq(K.add(K.one, K.mul(K.from_int(4), ci)))
        if sd is not None:
            ts += [K.mul(K.add(K.neg(K.one), s_), K.inv(K.from_int(2))) for s_ in (sd, K.neg(sd))]
    e1 = K.sub(K.one, d)                                         # x1: t^2 + (1-d) t + (1-d) = 0
    sd = sq(K.sub(K.mul(e1, e1), K.mul(K.from_int(4), e1)))
    if sd is not None:
        ts += [K.mul(K.add(K.neg(e1), s_), K.inv(K.from_int(2))) for s_ in (sd, K.neg(sd))]
    out = []
    for t_ in ts:
        u_ = sq(K.mul(t_, K.inv(Z)))
        if u_ is not None:
            for cand in (u_, K.neg(u_)):
                if g.sswu(cand)[0] == x and cand not in out:
                    out.append(cand)
    return out


def small_roots_of_unity(K):
    """roots of unity of order 3 and 6 of the base field (as elements of K): z with z^3 = 1 or z^6 = 1 but z != +-1 --
    where a test `z^3 == 1` / `z^2 == 1` / `z^6 == 1` on a power of a denominator does not imply z == 1"""
    w = next(pow(b, (Q - 1) // 3, Q) for b in range(2, 50) if pow(b, (Q - 1) // 3, Q) != 1)
    vals = [w, w * w % Q, (-w) % Q, (-(w * w)) % Q]
    return [K.from_int(v) for v in vals]


def sswu_inputs_with_denominator(g, tag, z0s):
    """inputs u of the SSWU map whose Jacobian denominator -A'(Z^2 u^4 + Z u^2) equals a prescribed value z0
    (solve the quadratic Z^2 t^2 + Z t + z0/A' = 0 in t = u^2, then take square roots); both signs of u"""
    K = g.K
    Z = K.from_int(O.SSWU_Z1) if tag == "g1" else O.SSWU_Z2
    A_ = g.CP.a
    sq = (lambda x: K.sqrt(x)) if K is F2 else (lambda x: O.fsqrt(x))
    out = []
    for z0 in z0s:
        c_ = K.mul(z0, K.inv(A_))
        sd = sq(K.sub(K.one, K.mul(K.from_int(4), c_)))
        if sd is None:
            continue
        for sgn_ in (sd, K.neg(sd)):
            t_ = K.mul(K.add(K.neg(K.one), sgn_), K.inv(K.mul(K.from_int(2), Z)))
            u_ = sq(t_)
            if u_ is not None:
                out += [u_, K.neg(u_)]
    return out


def map_input_pairs(g, tag, us, rng):
    """(class, [u0, u1]) input pairs of map2_to_curve: random, equal, opposite, and DISTINCT inputs whose SSWU images are
    equal / opposite (u' = +-1/(Z u): where adding the two images needs the doubling / inverse case of the group law)"""
    K = g.K
    Z = K.from_int(O.SSWU_Z1) if tag == "g1" else O.SSWU_Z2
    pairs = []
    for u in us:
        v = K.rand(rng)
        pairs.append(("random", [u, v]))
        pairs.append(("u0=u1", [u, u]))
        pairs.append(("u0=-u1", [u, K.neg(u)]))
        if not K.is_zero(u):
            # second preimage with the same SSWU x: u' = 1/(Z u) up to sign when g(x1) is a non-square
            up = K.inv(K.mul(Z, u))
            for cand in (up, K.neg(up)):
                if g.sswu(cand) == g.sswu(u) and cand != u:
                    pairs.append(("distinct-colliding", [u, cand]))
                    pairs.append(("distinct-colliding-swapped", [cand, u]))
                if g.sswu(cand) == g.CP.neg(g.sswu(u)) and cand != K.neg(u):
                    pairs.append(("distinct-opposite", [u, cand]))
    return pairs


def check_C14(ck):
    rng = ck.rng
    thorough = ck.tier == "thorough"
    for tag in ("g1", "g2"):
        g = grp(tag)
        K, C = g.K, g.C
        Z = K.from_int(O.SSWU_Z1) if tag == "g1" else O.SSWU_Z2
        us = [K.zero, K.one, K.neg(K.one)] + [K.rand(rng) for _ in range(4 if not thorough else 30)]
        us += [K.from_int(1 << 64)] if tag == "g1" else [((1 << 64) % Q, 1), ((1 << 128) % Q, 3)]
        if tag == "g1":
            # exceptional u: Z^2 u^4 + Z u^2 = 0  <=>  u^2 = -1/Z
            s = O.fsqrt((-O.finv(O.SSWU_Z1)) % Q)
            if s is not None:
                us += [s, (-s) % Q]
        else:
            us += [(rng.randrange(Q), 0), (0, rng.randrange(Q))]
        # inputs whose SSWU output has a special Jacobian Z = -A'(Z_sswu^2 u^4 + Z_sswu u^2): Z = 1, -1, 2, -2, 2^64 ...
        # (a fast path of a later stage keyed on Z or Z^2 shows here)
        zden = sswu_inputs_with_denominator(g, tag, (K.one, K.neg(K.one), K.from_int(2), K.neg(K.from_int(2)), K.from_int(1 << 64), K.from_int(4)) + tuple(small_roots_of_unity(K)) + ((((0, 1)), ((0, Q - 1))) if K is F2 else ()))
        us += zden
        # inputs whose SSWU image is a finite RATIONAL KERNEL point of the isogeny (G1: the roots of XDEN are rational)
        kin = []
        try:
            consts = O.gen_constants()
            xden = consts["ISO11_XDEN" if tag == "g1" else "ISO3_XDEN"] if isinstance(consts, dict) else None
        except Exception:
            xden = None
        if xden is not None:
            for xr in O.poly_roots(K, list(xden), rng)[:5]:
                kin += sswu_preimages_of_x(g, tag, xr)[:2]
        us += kin
        ck.classes["constructed:sswu-image-in-isogeny-kernel/%s" % tag] = len(kin)
        singles = [[u] for u in us]
        pairs = map_input_pairs(g, tag, us[:6], rng)
        pairs += [("special-sswu-denominator", [u_, K.rand(rng)]) for u_ in zden[:6]] + [("special-sswu-denominator", [K.rand(rng), u_]) for u_ in zden[:4]]
        if tag == "g1" and s is not None:
            pairs += [("zero-and-exceptional", [K.zero, s]), ("zero-and-exceptional", [K.zero, (-s) % Q]), ("exceptional-both-signs", [s, (-s) % Q]),
                      ("exceptional-twice", [s, s])]
        want1, _, imgs1 = _compose_map(ck, g, tag, singles, "map")
        for P in imgs1:
            ck.expect(C.on_curve(P), "iso-image-on-target", "iso(sswu(u))", g.A(P), "on E", "isogeny image lies on the target curve")
        c1 = [("map/u", "%s map %s" % (tag, K.show(u))) for u in us]
        for c, (impl, _), want in zip(c1, ck.run(c1), want1):
            ck.expect(impl == g.A(want), "map", c[1], impl, g.A(want), "clear_cofactor(iso(sswu(u)))")
        want2, _, _ = _compose_map(ck, g, tag, [p[1] for p in pairs], "map2")
        c2 = [("map2/" + cl, "%s map2 %s %s" % (tag, K.show(p[0]), K.show(p[1]))) for (cl, p) in pairs]
        for (cl, p), c, (impl, _), want in zip(pairs, c2, ck.run(c2), want2):
            ck.expect(impl == g.A(want), "map2:" + cl, c[1], impl, g.A(want), "clear_cofactor(iso(sswu(u0)) + iso(sswu(u1)))")
            if cl == "u0=-u1" and not K.is_zero(p[0]):
                ck.expect(impl == "inf", "map2:u0=-u1", c[1], impl, "inf", "identity for opposite inputs")


def check_C06(ck):
    rng = ck.rng
    thorough = ck.tier == "thorough"
    msgs, dsts = _msgs(rng, thorough), _dsts(rng)
    hx = lambda b: b.hex() or "-"
    for tag in ("g1", "g2"):
        g = grp(tag)
        K, C = g.K, g.C
        combos = []
        for x in ("xmd256", "xmd512", "xof128", "xof256"):
            for mode in ("ro", "nu"):
                picks = [(rng.choice(msgs), rng.choice(dsts)) for _ in range(2 if not thorough else 8)] + [(msgs[0], dsts[0])]
                if mode == "ro" or thorough:
                    picks += [(rng.choice(msgs), d) for d in dsts]      # boundary tag lengths per suite
                    # every tag length 0..255: all of them per suite in the thorough tier, a rotating quarter per suite otherwise
                    xi = ("xmd256", "xmd512", "xof128", "xof256").index(x)
                    picks += [(rng.choice(msgs[:8]), d) for d in _dsts_all(rng) if thorough or len(d) % 4 == xi]
                if x == "xmd256":
                    picks += [(m, dsts[3]) for m in msgs[:: (3 if not thorough else 1)]]
                for (m, d) in picks:
                    combos.append((x, mode, m, d))
        m_, L = (1, 64) if tag == "g1" else (2, 64)
        us_list = [O.hash_to_field(x, m, d, 2 if mode == "ro" else 1, m_, L, Q) for (x, mode, m, d) in combos]
        want, _, _ = _compose_map(ck, g, tag, us_list, "h2c")
        cases = [("h2c/%s/%s" % (x, mode), "h2c %s %s %s %s %s" % (tag, x, mode, hx(m), hx(d))) for (x, mode, m, d) in combos]
        res = ck.run(cases)
        for c, (impl, _), w in zip(cases, res, want):
            ck.expect(impl == g.A(w), "rfc-suite:" + c[0], c[1], impl, g.A(w), "hash_to_field -> SSWU -> isogeny -> add -> clear cofactor (RFC 9380)")
            try:
                P = g.pa(impl)
                ck.expect(C.mul(P, R) is None and C.on_curve(P), "subgroup", c[1], impl, "[r]P=O", "result in the order-r subgroup")
            except Exception:
                ck.expect(False, "subgroup", c[1], impl, "a point", "result in the order-r subgroup")
        # the same (msg, dst) back-to-back with every expander and both modes (a cache keyed too coarsely shows here)
        m0, d0 = msgs[3], dsts[2]
        seq = []
        for mode in ("ro", "nu"):
            for x in ("xmd256", "xmd512", "xof128", "xof256", "xmd256"):
                seq.append((x, mode))
        us2 = [O.hash_to_field(x, m0, d0, 2 if mode == "ro" else 1, m_, L, Q) for (x, mode) in seq]
        want2, _, _ = _compose_map(ck, g, tag, us2, "h2c")
        sc = [("h2c/same-msg-dst-different-suite", "h2c %s %s %s %s %s" % (tag, x, mode, hx(m0), hx(d0))) for (x, mode) in seq]
        for c, (impl, _), w in zip(sc, ck.run(sc), want2):
            ck.expect(impl == g.A(w), "rfc-suite:back-to-back", c[1], impl, g.A(w), "result depends only on (suite, msg, dst), not on the previous call")
        # chosen field elements through the whole public pipeline (a fixed expander returns prescribed uniform bytes):
        # limb-structured, zero-component and colliding u values cannot be reached by searching hash preimages
        ls = limb_specials(rng, 1)
        if tag == "g1":
            uvals = [0, 1, Q - 1] + ls[:6]
            enc = lambda u: u.to_bytes(64, "big")
        else:
            uvals = [(0, 0), (1, 0), (0, 1)] + [(a, 1) for a in ls[:4]] + [(a, 2) for a in ls[:2]] + [(0, a) for a in ls[:2]]
            enc = lambda u: u[0].to_bytes(64, "big") + u[1].to_bytes(64, "big")
        # field elements whose SSWU image has a special Jacobian denominator (1, -1, a root of unity of order 3 or 6): where a
        # fast path of the isogeny evaluation or of the conversion to Jacobian form keyed on a POWER of Z being one goes wrong
        uvals = uvals + sswu_inputs_with_denominator(g, tag, (K.one, K.neg(K.one)) + tuple(small_roots_of_unity(K)))
        fx, fus = [], []
        for u in uvals:
            fx.append(("h2c/fixed-uniform-bytes/nu", "h2cfix %s nu %s" % (tag, enc(u).hex()))); fus.append([u])
            v = rng.choice(uvals)
            fx.append(("h2c/fixed-uniform-bytes/ro", "h2cfix %s ro %s" % (tag, (enc(u) + enc(v)).hex()))); fus.append([u, v])
            fx.append(("h2c/fixed-uniform-bytes/ro-equal", "h2cfix %s ro %s" % (tag, (enc(u) + enc(u)).hex()))); fus.append([u, u])
        # pairs of DISTINCT field elements whose SSWU images coincide / cancel, through the whole hash_to_curve pipeline
        for (cl, (u0_, u1_)) in map_input_pairs(g, tag, [K.rand(rng) for _ in range(3 if not thorough else 10)] + [K.one], rng):
            if cl.startswith("distinct"):
                fx.append(("h2c/fixed-uniform-bytes/ro-" + cl, "h2cfix %s ro %s" % (tag, (enc(u0_) + enc(u1_)).hex()))); fus.append([u0_, u1_])
        fwant, _, _ = _compose_map(ck, g, tag, fus, "h2cfix")
        for c, (impl, _), w in zip(fx, ck.run(fx), fwant):
            ck.expect(impl == g.A(w), "rfc-suite:chosen-u", c[1][:100], impl, g.A(w), "hash_to_curve pipeline on chosen field elements")
        # determinism: same call twice in the same process
        rep = cases[:3] + cases[:3]
        rr = ck.run(rep)
        for i in range(3):
            ck.expect(rr[i][0] == rr[i + 3][0], "depends-only-on-(msg,dst)", rep[i][1], rr[i + 3][0], rr[i][0], "same (msg, dst) gives the same point")


# ====================================================================== C15 / C16 / C17

def f2_solve_quadratic(a, b, c):
    """roots in Fq2 of a w^2 + b w + c"""
    K = F2
    if K.is_zero(a):
        return [] if K.is_zero(b) else [K.mul(K.neg(c), K.inv(b))]
    disc = K.sub(K.mul(b, b), K.mul(K.from_int(4), K.mul(a, c)))
    sd = K.sqrt(disc)
    if sd is None:
        return []
    i2a = K.inv(K.mul(K.from_int(2), a))
    return [K.mul(K.add(K.neg(b), sd), i2a), K.mul(K.sub(K.neg(b), sd), i2a)]


def sswu2_preimages(x):
    """all t in Fq2 with sswu2(t).x == x (inverting the SSWU map on E2')"""
    K, CP, Z = F2, O.E2P, O.SSWU_Z2
    A, B = CP.a, CP.b
    d = K.mul(K.neg(A), K.mul(x, K.inv(B)))             # -A x / B
    ws = []
    # x = x1(w):  1/(w^2+w) = d - 1
    c = K.sub(d, K.one)
    if not K.is_zero(c):
        ws += f2_solve_quadratic(K.one, K.one, K.neg(K.inv(c)))
    # x = x2(w) = w x1(w):  w^2 + (1-d) w + (1-d) = 0
    ws += f2_solve_quadratic(K.one, K.sub(K.one, d), K.sub(K.one, d))
    ts = []
    for w in ws:
        t = K.sqrt(K.mul(w, K.inv(Z)))
        if t is not None:
            for tt in (t, K.neg(t)):
                if O.sswu2(tt)[0] == (x[0] % Q, x[1] % Q):
                    ts.append(tt)
    return ts


def sswu2_special_outputs(rng, n=3):
    """inputs t whose SSWU image on E2' has y purely imaginary, y in Fq, or x with a zero component"""
    out = []
    tries = 0
    while tries < 300 and len(out) < 3 * n:
        tries += 1
        c = rng.randrange(1, Q)
        # x = X + c I with Im g(x) = 0:  3 c X^2 + 240 X + (1012 - c^3) = 0   (A' = 240 I, B' = 1012 (1 + I))
        disc = (240 * 240 - 12 * c * (1012 - c * c * c)) % Q
        sd = O.fsqrt(disc)
        if sd is None:
            continue
        X = (-240 + sd) * O.finv(6 * c % Q) % Q
        x = (X, c)
        gx = O.E2P.rhs(x)
        if gx[1] != 0:
            continue
        y = F2.sqrt(gx)
        kind = "y-in-Fq" if y[1] == 0 else "y-purely-imaginary"
        if sum(1 for k, _ in out if k == kind) >= n:
            continue
        for t in sswu2_preimages(x)[:2]:
            out.append((kind, t))
    return out


def check_C15(ck):
    rng = ck.rng
    thorough = ck.tier == "thorough"
    for tag in ("g1", "g2"):
        g = grp(tag)
        K = g.K
        us = [K.zero, K.one, K.neg(K.one)]
        if tag == "g1":
            s = O.fsqrt((-O.finv(O.SSWU_Z1)) % Q)
            us += [s, (-s) % Q]
        else:
            us += [(rng.randrange(Q), 0), (0, rng.randrange(Q)), (1, 1), (0, 1)]
        ls = limb_specials(rng, 2)
        if tag == "g1":
            us += ls
        else:
            us += [(a, b) for a in ls[:6] for b in (1, 3, 2, 0)] + [(0, a) for a in ls[:4]] + [(a, b) for a, b in zip(ls, reversed(ls))]
        special = []
        if tag == "g2":
            special = sswu2_special_outputs(rng, 3 if not thorough else 10)
            us += [t for (_, t) in special]
            ck.classes["constructed:sswu-output-special-y"] = len(special)
        # inputs whose Jacobian denominator -A'(Z^2 t^4 + Z t^2) is structured: +-1, 2, a single high limb, and for G2 a value in
        # the base field, a purely imaginary value, a diagonal value (a fast path of the output conversion keyed on the
        # denominator shows here; such t look entirely ordinary)
        if tag == "g1":
            z0s = [K.one, K.neg(K.one), K.from_int(2), K.from_int(1 << 64), K.from_int(3), K.from_int(Q - 2)] + [K.from_int(v) for v in ls[:4]]
        else:
            z0s = [K.one, K.neg(K.one), K.from_int(2), (0, 1), (0, Q - 1)] + [(k_, 0) for k_ in range(3, 24)] + [(0, k_) for k_ in range(2, 16)] + [(k_, k_) for k_ in range(1, 8)]
        z0s = list(z0s) + small_roots_of_unity(K)      # denominators whose cube / sixth power is 1 without being 1
        dsp = sswu_inputs_with_denominator(g, tag, z0s)
        us += dsp if thorough else (dsp[:8] + dsp[8::max(1, len(dsp) // 16)])
        ck.classes["constructed:sswu-denominator-structured"] = len(dsp)
        # fill every (which candidate is square) x (sign of t) class (the multiplier class is recorded from outputs)
        hist = {}
        need = 3 if not thorough else 25
        tries = 0
        while tries < 4000 and (len(hist) < 4 or min(hist.values()) < need):
            tries += 1
            u = K.rand(rng)
            P = g.sswu(u)
            # which candidate: x == x1 ?
            first = (g.sswu.__name__ and P[0] == _x1(g, u))
            key = (first, K.sgn0(u))
            if hist.get(key, 0) < need:
                hist[key] = hist.get(key, 0) + 1
                us.append(u)
        cases = [("osswu/" + ("first" if (g.sswu(u)[0] == _x1(g, u)) else "second") + "/sgn%d" % K.sgn0(u), "%s osswu %s" % (tag, K.show(u))) for u in us]
        res = ck.run(cases)
        for u, c, (impl, _) in zip(us, cases, res):
            want = g.sswu(u)
            try:
                x, y, z = [O.parse_f(K, t) for t in impl.split("/")]
                zi = K.inv(z)
                zi2 = K.mul(zi, zi)
                got = (K.mul(x, zi2), K.mul(y, K.mul(zi2, zi)))
            except Exception:
                got = None
            ck.expect(got == want and g.CP.on_curve(want), "sswu:" + c[0].split("/")[1], c[1], impl, g.A(want), "RFC 9380 map_to_curve_simple_swu (python transcription)")


def _x1(g, u):
    K, CP = g.K, g.CP
    Z = K.from_int(O.SSWU_Z1) if g.tag == "g1" else O.SSWU_Z2
    zu2 = K.mul(Z, K.mul(u, u))
    tv1 = K.add(K.mul(zu2, zu2), zu2)
    if K.is_zero(tv1):
        return K.mul(CP.b, K.inv(K.mul(Z, CP.a)))
    return K.mul(K.mul(K.neg(CP.b), K.inv(CP.a)), K.add(K.one, K.inv(tv1)))


def check_C16(ck):
    rng = ck.rng
    thorough = ck.tier == "thorough"
    for tag in ("g1", "g2"):
        g = grp(tag)
        K, C, CP = g.K, g.C, g.CP
        pts = [CP.random_point(rng) for _ in range(6 if not thorough else 40)]
        pts += [g.sswu(K.zero), g.sswu(K.one)]
        # points of the isogenous curve that ALSO satisfy the equation of the target curve (the two cubics meet at
        # x = (b - B')/A'): an "already on the target curve" guard must not treat them as images
        xc = K.mul(K.sub(C.b, CP.b), K.inv(CP.a))
        Pc = CP.lift_x(xc)
        if Pc is not None:
            pts += [Pc, CP.neg(Pc)]
        # points whose abscissa is a root of a LEADING-COEFFICIENT PREFIX of one of the four polynomials (the Horner
        # accumulator is exactly zero part-way through the evaluation)
        try:
            consts = O.gen_constants()
            pre_pts = g._cache.get("horner-prefix-roots")
            if pre_pts is None:
                pre_pts = []
                import random as _rnd
                r0 = _rnd.Random(7)
                for nm in ("XNUM", "XDEN", "YNUM", "YDEN"):
                    cs = list(consts[("ISO11_" if tag == "g1" else "ISO3_") + nm])
                    for k_ in range(1, len(cs) - 1):
                        for xr in O.poly_roots(K, cs[len(cs) - 1 - k_:], r0)[:2]:
                            Pr = CP.lift_x(xr)
                            if Pr is not None:
                                pre_pts.append(Pr)
                g._cache["horner-prefix-roots"] = pre_pts
            pts += pre_pts if thorough else pre_pts[::max(1, len(pre_pts) // 8)]
            ck.classes["constructed:horner-prefix-root-points/%s" % tag] = len(pre_pts)
        except Exception as e_:
            ck.notes.append("horner prefix roots not constructed: %s" % e_)
        cases = []
        for P in pts:
            cases.append(("iso/z1", "%s iso %s" % (tag, g.J(P))))
            cases.append(("iso/other-rep", "%s iso %s" % (tag, g.J(P, g.lam(rng)))))
        cases.append(("iso/identity", "%s iso %s" % (tag, g.J(None))))
        extra = []
        for P in pts[:3]:
            for (cl, lam) in rep_lams(g, rng):
                extra.append((P, ("iso/rep:" + cl, "%s iso %s" % (tag, g.J(P, lam)))))
        eres = ck.run([e[1] for e in extra])
        base_img = {}
        for (P, c), (impl, _) in zip(extra, eres):
            key = id(P)
            if key not in base_img:
                base_img[key] = impl
            ck.expect(impl == base_img[key], "representation-independent", c[1], impl, base_img[key], "same image for z = 1, -1, 2, 2^64, random")
        res = ck.run(cases)
        img = {}
        for i, P in enumerate(pts):
            a, b = res[2 * i][0], res[2 * i + 1][0]
            ck.expect(a == b, "representation-independent", cases[2 * i + 1][1], b, a, "same image for every Jacobian representative")
            try:
                I = g.pa(a)
                ck.expect(C.on_curve(I), "image-on-target", cases[2 * i][1], a, "on E", "image is a point of the target curve")
                img[i] = I
            except Exception:
                ck.expect(False, "image-on-target", cases[2 * i][1], a, "a point", "image parse")
        ck.expect(res[-1][0] == "inf", "identity->identity", cases[-1][1], res[-1][0], "inf", "identity maps to identity")
        # rational kernel points (poles of the rational map) must go to the identity, in every representation
        if tag == "g1":
            kx = 0x140d41735b10ce710727cd9356905701a2b866b803baa468948b7f423ddcc560c9a8f1cd5f8ed4297c37464fb8bfe4a7
            kpt = CP.lift_x(kx)
        else:
            kpt = CP.lift_x(((-6) % Q, 6))
        if kpt is not None:
            kp = [kpt, CP.neg(kpt)] + [CP.mul(kpt, j) for j in (2, 3)]
            kc = []
            for Kp in kp:
                if Kp is None:
                    continue
                for (cl, lam) in rep_lams(g, rng)[:4]:
                    kc.append(("kernel/" + cl, "%s iso %s" % (tag, g.J(Kp, lam))))
                # kernel point + ordinary point: image equals image of the ordinary point (homomorphism, tested)
            for c, (impl, _) in zip(kc, ck.run(kc)):
                ck.expect(impl == "inf", "kernel->identity", c[1], impl, "inf", "every kernel point maps to the identity")
            P0 = pts[0]
            (a, _), (b, _) = ck.run([("kernel/shift", "%s iso %s" % (tag, g.J(CP.add(P0, kpt), g.lam(rng)))), ("kernel/shift", "%s iso %s" % (tag, g.J(P0)))])
            ck.expect(a == b, "homomorphism(test)", "iso(P + K) = iso(P)", a, b, "adding a kernel point does not change the image")
        else:
            ck.notes.append("no rational kernel point constructed for %s" % tag)
        # inputs with special OUTPUTS: roots of the numerators / denominators of the rational map
        try:
            gc = O.gen_constants()
            pre = "ISO11_" if tag == "g1" else "ISO3_"
            special = []
            for (nm, what) in (("XNUM", "image-x=0"), ("YNUM", "image-y=0"), ("XDEN", "kernel"), ("YDEN", "kernel")):
                for xr in O.poly_roots(K, gc[pre + nm], rng)[: (4 if not thorough else 12)]:
                    Pt = CP.lift_x(xr)
                    if Pt is not None:
                        special.append((what, Pt))
            sc = []
            for (what, Pt) in special:
                for (cl, lam) in rep_lams(g, rng)[:3]:
                    sc.append((what, ("special-output/%s/%s" % (what, cl), "%s iso %s" % (tag, g.J(Pt, lam)))))
                    sc.append((what, ("special-output/%s/neg/%s" % (what, cl), "%s iso %s" % (tag, g.J(CP.neg(Pt), lam)))))
            for (what, c), (impl, _) in zip(sc, ck.run([c for (_, c) in sc])):
                if what == "kernel":
                    ck.expect(impl == "inf", "kernel->identity", c[1], impl, "inf", "poles of the rational map go to the identity")
                else:
                    try:
                        I = g.pa(impl)
                        ok = I is not None and C.on_curve(I) and (K.is_zero(I[0]) if what == "image-x=0" else K.is_zero(I[1]))
                    except Exception:
                        ok = False
                    ck.expect(ok, "special-output:" + what, c[1], impl, "finite point of E with that coordinate zero", "a zero of a numerator is NOT the identity")
            ck.classes["constructed:iso-special-outputs"] = len(special)
        except Exception as e:
            ck.notes.append("special-output construction failed: %r" % (e,))
        # homomorphism (tested, not proved): iso(P+Q) = iso(P)+iso(Q) with + on E' by the a != 0 law
        hc, exp = [], []
        idx = list(img.keys())
        pairs = [(rng.choice(idx), rng.choice(idx)) for _ in range(6 if not thorough else 40)] + [(idx[0], idx[0])]
        for (i, j) in pairs:
            S = CP.add(pts[i], pts[j])
            hc.append(("hom/sum", "%s iso %s" % (tag, g.J(S, g.lam(rng))))); exp.append(g.A(C.add(img[i], img[j])))
        i = idx[0]
        hc.append(("hom/neg", "%s iso %s" % (tag, g.J(CP.neg(pts[i]))))); exp.append(g.A(C.neg(img[i])))
        for c, (impl, _), want in zip(hc, ck.run(hc), exp):
            ck.expect(impl == want, "homomorphism(test)", c[1], impl, want, "image of a sum = sum of images")
        # degree check (ties the coefficients to an isogeny of the stated degree): the image has order r for subgroup-ish inputs is not available;
        # instead: [deg] kernel -- kernel points map to identity: rational roots of XD found through the model are exercised in the Lean KATs.


def check_C17(ck):
    rng = ck.rng
    thorough = ck.tier == "thorough"
    for tag in ("g1", "g2"):
        g = grp(tag)
        C = g.C
        pts = [("identity", None), ("generator", g.gen)] + [("full-curve", g.full(rng)) for _ in range(4 if not thorough else 30)]
        pts += [("order-%d" % l, g.low(l, rng)) for l in g.small]
        pts.append(("low+subgroup", C.add(g.low(g.small[0], rng), g.sub_pt(rng))))
        pts.append(("low+low", C.add(g.low(g.small[0], rng), g.low(g.small[1], rng))))
        cases, exp = [], []
        for (cl, P) in pts:
            for rep in range(2):
                cases.append(("clearh/" + cl, "%s clearh %s" % (tag, g.J(P, g.lam(rng) if rep else None)))); exp.append(C.mul(P, g.heff))
        for (cl, P) in pts[1:4] + pts[-3:-1]:
            for (rc, lam_) in rep_lams(g, rng):
                if lam_ is not None:
                    cases.append(("clearh/%s/rep:%s" % (cl, rc), "%s clearh %s" % (tag, g.J(P, lam_)))); exp.append(C.mul(P, g.heff))
        if tag == "g1":
            for (cl, P) in pts[:6]:
                cases.append(("chain_z/" + cl, "chain z g1 %s" % g.J(P, g.lam(rng)))); exp.append(C.mul(P, 0xd201000000010000))
            for (rc, lam_) in rep_lams(g, rng):
                cases.append(("chain_z/rep:" + rc, "chain z g1 %s" % g.J(pts[2][1], lam_))); exp.append(C.mul(pts[2][1], 0xd201000000010000))
        res = ck.run(cases)
        for c, (impl, _), want in zip(cases, res, exp):
            ck.expect(impl == g.A(want), "heff:" + c[0].split("/")[0], c[1], impl, g.A(want), "[h_eff]P on the whole curve")
            if c[0].startswith("clearh"):
                ck.expect(C.mul(want, R) is None, "clears-cofactor(test)", c[1], g.A(want), "[r][h_eff]P = O", "result in the order-r subgroup")
        # additivity on impl outputs
        P, Qp = pts[2][1], pts[3][1]
        (a, _), (b, _), (s, _) = ck.run([("additive", "%s clearh %s" % (tag, g.J(X))) for X in (P, Qp, C.add(P, Qp))])
        try:
            ck.expect(g.pa(s) == C.add(g.pa(a), g.pa(b)), "additive", "clearh(P+Q)", s, "clearh(P)+clearh(Q)", "additive")
        except Exception:
            ck.expect(False, "additive", "clearh(P+Q)", s, "points", "additive")
    # field chains
    cc = []
    for _ in range(4):
        a = rng.randrange(Q); cc.append(("chain/pm3div4", "chain pm3div4 %x" % a, "%x" % pow(a, (Q - 3) // 4, Q)))
        b = F2.rand(rng); cc.append(("chain/p2m9div16", "chain p2m9div16 %s" % F2.show(b), F2.show(F2.pow(b, (Q * Q - 9) // 16))))
    for (cl, line, want), (impl, _) in zip(cc, ck.run([(c[0], c[1]) for c in cc])):
        ck.expect(impl == want, "field-chain", line, impl, want, "x^((q-3)/4), x^((q^2-9)/16)")


# ====================================================================== C20 (determinism / concurrency)

def check_C20(ck):
    """history independence + purity audit + concurrent differential run (a test, labelled as such)"""
    import os, re, subprocess, threading
    rng = ck.rng
    repo = os.environ.get("PP_REPO", "/repo")
    # (1) purity audit of the source: no shared mutable state
    pat = re.compile(r"static\s+mut|\bCell<|RefCell|Atomic[A-Z]|\bMutex\b|RwLock|thread_local!|lazy_static|OnceCell|Once\b|\bstatic\s+[A-Z_]+\s*:")
    hits, unsafe_hits = [], []
    for root, _, files in os.walk(os.path.join(repo, "src")):
        for fn in files:
            if fn.endswith(".rs"):
                p = os.path.join(root, fn)
                src = open(p).read()
                # strip test modules is not attempted: any occurrence counts
                for ln, line in enumerate(src.split("\n"), 1):
                    code = line.split("//")[0]
                    if pat.search(code):
                        hits.append("%s:%d:%s" % (os.path.relpath(p, repo), ln, code.strip()[:60]))
                    if re.search(r"\bunsafe\b", code):
                        unsafe_hits.append("%s:%d:%s" % (os.path.relpath(p, repo), ln, code.strip()[:70]))
    ck.oblige("audit:no-shared-mutable-state", not hits, "; ".join(hits[:5]))
    allowed_unsafe = re.compile(r"transmute|as_tuple_mut|unsafe fn|# Safety")
    unsafe_hits = [h for h in unsafe_hits if "/tests" not in h.split(":")[0] and not h.split(":")[0].endswith("tests.rs")]
    bad_unsafe = [h for h in unsafe_hits if not allowed_unsafe.search(h)]
    ck.oblige("audit:unsafe-only-in-listed-constructors", not bad_unsafe, "; ".join(bad_unsafe[:5]))
    # (2) history independence + concurrency: a mixed workload, run once sequentially, then the same lines
    #     from 16 concurrently running executor processes AND inside one process in shuffled order
    g1, g2 = grp("g1"), grp("g2")
    work = []
    for _ in range(6):
        P, Qp = g1.sub_pt(rng), g2.sub_pt(rng)
        k = rng.randrange(R)
        work += ["g1 mul %s %x" % (g1.J(P, g1.lam(rng)), k), "g2 affmul %s %x" % (g2.A(Qp), k),
                 "g1 wnaf 4 %s %x" % (g1.J(P), k), "pairing %s %s" % (g1.A(P), g2.A(Qp)),
                 "h2c g1 xmd256 ro %s 51" % bytes(rng.randrange(256) for _ in range(9)).hex(),
                 "h2c g1 xmd512 ro 0102 51", "h2c g2 xmd256 nu 0102 51", "h2c g1 xof128 ro 0102 51", "h2c g1 xmd256 ro 0102 51", "h2f fq2 xmd512 0102 51 1", "h2f fq xof256 0102 51 2",
                 "g1 wnafhist bs:%s:5:%x;sb:%x:%s;bs:%s:300:%x" % (g1.J(P), k, k, g1.J(g1.gen), g1.J(P), k // 3),
                 "g1 wnafhist bs:%s:5:%x;bs:%s:5:0;sb:%x:%s;sb:0:%s;bsh:%s:2:0;bs:%s:2:1" % (g1.J(P), k, g1.J(P), k, g1.J(P), g1.J(P), g1.J(P), g1.J(P)),
                 "g2 wnafhist sb:%x:%s;sb:0:%s;bs:%s:9:%x;bs:%s:9:0" % (k, g2.J(Qp), g2.J(Qp), g2.J(Qp), k, g2.J(Qp)),
                 # table sizes that shrink, grow and change base: big table, tiny window on another base, medium window, shared views in between
                 "g1 wnafhist bs:%s:%x:%x;bs:%s:1:%x;bsh:%s:1:%x;bs:%s:a:%x;sb:%x:%s" % (g1.J(P), rng.choice([100, 200, 300]), k, g1.J(g1.gen), k // 5, g1.J(g1.gen), k // 9, g1.J(P), k // 11, k, g1.J(g1.gen)),
                 "g2 wnafhist bs:%s:%x:%x;bs:%s:2:%x;sbh:%x:%s;bs:%s:2c:%x" % (g2.J(Qp), rng.choice([121, 300]), k, g2.J(g2.gen), k // 3, k // 7, g2.J(g2.gen), g2.J(Qp), k // 13),
                 # the library's cross-thread sharing API: one window table / one digit string / one prepared element shared
                 # BY REFERENCE between concurrently running threads (one thread per listed scalar / base / point)
                 "g1 wnafshare_base %s %x %s" % (g1.J(P, g1.lam(rng)), rng.choice([1, 8, 64, 300]), ";".join("%x" % rng.randrange(R) for _ in range(6))),
                 "g2 wnafshare_base %s %x %s" % (g2.J(Qp), rng.choice([2, 21, 121]), ";".join("%x" % rng.randrange(R) for _ in range(4))),
                 "g1 wnafshare_scalar %x %s" % (k, ";".join(g1.J(g1.sub_pt(rng), g1.lam(rng)) for _ in range(5))),
                 "g2 wnafshare_scalar %x %s" % (k // 3, ";".join(g2.J(g2.sub_pt(rng)) for _ in range(3))),
                 "pairshare %s %s" % (";".join(g1.A(g1.C.mul(P, j + 1)) for j in range(4)), g2.A(Qp)),
                 "g2 pip 4 %s;%s %x;%x" % (g2.A(Qp), g2.A(g2.gen), k, k // 7),
                 # a REJECTED request (the library panics: scalar with bit 255 set, after other scalars were already processed)
                 # followed by valid requests on the same thread: nothing of the failed call may survive
                 "g1 pip 2 %s;%s;%s %x;%x;%x" % (g1.A(P), g1.A(g1.gen), g1.A(P), (3 << 253) | 5, (1 << 254) | 9, 1 << 255),
                 "g1 pip 2 %s;%s %x;%x" % (g1.A(g1.gen), g1.A(P), (3 << 253) | 1, k >> 1),
                 "g1 pip 3 %s;%s %x;%x" % (g1.A(g1.gen), g1.A(P), (7 << 252) | 1, k >> 1),
                 "g1 sop %s;%s %x;%x" % (g1.A(g1.gen), g1.A(P), (5 << 252) | 3, k >> 2),
                 "g2 pip 5 %s;%s %x;%x" % (g2.A(Qp), g2.A(g2.gen), (1 << 254) | (1 << 253) | 7, 1 << 255),
                 "g2 pip 5 %s;%s %x;%x" % (g2.A(g2.gen), g2.A(Qp), (1 << 254) | 3, k >> 3),
                 "g2 pip 2 %s %x" % (g2.A(Qp), (3 << 253) | 3),
                 # output lengths that are not a multiple of the digest size (a partially written / uninitialised tail would
                 # depend on what the allocator left there), also through hash_to_field for Fr (48 bytes per element)
                 "expand xmd256 %s 51 11" % bytes(rng.randrange(256) for _ in range(5)).hex(), "expand xmd256 0102 51 30", "expand xmd512 0102 51 21", "expand xmd512 %s 51 61" % bytes(rng.randrange(256) for _ in range(40)).hex(),
                 "expand xof128 0102 51 11", "h2f fr xmd256 0102 51 1", "h2f fr xmd512 0102 51 3", "h2f fr xmd256 %s 51 1" % bytes(rng.randrange(256) for _ in range(7)).hex(),
                 "okm fq %s" % bytes(rng.randrange(256) for _ in range(64)).hex(), "okm fr %s" % bytes(rng.randrange(256) for _ in range(48)).hex(), "okm fq2 %s" % bytes(rng.randrange(256) for _ in range(128)).hex(),
                 "g1 enc_c %s" % g1.A(P), "fq12 frob %s 7" % O.show_f12(O.f12_unflat([rng.randrange(Q) for _ in range(12)]))]
    # long pairing products whose blocks of 8 pairs differ widely in cost (real pairs / pairs with an identity G2 member):
    # a parallel preparation that collects blocks in completion order depends on the scheduler exactly here
    Pa, Qa, Pb, Qb = g1.sub_pt(rng), g2.sub_pt(rng), g1.sub_pt(rng), g2.sub_pt(rng)
    for pat in ("r" + "i" * 4, "i" * 4 + "r", "ririri"):
        ps, qs = [], []
        for bi, blk in enumerate(pat):
            for j in range(8):
                ps.append(g1.C.mul(Pa if j % 2 == 0 else Pb, bi + 1))        # G1 members differ from block to block
                qs.append(None if blk == "i" else (Qa if j % 2 == 0 else Qb))
        work.append("pairmulti %s %s" % (";".join(g1.A(P) for P in ps), ";".join(g2.A(Qp) for Qp in qs)))
    base = ck.run([("sequential", w) for w in work])
    ref = [a for (a, _) in base]
    # sustained concurrent preparation of distinct G2 points (a racy process-wide memo needs thousands of overlapping calls)
    st = [("concurrent-prepare-stress", "preparestress %s;%s;%s %x" % (g2.A(g2.gen), g2.A(g2.sub_pt(rng)), g2.A(g2.sub_pt(rng)), 3000 if ck.tier != "thorough" else 20000))]
    for c_, (impl_, _) in zip(st, ck.run(st)):
        ck.expect(impl_ == "ok", "concurrent", c_[1][:100], impl_, "ok", "16 threads preparing 3 distinct G2 points concurrently get the sequential results")
    for w, r in zip(work, ref):
        tk = w.split(" ")
        try:
            if tk[1:2] == ["wnafshare_base"]:
                g = g1 if tk[0] == "g1" else g2
                x, y, z = [O.parse_f(g.K, t) for t in tk[2].split("/")]
                zi = g.K.inv(z); zi2 = g.K.mul(zi, zi)
                B = (g.K.mul(x, zi2), g.K.mul(y, g.K.mul(zi2, zi)))
                want = ";".join(g.A(g.C.mul(B, int(t, 16))) for t in tk[4].split(";"))
                ck.expect(r == want, "shared-table-across-threads", w[:120], r[:100], want[:100], "every thread sharing the window table gets [k_i]B")
            elif tk[1:2] == ["wnafshare_scalar"]:
                g = g1 if tk[0] == "g1" else g2
                kk_ = int(tk[2], 16)
                outs = []
                for t in tk[3].split(";"):
                    x, y, z = [O.parse_f(g.K, u_) for u_ in t.split("/")]
                    zi = g.K.inv(z); zi2 = g.K.mul(zi, zi)
                    outs.append(g.A(g.C.mul((g.K.mul(x, zi2), g.K.mul(y, g.K.mul(zi2, zi))), kk_)))
                ck.expect(r == ";".join(outs), "shared-digits-across-threads", w[:120], r[:100], ";".join(outs)[:100], "every thread sharing the digit string gets [k]B_i")
            elif tk[0] == "pairshare":
                Qs = g2.pa(tk[2])
                want = ";".join(O.show_f12(O.ate_pairing(g1.pa(t), Qs)) for t in tk[1].split(";")[:2])
                ck.expect(";".join(r.split(";")[:2]) == want, "shared-prepared-across-threads", w[:120], r[:100], want[:100], "every thread sharing the prepared G2 element gets e(P_i,Q) (textbook ate oracle)")
        except Exception as e:
            ck.expect(False, "shared-across-threads", w[:120], r[:100], "parsable results (%s)" % e, "sharing API")
    # every call of a reused-context history must equal the same call on a FRESH context
    for w, r in zip(work, ref):
        if " wnafhist " in w:
            tagw, _, hist = w.split(" ", 2)
            calls = hist.split(";")
            fresh = ck.run([("fresh-context", "%s wnafhist %s" % (tagw, c.replace("bsh:", "bs:").replace("sbh:", "sb:"))) for c in calls])
            ck.expect(";".join(f[0] for f in fresh) == r, "history-independent", w[:120], r[:120], ";".join(f[0] for f in fresh)[:120], "reused wNAF context = fresh contexts, call by call")
    # same lines in a different order inside one process (call-history independence)
    order = list(range(len(work)))
    rng.shuffle(order)
    shuf = ck.run([("shuffled-history", work[i]) for i in order] + [("repeat", work[i]) for i in order[:10]])
    for pos, i in enumerate(order):
        ck.expect(shuf[pos][0] == ref[i], "history-independent", work[i], shuf[pos][0], ref[i], "same result whatever was called before")
    for pos, i in enumerate(order[:10]):
        ck.expect(shuf[len(order) + pos][0] == ref[i], "repeatable", work[i], shuf[len(order) + pos][0], ref[i], "evaluating again gives the same bits")
    # thorough tier: the real code under Miri (data-race detector + UB checker of the Rust abstract machine) on a small
    # workload that uses the cross-thread sharing API and the 4-thread executor mode (tiny scalars: Miri is ~1000x slower)
    if ck.tier == "thorough":
        import runner as _r
        mw = ["g1 wnafshare_base %s 1 5;9;b" % g1.J(g1.gen), "g1 wnafshare_scalar d %s;%s" % (g1.J(g1.gen), g1.J(P)),
              "g1 add %s %s" % (g1.J(P), g1.J(g1.gen)), "fq2 mul 3,4 5,6", "g1 enc_c %s" % g1.A(P), "g1 wnafhist bs:%s:1:7;sb:3:%s" % (g1.J(P), g1.J(g1.gen))]
        env = dict(os.environ, RUSTFLAGS="--cfg pairing_plus_verif", CARGO_NET_OFFLINE="true", CARGO_TARGET_DIR=os.path.join(_r.HARNESS, "target-miri"),
                   MIRIFLAGS="-Zmiri-disable-isolation")
        try:
            mr = subprocess.run(["cargo", "+nightly", "miri", "run", "--offline", "--", "--threads", "4"], cwd=_r.HARNESS, env=env, input="\n".join(mw) + "\n",
                                stdout=subprocess.PIPE, stderr=subprocess.PIPE, text=True, timeout=3000)
            err = mr.stderr
            ub = [l for l in err.split("\n") if "Undefined Behavior" in l or "data race" in l.lower()]
            if mr.returncode != 0 and not ub and ("error: no such command" in err or "is not installed" in err or "could not find" in err.lower()):
                ck.notes.append("miri not available: %s" % err[-200:])
            else:
                ck.oblige("miri:threads-no-data-race-no-UB", mr.returncode == 0 and not ub, (ub[0] if ub else err[-300:]) if (mr.returncode != 0 or ub) else "")
                mo = mr.stdout.split("\n")[:len(mw)]
                seq = [a for (a, _) in ck.run([("miri-workload", w) for w in mw])]
                for w, got, want in zip(mw, mo, seq):
                    ck.expect(got == want, "concurrent", w[:100], got[:100], want[:100], "same bits under Miri with 4 threads")
        except subprocess.TimeoutExpired:
            ck.notes.append("miri run timed out (not counted)")
    # 16 processes at once (exercises nothing shared between processes; threads inside one process are covered by the thread mode below)
    import runner
    inp = "\n".join(work) + "\n"
    outs = [None] * 16
    def go(i):
        r = subprocess.run([runner.PPEXEC, "--threads", "16"], input=inp, stdout=subprocess.PIPE, stderr=subprocess.DEVNULL, text=True)
        outs[i] = r.stdout.split("\n")[:len(work)]
    th = [threading.Thread(target=go, args=(i,)) for i in range(4)]
    for t in th: t.start()
    for t in th: t.join()
    for i in range(4):
        ck.evaluations += len(work)
        ck.classes["16-threads-one-process"] = ck.classes.get("16-threads-one-process", 0) + len(work)
        for j, w in enumerate(work):
            got = outs[i][j] if outs[i] and j < len(outs[i]) else "<missing>"
            ck.expect(got == ref[j], "concurrent", w, got, ref[j], "bit-identical under 16 concurrent threads")
