"""Static description of the checks: which Lean modules carry each property's theorems, the claimed level,
what is partial."""

TRUSTED_BASE = [
    "Lean 4.33 kernel (incl. GMP Nat arithmetic used by `decide +kernel`), Mathlib v4.33 as compiled in the image",
    "axioms admitted: propext, Classical.choice, Quot.sound (audited per theorem on every run)",
    "the theorem statements in lean/PP/Props and the specs in lean/PP/Spec (RFC 9380 / ZCash format transcribed from knowledge; no RFC text offline)",
    "extract/extract.py (translator: constants, chains, ladders); a parse failure is a broken obligation",
    "hand-written model lean/PP/Model tied to /repo by differential execution (harness/ppexec vs lean ppdrv) on the generated cases only",
    "pylib/oracle.py (python spec-level oracle, used to build inputs and for the failing-input search)",
    "modelled, not verified: proc-macro's unrolled limb-level Montgomery mul/square (integer-level REDC model), std::io Read/Write (byte lists), byteorder, generic-array, sha2/sha3 crates (Lean re-implementations PP/Spec/Hash.lean, validated differentially)",
    "rustc/LLVM, OS",
]

PROPS = {
    "C01": {"modules": ["PP.Props.C01"], "level": "proof"},
    "C02": {"modules": ["PP.Props.C02"], "level": "proof"},
    "C04": {"modules": ["PP.Props.C04"], "level": "proof"},
    "C05": {"modules": ["PP.Props.C05"], "level": "proof"},
    "C07": {"modules": ["PP.Props.C07"], "level": "proof"},
    "C19": {"modules": ["PP.Props.C19"], "level": "proof"},
    "C08": {"modules": ["PP.Props.C08"], "level": "proof"},
    "C09": {"modules": ["PP.Props.C09"], "level": "proof"},
    "C18": {"modules": ["PP.Props.C18"], "level": "proof"},
    "C06": {"modules": ["PP.Props.C06"], "level": "proof"},
    "C10": {"modules": ["PP.Props.C10"], "level": "proof"},
    "C13": {"modules": ["PP.Props.C13"], "level": "proof"},
    "C14": {"modules": ["PP.Props.C14"], "level": "proof"},
    "C15": {"modules": ["PP.Props.C15"], "level": "proof"},
    "C16": {"modules": ["PP.Props.C16"], "level": "proof"},
    "C17": {"modules": ["PP.Props.C17"], "level": "proof"},
    "C20": {"modules": ["PP.Props.C20"], "level": "other"},
    "C03": {"modules": ["PP.Props.C03"], "level": "other"},
    "C11": {"modules": ["PP.Props.C11"], "level": "other"},
    "C12": {"modules": ["PP.Props.C12"], "level": "other"},
}
