"""Static description of the checks: which Lean modules carry each property's theorems, the claimed level,
what is partial.  bin/mkmanifest turns this into MANIFEST.json; bin/check copies it into the evidence."""

TRUSTED_BASE = [
    "Lean 4.33 kernel (incl. GMP Nat arithmetic used by `decide +kernel`), Mathlib v4.33 as compiled in the image",
    "axioms admitted: propext, Classical.choice, Quot.sound (audited per theorem on every run with #print axioms); no native_decide, bv_decide, sorry, axiom, implemented_by (grep on every run)",
    "the theorem statements in lean/PP/Props and the specs in lean/PP/Spec (RFC 9380 / ZCash format transcribed from knowledge; no RFC text offline)",
    "the translators extract/extract*.py (python): extract.py (constants, tables, ladders, addition chains), extract_mont.py (unrolled limb-level Montgomery code from rustc -Zunpretty=expanded), extract_derive.py (the rest of the derive-generated Fq/Fr/FqRepr/FrRepr code and ff's Field::pow), extract_arith.py (85 functions: towers, curve arithmetic, SSWU, cofactor clearing, map_to_curve, Miller steps, final exponentiation), extract_enc.py (40 functions: EncodedPoint impls, SerDes impls), extract_pair.py (Miller-loop driver, G2 preparation, pairing helpers) [, extract_msm.py when present]; each translated definition is proved EQUAL to the hand model (PP.Props.Gen*), a construct they do not understand is a broken obligation; their faithfulness (Rust semantics of the subset they accept: shadowing, &mut as returned value, Option for panics, u64 wrap-around where Rust wraps, overflow checks of usize arithmetic not modelled) is trusted and validated by the differential runs",
    "what is NOT reached by a translator is tied to /repo by differential execution only (harness/ppexec vs lean ppdrv on the generated cases): eval_iso (functional model + loop-invariant theorems), hash_to_field / expand_message glue, wNAF and multi-scalar code unless PP.Props.GenMsm is present, std/ff/digest primitives (Vec, iterators, BitIterator, adc/sbb/mac text-checked by hash)",
    "pylib/oracle.py (python spec-level oracle, used to build inputs, as third opinion on the implementation's outputs, and for the failing-input search)",
    "modelled, not verified: std::io Read/Write (byte lists), byteorder, generic-array, sha2/sha3 crates (Lean re-implementations PP/Spec/Hash.lean, validated differentially against the crates and hashlib); thread scheduling (C20: source audit, 16-thread stress, Miri in the thorough tier)",
    "rustc/LLVM, OS",
]

DIFF = " Tie to the code: constants, chains and (for the arithmetic, encoding, derive and pairing-driver layers) the function bodies themselves are regenerated from /repo on every run and proved equal to the model (a changed constant or function breaks a kernel-checked obligation); everything, translated or not, is also run differentially: the real code against the compiled Lean model on directed input classes, with an independent python oracle as the spec side."

PROPS = {
    "C01": {
        "modules": ["PP.Props.C01"], "level": "proof", "technique": "Lean 4 proof (refinement to Mathlib's Weierstrass point group) + differential model/impl correspondence",
        "text": "Theorems for every field of char != 2,3 and every b != 0: the model's Jacobian double/add/addMixed/neg/sub/beq/toAffine/toJac/batchNormalize refine Mathlib's group law on W.Point for ALL on-curve inputs and ALL representatives (identity, P+P, P+(-P), same point under two representatives, y=0), and every finite program over a register file ends in the point the abstract group predicts (induction on the program); instantiated for G1 and G2 (ShortW instances)." + DIFF,
        "note": "the curve macro's double/add/mixed add/negate/eq/conversions are translated from the source and proved equal to the model (GenArith); batch_normalization is tied by differential cases; curve hypotheses 2,3,b != 0 proved for both concrete curves",
    },
    "C02": {
        "modules": ["PP.Props.C02", "PP.Props.C02Inst"], "level": "proof", "technique": "Lean 4 proof (induction over bit lists / digit columns / wNAF digits, invariants) + differential correspondence",
        "text": "For every curve point and every k < 2^256: affine and projective double-and-add, the 3-entry and 256-entry table multiplications (tables from the library's own precomputation, which is proved never to panic) return [k]P; wNAF for every window 2..22 and k < 2^255 (termination within the fuel, digit bounds, no index panic, result [k]P); a reused wNAF context returns what a fresh one returns for any history; recommended windows in 2..22 (over the extracted tables). All relative to the C01 group model, instantiated at G1/G2." + DIFF,
        "note": "window sizes above 18 (G1) / 15 (G2) are covered by theorem only, not by differential cases (table size)",
    },
    "C03": {
        "modules": ["PP.Props.C03", "PP.Props.C03Lines", "PP.Props.C11Neg", "PP.Props.C03LinP", "PP.Props.C03LinQ", "PP.Props.C03Bilinear"], "level": "proof", "technique": "Lean 4 proof (Miller loop = textbook tangent/chord lines; bilinearity from line-line reciprocity + twisted Frobenius (first argument) and from the ideal theory of Mathlib's coordinate ring of the curve over Fq12 (second argument); non-degeneracy from bilinearity, cyclicity of G1/G2 and the kernel-evaluated e(g1,g2)) + differential and oracle tests",
        "text": "ALL clauses are theorems about the model's pairing (which is proved equal to the translation of the Rust code, GenPair). BILINEARITY (PP.Props.C03Bilinear.bilinear): for P in G1, Q in G2 and all a, b, e([a]P,[b]Q) = e(P,Q)^(ab), identities and scalars >= r included, also with the model's own scalar multiplications (bilinear_mul); it never fails on these inputs. Proof without divisor theory: linearity in P (C03LinP: for ALL P on E(Fq), not only G1) by reciprocity of lines on explicit points, a Miller-loop invariant, the twisted Frobenius pi = [q] on G2 and r | q - x; linearity in Q (C03LinQ) through Mathlib's coordinate ring over Fq12: the ideal of a line is the product of the maximal ideals of its zeros, units are constants, so the quotient of Miller functions is a constant c with c^4 = 1, which the final exponentiation kills. NON-DEGENERACY (nondegenerate): on G1 x G2, e(P,Q) = 1 iff P or Q is the identity. ORDER: e(P,Q)^r = 1. SAME VALUE whichever side initiates (GenPair: both pairing_with impls = pairing). STANDARD ATE PAIRING (C03Lines): for all finite P in E(Fq), Q in G2 the accumulator of the preparation loop is [k]Q, every coefficient triple IS the tangent/chord line of the untwisted points up to a factor in Fq4, pairing(P,Q) = conj(textbookMiller(P,Q))^(3(q^12-1)/r); published e(g1,g2) reproduced by the model and by the textbook specification in the kernel. Tests in addition: impl vs Lean model, an independent python ate pairing with affine lines over Fq12, e([a]P,[b]Q) = e(P,Q)^(ab) for scalars incl. 0,1,r-1,r,r+1,>=r through both multiplication routes, projective arguments incl. junk identity representatives, the repository's relic vector." + DIFF,
        "note": "none beyond the trusted base",
        "explanation": "theorem-backed: every clause (bilinearity, non-degeneracy, order, symmetry of initiation, agreement with the textbook reduced ate pairing, KAT)",
    },
    "C04": {
        "modules": ["PP.Props.C04", "PP.Props.C04Inst"], "level": "proof", "technique": "Lean 4 proof (decoder = ordered declarative validation, for all byte strings) + differential correspondence",
        "text": "For all byte strings of the right length the four decoders equal a declarative ordered validation (form flag; infinity/sort flags; coordinate range per component; curve equation / square root + sort flag; subgroup) — acceptance iff and exact error precedence; unchecked variants = same minus curve/subgroup; never panics. Subgroup test meaning (r•P=0) from C07." + DIFF,
        "note": "std::io and fixed-size arrays are modelled as byte lists",
    },
    "C05": {
        "modules": ["PP.Props.C05", "PP.Props.C05Inst"], "level": "proof", "technique": "Lean 4 proof (round trips, canonicity, injectivity) + differential correspondence",
        "text": "Encoders are byte-for-byte the declarative ZCash format for every point record; lengths 48/96/96/192; decode(encode A) = A for valid A; decode bs = A implies encode A = bs (canonical, non-malleable); injective." + DIFF,
        "note": "affine records with infinity=true and junk coordinates encode like the identity (hypothesis kept visible in the theorems)",
    },
    "C06": {
        "modules": ["PP.Props.C06", "PP.Props.HashLen", "PP.Props.CurveOrder"], "level": "proof", "technique": "Lean 4 proof by composition (C13, C14, C15, C16, C17, curve orders) + differential correspondence against python RFC pipeline",
        "text": "hash_to_curve / encode_to_curve = hash_to_field (RFC 9380 section 5, C13) followed by the map of C14, for any expander meeting C13; the result lies in the order-r subgroup (hashToCurveG1_inSub' etc., hypothesis-free). The curve groups are determined outright (PP.Props.CurveOrder): #E(Fq) = h1*r, E(Fq) = Z/((1-x)/3) x Z/((1-x)r) with explicit generators, exponent (1-x)r; #E'(Fq2) = h2*r, E'(Fq2) = Z/299 x Z/(h2 r/299) — from the trivial bound #E <= 2|F|+1, the negative traces, points of exactly known order (kernel evaluation, Pratt certificates for all prime factors incl. the 448-bit cofactor prime) and the order-3 automorphism (x,y)->(beta x,y) for independence; so the subgroup clauses hold with NO hypothesis." + DIFF,
        "note": "RFC text/vectors unavailable offline: iso coefficients tied to the RFC by structural theorems + repo KATs; isogeny additivity is proved in C16Hom / C16Hom11 (not needed for this property)",
        "partial": ["iso coefficients tied to RFC by structural theorems + repo KATs"],
    },
    "C07": {
        "modules": ["PP.Props.C07", "PP.Props.CurveOrder"], "level": "proof", "technique": "Lean 4 proof (predicate characterisation for all coordinate records, closure invariants, generators by kernel evaluation, curve group orders and structure) + differential correspondence",
        "text": "in_subgroup(x,y,inf) = true iff inf or (on curve and r•P = 0), for ALL coordinate records over Fq/Fq2; rejects off-curve pairs, twist points, every point whose order divides the cofactor; the invariant 'on curve and killed by r' is preserved by all arithmetic, conversions, scalar multiplication, batch normalisation and any program; both extracted generators are members of exact order r (kernel evaluation); cofactor scaling, the sampling candidate, map and hash outputs are members without any hypothesis. The curve groups are determined outright (PP.Props.CurveOrder): #E(Fq) = h1*r, E(Fq) = Z/((1-x)/3) x Z/((1-x)r) with explicit generators, exponent (1-x)r; #E'(Fq2) = h2*r, E'(Fq2) = Z/299 x Z/(h2 r/299) — from the trivial bound #E <= 2|F|+1, the negative traces, points of exactly known order (kernel evaluation, Pratt certificates for all prime factors incl. the 448-bit cofactor prime) and the order-3 automorphism (x,y)->(beta x,y) for independence; so the subgroup clauses hold with NO hypothesis." + DIFF,
        "note": "none beyond the trusted base (the PRNG of random() is a parameter)",
    },
    "C08": {
        "modules": ["PP.Props.C08", "PP.Props.C08Limb"], "level": "proof", "technique": "Lean 4 proof (Montgomery REDC, binary Euclid with fuel adequacy, limb-level arithmetic) + differential correspondence on raw limbs",
        "text": "Montgomery-level model with the EXTRACTED MODULUS/R/R2/INV: add/sub/neg/double/mul/square/pow(any limb count)/inverse/from_repr/into_repr/zero test/order equal integer arithmetic mod q, r (bijection to the canonical model Zp), inverse fails only for 0 (fuel adequacy proved); representation type = unsigned 384/256-bit integers under add/sub/shifts/halve/double/bit length/parity/compare/byte I/O for any limb count; all hard-coded constants decoded and checked in the kernel." + DIFF,
        "note": "the proc-macro's unrolled limb-level mul_assign/square/mont_reduce are EXTRACTED from the macro-expanded source as a straight-line IR (one instruction per Rust statement), proved literally equal to a Lean generator for n limbs, whose interpretation is proved equal to the integer-level REDC for every n (PP.Props.C08Limb); trusted: the IR interpreter's reading of adc/mac_with_carry (their source text is checked by the translator)",
    },
    "C09": {
        "modules": ["PP.Props.C09"], "level": "proof", "technique": "Lean 4 proof (CommRing/Field instances on the model's own operations, isomorphism with AdjoinRoot, Frobenius by table recurrences checked in the kernel) + differential correspondence",
        "text": "Fq2/Fq6/Fq12 model operations form fields isomorphic to the stated quotient rings (AdjoinRoot), all derived operations and the three sparse products equal the dense ones, inversion fails only for 0, frobenius_map x k = x^(q^k) for every k on all three layers (extracted tables)." + DIFF,
        "note": "none beyond the trusted base",
    },
    "C10": {
        "modules": ["PP.Props.C10", "PP.Props.C10Inst"], "level": "proof", "technique": "Lean 4 proof (digit extraction in all three branches, bucket invariant, induction on windows and lists) + differential correspondence",
        "text": "Pippenger with any window 1..20, the default entry point (window in 1..16 over the extracted table) and the table-driven MSM return sum [k_i]P_i over the first min entries for lists of ANY length and scalars < 2^255; panics exactly when a used scalar has bit 255; buckets are clear after every window." + DIFF,
        "note": "differential cases for windows > 10 use small-digit scalars (cost of the bucket reduction); the theorem covers all scalars",
    },
    "C11": {
        "modules": ["PP.Props.C11", "PP.Props.C11Neg", "PP.Props.C03Bilinear"], "level": "proof", "technique": "Lean 4 proof (product structure of the joint Miller loop by induction over the pair list, final exponentiation multiplicative, bilinearity of C03 for the exponent clause) + differential and oracle tests",
        "text": "Theorems: joint Miller loop = product of single Miller loops for every list, identity pairs contribute 1 at any position, final exponentiation multiplicative (C12), prepared length / no unwrap panic, the two-pair and slice helpers agree for equal lengths, prepared elements reusable within and across calls. EXPONENT CLAUSE (PP.Props.C03Bilinear.multiProduct_exponent): for P in G1, Q in G2 and any list with P_i = [a_i]P, Q_i = [b_i]Q, pairing_multi_product = e(P,Q)^(sum a_i b_i), hence exactly 1 when the exponents cancel mod r; the cancelling pair e(P,Q)e(-P,Q) = 1 is also proved directly for every P on E(Fq) (C11Neg). The driver code (miller_loop, pairing_product, pairing_multi_product) is translated from the source and proved equal to the model (GenPair)." + DIFF,
        "note": "none beyond the trusted base",
        "explanation": "theorem-backed: product structure, identity pairs, helper agreement, no panic, exponent clause, prepared reuse",
    },
    "C12": {
        "modules": ["PP.Props.C12"], "level": "proof", "technique": "Lean 4 proof (exponent tracking in the unit group, numeric congruence in the kernel) + differential correspondence",
        "text": "final_exponentiation f = some (f^(3(q^12-1)/r)) for every f != 0 and none exactly for 0; multiplicative; r-th roots of unity; every non-zero element of any proper subfield (Mathlib Subfield) maps to 1." + DIFF,
        "note": "none beyond the trusted base",
    },
    "C13": {
        "modules": ["PP.Props.C13", "PP.Props.HashLen", "PP.Props.HashKat"], "level": "proof", "technique": "Lean 4 proof (model = literal RFC 9380 section 5 transcription, for every hash) + differential correspondence incl. the Lean SHA-2/SHAKE",
        "text": "expand_message_xmd (any hash), expand_message_xof and hash_to_field (Fq, Fr, Fq2, any count) equal a literal transcription of RFC 9380 5.2/5.3 for all inputs with |dst| <= 255, len <= 65535; abort iff more than 255 blocks; from_okm = OS2IP mod p (unwraps cannot fire)." + DIFF,
        "note": "the hash function is a parameter of the theorems; the Lean SHA-256/512 models reproduce the FIPS 180-4 example digests and padding-boundary cases in the kernel (PP.Props.HashKat, tests); sha2/sha3 crates are validated differentially against PP/Spec/Hash.lean and python hashlib on every run",
    },
    "C14": {
        "modules": ["PP.Props.C14", "PP.Props.CurveOrder"], "level": "proof", "technique": "Lean 4 proof by composition (C01 on the target curve, C15, C16, C17, curve orders) + refutation of the pre-fix code + differential correspondence with constructed collisions",
        "text": "map = clear(iso(sswu u)), map2 = clear(iso(sswu u0) + iso(sswu u1)) with + the group law, for ALL pairs incl. u0=u1, u0=-u1, colliding images (after the fix commit); no panic; the pre-fix composition is refuted by a kernel-checked witness; outputs lie in the order-r subgroup (g1_map_inSub', g1_map2_inSub', g2_map_inSub', g2_map2_inSub', hypothesis-free). The curve groups are determined outright (PP.Props.CurveOrder): #E(Fq) = h1*r, E(Fq) = Z/((1-x)/3) x Z/((1-x)r) with explicit generators, exponent (1-x)r; #E'(Fq2) = h2*r, E'(Fq2) = Z/299 x Z/(h2 r/299) — from the trivial bound #E <= 2|F|+1, the negative traces, points of exactly known order (kernel evaluation, Pratt certificates for all prime factors incl. the 448-bit cofactor prime) and the order-3 automorphism (x,y)->(beta x,y) for independence; so the subgroup clauses hold with NO hypothesis." + DIFF,
        "note": "none beyond the trusted base",
    },
    "C15": {
        "modules": ["PP.Props.C15", "PP.Props.C15Inst"], "level": "proof", "technique": "Lean 4 proof (field algebra, Euler criterion, roots-of-unity case analysis on extracted constants, no-root certificates) + differential correspondence per branch class",
        "text": "For all t: the optimized SSWU (G1 and G2) returns without panic a finite point of E' equal to RFC 9380 map_to_curve_simple_swu (x first square candidate, sgn0 y = sgn0 t, exceptional inputs), incl. totality of the G2 root search." + DIFF,
        "note": "chains' exponents from C17's kernel facts",
    },
    "C16": {
        "modules": ["PP.Props.C16", "PP.Props.C16Inst", "PP.Props.C16Hom", "PP.Props.C16Hom11"], "level": "proof", "technique": "Lean 4 proof (homogeneous Horner evaluation; polynomial identities of degree 63 / 15 / 84 and a bivariate chord identity of degree (55,55) checked by the kernel on the extracted coefficients via evaluation on a 56 x 56 grid + degree bounds; homomorphism law of both isogenies from abscissa identities, oddness, absence of 2-torsion and translation invariance under the rational kernel) + differential correspondence",
        "text": "evalIso = the rational map XN/XD, y*YN/YD on every representative, identity and kernel points to identity, image on the target curve (polynomial identity on the extracted coefficients), compatible with negation, representation independent. HOMOMORPHISM LAW PROVED FOR BOTH ISOGENIES, for all points incl. identity, opposite points, doubling and kernel translates, with Mathlib's group laws on the isogenous and on the target curve: PP.Props.C16Hom.iso3_hom (E2'(Fq2) -> E2(Fq2), injective on rational points) and PP.Props.C16Hom11.iso11_hom (E1'(Fq) -> E1(Fq); its kernel is exactly the cyclic group of order 11 generated by an explicit rational point; translation invariance under every kernel point); at model level Jac.abs(iso r) = Jac.abs(iso p) + Jac.abs(iso q) whenever r represents p + q, and map2_to_curve = [h_eff] iso(sswu u0 + sswu u1) with the sum taken on the isogenous curve (the RFC's formulation)." + DIFF,
        "note": "none beyond the trusted base",
    },
    "C17": {
        "modules": ["PP.Props.C17", "PP.Props.C17Inst", "PP.Props.CurveOrder"], "level": "proof", "technique": "Lean 4 proof (straight-line program simulation, exponents of the extracted chains in the kernel, curve group orders and exponent) + differential correspondence on full-curve points",
        "text": "clear_h = [h_eff] on EVERY curve point (G1: 0xd201000000010001; G2: the 636-bit constant = 3(x^2-1)h2), additive, identity to identity; field chains compute x^((q-3)/4), x^((q^2-9)/16); the result lies in the order-r subgroup for every curve point (g1_clearH_inSub', g2_clearH_inSub', hypothesis-free). The curve groups are determined outright (PP.Props.CurveOrder): #E(Fq) = h1*r, E(Fq) = Z/((1-x)/3) x Z/((1-x)r) with explicit generators, exponent (1-x)r; #E'(Fq2) = h2*r, E'(Fq2) = Z/299 x Z/(h2 r/299) — from the trivial bound #E <= 2|F|+1, the negative traces, points of exactly known order (kernel evaluation, Pratt certificates for all prime factors incl. the 448-bit cofactor prime) and the order-3 automorphism (x,y)->(beta x,y) for independence; so the subgroup clauses hold with NO hypothesis." + DIFF,
        "note": "none beyond the trusted base",
    },
    "C18": {
        "modules": ["PP.Props.C18", "PP.Props.C18Inst"], "level": "proof", "technique": "Lean 4 proof (Euler criterion, Tonelli-Shanks invariant and termination, Algorithm 9 over Fq2) + differential correspondence on squares/non-squares",
        "text": "sqrt returns a root exactly for squares in Fq, Fr (Tonelli-Shanks incl. fuel adequacy) and Fq2; Legendre symbol = Euler's criterion (of the norm for Fq2); sgn0 = parity (first non-zero coefficient); orders are the stated total orders; exactly one of y,-y is larger; sgn0(-y) != sgn0(y)." + DIFF,
        "note": "none beyond the trusted base",
    },
    "C19": {
        "modules": ["PP.Props.C19", "PP.Props.C19Inst"], "level": "proof", "technique": "Lean 4 proof (reader = byte list; round trip with exact consumption, error cases) + differential correspondence",
        "text": "deserialize(serialize v ++ tail) = (v, tail) for Fr, Fq12, G1/G2 affine and projective, both flags; lengths 32/576/48|96/96|192; bytes = point encoding; eof on truncation at every prefix, flag mismatch, non-reduced values and every C04 rejection are errors; never panics." + DIFF,
        "note": "std::io::Read modelled as a byte list (read_exact semantics)",
    },
    "C20": {
        "modules": ["PP.Props.C20"], "level": "other", "technique": "Lean 4 proof of history independence (wNAF context) + source purity audit + shuffled-history and 16-thread differential runs",
        "text": "Theorem: any history of calls through one reused wNAF context returns what fresh contexts return; stale buffers are ignored. Audit (obligation): no static mut / Cell / atomics / locks / thread_local / lazy statics in the source, unsafe only in the listed constructors. Test: the mixed workload in shuffled order and from 16 threads in one process is bit-identical to the sequential run and to the Lean model. Data races/deadlocks are runtime phenomena a theorem about the model cannot exhibit.",
        "note": "partial by nature: concurrency clause is an audit + stress test",
        "explanation": "theorem-backed: call-history independence of the only stateful API object; audit-backed: absence of shared mutable state; test-backed: bit-identical results under 16 threads and shuffled histories",
        "partial": ["data-race / deadlock freedom: audit + stress test only"],
    },
}
