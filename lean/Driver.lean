/-
Line-protocol driver: reads one case per line on stdin, prints the MODEL's result per line.
Linked as `lean_exe ppdrv` (core Lean only).  The Rust executor (`/verif/harness`) implements the
same protocol against the real code; `/verif/bin/check` diffs the two output streams.

Tokens:  field element `hex` (Fq/Fr) | `c0,c1` (Fq2) | 6 / 12 comma separated (Fq6/Fq12)
         Jacobian point `X/Y/Z`, affine point `x/y` or `inf`, scalar `hex`, bytes `hex` or `-`,
         lists `a;b;c` (empty list `-`).
-/
import PP.Model.Pairing
import PP.Model.Mont
import PP.Model.MontLimb
import PP.Spec.Hash
import PP.Spec.Hash2

namespace PP.Drv
open PP

def hexVal (c : Char) : Option Nat :=
  if '0' ≤ c ∧ c ≤ '9' then some (c.toNat - '0'.toNat)
  else if 'a' ≤ c ∧ c ≤ 'f' then some (c.toNat - 'a'.toNat + 10)
  else if 'A' ≤ c ∧ c ≤ 'F' then some (c.toNat - 'A'.toNat + 10)
  else none

def parseHex (s : String) : Option Nat :=
  if s.isEmpty then none else
  s.foldl (fun acc c => match acc, hexVal c with
    | some a, some d => some (a * 16 + d)
    | _, _ => none) (some 0)

def hexDigit (n : Nat) : Char :=
  if n < 10 then Char.ofNat ('0'.toNat + n) else Char.ofNat ('a'.toNat + n - 10)

def toHexAux : Nat → Nat → List Char → List Char
  | 0, _, acc => acc
  | fuel + 1, n, acc => if n = 0 then acc else toHexAux fuel (n / 16) (hexDigit (n % 16) :: acc)

def toHex (n : Nat) : String :=
  if n = 0 then "0" else String.ofList (toHexAux (n.log2 / 4 + 2) n [])

def parseBytes (s : String) : Option Bytes :=
  if s == "-" then some [] else
  let cs := s.toList
  let rec go : List Char → List UInt8 → Option Bytes
    | [], acc => some acc.reverse
    | [_], _ => none
    | a :: b :: rest, acc =>
      match hexVal a, hexVal b with
      | some x, some y => go rest (UInt8.ofNat (x * 16 + y) :: acc)
      | _, _ => none
  go cs []

def showBytes (bs : Bytes) : String :=
  if bs.isEmpty then "-" else
  String.ofList (bs.flatMap (fun b => [hexDigit (b.toNat / 16), hexDigit (b.toNat % 16)]))

def splitList (s : String) : List String :=
  if s == "-" then [] else s.splitOn ";"

/-- how to read/print elements of a type -/
structure Codec' (T : Type) where
  parse : String → Option T
  shw : T → String

def parseZp {p : Nat} [PosNat p] (s : String) : Option (Zp p) :=
  match parseHex s with
  | some n => if h : n < p then some ⟨n, h⟩ else none
  | none => none

def fqIO : Codec' Fq := ⟨parseZp, fun a => toHex a.v⟩
def frIO : Codec' Fr := ⟨parseZp, fun a => toHex a.v⟩

def fq2IO : Codec' Fq2 where
  parse s := match s.splitOn "," with
    | [a, b] => do let a ← fqIO.parse a; let b ← fqIO.parse b; pure ⟨a, b⟩
    | _ => none
  shw a := fqIO.shw a.c0 ++ "," ++ fqIO.shw a.c1

def fq6IO : Codec' Fq6 where
  parse s := match s.splitOn "," with
    | [a, b, c, d, e, f] => do
      let a ← fqIO.parse a; let b ← fqIO.parse b; let c ← fqIO.parse c
      let d ← fqIO.parse d; let e ← fqIO.parse e; let f ← fqIO.parse f
      pure ⟨⟨a, b⟩, ⟨c, d⟩, ⟨e, f⟩⟩
    | _ => none
  shw a := fq2IO.shw a.c0 ++ "," ++ fq2IO.shw a.c1 ++ "," ++ fq2IO.shw a.c2

def fq12IO : Codec' Fq12 where
  parse s := match (s.splitOn ",").mapM fqIO.parse with
    | some [a, b, c, d, e, f, g, h, i, j, k, l] =>
      some ⟨⟨⟨a, b⟩, ⟨c, d⟩, ⟨e, f⟩⟩, ⟨⟨g, h⟩, ⟨i, j⟩, ⟨k, l⟩⟩⟩
    | _ => none
  shw a := fq6IO.shw a.c0 ++ "," ++ fq6IO.shw a.c1

def jacIO {F : Type} (io : Codec' F) : Codec' (Jac F) where
  parse s := match s.splitOn "/" with
    | [x, y, z] => do let x ← io.parse x; let y ← io.parse y; let z ← io.parse z; pure ⟨x, y, z⟩
    | _ => none
  shw p := io.shw p.x ++ "/" ++ io.shw p.y ++ "/" ++ io.shw p.z

def affIO {F : Type} [Zero F] [One F] (io : Codec' F) : Codec' (Aff F) where
  parse s := if s == "inf" then some Aff.zero else
    match s.splitOn "/" with
    | [x, y] => do let x ← io.parse x; let y ← io.parse y; pure ⟨x, y, false⟩
    | _ => none
  shw p := if p.infinity then (if io.shw p.x == io.shw (0 : F) && io.shw p.y == io.shw (1 : F) then "inf" else "inf-noncanonical:" ++ io.shw p.x ++ "/" ++ io.shw p.y)
           else io.shw p.x ++ "/" ++ io.shw p.y

def showOpt {T : Type} (f : T → String) : Option T → String
  | some a => f a
  | none => "none"

def showBool (b : Bool) : String := if b then "true" else "false"

def showLeg : Legendre → String
  | .zero => "Zero" | .residue => "QuadraticResidue" | .nonResidue => "QuadraticNonResidue"

def showSgn : Sgn0 → String
  | .nonNegative => "NonNegative" | .negative => "Negative"

def bad : String := "BAD-CASE"

/-! ### field ops shared by all levels -/

def fieldOp {F : Type} [Add F] [Sub F] [Mul F] [Neg F] [Zero F] [One F] [FieldOps F] [DecidableEq F] (io : Codec' F) (op : String) (args : List String) : Option String :=
  match op, args with
  | "add", [a, b] => do let a ← io.parse a; let b ← io.parse b; pure (io.shw (a + b))
  | "sub", [a, b] => do let a ← io.parse a; let b ← io.parse b; pure (io.shw (a - b))
  | "mul", [a, b] => do let a ← io.parse a; let b ← io.parse b; pure (io.shw (a * b))
  | "neg", [a] => do let a ← io.parse a; pure (io.shw (-a))
  | "negif", [a, sg] => do let a ← io.parse a; pure (io.shw (negateIf a (if sg == "1" then .negative else .nonNegative)))
  | "dbl", [a] => do let a ← io.parse a; pure (io.shw (dbl a))
  | "sq", [a] => do let a ← io.parse a; pure (io.shw (sq a))
  | "inv", [a] => do let a ← io.parse a; pure (showOpt io.shw (FieldOps.inv a))
  | "iszero", [a] => do let a ← io.parse a; pure (showBool (FieldOps.isZero a))
  | "eq", [a, b] => do let a ← io.parse a; let b ← io.parse b; pure (showBool (a = b))
  | "frob", [a, k] => do let a ← io.parse a; let k ← parseHex k; pure (io.shw (FieldOps.frob a k))
  | "pow", [a, e] => do
      let a ← io.parse a
      let ls ← (splitList e).mapM parseHex
      pure (io.shw (powLimbs a ls))
  | _, _ => none

def sqrtOp {F : Type} [SqrtOps F] (io : Codec' F) (op : String) (args : List String) : Option String :=
  match op, args with
  | "sqrt", [a] => do let a ← io.parse a; pure (showOpt io.shw (SqrtOps.sqrt a))
  | "legendre", [a] => do let a ← io.parse a; pure (showLeg (SqrtOps.legendre a))
  | "sgn0", [a] => do let a ← io.parse a; pure (showSgn (SqrtOps.sgn0 a))
  | "lt", [a, b] => do let a ← io.parse a; let b ← io.parse b; pure (showBool (SqrtOps.lt a b))
  | "cmpall", [a, b] => do
      let x ← io.parse a; let y ← io.parse b
      let c : Int := if SqrtOps.lt x y then -1 else if SqrtOps.lt y x then 1 else 0
      let mx := if c == 1 then x else y
      let mn := if c == 1 then y else x
      pure (s!"{c} {c} {showBool (c == -1)} {showBool (c != 1)} {showBool (c == 1)} {showBool (c != -1)} {io.shw mx} {io.shw mn}")
  | "sgnxor", [a, b] => pure (showSgn (Sgn0.xor (if a == "1" then .negative else .nonNegative) (if b == "1" then .negative else .nonNegative)))
  | _, _ => none

def orElse' (a : Option String) (b : Unit → Option String) : Option String :=
  match a with
  | some s => some s
  | none => b ()

/-! ### group-level ops, generic in the coefficient field -/

/-- an RNG that replays a list of words (after the last one: the number of the call, 1-based) and counts the `next_u64` calls -/
abbrev ReplayRng := List Nat × Nat

def ReplayRng.next (st : ReplayRng) : ReplayRng × Nat :=
  match st.1 with
  | [] => (([], st.2 + 1), st.2 + 1)
  | x :: xs => ((xs, st.2 + 1), x)

/-- `Fq::random` (derive output; `Mont.randomSpec`, proved equal to the translated source in PP.Props.GenDerive) on the
    replaying RNG: it terminates because the RNG returns small words after its last word -/
def fqRandomReplay (st : ReplayRng) : ReplayRng × Fq :=
  match Mont.randomSpec ReplayRng.next 6 61 Mont.fqP.p (st.1.length / 6 + 2) st with
  | some (st', x) => (st', Fq.ofMont (limbsToNat x))
  | none => (st, 0)

structure GroupCtx (F : Type) [Add F] [Sub F] [Mul F] [Neg F] [Zero F] [One F] [FieldOps F] [DecidableEq F] [SqrtOps F] where
  io : Codec' F
  cc : Codec F
  rc : WnafRec
  cofactor : Nat
  cofactorLimbs : Nat
  generator : Aff F
  clearH : Jac F → Jac F
  iso : Jac F → Jac F
  osswu : F → Option (Jac F)
  mapTo : F → Option (Jac F)
  map2To : F → F → Option (Jac F)
  /-- `$basefield::random` on the replaying RNG of the `rnd` ops -/
  baseRandom : ReplayRng → ReplayRng × F

section
variable {F : Type} [Add F] [Sub F] [Mul F] [Neg F] [Zero F] [One F] [FieldOps F] [DecidableEq F] [SqrtOps F]

/-- canonical observation of a projective result: its affine form -/
def showJac (g : GroupCtx F) (p : Jac F) : String :=
  match p.toAffine with
  | some a => (affIO g.io).shw a
  | none => "PANIC"

def showJacO (g : GroupCtx F) : Option (Jac F) → String
  | some p => showJac g p
  | none => "PANIC"

def showAffList (g : GroupCtx F) (l : List (Aff F)) : String :=
  if l.isEmpty then "-" else ";".intercalate (l.map (affIO g.io).shw)

/-- register-file programs for C01: ops over 6 registers -/
def runProg (g : GroupCtx F) (regs : Array (Jac F)) : List String → Option (Array (Jac F))
  | [] => some regs
  | ins :: rest => do
    let parts := ins.splitOn ","
    let nat (s : String) : Option Nat := s.toNat?
    let regs ← match parts with
      | ["add", i, j] => do let i ← nat i; let j ← nat j; pure (regs.set! i ((regs.getD i Jac.zero).add (regs.getD j Jac.zero)))
      | ["sub", i, j] => do let i ← nat i; let j ← nat j; pure (regs.set! i ((regs.getD i Jac.zero).sub (regs.getD j Jac.zero)))
      | ["dbl", i] => do let i ← nat i; pure (regs.set! i (regs.getD i Jac.zero).double)
      | ["neg", i] => do let i ← nat i; pure (regs.set! i (regs.getD i Jac.zero).neg)
      | ["addm", i, j] => do
          let i ← nat i; let j ← nat j
          let a ← (regs.getD j Jac.zero).toAffine
          pure (regs.set! i ((regs.getD i Jac.zero).addMixed a))
      | ["subm", i, j] => do
          let i ← nat i; let j ← nat j
          let a ← (regs.getD j Jac.zero).toAffine
          pure (regs.set! i ((regs.getD i Jac.zero).subMixed a))
      | ["aff", i] => do
          let i ← nat i
          let a ← (regs.getD i Jac.zero).toAffine
          pure (regs.set! i a.toJac)
      | ["norm"] => do
          let l ← Jac.batchNormalize regs.toList
          pure l.toArray
      | ["cp", i, j] => do let i ← nat i; let j ← nat j; pure (regs.set! i (regs.getD j Jac.zero))
      | _ => none
    runProg g regs rest

def wnafHistory (g : GroupCtx F) (ctx : WnafCtx F) : List String → List String → Option (List String)
  | [], acc => some acc.reverse
  | ins :: rest, acc => do
    match ins.splitOn ":" with
    | ["bs", b, n, k] =>
      let b ← (jacIO g.io).parse b; let n ← parseHex n; let k ← parseHex k
      let (res, ctx') ← ctx.baseThenScalar g.rc b n k
      wnafHistory g ctx' rest (showJac g res :: acc)
    | ["sb", k, b] =>
      let b ← (jacIO g.io).parse b; let k ← parseHex k
      let (res, ctx') ← ctx.scalarThenBase g.rc k b
      wnafHistory g ctx' rest (showJac g res :: acc)
    | ["bsh", b, n, k] =>
      -- `ctx.base(b, n)` then `.shared().scalar(k)`: the shared copy has its own digit buffer
      let b ← (jacIO g.io).parse b; let n ← parseHex n; let k ← parseHex k
      let (res, ctx') ← ctx.baseThenScalar g.rc b n k
      wnafHistory g ⟨ctx'.base, ctx.scalar⟩ rest (showJac g res :: acc)
    | ["sbh", k, b] =>
      -- `ctx.scalar(k)` then `.shared().base(b)`: the shared copy has its own table buffer
      let b ← (jacIO g.io).parse b; let k ← parseHex k
      let (res, ctx') ← ctx.scalarThenBase g.rc k b
      wnafHistory g ⟨ctx.base, ctx'.scalar⟩ rest (showJac g res :: acc)
    | _ => none

/-- a table shared between threads: every thread = a fresh context doing `base(b, n)` then `scalar(k)` -/
def wnafShareBase (g : GroupCtx F) (b : Jac F) (n : Nat) (ks : List Nat) : Option String := do
  let outs ← ks.mapM (fun k => do
    let (res, _) ← (WnafCtx.mk [] [] : WnafCtx F).baseThenScalar g.rc b n k
    pure (showJac g res))
  pure (";".intercalate outs)

/-- a digit string shared between threads: every thread = a fresh context doing `scalar(k)` then `base(b)` -/
def wnafShareScalar (g : GroupCtx F) (k : Nat) (bs : List (Jac F)) : Option String := do
  let outs ← bs.mapM (fun b => do
    let (res, _) ← (WnafCtx.mk [] [] : WnafCtx F).scalarThenBase g.rc k b
    pure (showJac g res))
  pure (";".intercalate outs)

def showDecode (g : GroupCtx F) : Except DecodeErr (Aff F) → String
  | .ok a => (affIO g.io).shw a
  | .error e => "ERR:" ++ e.toString

def groupOp (g : GroupCtx F) (op : String) (args : List String) : Option String :=
  let J := jacIO g.io
  let A := affIO g.io
  match op, args with
  | "add", [p, q] => do let p ← J.parse p; let q ← J.parse q; pure (showJac g (p.add q))
  | "sub", [p, q] => do let p ← J.parse p; let q ← J.parse q; pure (showJac g (p.sub q))
  | "dbl", [p] => do let p ← J.parse p; pure (showJac g p.double)
  | "neg", [p] => do let p ← J.parse p; pure (showJac g p.neg)
  | "addm", [p, q] => do let p ← J.parse p; let q ← A.parse q; pure (showJac g (p.addMixed q))
  | "subm", [p, q] => do let p ← J.parse p; let q ← A.parse q; pure (showJac g (p.subMixed q))
  | "eq", [p, q] => do let p ← J.parse p; let q ← J.parse q; pure (showBool (p.beq q))
  | "toaff", [p] => do let p ← J.parse p; pure (showJac g p)
  | "tojac", [a] => do let a ← A.parse a; pure (J.shw a.toJac)
  | "affneg", [a] => do let a ← A.parse a; pure (A.shw a.neg)
  | "isnorm", [p] => do let p ← J.parse p; pure (showBool p.isNormalized)
  | "batch", [ps] => do
      let ps ← (splitList ps).mapM J.parse
      match Jac.batchNormalize ps with
      | none => pure "PANIC"
      | some out =>
        pure (if out.isEmpty then "-" else ";".intercalate (out.map (fun p => J.shw p)))
  | "prog", [ps, prog] => do
      let ps ← (splitList ps).mapM J.parse
      match runProg g ps.toArray (splitList prog) with
      | none => pure "PANIC"
      | some regs => pure (";".intercalate (regs.toList.map (showJac g)))
  | "oncurve", [a] => do let a ← A.parse a; pure (showBool (a.isOnCurve g.cc.b))
  | "insub", [a] => do let a ← A.parse a; pure (showBool (a.inSubgroup g.cc.b))
  | "generator", [] => pure (A.shw g.generator)
  | "frompx", [x, gr] => do
      let x ← g.io.parse x
      pure (showOpt A.shw (Aff.getPointFromX g.cc.b x (gr == "1")))
  | "rnd", [ws] => do
      -- `CurveProjective::random` on the replaying RNG (`next_u32` = low 32 bits of `next_u64`); output: the point and the
      -- number of `next_u64` calls made
      let ws ← (ws.splitOn ",").mapM parseHex
      let nextU32 : ReplayRng → ReplayRng × Nat := fun st => ((ReplayRng.next st).1, (ReplayRng.next st).2 % 2 ^ 32)
      match Jac.randomSpec g.baseRandom nextU32 g.cc.b
          (fun a => a.mulBits (bitsMSB (limbsOf g.cofactorLimbs g.cofactor))) (ws.length + 200) (ws, 0) with
      | none => pure "none"
      | some (st, pt) => pure (showJac g pt ++ " " ++ toString st.2)
  | "scalecof", [a] => do
      let a ← A.parse a
      pure (showJac g (a.mulBits (bitsMSB (limbsOf g.cofactorLimbs g.cofactor))))
  -- C02
  | "mul", [p, k] => do let p ← J.parse p; let k ← parseHex k; pure (showJac g (p.mulAssign k))
  | "affmul", [a, k] => do let a ← A.parse a; let k ← parseHex k; pure (showJac g (a.mul k))
  | "pre3", [a] => do let a ← A.parse a; pure (match a.precomp3 with | none => "PANIC" | some l => showAffList g l)
  | "mulpre3", [a, k] => do
      let a ← A.parse a; let k ← parseHex k
      pure (showJacO g (do let pre ← a.precomp3; a.mulPrecomp3 k pre))
  | "pre256", [a] => do let a ← A.parse a; pure (match a.precomp256 with | none => "PANIC" | some l => showAffList g l)
  | "mulpre256", [a, k] => do
      let a ← A.parse a; let k ← parseHex k
      pure (showJacO g (do let pre ← a.precomp256; a.mulPrecomp256 k pre.toArray))
  | "wnaf", [w, p, k] => do
      let w ← parseHex w; let p ← J.parse p; let k ← parseHex k
      pure (showJacO g (do let f ← wnafForm [] k w; wnafExp (wnafTable [] p w) f))
  | "wnafform", [w, k] => do
      let w ← parseHex w; let k ← parseHex k
      pure (match wnafForm [] k w with
        | none => "PANIC"
        | some l => if l.isEmpty then "-" else ";".intercalate (l.map toString))
  | "wnaftable", [w, p] => do
      let w ← parseHex w; let p ← J.parse p
      pure (";".intercalate ((wnafTable [] p w).map (showJac g)))
  | "wnafshare_base", [b, n, ks] => do
      let b ← J.parse b; let n ← parseHex n; let ks ← (splitList ks).mapM parseHex
      pure ((wnafShareBase g b n ks).getD "PANIC")
  | "wnafshare_scalar", [k, bs] => do
      let k ← parseHex k; let bs ← (splitList bs).mapM J.parse
      pure ((wnafShareScalar g k bs).getD "PANIC")
  | "wnafhist", [h] => do
      pure (match wnafHistory g WnafCtx.new (splitList h) [] with
        | none => "PANIC"
        | some outs => if outs.isEmpty then "-" else ";".intercalate outs)
  | "recscalar", [k] => do let k ← parseHex k; pure (toString (recommendForScalar g.rc.ladder g.rc.dflt k))
  | "recnum", [n] => do let n ← parseHex n; pure (toString (recommendForNumScalars g.rc.tbl g.rc.base n))
  -- C10
  | "pip", [w, ps, ks] => do
      let w ← parseHex w
      let ps ← (splitList ps).mapM A.parse; let ks ← (splitList ks).mapM parseHex
      pure (showJacO g (sumOfProductsPippinger ps ks w))
  | "sop", [ps, ks] => do
      let ps ← (splitList ps).mapM A.parse; let ks ← (splitList ks).mapM parseHex
      pure (showJacO g (sumOfProducts ps ks))
  | "soppre", [ps, ks] => do
      let ps ← (splitList ps).mapM A.parse; let ks ← (splitList ks).mapM parseHex
      pure (showJacO g (do
        let tables ← ps.mapM (fun a => a.precomp256)
        sumOfProductsPrecomp256 ps ks tables.flatten.toArray))
  | "soppre_prefix", [n, ps, ks] => do
      let n ← parseHex n
      let ps ← (splitList ps).mapM A.parse; let ks ← (splitList ks).mapM parseHex
      if n > ps.length then none else
      pure (showJacO g (do
        let tables ← ps.mapM (fun a => a.precomp256)
        sumOfProductsPrecomp256 (ps.take n) ks tables.flatten.toArray))
  | "findwin", [n] => do let n ← parseHex n; pure (toString (findPippingerWindow n))
  -- C04 / C05
  | "dec_c", [bs] => do let bs ← parseBytes bs; pure (showDecode g (decodeCompressed g.cc bs))
  | "dec_u", [bs] => do let bs ← parseBytes bs; pure (showDecode g (decodeUncompressed g.cc bs))
  | "dec_cu", [bs] => do let bs ← parseBytes bs; pure (showDecode g (decodeCompressedUnchecked g.cc bs))
  | "dec_uu", [bs] => do let bs ← parseBytes bs; pure (showDecode g (decodeUncompressedUnchecked g.cc bs))
  | "enc_c", [a] => do let a ← A.parse a; pure (showBytes (encodeCompressed g.cc a))
  | "enc_u", [a] => do let a ← A.parse a; pure (showBytes (encodeUncompressed g.cc a))
  | "intocomp", [a] => do let a ← A.parse a; pure (showBytes (encodeCompressed g.cc a))
  | "intouncomp", [a] => do let a ← A.parse a; pure (showBytes (encodeUncompressed g.cc a))
  | "jaczero", [] => pure (J.shw Jac.zero)
  | "affzero", [] => pure (A.shw Aff.zero)
  | "affiszero", [a] => do let a ← A.parse a; pure (showBool a.infinity)
  | "jaciszero", [p] => do let p ← J.parse p; pure (showBool p.isZero)
  -- C19
  | "ser_aff", [a, c] => do let a ← A.parse a; pure (showBytes (serAffine g.cc a (c == "1")))
  | "ser_jac", [p, c] => do
      let p ← J.parse p
      pure (match serJac g.cc p (c == "1") with | none => "PANIC" | some b => showBytes b)
  | "deser_aff", [bs, c] => do
      let bs ← parseBytes bs
      pure (match deserAffine g.cc bs (c == "1") with
        | .error e => "ERR:" ++ e.toString
        | .ok (a, rest) => A.shw a ++ " " ++ toString (bs.length - rest.length))
  | "deser_aff_ch", [bs, c, _] => do
      -- chunked reader: `read_exact` semantics are independent of how the reader splits its data
      let bs ← parseBytes bs
      pure (match deserAffine g.cc bs (c == "1") with
        | .error e => "ERR:" ++ e.toString
        | .ok (a, rest) => A.shw a ++ " " ++ toString (bs.length - rest.length))
  | "deser_jac_ch", [bs, c, _] => do
      let bs ← parseBytes bs
      pure (match deserJac g.cc bs (c == "1") with
        | .error e => "ERR:" ++ e.toString
        | .ok (p, rest) => showJac g p ++ " " ++ toString (bs.length - rest.length))
  | "deser_jac", [bs, c] => do
      let bs ← parseBytes bs
      pure (match deserJac g.cc bs (c == "1") with
        | .error e => "ERR:" ++ e.toString
        | .ok (p, rest) => showJac g p ++ " " ++ toString (bs.length - rest.length))
  -- C14 .. C17
  | "osswu", [u] => do let u ← g.io.parse u; pure (match g.osswu u with | none => "PANIC" | some p => J.shw p)
  | "iso", [p] => do let p ← J.parse p; pure (showJac g (g.iso p))
  | "clearh", [p] => do let p ← J.parse p; pure (showJac g (g.clearH p))
  | "map", [u] => do let u ← g.io.parse u; pure (showJacO g (g.mapTo u))
  | "map2", [u0, u1] => do let u0 ← g.io.parse u0; let u1 ← g.io.parse u1; pure (showJacO g (g.map2To u0 u1))
  | _, _ => none

end

def g1Ctx : GroupCtx Fq where
  io := fqIO
  cc := g1Codec
  rc := g1Rec
  cofactor := Gen.G1_COFACTOR
  cofactorLimbs := Gen.G1_COFACTOR_LIMBS
  generator := ⟨Fq.ofMont Gen.G1_GENERATOR_X, Fq.ofMont Gen.G1_GENERATOR_Y, false⟩
  clearH := clearHG1
  iso := iso11
  osswu := fun u => some (osswuG1 u)
  mapTo := fun u => some (mapToCurveG1 u)
  map2To := fun u0 u1 => some (map2ToCurveG1 u0 u1)
  baseRandom := fqRandomReplay

def g2Ctx : GroupCtx Fq2 where
  io := fq2IO
  cc := g2Codec
  rc := g2Rec
  cofactor := Gen.G2_COFACTOR
  cofactorLimbs := Gen.G2_COFACTOR_LIMBS
  generator := ⟨⟨Fq.ofMont Gen.G2_GENERATOR_X_C0, Fq.ofMont Gen.G2_GENERATOR_X_C1⟩,
                ⟨Fq.ofMont Gen.G2_GENERATOR_Y_C0, Fq.ofMont Gen.G2_GENERATOR_Y_C1⟩, false⟩
  clearH := clearHG2
  iso := iso3
  osswu := osswuG2
  mapTo := mapToCurveG2
  map2To := map2ToCurveG2
  baseRandom := fun st =>
    let r0 := fqRandomReplay st
    let r1 := fqRandomReplay r0.1
    (r1.1, ⟨r0.2, r1.2⟩)      -- `Fq2::random`: `c0` first, then `c1` (PP.GenRestLemmas.Fq2_random_eq)

/-! ### hashing -/

def sha256H : XmdHash := ⟨32, 64, Hash.sha256⟩
def sha512H : XmdHash := ⟨64, 128, Hash.sha512⟩
def sha224H : XmdHash := ⟨28, 64, Hash.sha224⟩
def sha384H : XmdHash := ⟨48, 128, Hash.sha384⟩

/-- expander by name; `none` result = panic -/
def expander (name : String) : Option (Bytes → Bytes → Nat → Option Bytes) :=
  match name with
  | "xmd256" => some (expandMessageXmd sha256H)
  | "xmd512" => some (expandMessageXmd sha512H)
  | "xmd224" => some (expandMessageXmd sha224H)
  | "xmd384" => some (expandMessageXmd sha384H)
  | "xof128" => some (fun m d l => some (expandMessageXof Hash.shake128 m d l))
  | "xof256" => some (fun m d l => some (expandMessageXof Hash.shake256 m d l))
  | _ => none

def showList {T : Type} (f : T → String) (l : List T) : String :=
  if l.isEmpty then "-" else ";".intercalate (l.map f)

def hashOp (op : String) (args : List String) : Option String :=
  match op, args with
  | "hash", ["sha256", m] => do let m ← parseBytes m; pure (showBytes (Hash.sha256 m))
  | "hash", ["sha512", m] => do let m ← parseBytes m; pure (showBytes (Hash.sha512 m))
  | "hash", ["shake128", m, l] => do let m ← parseBytes m; let l ← parseHex l; pure (showBytes (Hash.shake128 m l))
  | "hash", ["shake256", m, l] => do let m ← parseBytes m; let l ← parseHex l; pure (showBytes (Hash.shake256 m l))
  | "expand", [x, m, d, l] => do
      let ex ← expander x; let m ← parseBytes m; let d ← parseBytes d; let l ← parseHex l
      pure (match ex m d l with | none => "PANIC" | some b => showBytes b)
  | "h2f", ["fq", x, m, d, c] => do
      let ex ← expander x; let m ← parseBytes m; let d ← parseBytes d; let c ← parseHex c
      pure (match hashToField ex 64 Fq.fromOkm m d c with | none => "PANIC" | some l => showList fqIO.shw l)
  | "h2f", ["fr", x, m, d, c] => do
      let ex ← expander x; let m ← parseBytes m; let d ← parseBytes d; let c ← parseHex c
      pure (match hashToField ex 48 Fr.fromOkm m d c with | none => "PANIC" | some l => showList frIO.shw l)
  | "h2f", ["fq2", x, m, d, c] => do
      let ex ← expander x; let m ← parseBytes m; let d ← parseBytes d; let c ← parseHex c
      pure (match hashToField ex 128 Fq2.fromRo m d c with | none => "PANIC" | some l => showList fq2IO.shw l)
  | "okm", ["fq", b] => do let b ← parseBytes b; pure (match Fq.fromOkm b with | none => "PANIC" | some a => fqIO.shw a)
  | "okm", ["fr", b] => do let b ← parseBytes b; pure (match Fr.fromOkm b with | none => "PANIC" | some a => frIO.shw a)
  | "okm", ["fq2", b] => do let b ← parseBytes b; pure (match Fq2.fromRo b with | none => "PANIC" | some a => fq2IO.shw a)
  | "h2cfix", [grp, mode, bs] => do
      let bs ← parseBytes bs
      let ex : Bytes → Bytes → Nat → Option Bytes := fun _ _ l => if bs.length = l then some bs else none
      match grp, mode with
      | "g1", "ro" => pure (showJacO g1Ctx (hashToCurveG1 ex [] []))
      | "g1", "nu" => pure (showJacO g1Ctx (encodeToCurveG1 ex [] []))
      | "g2", "ro" => pure (showJacO g2Ctx (hashToCurveG2 ex [] []))
      | "g2", "nu" => pure (showJacO g2Ctx (encodeToCurveG2 ex [] []))
      | _, _ => none
  | "h2c", ["g1", x, "ro", m, d] => do
      let ex ← expander x; let m ← parseBytes m; let d ← parseBytes d
      pure (showJacO g1Ctx (hashToCurveG1 ex m d))
  | "h2c", ["g1", x, "nu", m, d] => do
      let ex ← expander x; let m ← parseBytes m; let d ← parseBytes d
      pure (showJacO g1Ctx (encodeToCurveG1 ex m d))
  | "h2c", ["g2", x, "ro", m, d] => do
      let ex ← expander x; let m ← parseBytes m; let d ← parseBytes d
      pure (showJacO g2Ctx (hashToCurveG2 ex m d))
  | "h2c", ["g2", x, "nu", m, d] => do
      let ex ← expander x; let m ← parseBytes m; let d ← parseBytes d
      pure (showJacO g2Ctx (encodeToCurveG2 ex m d))
  | _, _ => none

/-! ### pairing, serdes of scalars / Fq12, chains -/

def showFq12O : Option Fq12 → String
  | some f => fq12IO.shw f
  | none => "PANIC"

def miscOp (op : String) (args : List String) : Option String :=
  let A1 := affIO fqIO
  let A2 := affIO fq2IO
  match op, args with
  | "pairing", [p, q] => do let p ← A1.parse p; let q ← A2.parse q; pure (showFq12O (pairing p q))
  | "pairjac", [p, q] => do
      let p ← (jacIO fqIO).parse p; let q ← (jacIO fq2IO).parse q
      match p.toAffine, q.toAffine with
      | some p, some q => pure (showFq12O (pairing p q))
      | _, _ => pure "PANIC"
  | "pairjacprep", [p, q] => do
      let p ← (jacIO fqIO).parse p; let q ← (jacIO fq2IO).parse q
      match p.toAffine, q.toAffine with
      | some p, some q =>
        match millerLoop [(p, G2Prepared.fromAffine q)] with
        | some m => pure (showOpt fq12IO.shw (finalExponentiation m))
        | none => pure "PANIC"
      | _, _ => pure "PANIC"
  | "pairshare", [ps, q] => do
      let ps ← (splitList ps).mapM A1.parse; let q ← A2.parse q
      let prep := G2Prepared.fromAffine q
      pure (";".intercalate (ps.map (fun p => match millerLoop [(p, prep)] with
        | some m => showOpt fq12IO.shw (finalExponentiation m)
        | none => "PANIC")))
  | "preparestress", [qs, _] => do
      let qs ← (splitList qs).mapM A2.parse
      if qs.isEmpty then none else pure "ok"      -- the model is a pure function: preparation cannot depend on other threads
  | "pairwith1", [p, q] => do let p ← A1.parse p; let q ← A2.parse q; pure (showFq12O (pairing p q))
  | "pairwith2", [p, q] => do let p ← A1.parse p; let q ← A2.parse q; pure (showFq12O (pairing p q))
  | "consts", ["fq"] => pure (toHex Gen.q ++ " " ++ toString Gen.fq_MODULUS_BITS ++ " " ++ toString (Gen.fq_MODULUS_BITS - 1) ++ " " ++
      toString Gen.fq_S ++ " " ++ fqIO.shw (Fq.ofMont Gen.fq_GENERATOR) ++ " " ++ fqIO.shw (Fq.ofMont Gen.fq_ROOT_OF_UNITY))
  | "consts", ["fr"] => pure (toHex Gen.r ++ " " ++ toString Gen.fr_MODULUS_BITS ++ " " ++ toString (Gen.fr_MODULUS_BITS - 1) ++ " " ++
      toString Gen.fr_S ++ " " ++ frIO.shw (Fr.ofMont Gen.fr_GENERATOR) ++ " " ++ frIO.shw (Fr.ofMont Gen.fr_ROOT_OF_UNITY))
  | "miller", [ps, qs] => do
      let ps ← (splitList ps).mapM A1.parse; let qs ← (splitList qs).mapM A2.parse
      pure (showFq12O (millerLoop (List.zip ps (qs.map G2Prepared.fromAffine))))
  | "millerref", [ps, qs, pis, qis] => do
      let ps ← (splitList ps).mapM A1.parse; let qs ← (splitList qs).mapM A2.parse
      let pis ← (splitList pis).mapM parseHex; let qis ← (splitList qis).mapM parseHex
      if pis.length != qis.length then none else
      let prep := qs.map G2Prepared.fromAffine
      let pairs ← (List.zip pis qis).mapM (fun (i, j) => do let p ← ps[i]?; let q ← prep[j]?; pure (p, q))
      match millerLoop pairs with
      | some m => pure (showOpt fq12IO.shw (finalExponentiation m))
      | none => pure "PANIC"
  | "millerlazy", [ps, qs] => do
      let ps ← (splitList ps).mapM A1.parse; let qs ← (splitList qs).mapM A2.parse
      match millerLoop (List.zip ps (qs.map G2Prepared.fromAffine)) with
      | some m => pure (showOpt fq12IO.shw (finalExponentiation m))
      | none => pure "PANIC"
  | "finalexp", [f] => do let f ← fq12IO.parse f; pure (showOpt fq12IO.shw (finalExponentiation f))
  | "pairprod", [p1, q1, p2, q2] => do
      let p1 ← A1.parse p1; let q1 ← A2.parse q1; let p2 ← A1.parse p2; let q2 ← A2.parse q2
      pure (showFq12O (pairingProduct p1 q1 p2 q2))
  | "pairmulti", [ps, qs] => do
      let ps ← (splitList ps).mapM A1.parse; let qs ← (splitList qs).mapM A2.parse
      pure (showFq12O (pairingMultiProduct ps qs))
  | "prepare", [q] => do
      let q ← A2.parse q
      let pr := G2Prepared.fromAffine q
      pure (showBool pr.infinity ++ " " ++ toString pr.coeffs.length ++ " " ++
        showList (fun (c : Fq2 × Fq2 × Fq2) => fq2IO.shw c.1 ++ ":" ++ fq2IO.shw c.2.1 ++ ":" ++ fq2IO.shw c.2.2) pr.coeffs)
  | "ser_fr", [a] => do let a ← frIO.parse a; pure (showBytes (serFr a))
  | "deser_fr", [bs] => do
      let bs ← parseBytes bs
      pure (match deserFr bs with
        | .error e => "ERR:" ++ e.toString
        | .ok (a, rest) => frIO.shw a ++ " " ++ toString (bs.length - rest.length))
  | "deser_fr_ch", [bs, _] => do
      let bs ← parseBytes bs
      pure (match deserFr bs with
        | .error e => "ERR:" ++ e.toString
        | .ok (a, rest) => frIO.shw a ++ " " ++ toString (bs.length - rest.length))
  | "deser_fq12_ch", [bs, _] => do
      let bs ← parseBytes bs
      pure (match deserFq12 bs with
        | .error e => "ERR:" ++ e.toString
        | .ok (a, rest) => fq12IO.shw a ++ " " ++ toString (bs.length - rest.length))
  | "ser_fq12", [a] => do let a ← fq12IO.parse a; pure (showBytes (serFq12 a))
  | "deser_fq12", [bs] => do
      let bs ← parseBytes bs
      pure (match deserFq12 bs with
        | .error e => "ERR:" ++ e.toString
        | .ok (a, rest) => fq12IO.shw a ++ " " ++ toString (bs.length - rest.length))
  | "chain", ["pm3div4", a] => do let a ← fqIO.parse a; pure (fqIO.shw (chainPm3div4 a))
  | "chain", ["p2m9div16", a] => do let a ← fq2IO.parse a; pure (fq2IO.shw (chainP2m9div16 a))
  | "chain", ["z", "g1", p] => do let p ← (jacIO fqIO).parse p; pure (showJac g1Ctx (chainZ p))
  | "chain", ["z", "g2", p] => do let p ← (jacIO fq2IO).parse p; pure (showJac g2Ctx (chainZ p))
  | "chain", ["h2eff", "g2", p] => do let p ← (jacIO fq2IO).parse p; pure (showJac g2Ctx (chainH2Eff p))
  | "chain", ["h2eff", "g1", p] => do let p ← (jacIO fqIO).parse p; pure (showJac g1Ctx (chainH2Eff p))
  | _, _ => none

/-! ### Fq-specific extras -/

def fqExtra (op : String) (args : List String) : Option String :=
  match op, args with
  | "fromrepr", [n] => do
      let n ← parseHex n
      pure (if h : n < Gen.q then fqIO.shw ⟨n, h⟩ else "ERR:NotInField")
  | _, _ => none

def frExtra (op : String) (args : List String) : Option String :=
  match op, args with
  | "fromrepr", [n] => do
      let n ← parseHex n
      pure (if h : n < Gen.r then frIO.shw ⟨n, h⟩ else "ERR:NotInField")
  | _, _ => none

def fq2Extra (op : String) (args : List String) : Option String :=
  match op, args with
  | "norm", [a] => do let a ← fq2IO.parse a; pure (fqIO.shw a.norm)
  | "nonres", [a] => do let a ← fq2IO.parse a; pure (fq2IO.shw a.mulByNonresidue)
  | _, _ => none

def fq6Extra (op : String) (args : List String) : Option String :=
  match op, args with
  | "nonres", [a] => do let a ← fq6IO.parse a; pure (fq6IO.shw a.mulByNonresidue)
  | "mulby1", [a, c1] => do let a ← fq6IO.parse a; let c1 ← fq2IO.parse c1; pure (fq6IO.shw (a.mulBy1 c1))
  | "mulby01", [a, c0, c1] => do
      let a ← fq6IO.parse a; let c0 ← fq2IO.parse c0; let c1 ← fq2IO.parse c1
      pure (fq6IO.shw (a.mulBy01 c0 c1))
  | _, _ => none

def fq12Extra (op : String) (args : List String) : Option String :=
  match op, args with
  | "conj", [a] => do let a ← fq12IO.parse a; pure (fq12IO.shw a.conjugate)
  | "mulby014", [a, c0, c1, c4] => do
      let a ← fq12IO.parse a; let c0 ← fq2IO.parse c0; let c1 ← fq2IO.parse c1; let c4 ← fq2IO.parse c4
      pure (fq12IO.shw (a.mulBy014 c0 c1 c4))
  | _, _ => none

/-- dispatch one case line -/
def runLine (line : String) : String :=
  let toks := (line.splitOn " ").filter (· ≠ "")
  let res : Option String :=
    match toks with
    | "fq" :: op :: args => orElse' (fieldOp fqIO op args) fun _ => orElse' (sqrtOp fqIO op args) fun _ => fqExtra op args
    | "fr" :: op :: args => orElse' (fieldOp frIO op args) fun _ => orElse' (sqrtOp frIO op args) fun _ => frExtra op args
    | "fq2" :: op :: args => orElse' (fieldOp fq2IO op args) fun _ => orElse' (sqrtOp fq2IO op args) fun _ => fq2Extra op args
    | "fq6" :: op :: args => orElse' (fieldOp fq6IO op args) fun _ => fq6Extra op args
    | "fq12" :: op :: args => orElse' (fieldOp fq12IO op args) fun _ => fq12Extra op args
    | "g1" :: op :: args => groupOp g1Ctx op args
    | "g2" :: op :: args => groupOp g2Ctx op args
    | ["rnd", f, ws] => do
      -- `Field::random` with an RNG that replays the given words (then the call number); output: the raw limbs
      -- of the element as one number, and the number of `next_u64` calls made
      let ws ← (ws.splitOn ",").mapM parseHex
      let (n, bits, p) ← (match f with
        | "fq" => some (6, 61, Mont.fqP.p)
        | "fr" => some (4, 63, Mont.frP.p)
        | _ => none)
      match Mont.randomSpec ReplayRng.next n bits p (ws.length / n + 2) (ws, 0) with
      | none => pure "none"
      | some (st, x) => pure (toHex (limbsToNat x) ++ " " ++ toString st.2)
    | "mfq" :: op :: args => Mont.montOp Mont.fqP op (args.mapM parseHex) |>.map (fun o => o.elim "none" toHex)
    | "lfq" :: op :: args => MontLimb.limbOp true op (args.mapM parseHex) |>.map (fun o => o.elim "none" toHex)
    | "lfr" :: op :: args => MontLimb.limbOp false op (args.mapM parseHex) |>.map (fun o => o.elim "none" toHex)
    | "mfr" :: op :: args => Mont.montOp Mont.frP op (args.mapM parseHex) |>.map (fun o => o.elim "none" toHex)
    | ["repr", n, "read_be", bs] => do
        let n ← n.toNat?; let bs ← parseBytes bs
        pure (if bs.length < 8 * n then "ERR:eof" else toHex (beToNat (bs.take (8 * n))))
    | ["repr", n, "read_be2", bs, _chunk] => do
        let n ← n.toNat?; let bs ← parseBytes bs
        pure (if bs.length < 16 * n then "ERR:eof"
              else toHex (beToNat (bs.take (8 * n))) ++ " " ++ toHex (beToNat ((bs.drop (8 * n)).take (8 * n))) ++ " " ++ toString (16 * n))
    | ["repr", n, "read_le", bs] => do
        let n ← n.toNat?; let bs ← parseBytes bs
        pure (if bs.length < 8 * n then "ERR:eof" else toHex (leToNat (bs.take (8 * n))))
    | ["repr", n, "write_be", a] => do let n ← n.toNat?; let a ← parseHex a; pure (showBytes (beBytes (8 * n) a))
    | ["repr", n, "write_le", a] => do let n ← n.toNat?; let a ← parseHex a; pure (showBytes (leBytes (8 * n) a))
    | "repr" :: n :: op :: args => do
        let n ← n.toNat?
        let args ← args.mapM parseHex
        Mont.reprOp n op args
    | op :: args => orElse' (hashOp op args) fun _ => miscOp op args
    | [] => none
  res.getD bad

partial def loop (h : IO.FS.Stream) (out : IO.FS.Stream) : IO Unit := do
  let line ← h.getLine
  if line.isEmpty then return ()
  let l := line.trimAscii.toString
  if l.isEmpty || l.startsWith "#" then
    out.putStrLn l
  else
    out.putStrLn (runLine l)
  loop h out

end PP.Drv

def main : IO Unit := do
  let stdin ← IO.getStdin
  let stdout ← IO.getStdout
  PP.Drv.loop stdin stdout
