-- This module serves as the root of the `PP` library.
-- Import modules here that should be built as part of the library.
import PP.Basic
