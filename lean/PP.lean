import PP.Model.Pairing
import PP.Model.Mont
import PP.Spec.Hash
