/-
The definitions REGENERATED from the Rust source by /verif/extract/extract_msm.py (`PP/Gen/Msm.lean`,
namespace `PP.Gen.M`: scalar-multiplication tables, Pippenger, wNAF) are equal to the hand-written
model `PP/Model/Mul.lean`.

Proof method: the generated loops (`M.forIn` over `List.range'`, `List.foldl`, `M.whileFuel`,
`M.loopFuel`) are related to the model's structural recursions by induction with generalised
accumulators; calls of generated curve operations are first rewritten into the model's with the
equalities of PP/Proofs/GenArith.lean; nothing evaluates field arithmetic (everything is generic in
the coefficient field `F`).
-/
import PP.Gen.Msm
import PP.Proofs.GenArith
import PP.Proofs.GenDerive
import PP.Proofs.Bits

set_option linter.unusedSimpArgs false
set_option linter.unusedVariables false
set_option linter.unusedSectionVars false

namespace PP.GenMsmLemmas
open PP PP.Gen PP.GenArithLemmas

/-! ## the primitives of Msm.lean -/

theorem usub_of_le {a b : Nat} (h : b ≤ a) : M.usub a b = some (a - b) := by
  unfold M.usub; rw [if_pos h]

theorem usub_of_lt {a b : Nat} (h : a < b) : M.usub a b = none := by
  unfold M.usub; rw [if_neg (by omega)]

theorem setIdx_of_lt {α : Type} {xs : List α} {i : Nat} (v : α) (h : i < xs.length) :
    M.setIdx xs i v = some (xs.set i v) := by
  unfold M.setIdx; rw [if_pos h]

theorem setIdx_of_ge {α : Type} {xs : List α} {i : Nat} (v : α) (h : xs.length ≤ i) :
    M.setIdx xs i v = none := by
  unfold M.setIdx; rw [if_neg (by omega)]

theorem match_some_eta {α : Type} (o : Option α) :
    (match o with | none => none | some v => some v) = o := by cases o <;> rfl

@[simp] theorem forIn_nil {σ α : Type} (s : σ) (f : σ → α → Option σ) : M.forIn [] s f = some s := rfl

theorem forIn_cons {σ α : Type} (x : α) (xs : List α) (s : σ) (f : σ → α → Option σ) :
    M.forIn (x :: xs) s f = (match f s x with | none => none | some s' => M.forIn xs s' f) := rfl

theorem forIn_append {σ α : Type} (xs ys : List α) (s : σ) (f : σ → α → Option σ) :
    M.forIn (xs ++ ys) s f = (match M.forIn xs s f with | none => none | some s' => M.forIn ys s' f) := by
  induction xs generalizing s with
  | nil => rfl
  | cons x xs ih =>
    rw [List.cons_append, forIn_cons, forIn_cons]
    cases f s x with
    | none => rfl
    | some s' => exact ih s'

theorem forIn_pure {σ α : Type} (xs : List α) (s : σ) (f : σ → α → Option σ) (g : σ → α → σ)
    (h : ∀ s x, f s x = some (g s x)) : M.forIn xs s f = some (xs.foldl g s) := by
  induction xs generalizing s with
  | nil => rfl
  | cons x xs ih => rw [forIn_cons, h, List.foldl_cons]; exact ih _

section
variable {F : Type} [Add F] [Sub F] [Mul F] [Neg F] [Zero F] [One F] [FieldOps F] [DecidableEq F]

/-- `for _ in 0..n { p.double(); }` -/
theorem foldl_double (s n : Nat) (p : Jac F) :
    List.foldl (fun p _ => p.double) p (List.range' s n) = p.doubleN n := by
  induction n generalizing s p with
  | zero => rfl
  | succ n ih => rw [List.range'_succ, List.foldl_cons, ih]; rfl

/-! ## `precomp_3` -/

theorem precomp3_eq (a : Aff F) (pre : List (Aff F)) (h : 3 ≤ pre.length) :
    M.Aff.precomp3 a pre = (a.precomp3).map (fun t => t ++ pre.drop 3) := by
  obtain ⟨x0, x1, x2, rest, rfl⟩ : ∃ x0 x1 x2 rest, pre = x0 :: x1 :: x2 :: rest := by
    match pre, h with
    | x0 :: x1 :: x2 :: rest, _ => exact ⟨x0, x1, x2, rest, rfl⟩
  unfold M.Aff.precomp3 Aff.precomp3
  simp only [Aff_toJac_eq, Jac_double_eq, Jac_toAffine_eq, foldl_double]
  have hr : List.range' 0 3 = [0, 1, 2] := rfl
  rw [hr]
  simp only [forIn_cons, forIn_nil]
  cases h1 : ((a.toJac).doubleN 64).toAffine with
  | none => rfl
  | some a1 =>
    simp only [M.setIdx, List.length_cons, Nat.zero_lt_succ, if_true, List.set_cons_zero]
    cases h2 : (((a.toJac).doubleN 64).doubleN 64).toAffine with
    | none => rfl
    | some a2 =>
      simp only [List.set_cons_succ, List.set_cons_zero, List.length_cons, Nat.succ_lt_succ_iff, Nat.zero_lt_succ, if_true]
      cases h3 : ((((a.toJac).doubleN 64).doubleN 64).doubleN 64).toAffine with
      | none => rfl
      | some a3 => rfl

theorem precomp3_short (a : Aff F) (pre : List (Aff F)) (h : pre.length < 3) :
    M.Aff.precomp3 a pre = none := by
  unfold M.Aff.precomp3
  have hr : List.range' 0 3 = [0, 1, 2] := rfl
  rw [hr]
  simp only [forIn_cons, forIn_nil, M.setIdx]
  match pre, h with
  | [], _ =>
    cases (A.Jac.toAffine _ : Option (Aff F)) <;> rfl
  | [x0], _ =>
    cases (A.Jac.toAffine _ : Option (Aff F)) with
    | none => rfl
    | some a1 =>
      simp only [List.length_cons, List.length_nil, Nat.zero_lt_succ, if_true, Nat.lt_irrefl, if_false]
      cases (A.Jac.toAffine _ : Option (Aff F)) <;> rfl
  | [x0, x1], _ =>
    cases (A.Jac.toAffine _ : Option (Aff F)) with
    | none => rfl
    | some a1 =>
      simp only [List.length_cons, List.length_nil, Nat.zero_lt_succ, if_true, List.length_set]
      cases (A.Jac.toAffine _ : Option (Aff F)) with
      | none => rfl
      | some a2 =>
        simp only [List.length_cons, List.length_nil, List.length_set, if_true, Nat.lt_irrefl, if_false,
          Nat.one_lt_two, Nat.zero_lt_succ, Nat.succ_lt_succ_iff]
        cases (A.Jac.toAffine _ : Option (Aff F)) <;> rfl

/-! ## `mul_precomp_3` -/

theorem mod_and_small (y m : Nat) (hm : m < 2 ^ 64) : (y % 2 ^ 64) &&& m = y &&& m := by
  apply Nat.eq_of_testBit_eq
  intro i
  rw [Nat.testBit_and, Nat.testBit_and, Nat.testBit_mod_two_pow]
  by_cases hi : i < 64
  · simp [hi]
  · have : m.testBit i = false :=
      Nat.testBit_lt_two_pow (Nat.lt_of_lt_of_le hm (Nat.pow_le_pow_right (by decide) (by omega)))
    simp [this]

theorem mulPrecomp3_loop (T : List (Jac F)) (b0 b1 b2 b3 : Nat)
    (f : Nat × Jac F → Nat → Option (Nat × Jac F))
    (hf : ∀ st i, f st i = match T[nibbleAt b0 b1 b2 b3 i]? with
      | none => none
      | some e => some (nibbleAt b0 b1 b2 b3 i, st.2.double.add e)) :
    ∀ n nib res o, M.forIn (List.range' 0 n).reverse (nib, res) f = o →
      o.map Prod.snd = mulPrecomp3Loop T.toArray b0 b1 b2 b3 n res := by
  intro n
  induction n with
  | zero => intro nib res o h; subst h; rfl
  | succ n ih =>
    intro nib res o h
    rw [List.range'_concat, List.reverse_append, List.reverse_singleton, List.singleton_append, forIn_cons, hf] at h
    rw [mulPrecomp3Loop]
    simp only [List.getElem?_toArray, Nat.one_mul, Nat.zero_add] at h ⊢
    cases hT : T[nibbleAt b0 b1 b2 b3 n]? with
    | none => rw [hT] at h; subst h; rfl
    | some e => rw [hT] at h; exact ih _ _ _ h

theorem nibbleAt_def (b0 b1 b2 b3 i : Nat) : (((b3 >>> i) <<< 3) &&& 8) ||| (((b2 >>> i) <<< 2) &&& 4) ||| (((b1 >>> i) <<< 1) &&& 2)
    ||| ((b0 >>> i) &&& 1) = nibbleAt b0 b1 b2 b3 i := rfl
theorem nibbleTop_def (b0 b1 b2 b3 : Nat) :
    ((b3 >>> 60) &&& 8) ||| ((b2 >>> 61) &&& 4) ||| ((b1 >>> 62) &&& 2) ||| ((b0 >>> 63) &&& 1) = nibbleTop b0 b1 b2 b3 := rfl

theorem mulPrecomp3_core (T : List (Jac F)) (b0 b1 b2 b3 n : Nat)
    (f : Nat × Jac F → Nat → Option (Nat × Jac F))
    (hf : ∀ st i, f st i = match T[nibbleAt b0 b1 b2 b3 i]? with
      | none => none
      | some e => some (nibbleAt b0 b1 b2 b3 i, st.2.double.add e)) :
    (match T[nibbleTop b0 b1 b2 b3]? with
      | none => none
      | some t15 =>
        match M.forIn (List.range' 0 n).reverse (nibbleTop b0 b1 b2 b3, t15) f with
        | none => none
        | some (_, res) => some res)
      = (T[nibbleTop b0 b1 b2 b3]?).bind (fun r => mulPrecomp3Loop T.toArray b0 b1 b2 b3 n r) := by
  cases T[nibbleTop b0 b1 b2 b3]? with
  | none => rfl
  | some t15 =>
    rw [Option.bind_some]
    dsimp only
    cases hfor : M.forIn (List.range' 0 n).reverse (nibbleTop b0 b1 b2 b3, t15) f with
    | none => exact mulPrecomp3_loop T _ _ _ _ f hf n _ _ _ hfor
    | some p =>
      obtain ⟨nib', r⟩ := p
      exact mulPrecomp3_loop T _ _ _ _ f hf n _ _ _ hfor

/-- the 16-entry table of `mul_precomp_3` -/
def tbl16 (a p0 p1 p2 : Aff F) : List (Jac F) :=
  [Jac.zero, a.toJac, p0.toJac, p0.toJac.addMixed a, p1.toJac, p1.toJac.addMixed a, p0.toJac.addMixed p1,
    (p0.toJac.addMixed p1).addMixed a, p2.toJac, a.toJac.addMixed p2, p0.toJac.addMixed p2,
    (p0.toJac.addMixed a).addMixed p2, p1.toJac.addMixed p2, (p1.toJac.addMixed a).addMixed p2,
    (p0.toJac.addMixed p1).addMixed p2, ((p0.toJac.addMixed p1).addMixed a).addMixed p2]

theorem tbl16_eq (a p0 p1 p2 : Aff F) : [Jac.zero, a.toJac, p0.toJac, p0.toJac.addMixed a, p1.toJac, p1.toJac.addMixed a, p0.toJac.addMixed p1,
    (p0.toJac.addMixed p1).addMixed a, p2.toJac, a.toJac.addMixed p2, p0.toJac.addMixed p2,
    (p0.toJac.addMixed a).addMixed p2, p1.toJac.addMixed p2, (p1.toJac.addMixed a).addMixed p2,
    (p0.toJac.addMixed p1).addMixed p2, ((p0.toJac.addMixed p1).addMixed a).addMixed p2] = tbl16 a p0 p1 p2 := rfl

theorem precomp3Table_some (a : Aff F) (pre : List (Aff F)) {p0 p1 p2 : Aff F} (h0 : pre[0]? = some p0)
    (h1 : pre[1]? = some p1) (h2 : pre[2]? = some p2) :
    a.precomp3Table pre = some (tbl16 a p0 p1 p2).toArray := by
  unfold Aff.precomp3Table
  rw [h0, h1, h2]
  simp only [Option.pure_def, Option.bind_eq_bind, Option.bind_some, tbl16]
  simp

theorem mulPrecomp3_eq (a : Aff F) (k : Nat) (pre : List (Aff F)) :
    M.Aff.mulPrecomp3 a k pre = a.mulPrecomp3 k pre := by
  unfold M.Aff.mulPrecomp3
  simp only [Aff_toJac_eq, Jac_double_eq, Jac_zero_eq, Jac_addMixed_eq, Jac_add_eq]
  cases h0 : pre[0]? with
  | none => simp only [Aff.mulPrecomp3, Aff.precomp3Table, h0]; rfl
  | some p0 =>
    simp only [List.nil_append, List.cons_append, List.getElem?_cons_succ, List.getElem?_cons_zero,
      List.set_cons_succ, List.set_cons_zero]
    cases h1 : pre[1]? with
    | none => simp only [Aff.mulPrecomp3, Aff.precomp3Table, h0, h1]; rfl
    | some p1 =>
      simp only [List.nil_append, List.cons_append, List.getElem?_cons_succ, List.getElem?_cons_zero,
        List.set_cons_succ, List.set_cons_zero]
      cases h2 : pre[2]? with
      | none => simp only [Aff.mulPrecomp3, Aff.precomp3Table, h0, h1, h2]; rfl
      | some p2 =>
        have hr : List.range' 9 7 = [9, 10, 11, 12, 13, 14, 15] := rfl
        simp only [List.nil_append, List.cons_append, List.getElem?_cons_succ, List.getElem?_cons_zero,
          List.set_cons_succ, List.set_cons_zero, hr, forIn_cons, forIn_nil, M.usub, Nat.reduceLeDiff,
          Nat.reduceSub, ↓reduceIte, tbl16_eq]
        simp only [getD_limbsOf4 k 0 (by decide), getD_limbsOf4 k 1 (by decide), getD_limbsOf4 k 2 (by decide),
          getD_limbsOf4 k 3 (by decide), mod_and_small _ 8 (by decide), mod_and_small _ 4 (by decide),
          mod_and_small _ 2 (by decide)]
        rw [Aff.mulPrecomp3, precomp3Table_some a pre h0 h1 h2]
        simp only [Option.pure_def, Option.bind_eq_bind, Option.bind_some, List.getElem?_toArray]
        simp only [nibbleAt_def, nibbleTop_def]
        refine mulPrecomp3_core (tbl16 a p0 p1 p2) (limb k 0) (limb k 1) (limb k 2) (limb k 3) 63 _ ?_
        intro st i; rfl

/-! ## `mul_precomp_256` -/

theorem byteAt_def (b0 b1 b2 b3 i : Nat) :
    ((b3 >>> (i + 25)) &&& 128) ||| (((b3 >>> i) <<< 6) &&& 64) |||
    ((b2 >>> (i + 27)) &&& 32) ||| (((b2 >>> i) <<< 4) &&& 16) |||
    ((b1 >>> (i + 29)) &&& 8) ||| (((b1 >>> i) <<< 2) &&& 4) |||
    ((b0 >>> (i + 31)) &&& 2) ||| ((b0 >>> i) &&& 1) = byteAt b0 b1 b2 b3 i := rfl

theorem byteTop_def (b0 b1 b2 b3 : Nat) :
    ((b3 >>> 56) &&& 128) ||| ((b3 >>> 25) &&& 64) ||| ((b2 >>> 58) &&& 32) ||| ((b2 >>> 27) &&& 16) |||
    ((b1 >>> 60) &&& 8) ||| ((b1 >>> 29) &&& 4) ||| ((b0 >>> 62) &&& 2) ||| ((b0 >>> 31) &&& 1)
      = byteTop b0 b1 b2 b3 := rfl

theorem mulPrecomp256_loop (P : List (Aff F)) (b0 b1 b2 b3 : Nat)
    (f : Nat × Jac F → Nat → Option (Nat × Jac F))
    (hf : ∀ st i, f st i = match P[byteAt b0 b1 b2 b3 i]? with
      | none => none
      | some e => some (byteAt b0 b1 b2 b3 i, st.2.double.addMixed e)) :
    ∀ n byte res o, M.forIn (List.range' 0 n).reverse (byte, res) f = o →
      o.map Prod.snd = mulPrecomp256Loop P.toArray b0 b1 b2 b3 n res := by
  intro n
  induction n with
  | zero => intro byte res o h; subst h; rfl
  | succ n ih =>
    intro byte res o h
    rw [List.range'_concat, List.reverse_append, List.reverse_singleton, List.singleton_append, forIn_cons, hf] at h
    rw [mulPrecomp256Loop]
    simp only [List.getElem?_toArray, Nat.one_mul, Nat.zero_add] at h ⊢
    cases hT : P[byteAt b0 b1 b2 b3 n]? with
    | none => rw [hT] at h; subst h; rfl
    | some e => rw [hT] at h; exact ih _ _ _ h

theorem mulPrecomp256_core (P : List (Aff F)) (b0 b1 b2 b3 n : Nat)
    (f : Nat × Jac F → Nat → Option (Nat × Jac F))
    (hf : ∀ st i, f st i = match P[byteAt b0 b1 b2 b3 i]? with
      | none => none
      | some e => some (byteAt b0 b1 b2 b3 i, st.2.double.addMixed e)) :
    (match P[byteTop b0 b1 b2 b3]? with
      | none => none
      | some t1 =>
        match M.forIn (List.range' 0 n).reverse (byteTop b0 b1 b2 b3, t1.toJac) f with
        | none => none
        | some (_, res) => some res)
      = (P[byteTop b0 b1 b2 b3]?).bind (fun e => mulPrecomp256Loop P.toArray b0 b1 b2 b3 n e.toJac) := by
  cases P[byteTop b0 b1 b2 b3]? with
  | none => rfl
  | some t1 =>
    rw [Option.bind_some]
    dsimp only
    cases hfor : M.forIn (List.range' 0 n).reverse (byteTop b0 b1 b2 b3, t1.toJac) f with
    | none => exact mulPrecomp256_loop P _ _ _ _ f hf n _ _ _ hfor
    | some p =>
      obtain ⟨byte', r⟩ := p
      exact mulPrecomp256_loop P _ _ _ _ f hf n _ _ _ hfor

theorem mulPrecomp256_eq (a : Aff F) (k : Nat) (pre : List (Aff F)) :
    M.Aff.mulPrecomp256 a k pre = a.mulPrecomp256 k pre.toArray := by
  unfold M.Aff.mulPrecomp256 Aff.mulPrecomp256
  simp only [Aff_toJac_eq, Jac_double_eq, Jac_addMixed_eq]
  simp only [getD_limbsOf4 k 0 (by decide), getD_limbsOf4 k 1 (by decide), getD_limbsOf4 k 2 (by decide),
    getD_limbsOf4 k 3 (by decide), mod_and_small _ 64 (by decide), mod_and_small _ 16 (by decide),
    mod_and_small _ 4 (by decide), byteAt_def, byteTop_def]
  simp only [Option.pure_def, Option.bind_eq_bind, List.getElem?_toArray]
  refine mulPrecomp256_core pre (limb k 0) (limb k 1) (limb k 2) (limb k 3) 31 _ ?_
  intro st i; rfl

/-! ## `sum_of_products_precomp_256` -/

theorem sopInner_loop (P : List (Aff F)) (i : Nat) (ks : List Nat)
    (g : Jac F → Nat → Option (Jac F))
    (hg : ∀ res j, g res j = match ks[j]? with
      | none => none
      | some kj =>
        match P[(j <<< 8) + byteAt (limb kj 0) (limb kj 1) (limb kj 2) (limb kj 3) i]? with
        | none => none
        | some e => some (res.addMixed e)) :
    ∀ m j0 res, j0 + m ≤ ks.length →
      M.forIn (List.range' j0 m) res g = sopPrecompInner P.toArray i ((ks.drop j0).take m) j0 res := by
  intro m
  induction m with
  | zero => intro j0 res _; rfl
  | succ m ih =>
    intro j0 res h
    have hj : j0 < ks.length := by omega
    rw [List.range'_succ, forIn_cons, hg, List.getElem?_eq_getElem hj, List.drop_eq_getElem_cons hj,
      List.take_succ_cons, sopPrecompInner]
    simp only [List.getElem?_toArray, Option.bind_eq_bind]
    cases P[(j0 <<< 8) + byteAt (limb ks[j0] 0) (limb ks[j0] 1) (limb ks[j0] 2) (limb ks[j0] 3) i]? with
    | none => rfl
    | some e => exact ih (j0 + 1) _ (by omega)

theorem sopInner_core (P : List (Aff F)) (i n : Nat) (ks : List Nat) (hn : n ≤ ks.length) (res : Jac F)
    (g : Jac F → Nat → Option (Jac F))
    (hg : ∀ res j, g res j = match ks[j]? with
      | none => none
      | some kj =>
        match P[(j <<< 8) + byteAt (limb kj 0) (limb kj 1) (limb kj 2) (limb kj 3) i]? with
        | none => none
        | some e => some (res.addMixed e)) :
    (match M.forIn (List.range' 0 n) res g with
      | none => none
      | some r => some r) = sopPrecompInner P.toArray i (ks.take n) 0 res := by
  rw [sopInner_loop P i ks g hg n 0 res (by omega), List.drop_zero]
  cases sopPrecompInner P.toArray i (ks.take n) 0 res <;> rfl

theorem sopOuter_core (P : List (Aff F)) (K : List Nat) (f : Jac F → Nat → Option (Jac F))
    (hf : ∀ res i, f res i = sopPrecompInner P.toArray i K 0 res.double) :
    ∀ m res, (match M.forIn (List.range' 0 m).reverse res f with
      | none => none
      | some r => some r) = sopPrecompOuter P.toArray K m res := by
  have key : ∀ m res, M.forIn (List.range' 0 m).reverse res f = sopPrecompOuter P.toArray K m res := by
    intro m
    induction m with
    | zero => intro res; rfl
    | succ m ih =>
      intro res
      rw [List.range'_concat, List.reverse_append, List.reverse_singleton, List.singleton_append, forIn_cons, hf,
        sopPrecompOuter]
      simp only [Nat.one_mul, Nat.zero_add, Option.bind_eq_bind]
      cases sopPrecompInner P.toArray m K 0 res.double with
      | none => rfl
      | some r => exact ih r
  intro m res
  rw [key]
  cases sopPrecompOuter P.toArray K m res <;> rfl

theorem sumOfProductsPrecomp256_eq (points : List (Aff F)) (ks : List Nat) (pre : List (Aff F)) :
    M.Aff.sumOfProductsPrecomp256 points (ks.map (limbsOf 4)) pre
      = sumOfProductsPrecomp256 points ks pre.toArray := by
  unfold M.Aff.sumOfProductsPrecomp256 sumOfProductsPrecomp256
  simp only [Jac_zero_eq, Jac_double_eq, Jac_addMixed_eq, List.length_map]
  have hmin : (if points.length < ks.length then points.length else ks.length) = min points.length ks.length := by
    split <;> omega
  rw [hmin]
  refine sopOuter_core pre _ _ ?_ 32 _
  intro res i
  refine sopInner_core pre i _ ks (Nat.min_le_right _ _) _ _ ?_
  intro res j
  rw [List.getElem?_map]
  cases ks[j]? with
  | none => rfl
  | some kj =>
    simp only [Option.map_some, getD_limbsOf4 kj 0 (by decide), getD_limbsOf4 kj 1 (by decide),
      getD_limbsOf4 kj 2 (by decide), getD_limbsOf4 kj 3 (by decide), mod_and_small _ 64 (by decide),
      mod_and_small _ 16 (by decide), mod_and_small _ 4 (by decide), byteAt_def]
    rfl

/-! ## `wnaf_table` -/

theorem wnafTable_loop (dbl : Jac F) (step : List (Jac F) × Jac F → Nat → List (Jac F) × Jac F)
    (hstep : ∀ st i, step st i = (st.1 ++ [st.2], st.2.add dbl)) :
    ∀ n s t b acc, t = acc.reverse →
      (List.foldl step (t, b) (List.range' s n)).1 = wnafTableLoop dbl n b acc := by
  intro n
  induction n with
  | zero => intro s t b acc h; exact h
  | succ n ih =>
    intro s t b acc h
    rw [List.range'_succ, List.foldl_cons, hstep, wnafTableLoop]
    exact ih _ _ _ _ (by rw [List.reverse_cons, h])

theorem wnafTable_eq (old : List (Jac F)) (base : Jac F) (window : Nat) (hw : 1 ≤ window) :
    M.wnafTable old base window = some (wnafTable old base window) := by
  unfold M.wnafTable wnafTable
  simp only [usub_of_le hw, Jac_double_eq, Jac_add_eq, Nat.one_shiftLeft]
  have := wnafTable_loop base.double (fun (x : List (Jac F) × Jac F) (_ : Nat) => (x.1 ++ [x.2], x.2.add base.double))
    (fun st i => rfl) (2 ^ (window - 1)) 0 (List.take 0 old) base [] rfl
  rw [← this]
  rfl

theorem wnafTable_zero (old : List (Jac F)) (base : Jac F) : M.wnafTable old base 0 = none := rfl

/-! ## `wnaf_exp` -/

/-- one iteration of the loop of `wnaf_exp`, as in the model's `wnafExpLoop` -/
def wnafExpStep (T : List (Jac F)) (st : Jac F × Bool) (n : Int) : Option (Jac F × Bool) :=
  let res := if st.2 then st.1.double else st.1
  if n ≠ 0 then
    if n > 0 then
      match T[(n / 2).toNat]? with
      | none => none
      | some e => some (res.add e, true)
    else
      match T[((-n) / 2).toNat]? with
      | none => none
      | some e => some (res.sub e, true)
  else some (res, st.2)

theorem wnafExp_loop (T : List (Jac F)) (f : Jac F × Bool → Int → Option (Jac F × Bool))
    (hf : ∀ st n, f st n = wnafExpStep T st n) :
    ∀ (L : List Int) (st : Jac F × Bool),
      (match M.forIn L st f with
        | none => none
        | some (result, _) => some result) = wnafExpLoop T.toArray L st := by
  intro L
  induction L with
  | nil => intro st; obtain ⟨r, b⟩ := st; rfl
  | cons n L ih =>
    intro st
    obtain ⟨r, b⟩ := st
    rw [forIn_cons, hf, wnafExpLoop, wnafExpStep]
    simp only [List.getElem?_toArray, Option.bind_eq_bind]
    by_cases h0 : n ≠ 0
    · by_cases h1 : n > 0
      · simp only [h0, h1, if_true, ne_eq, not_false_eq_true]
        cases T[(n / 2).toNat]? with
        | none => rfl
        | some e => exact ih _
      · simp only [h0, h1, if_true, if_false, ne_eq, not_false_eq_true]
        cases T[((-n) / 2).toNat]? with
        | none => rfl
        | some e => exact ih _
    · simp only [h0, if_false]
      exact ih _

theorem wnafExp_eq (table : List (Jac F)) (wnaf : List Int) :
    M.wnafExp table wnaf = wnafExp table wnaf := by
  unfold M.wnafExp wnafExp
  simp only [Jac_zero_eq, Jac_double_eq, Jac_add_eq, Jac_sub_eq]
  refine wnafExp_loop table _ ?_ wnaf.reverse (Jac.zero, false)
  intro st n
  obtain ⟨r, b⟩ := st
  unfold wnafExpStep
  by_cases h0 : n ≠ 0
  · by_cases h1 : n > 0
    · have hd : Int.tdiv n 2 = n / 2 := Int.tdiv_eq_ediv_of_nonneg (by omega)
      simp only [h0, h1, if_true, ne_eq, not_false_eq_true, hd]
      cases table[(n / 2).toNat]? <;> rfl
    · have hd : Int.tdiv (-n) 2 = (-n) / 2 := Int.tdiv_eq_ediv_of_nonneg (by omega)
      simp only [h0, h1, if_true, if_false, ne_eq, not_false_eq_true, hd]
      cases table[((-n) / 2).toNat]? <;> rfl
  · simp only [h0, if_false]

end

/-! ## `find_pippinger_window` -/

theorem fpw_core (B : List (Nat × Nat)) (n : Nat) (f : Nat → Option (Option Nat))
    (hf : ∀ i, f i = match B[i]? with
      | none => none
      | some t1 =>
        if t1.1 > n then
          match M.usub i 1 with
          | none => none
          | some t2 =>
            match B[t2]? with
            | none => none
            | some t3 => some (some t3.2)
        else some none) :
    ∀ m j prev, 1 ≤ j → j + m = B.length → B[j - 1]? = some prev →
      (match M.forRet (List.range' j m) f with
        | none => none
        | some (some ret) => some ret
        | some none =>
          match M.usub B.length 1 with
          | none => none
          | some t4 =>
            match B[t4]? with
            | none => none
            | some t5 => some t5.2) = some (findPippingerWindowAux n (B.drop j) prev.2) := by
  intro m
  induction m with
  | zero =>
    intro j prev hj hlen hprev
    have : j = B.length := by omega
    subst this
    simp only [List.range'_zero, M.forRet, usub_of_le hj, hprev, List.drop_length, findPippingerWindowAux]
  | succ m ih =>
    intro j prev hj hlen hprev
    have hjl : j < B.length := by omega
    rw [List.range'_succ, M.forRet, hf, List.getElem?_eq_getElem hjl, List.drop_eq_getElem_cons hjl]
    generalize hB : B[j] = bw
    obtain ⟨b, w⟩ := bw
    simp only [findPippingerWindowAux]
    by_cases hb : b > n
    · simp only [hb, if_true, usub_of_le hj, hprev]
    · simp only [hb, if_false]
      exact ih (j + 1) (b, w) (by omega) (by omega) (by rw [Nat.add_sub_cancel, List.getElem?_eq_getElem hjl, hB])

theorem findPippingerWindow_eq (n : Nat) : M.findPippingerWindow n = some (findPippingerWindow n) := by
  unfold M.findPippingerWindow
  exact fpw_core Gen.PIPPINGER_BOUNDARIES n _ (fun i => rfl) 15 1 (1, 1) (by decide) rfl rfl
/-! ## window recommendations (ec/mod.rs, ec/g1.rs, ec/g2.rs) -/

theorem num_bits_limbsOf (k : Nat) :
    D.FrRepr.num_bits (limbsOf 4 k) = if k % 2 ^ 256 = 0 then 0 else (k % 2 ^ 256).log2 + 1 := by
  rw [PP.GenDerive.FrRepr_num_bits _ (Limbs.limbsOf_length 4 k), Limbs.numBits_eq (Limbs.limbsOf_ok 4 k),
    Limbs.limbsToNat_limbsOf]

theorem G1_recScalar_eq (k : Nat) :
    M.G1.empiricalRecommendedWnafForScalar (limbsOf 4 k)
      = recommendForScalar G1_WNAF_SCALAR_LADDER G1_WNAF_SCALAR_DEFAULT (k % 2 ^ 256) := by
  unfold M.G1.empiricalRecommendedWnafForScalar recommendForScalar G1_WNAF_SCALAR_LADDER G1_WNAF_SCALAR_DEFAULT
  rw [num_bits_limbsOf]
  generalize (if k % 2 ^ 256 = 0 then 0 else (k % 2 ^ 256).log2 + 1) = nb
  simp only [List.find?_cons, List.find?_nil, ge_iff_le]
  by_cases h1 : 130 ≤ nb
  · simp [h1]
  · by_cases h2 : 34 ≤ nb
    · simp [h1, h2]
    · simp [h1, h2]

theorem G2_recScalar_eq (k : Nat) :
    M.G2.empiricalRecommendedWnafForScalar (limbsOf 4 k)
      = recommendForScalar G2_WNAF_SCALAR_LADDER G2_WNAF_SCALAR_DEFAULT (k % 2 ^ 256) := by
  unfold M.G2.empiricalRecommendedWnafForScalar recommendForScalar G2_WNAF_SCALAR_LADDER G2_WNAF_SCALAR_DEFAULT
  rw [num_bits_limbsOf]
  generalize (if k % 2 ^ 256 = 0 then 0 else (k % 2 ^ 256).log2 + 1) = nb
  simp only [List.find?_cons, List.find?_nil, ge_iff_le]
  by_cases h1 : 103 ≤ nb
  · simp [h1]
  · by_cases h2 : 37 ≤ nb
    · simp [h1, h2]
    · simp [h1, h2]

theorem forBrkP_takeWhile (n : Nat) (f : Nat → Nat → Nat × Bool)
    (hf : ∀ s r, f s r = if n > r then (s + 1, false) else (s, true)) :
    ∀ (L : List Nat) (s : Nat), M.forBrkP L s f = s + (L.takeWhile (fun r => n > r)).length := by
  intro L
  induction L with
  | nil => intro s; rfl
  | cons r L ih =>
    intro s
    rw [M.forBrkP, hf, List.takeWhile_cons]
    by_cases h : n > r
    · simp only [h, if_true, decide_true, List.length_cons, Bool.false_eq_true, if_false, ih]; omega
    · simp [h]

theorem G1_recNum_eq (n : Nat) :
    M.G1.empiricalRecommendedWnafForNumScalars n
      = recommendForNumScalars G1_WNAF_RECOMMENDATIONS G1_WNAF_RECOMMEND_BASE n := by
  unfold M.G1.empiricalRecommendedWnafForNumScalars recommendForNumScalars
  exact forBrkP_takeWhile n _ (fun s r => rfl) G1_WNAF_RECOMMENDATIONS G1_WNAF_RECOMMEND_BASE

theorem G2_recNum_eq (n : Nat) :
    M.G2.empiricalRecommendedWnafForNumScalars n
      = recommendForNumScalars G2_WNAF_RECOMMENDATIONS G2_WNAF_RECOMMEND_BASE n := by
  unfold M.G2.empiricalRecommendedWnafForNumScalars recommendForNumScalars
  exact forBrkP_takeWhile n _ (fun s r => rfl) G2_WNAF_RECOMMENDATIONS G2_WNAF_RECOMMEND_BASE

theorem Jac_recScalar_eq (emp : List Nat → Nat) (s : List Nat) : M.Jac.recommendedWnafForScalar emp s = emp s := rfl
theorem Jac_recNum_eq (emp : Nat → Nat) (n : Nat) : M.Jac.recommendedWnafForNumScalars emp n = emp n := rfl
open PP.Limbs PP.C08Limb in
section
/-! ## `wnaf_form` -/

/-- the body of the `while` loop of `wnaf_form` on limb lists (the shape of the generated code) -/
def wnafBody (w : Nat) (st : List Int × List Nat) : Option (List Int × List Nat) :=
  match (if D.FrRepr.is_odd st.2 then
      match st.2[0]? with
      | none => none
      | some t1 =>
        let u : Int := ((t1 % (1 <<< (w + 1)) : Nat) : Int)
        let u := if u > ((1 <<< w : Nat) : Int) then u - ((1 <<< (w + 1) : Nat) : Int) else u
        let c := if u > 0 then D.FrRepr.sub_noborrow st.2 (D.FrRepr.from_u64 (Int.toNat u))
                 else D.FrRepr.add_nocarry st.2 (D.FrRepr.from_u64 (Int.toNat (-u)))
        some (c, u)
    else some (st.2, (0 : Int))) with
  | none => none
  | some (c, u) => some (st.1 ++ [u], D.FrRepr.div2 c)

theorem frW : Mont.frP.W = 2 ^ 256 := rfl

theorem from_u64_limbs {v : Nat} (hv : v < 2 ^ 64) :
    Limbs 4 (D.FrRepr.from_u64 v) ∧ limbsToNat (D.FrRepr.from_u64 v) = v := by
  rw [PP.GenDerive.FrRepr_from_u64]
  refine ⟨⟨rfl, ?_⟩, ?_⟩
  · intro l hl
    simp only [List.mem_cons, List.mem_replicate] at hl
    rcases hl with rfl | ⟨_, rfl⟩
    · exact hv
    · decide
  · simp [limbsToNat, List.replicate]

theorem wnafBody_spec (w : Nat) (wn : List Int) (cl : List Nat) (hcl : Limbs 4 cl) :
    ∃ cl', wnafBody w (wn, cl) = some (wn ++ [(wnafStep (limbsToNat cl) w).1], cl') ∧ Limbs 4 cl' ∧
      limbsToNat cl' = (wnafStep (limbsToNat cl) w).2 := by
  obtain ⟨l0, l1, l2, l3, rfl⟩ : ∃ l0 l1 l2 l3, cl = [l0, l1, l2, l3] := by
    obtain ⟨hlen, _⟩ := hcl
    match cl, hlen with
    | [l0, l1, l2, l3], _ => exact ⟨l0, l1, l2, l3, rfl⟩
  have hl0 : l0 < 2 ^ 64 := hcl.2 l0 (by simp)
  generalize hcN : limbsToNat [l0, l1, l2, l3] = cN
  have hmod : cN % 2 ^ 64 = l0 := by
    rw [← hcN, limbsToNat_cons, Nat.add_mul_mod_self_left, Nat.mod_eq_of_lt hl0]
  have hodd : D.FrRepr.is_odd [l0, l1, l2, l3] = (cN % 2 == 1) := by
    rw [PP.GenDerive.FrRepr_is_odd, isOdd_eq, hcN]
  unfold wnafBody wnafStep
  simp only [hodd, List.getElem?_cons_zero, hmod, Nat.one_shiftLeft]
  by_cases hp : cN % 2 = 1
  · simp only [hp, beq_self_eq_true, if_true]
    generalize hu0 : l0 % 2 ^ (w + 1) = u0
    have hu0lt : u0 < 2 ^ 64 := by rw [← hu0]; exact Nat.lt_of_le_of_lt (Nat.mod_le _ _) hl0
    have hpow : (2 : Nat) ^ (w + 1) = 2 * 2 ^ w := by rw [Nat.pow_succ, Nat.mul_comm]
    generalize hA : (2 : Nat) ^ w = A at hpow
    have hcast1 : ((A : Nat) : Int) = (2 : Int) ^ w := by rw [← hA]; norm_cast
    have hcast2 : ((2 ^ (w + 1) : Nat) : Int) = (2 : Int) ^ (w + 1) := by norm_cast
    have hIpow : (2 : Int) ^ (w + 1) = 2 * (A : Int) := by rw [← hcast2, hpow]; norm_cast
    rw [hcast2]
    simp only [← hcast1, hIpow]
    -- the digit
    generalize hu : (if (u0 : Int) > (A : Int) then (u0 : Int) - 2 * (A : Int) else (u0 : Int)) = u
    have hubound : Int.toNat u < 2 ^ 64 ∧ Int.toNat (-u) < 2 ^ 64 := by
      rw [← hu]; split <;> omega
    by_cases hpos : u > 0
    · simp only [hpos, if_true]
      obtain ⟨hf1, hf2⟩ := from_u64_limbs hubound.1
      obtain ⟨hs1, hs2⟩ := PP.GenDerive.FrRepr_sub_noborrow_spec _ _ hcl hf1
      obtain ⟨hd1, hd2⟩ := PP.GenDerive.FrRepr_div2_spec _ hs1
      refine ⟨_, rfl, hd1, ?_⟩
      rw [hd2, hs2, hf2, hcN, frW]
    · simp only [hpos, if_false]
      obtain ⟨hf1, hf2⟩ := from_u64_limbs hubound.2
      obtain ⟨hs1, hs2⟩ := PP.GenDerive.FrRepr_add_nocarry_spec _ _ hcl hf1
      obtain ⟨hd1, hd2⟩ := PP.GenDerive.FrRepr_div2_spec _ hs1
      refine ⟨_, rfl, hd1, ?_⟩
      rw [hd2, hs2, hf2, hcN, frW]
  · have hp' : (cN % 2 == 1) = false := by simpa using hp
    simp only [hp', Bool.false_eq_true, if_false, hp]
    obtain ⟨hd1, hd2⟩ := PP.GenDerive.FrRepr_div2_spec _ hcl
    exact ⟨_, rfl, hd1, by rw [hd2, hcN]⟩

theorem wnafForm_loop (w : Nat) (old : List Int)
    (cond : List Int × List Nat → Bool) (body : List Int × List Nat → Option (List Int × List Nat))
    (hc : ∀ st, cond st = !(D.FrRepr.is_zero st.2)) (hb : ∀ st, body st = wnafBody w st) :
    ∀ fuel wn cl acc, Limbs 4 cl → wn = old.take 0 ++ acc.reverse →
      (match M.whileFuel fuel (wn, cl) cond body with
        | none => none
        | some (wnaf, _) => some wnaf)
        = (wnafFormLoop w fuel (limbsToNat cl) acc).map (fun l => old.take 0 ++ l) := by
  have hz : ∀ cl : List Nat, (!(D.FrRepr.is_zero cl)) = true ↔ limbsToNat cl ≠ 0 := by
    intro cl
    rw [PP.GenDerive.FrRepr_is_zero, Bool.not_eq_true', ← Bool.not_eq_true, isZero_iff]
  intro fuel
  induction fuel with
  | zero =>
    intro wn cl acc hcl hwn
    rw [M.whileFuel, wnafFormLoop, hc]
    by_cases h0 : limbsToNat cl = 0
    · have : (!(D.FrRepr.is_zero cl)) = false := by
        rw [Bool.eq_false_iff]; exact fun h => (hz cl).1 h h0
      simp only [this, h0, Bool.false_eq_true, if_false, if_true, Option.map_some, hwn]
    · have : (!(D.FrRepr.is_zero cl)) = true := (hz cl).2 h0
      simp only [this, h0, if_true, if_false, Option.map_none]
  | succ fuel ih =>
    intro wn cl acc hcl hwn
    rw [M.whileFuel, wnafFormLoop, hc]
    by_cases h0 : limbsToNat cl = 0
    · have : (!(D.FrRepr.is_zero cl)) = false := by
        rw [Bool.eq_false_iff]; exact fun h => (hz cl).1 h h0
      simp only [this, h0, Bool.false_eq_true, if_false, if_true, Option.map_some, hwn]
    · have : (!(D.FrRepr.is_zero cl)) = true := (hz cl).2 h0
      obtain ⟨cl', hb', hcl', hv'⟩ := wnafBody_spec w wn cl hcl
      simp only [this, h0, if_true, if_false, hb, hb']
      rw [← hv']
      exact ih _ cl' ((wnafStep (limbsToNat cl) w).1 :: acc) hcl'
        (by rw [hwn, List.reverse_cons, List.append_assoc])

theorem wnafForm_fuel_eq (fuel : Nat) (old : List Int) (c w : Nat) :
    M.wnafForm fuel old (limbsOf 4 c) w
      = (wnafFormLoop w fuel (c % 2 ^ 256) []).map (fun l => old.take 0 ++ l) := by
  unfold M.wnafForm
  have e : c % 2 ^ 256 = limbsToNat (limbsOf 4 c) := (limbsToNat_limbsOf 4 c).symm
  rw [e]
  refine wnafForm_loop w old _ _ ?_ ?_ fuel _ _ [] ⟨limbsOf_length 4 c, limbsOf_ok 4 c⟩ (by simp)
  · intro st; rfl
  · intro st; rfl

theorem wnafForm_eq (old : List Int) (c w : Nat) :
    M.wnafForm 300 old (limbsOf 4 c) w = wnafForm old c w := wnafForm_fuel_eq 300 old c w
end

end PP.GenMsmLemmas
