/-
The definitions REGENERATED from the Rust source by /verif/extract/extract_msm.py (`PP/Gen/Msm.lean`,
namespace `PP.Gen.M`: scalar-multiplication tables, Pippenger, wNAF) are equal to the hand-written
model `PP/Model/Mul.lean`.

Proof method: the generated loops (`M.forIn` over `List.range'`, `List.foldl`, `M.whileFuel`,
`M.loopFuel`) are related to the model's structural recursions by induction with generalised
accumulators; calls of generated curve operations are first rewritten into the model's with the
equalities of PP/Proofs/GenArith.lean; nothing evaluates field arithmetic (everything is generic in
the coefficient field `F`).
-/
import PP.Gen.Msm
import PP.Proofs.GenArith
import PP.Proofs.GenDerive
import PP.Proofs.Bits
import PP.Proofs.Pippenger
import PP.Proofs.Wnaf

set_option linter.unusedSimpArgs false
set_option linter.unusedVariables false
set_option linter.unusedSectionVars false

namespace PP.GenMsmLemmas
open PP PP.Gen PP.GenArithLemmas

/-! ## the primitives of Msm.lean -/

theorem usub_of_le {a b : Nat} (h : b ≤ a) : M.usub a b = some (a - b) := by
  unfold M.usub; rw [if_pos h]

theorem usub_of_lt {a b : Nat} (h : a < b) : M.usub a b = none := by
  unfold M.usub; rw [if_neg (by omega)]

theorem setIdx_of_lt {α : Type} {xs : List α} {i : Nat} (v : α) (h : i < xs.length) :
    M.setIdx xs i v = some (xs.set i v) := by
  unfold M.setIdx; rw [if_pos h]

theorem setIdx_of_ge {α : Type} {xs : List α} {i : Nat} (v : α) (h : xs.length ≤ i) :
    M.setIdx xs i v = none := by
  unfold M.setIdx; rw [if_neg (by omega)]

theorem match_some_eta {α : Type} (o : Option α) :
    (match o with | none => none | some v => some v) = o := by cases o <;> rfl

@[simp] theorem forIn_nil {σ α : Type} (s : σ) (f : σ → α → Option σ) : M.forIn [] s f = some s := rfl

theorem forIn_cons {σ α : Type} (x : α) (xs : List α) (s : σ) (f : σ → α → Option σ) :
    M.forIn (x :: xs) s f = (match f s x with | none => none | some s' => M.forIn xs s' f) := rfl

theorem forIn_append {σ α : Type} (xs ys : List α) (s : σ) (f : σ → α → Option σ) :
    M.forIn (xs ++ ys) s f = (match M.forIn xs s f with | none => none | some s' => M.forIn ys s' f) := by
  induction xs generalizing s with
  | nil => rfl
  | cons x xs ih =>
    rw [List.cons_append, forIn_cons, forIn_cons]
    cases f s x with
    | none => rfl
    | some s' => exact ih s'

theorem forIn_pure {σ α : Type} (xs : List α) (s : σ) (f : σ → α → Option σ) (g : σ → α → σ)
    (h : ∀ s x, f s x = some (g s x)) : M.forIn xs s f = some (xs.foldl g s) := by
  induction xs generalizing s with
  | nil => rfl
  | cons x xs ih => rw [forIn_cons, h, List.foldl_cons]; exact ih _

section
variable {F : Type} [Add F] [Sub F] [Mul F] [Neg F] [Zero F] [One F] [FieldOps F] [DecidableEq F]

/-- `for _ in 0..n { p.double(); }` -/
theorem foldl_double (s n : Nat) (p : Jac F) :
    List.foldl (fun p _ => p.double) p (List.range' s n) = p.doubleN n := by
  induction n generalizing s p with
  | zero => rfl
  | succ n ih => rw [List.range'_succ, List.foldl_cons, ih]; rfl

/-! ## `precomp_3` -/

theorem precomp3_eq (a : Aff F) (pre : List (Aff F)) (h : 3 ≤ pre.length) :
    M.Aff.precomp3 a pre = (a.precomp3).map (fun t => t ++ pre.drop 3) := by
  obtain ⟨x0, x1, x2, rest, rfl⟩ : ∃ x0 x1 x2 rest, pre = x0 :: x1 :: x2 :: rest := by
    match pre, h with
    | x0 :: x1 :: x2 :: rest, _ => exact ⟨x0, x1, x2, rest, rfl⟩
  unfold M.Aff.precomp3 Aff.precomp3
  simp only [Aff_toJac_eq, Jac_double_eq, Jac_toAffine_eq, foldl_double]
  have hr : List.range' 0 3 = [0, 1, 2] := rfl
  rw [hr]
  simp only [forIn_cons, forIn_nil]
  cases h1 : ((a.toJac).doubleN 64).toAffine with
  | none => rfl
  | some a1 =>
    simp only [M.setIdx, List.length_cons, Nat.zero_lt_succ, if_true, List.set_cons_zero]
    cases h2 : (((a.toJac).doubleN 64).doubleN 64).toAffine with
    | none => rfl
    | some a2 =>
      simp only [List.set_cons_succ, List.set_cons_zero, List.length_cons, Nat.succ_lt_succ_iff, Nat.zero_lt_succ, if_true]
      cases h3 : ((((a.toJac).doubleN 64).doubleN 64).doubleN 64).toAffine with
      | none => rfl
      | some a3 => rfl

theorem precomp3_short (a : Aff F) (pre : List (Aff F)) (h : pre.length < 3) :
    M.Aff.precomp3 a pre = none := by
  unfold M.Aff.precomp3
  have hr : List.range' 0 3 = [0, 1, 2] := rfl
  rw [hr]
  simp only [forIn_cons, forIn_nil, M.setIdx]
  match pre, h with
  | [], _ =>
    cases (A.Jac.toAffine _ : Option (Aff F)) <;> rfl
  | [x0], _ =>
    cases (A.Jac.toAffine _ : Option (Aff F)) with
    | none => rfl
    | some a1 =>
      simp only [List.length_cons, List.length_nil, Nat.zero_lt_succ, if_true, Nat.lt_irrefl, if_false]
      cases (A.Jac.toAffine _ : Option (Aff F)) <;> rfl
  | [x0, x1], _ =>
    cases (A.Jac.toAffine _ : Option (Aff F)) with
    | none => rfl
    | some a1 =>
      simp only [List.length_cons, List.length_nil, Nat.zero_lt_succ, if_true, List.length_set]
      cases (A.Jac.toAffine _ : Option (Aff F)) with
      | none => rfl
      | some a2 =>
        simp only [List.length_cons, List.length_nil, List.length_set, if_true, Nat.lt_irrefl, if_false,
          Nat.one_lt_two, Nat.zero_lt_succ, Nat.succ_lt_succ_iff]
        cases (A.Jac.toAffine _ : Option (Aff F)) <;> rfl

/-! ## `mul_precomp_3` -/

theorem mod_and_small (y m : Nat) (hm : m < 2 ^ 64) : (y % 2 ^ 64) &&& m = y &&& m := by
  apply Nat.eq_of_testBit_eq
  intro i
  rw [Nat.testBit_and, Nat.testBit_and, Nat.testBit_mod_two_pow]
  by_cases hi : i < 64
  · simp [hi]
  · have : m.testBit i = false :=
      Nat.testBit_lt_two_pow (Nat.lt_of_lt_of_le hm (Nat.pow_le_pow_right (by decide) (by omega)))
    simp [this]

theorem mulPrecomp3_loop (T : List (Jac F)) (b0 b1 b2 b3 : Nat)
    (f : Nat × Jac F → Nat → Option (Nat × Jac F))
    (hf : ∀ st i, f st i = match T[nibbleAt b0 b1 b2 b3 i]? with
      | none => none
      | some e => some (nibbleAt b0 b1 b2 b3 i, st.2.double.add e)) :
    ∀ n nib res o, M.forIn (List.range' 0 n).reverse (nib, res) f = o →
      o.map Prod.snd = mulPrecomp3Loop T.toArray b0 b1 b2 b3 n res := by
  intro n
  induction n with
  | zero => intro nib res o h; subst h; rfl
  | succ n ih =>
    intro nib res o h
    rw [List.range'_concat, List.reverse_append, List.reverse_singleton, List.singleton_append, forIn_cons, hf] at h
    rw [mulPrecomp3Loop]
    simp only [List.getElem?_toArray, Nat.one_mul, Nat.zero_add] at h ⊢
    cases hT : T[nibbleAt b0 b1 b2 b3 n]? with
    | none => rw [hT] at h; subst h; rfl
    | some e => rw [hT] at h; exact ih _ _ _ h

theorem nibbleAt_def (b0 b1 b2 b3 i : Nat) : (((b3 >>> i) <<< 3) &&& 8) ||| (((b2 >>> i) <<< 2) &&& 4) ||| (((b1 >>> i) <<< 1) &&& 2)
    ||| ((b0 >>> i) &&& 1) = nibbleAt b0 b1 b2 b3 i := rfl
theorem nibbleTop_def (b0 b1 b2 b3 : Nat) :
    ((b3 >>> 60) &&& 8) ||| ((b2 >>> 61) &&& 4) ||| ((b1 >>> 62) &&& 2) ||| ((b0 >>> 63) &&& 1) = nibbleTop b0 b1 b2 b3 := rfl

theorem mulPrecomp3_core (T : List (Jac F)) (b0 b1 b2 b3 n : Nat)
    (f : Nat × Jac F → Nat → Option (Nat × Jac F))
    (hf : ∀ st i, f st i = match T[nibbleAt b0 b1 b2 b3 i]? with
      | none => none
      | some e => some (nibbleAt b0 b1 b2 b3 i, st.2.double.add e)) :
    (match T[nibbleTop b0 b1 b2 b3]? with
      | none => none
      | some t15 =>
        match M.forIn (List.range' 0 n).reverse (nibbleTop b0 b1 b2 b3, t15) f with
        | none => none
        | some (_, res) => some res)
      = (T[nibbleTop b0 b1 b2 b3]?).bind (fun r => mulPrecomp3Loop T.toArray b0 b1 b2 b3 n r) := by
  cases T[nibbleTop b0 b1 b2 b3]? with
  | none => rfl
  | some t15 =>
    rw [Option.bind_some]
    dsimp only
    cases hfor : M.forIn (List.range' 0 n).reverse (nibbleTop b0 b1 b2 b3, t15) f with
    | none => exact mulPrecomp3_loop T _ _ _ _ f hf n _ _ _ hfor
    | some p =>
      obtain ⟨nib', r⟩ := p
      exact mulPrecomp3_loop T _ _ _ _ f hf n _ _ _ hfor

/-- the 16-entry table of `mul_precomp_3` -/
def tbl16 (a p0 p1 p2 : Aff F) : List (Jac F) :=
  [Jac.zero, a.toJac, p0.toJac, p0.toJac.addMixed a, p1.toJac, p1.toJac.addMixed a, p0.toJac.addMixed p1,
    (p0.toJac.addMixed p1).addMixed a, p2.toJac, a.toJac.addMixed p2, p0.toJac.addMixed p2,
    (p0.toJac.addMixed a).addMixed p2, p1.toJac.addMixed p2, (p1.toJac.addMixed a).addMixed p2,
    (p0.toJac.addMixed p1).addMixed p2, ((p0.toJac.addMixed p1).addMixed a).addMixed p2]

theorem tbl16_eq (a p0 p1 p2 : Aff F) : [Jac.zero, a.toJac, p0.toJac, p0.toJac.addMixed a, p1.toJac, p1.toJac.addMixed a, p0.toJac.addMixed p1,
    (p0.toJac.addMixed p1).addMixed a, p2.toJac, a.toJac.addMixed p2, p0.toJac.addMixed p2,
    (p0.toJac.addMixed a).addMixed p2, p1.toJac.addMixed p2, (p1.toJac.addMixed a).addMixed p2,
    (p0.toJac.addMixed p1).addMixed p2, ((p0.toJac.addMixed p1).addMixed a).addMixed p2] = tbl16 a p0 p1 p2 := rfl

theorem precomp3Table_some (a : Aff F) (pre : List (Aff F)) {p0 p1 p2 : Aff F} (h0 : pre[0]? = some p0)
    (h1 : pre[1]? = some p1) (h2 : pre[2]? = some p2) :
    a.precomp3Table pre = some (tbl16 a p0 p1 p2).toArray := by
  unfold Aff.precomp3Table
  rw [h0, h1, h2]
  simp only [Option.pure_def, Option.bind_eq_bind, Option.bind_some, tbl16]
  simp

theorem mulPrecomp3_eq (a : Aff F) (k : Nat) (pre : List (Aff F)) :
    M.Aff.mulPrecomp3 a k pre = a.mulPrecomp3 k pre := by
  unfold M.Aff.mulPrecomp3
  simp only [Aff_toJac_eq, Jac_double_eq, Jac_zero_eq, Jac_addMixed_eq, Jac_add_eq]
  cases h0 : pre[0]? with
  | none => simp only [Aff.mulPrecomp3, Aff.precomp3Table, h0]; rfl
  | some p0 =>
    simp only [List.nil_append, List.cons_append, List.getElem?_cons_succ, List.getElem?_cons_zero,
      List.set_cons_succ, List.set_cons_zero]
    cases h1 : pre[1]? with
    | none => simp only [Aff.mulPrecomp3, Aff.precomp3Table, h0, h1]; rfl
    | some p1 =>
      simp only [List.nil_append, List.cons_append, List.getElem?_cons_succ, List.getElem?_cons_zero,
        List.set_cons_succ, List.set_cons_zero]
      cases h2 : pre[2]? with
      | none => simp only [Aff.mulPrecomp3, Aff.precomp3Table, h0, h1, h2]; rfl
      | some p2 =>
        have hr : List.range' 9 7 = [9, 10, 11, 12, 13, 14, 15] := rfl
        simp only [List.nil_append, List.cons_append, List.getElem?_cons_succ, List.getElem?_cons_zero,
          List.set_cons_succ, List.set_cons_zero, hr, forIn_cons, forIn_nil, M.usub, Nat.reduceLeDiff,
          Nat.reduceSub, ↓reduceIte, tbl16_eq]
        simp only [getD_limbsOf4 k 0 (by decide), getD_limbsOf4 k 1 (by decide), getD_limbsOf4 k 2 (by decide),
          getD_limbsOf4 k 3 (by decide), mod_and_small _ 8 (by decide), mod_and_small _ 4 (by decide),
          mod_and_small _ 2 (by decide)]
        rw [Aff.mulPrecomp3, precomp3Table_some a pre h0 h1 h2]
        simp only [Option.pure_def, Option.bind_eq_bind, Option.bind_some, List.getElem?_toArray]
        simp only [nibbleAt_def, nibbleTop_def]
        refine mulPrecomp3_core (tbl16 a p0 p1 p2) (limb k 0) (limb k 1) (limb k 2) (limb k 3) 63 _ ?_
        intro st i; rfl

/-! ## `mul_precomp_256` -/

theorem byteAt_def (b0 b1 b2 b3 i : Nat) :
    ((b3 >>> (i + 25)) &&& 128) ||| (((b3 >>> i) <<< 6) &&& 64) |||
    ((b2 >>> (i + 27)) &&& 32) ||| (((b2 >>> i) <<< 4) &&& 16) |||
    ((b1 >>> (i + 29)) &&& 8) ||| (((b1 >>> i) <<< 2) &&& 4) |||
    ((b0 >>> (i + 31)) &&& 2) ||| ((b0 >>> i) &&& 1) = byteAt b0 b1 b2 b3 i := rfl

theorem byteTop_def (b0 b1 b2 b3 : Nat) :
    ((b3 >>> 56) &&& 128) ||| ((b3 >>> 25) &&& 64) ||| ((b2 >>> 58) &&& 32) ||| ((b2 >>> 27) &&& 16) |||
    ((b1 >>> 60) &&& 8) ||| ((b1 >>> 29) &&& 4) ||| ((b0 >>> 62) &&& 2) ||| ((b0 >>> 31) &&& 1)
      = byteTop b0 b1 b2 b3 := rfl

theorem mulPrecomp256_loop (P : List (Aff F)) (b0 b1 b2 b3 : Nat)
    (f : Nat × Jac F → Nat → Option (Nat × Jac F))
    (hf : ∀ st i, f st i = match P[byteAt b0 b1 b2 b3 i]? with
      | none => none
      | some e => some (byteAt b0 b1 b2 b3 i, st.2.double.addMixed e)) :
    ∀ n byte res o, M.forIn (List.range' 0 n).reverse (byte, res) f = o →
      o.map Prod.snd = mulPrecomp256Loop P.toArray b0 b1 b2 b3 n res := by
  intro n
  induction n with
  | zero => intro byte res o h; subst h; rfl
  | succ n ih =>
    intro byte res o h
    rw [List.range'_concat, List.reverse_append, List.reverse_singleton, List.singleton_append, forIn_cons, hf] at h
    rw [mulPrecomp256Loop]
    simp only [List.getElem?_toArray, Nat.one_mul, Nat.zero_add] at h ⊢
    cases hT : P[byteAt b0 b1 b2 b3 n]? with
    | none => rw [hT] at h; subst h; rfl
    | some e => rw [hT] at h; exact ih _ _ _ h

theorem mulPrecomp256_core (P : List (Aff F)) (b0 b1 b2 b3 n : Nat)
    (f : Nat × Jac F → Nat → Option (Nat × Jac F))
    (hf : ∀ st i, f st i = match P[byteAt b0 b1 b2 b3 i]? with
      | none => none
      | some e => some (byteAt b0 b1 b2 b3 i, st.2.double.addMixed e)) :
    (match P[byteTop b0 b1 b2 b3]? with
      | none => none
      | some t1 =>
        match M.forIn (List.range' 0 n).reverse (byteTop b0 b1 b2 b3, t1.toJac) f with
        | none => none
        | some (_, res) => some res)
      = (P[byteTop b0 b1 b2 b3]?).bind (fun e => mulPrecomp256Loop P.toArray b0 b1 b2 b3 n e.toJac) := by
  cases P[byteTop b0 b1 b2 b3]? with
  | none => rfl
  | some t1 =>
    rw [Option.bind_some]
    dsimp only
    cases hfor : M.forIn (List.range' 0 n).reverse (byteTop b0 b1 b2 b3, t1.toJac) f with
    | none => exact mulPrecomp256_loop P _ _ _ _ f hf n _ _ _ hfor
    | some p =>
      obtain ⟨byte', r⟩ := p
      exact mulPrecomp256_loop P _ _ _ _ f hf n _ _ _ hfor

theorem mulPrecomp256_eq (a : Aff F) (k : Nat) (pre : List (Aff F)) :
    M.Aff.mulPrecomp256 a k pre = a.mulPrecomp256 k pre.toArray := by
  unfold M.Aff.mulPrecomp256 Aff.mulPrecomp256
  simp only [Aff_toJac_eq, Jac_double_eq, Jac_addMixed_eq]
  simp only [getD_limbsOf4 k 0 (by decide), getD_limbsOf4 k 1 (by decide), getD_limbsOf4 k 2 (by decide),
    getD_limbsOf4 k 3 (by decide), mod_and_small _ 64 (by decide), mod_and_small _ 16 (by decide),
    mod_and_small _ 4 (by decide), byteAt_def, byteTop_def]
  simp only [Option.pure_def, Option.bind_eq_bind, List.getElem?_toArray]
  refine mulPrecomp256_core pre (limb k 0) (limb k 1) (limb k 2) (limb k 3) 31 _ ?_
  intro st i; rfl

/-! ## `sum_of_products_precomp_256` -/

theorem sopInner_loop (P : List (Aff F)) (i : Nat) (ks : List Nat)
    (g : Jac F → Nat → Option (Jac F))
    (hg : ∀ res j, g res j = match ks[j]? with
      | none => none
      | some kj =>
        match P[(j <<< 8) + byteAt (limb kj 0) (limb kj 1) (limb kj 2) (limb kj 3) i]? with
        | none => none
        | some e => some (res.addMixed e)) :
    ∀ m j0 res, j0 + m ≤ ks.length →
      M.forIn (List.range' j0 m) res g = sopPrecompInner P.toArray i ((ks.drop j0).take m) j0 res := by
  intro m
  induction m with
  | zero => intro j0 res _; rfl
  | succ m ih =>
    intro j0 res h
    have hj : j0 < ks.length := by omega
    rw [List.range'_succ, forIn_cons, hg, List.getElem?_eq_getElem hj, List.drop_eq_getElem_cons hj,
      List.take_succ_cons, sopPrecompInner]
    simp only [List.getElem?_toArray, Option.bind_eq_bind]
    cases P[(j0 <<< 8) + byteAt (limb ks[j0] 0) (limb ks[j0] 1) (limb ks[j0] 2) (limb ks[j0] 3) i]? with
    | none => rfl
    | some e => exact ih (j0 + 1) _ (by omega)

theorem sopInner_core (P : List (Aff F)) (i n : Nat) (ks : List Nat) (hn : n ≤ ks.length) (res : Jac F)
    (g : Jac F → Nat → Option (Jac F))
    (hg : ∀ res j, g res j = match ks[j]? with
      | none => none
      | some kj =>
        match P[(j <<< 8) + byteAt (limb kj 0) (limb kj 1) (limb kj 2) (limb kj 3) i]? with
        | none => none
        | some e => some (res.addMixed e)) :
    (match M.forIn (List.range' 0 n) res g with
      | none => none
      | some r => some r) = sopPrecompInner P.toArray i (ks.take n) 0 res := by
  rw [sopInner_loop P i ks g hg n 0 res (by omega), List.drop_zero]
  cases sopPrecompInner P.toArray i (ks.take n) 0 res <;> rfl

theorem sopOuter_core (P : List (Aff F)) (K : List Nat) (f : Jac F → Nat → Option (Jac F))
    (hf : ∀ res i, f res i = sopPrecompInner P.toArray i K 0 res.double) :
    ∀ m res, (match M.forIn (List.range' 0 m).reverse res f with
      | none => none
      | some r => some r) = sopPrecompOuter P.toArray K m res := by
  have key : ∀ m res, M.forIn (List.range' 0 m).reverse res f = sopPrecompOuter P.toArray K m res := by
    intro m
    induction m with
    | zero => intro res; rfl
    | succ m ih =>
      intro res
      rw [List.range'_concat, List.reverse_append, List.reverse_singleton, List.singleton_append, forIn_cons, hf,
        sopPrecompOuter]
      simp only [Nat.one_mul, Nat.zero_add, Option.bind_eq_bind]
      cases sopPrecompInner P.toArray m K 0 res.double with
      | none => rfl
      | some r => exact ih r
  intro m res
  rw [key]
  cases sopPrecompOuter P.toArray K m res <;> rfl

theorem sumOfProductsPrecomp256_eq (points : List (Aff F)) (ks : List Nat) (pre : List (Aff F)) :
    M.Aff.sumOfProductsPrecomp256 points (ks.map (limbsOf 4)) pre
      = sumOfProductsPrecomp256 points ks pre.toArray := by
  unfold M.Aff.sumOfProductsPrecomp256 sumOfProductsPrecomp256
  simp only [Jac_zero_eq, Jac_double_eq, Jac_addMixed_eq, List.length_map]
  have hmin : (if points.length < ks.length then points.length else ks.length) = min points.length ks.length := by
    split <;> omega
  rw [hmin]
  refine sopOuter_core pre _ _ ?_ 32 _
  intro res i
  refine sopInner_core pre i _ ks (Nat.min_le_right _ _) _ _ ?_
  intro res j
  rw [List.getElem?_map]
  cases ks[j]? with
  | none => rfl
  | some kj =>
    simp only [Option.map_some, getD_limbsOf4 kj 0 (by decide), getD_limbsOf4 kj 1 (by decide),
      getD_limbsOf4 kj 2 (by decide), getD_limbsOf4 kj 3 (by decide), mod_and_small _ 64 (by decide),
      mod_and_small _ 16 (by decide), mod_and_small _ 4 (by decide), byteAt_def]
    rfl

/-! ## `wnaf_table` -/

theorem wnafTable_loop (dbl : Jac F) (step : List (Jac F) × Jac F → Nat → List (Jac F) × Jac F)
    (hstep : ∀ st i, step st i = (st.1 ++ [st.2], st.2.add dbl)) :
    ∀ n s t b acc, t = acc.reverse →
      (List.foldl step (t, b) (List.range' s n)).1 = wnafTableLoop dbl n b acc := by
  intro n
  induction n with
  | zero => intro s t b acc h; exact h
  | succ n ih =>
    intro s t b acc h
    rw [List.range'_succ, List.foldl_cons, hstep, wnafTableLoop]
    exact ih _ _ _ _ (by rw [List.reverse_cons, h])

theorem wnafTable_eq (old : List (Jac F)) (base : Jac F) (window : Nat) (hw : 1 ≤ window) :
    M.wnafTable old base window = some (wnafTable old base window) := by
  unfold M.wnafTable wnafTable
  simp only [usub_of_le hw, Jac_double_eq, Jac_add_eq, Nat.one_shiftLeft]
  have := wnafTable_loop base.double (fun (x : List (Jac F) × Jac F) (_ : Nat) => (x.1 ++ [x.2], x.2.add base.double))
    (fun st i => rfl) (2 ^ (window - 1)) 0 (List.take 0 old) base [] rfl
  rw [← this]
  rfl

theorem wnafTable_zero (old : List (Jac F)) (base : Jac F) : M.wnafTable old base 0 = none := rfl

/-! ## `wnaf_exp` -/

/-- one iteration of the loop of `wnaf_exp`, as in the model's `wnafExpLoop` -/
def wnafExpStep (T : List (Jac F)) (st : Jac F × Bool) (n : Int) : Option (Jac F × Bool) :=
  let res := if st.2 then st.1.double else st.1
  if n ≠ 0 then
    if n > 0 then
      match T[(n / 2).toNat]? with
      | none => none
      | some e => some (res.add e, true)
    else
      match T[((-n) / 2).toNat]? with
      | none => none
      | some e => some (res.sub e, true)
  else some (res, st.2)

theorem wnafExp_loop (T : List (Jac F)) (f : Jac F × Bool → Int → Option (Jac F × Bool))
    (hf : ∀ st n, f st n = wnafExpStep T st n) :
    ∀ (L : List Int) (st : Jac F × Bool),
      (match M.forIn L st f with
        | none => none
        | some (result, _) => some result) = wnafExpLoop T.toArray L st := by
  intro L
  induction L with
  | nil => intro st; obtain ⟨r, b⟩ := st; rfl
  | cons n L ih =>
    intro st
    obtain ⟨r, b⟩ := st
    rw [forIn_cons, hf, wnafExpLoop, wnafExpStep]
    simp only [List.getElem?_toArray, Option.bind_eq_bind]
    by_cases h0 : n ≠ 0
    · by_cases h1 : n > 0
      · simp only [h0, h1, if_true, ne_eq, not_false_eq_true]
        cases T[(n / 2).toNat]? with
        | none => rfl
        | some e => exact ih _
      · simp only [h0, h1, if_true, if_false, ne_eq, not_false_eq_true]
        cases T[((-n) / 2).toNat]? with
        | none => rfl
        | some e => exact ih _
    · simp only [h0, if_false]
      exact ih _

theorem wnafExp_eq (table : List (Jac F)) (wnaf : List Int) :
    M.wnafExp table wnaf = wnafExp table wnaf := by
  unfold M.wnafExp wnafExp
  simp only [Jac_zero_eq, Jac_double_eq, Jac_add_eq, Jac_sub_eq]
  refine wnafExp_loop table _ ?_ wnaf.reverse (Jac.zero, false)
  intro st n
  obtain ⟨r, b⟩ := st
  unfold wnafExpStep
  by_cases h0 : n ≠ 0
  · by_cases h1 : n > 0
    · have hd : Int.tdiv n 2 = n / 2 := Int.tdiv_eq_ediv_of_nonneg (by omega)
      simp only [h0, h1, if_true, ne_eq, not_false_eq_true, hd]
      cases table[(n / 2).toNat]? <;> rfl
    · have hd : Int.tdiv (-n) 2 = (-n) / 2 := Int.tdiv_eq_ediv_of_nonneg (by omega)
      simp only [h0, h1, if_true, if_false, ne_eq, not_false_eq_true, hd]
      cases table[((-n) / 2).toNat]? <;> rfl
  · simp only [h0, if_false]

end

/-! ## `find_pippinger_window` -/

theorem fpw_core (B : List (Nat × Nat)) (n : Nat) (f : Nat → Option (Option Nat))
    (hf : ∀ i, f i = match B[i]? with
      | none => none
      | some t1 =>
        if t1.1 > n then
          match M.usub i 1 with
          | none => none
          | some t2 =>
            match B[t2]? with
            | none => none
            | some t3 => some (some t3.2)
        else some none) :
    ∀ m j prev, 1 ≤ j → j + m = B.length → B[j - 1]? = some prev →
      (match M.forRet (List.range' j m) f with
        | none => none
        | some (some ret) => some ret
        | some none =>
          match M.usub B.length 1 with
          | none => none
          | some t4 =>
            match B[t4]? with
            | none => none
            | some t5 => some t5.2) = some (findPippingerWindowAux n (B.drop j) prev.2) := by
  intro m
  induction m with
  | zero =>
    intro j prev hj hlen hprev
    have : j = B.length := by omega
    subst this
    simp only [List.range'_zero, M.forRet, usub_of_le hj, hprev, List.drop_length, findPippingerWindowAux]
  | succ m ih =>
    intro j prev hj hlen hprev
    have hjl : j < B.length := by omega
    rw [List.range'_succ, M.forRet, hf, List.getElem?_eq_getElem hjl, List.drop_eq_getElem_cons hjl]
    generalize hB : B[j] = bw
    obtain ⟨b, w⟩ := bw
    simp only [findPippingerWindowAux]
    by_cases hb : b > n
    · simp only [hb, if_true, usub_of_le hj, hprev]
    · simp only [hb, if_false]
      exact ih (j + 1) (b, w) (by omega) (by omega) (by rw [Nat.add_sub_cancel, List.getElem?_eq_getElem hjl, hB])

theorem findPippingerWindow_eq (n : Nat) : M.findPippingerWindow n = some (findPippingerWindow n) := by
  unfold M.findPippingerWindow
  exact fpw_core Gen.PIPPINGER_BOUNDARIES n _ (fun i => rfl) 15 1 (1, 1) (by decide) rfl rfl
/-! ## window recommendations (ec/mod.rs, ec/g1.rs, ec/g2.rs) -/

theorem num_bits_limbsOf (k : Nat) :
    D.FrRepr.num_bits (limbsOf 4 k) = if k % 2 ^ 256 = 0 then 0 else (k % 2 ^ 256).log2 + 1 := by
  rw [PP.GenDerive.FrRepr_num_bits _ (Limbs.limbsOf_length 4 k), Limbs.numBits_eq (Limbs.limbsOf_ok 4 k),
    Limbs.limbsToNat_limbsOf]

theorem G1_recScalar_eq (k : Nat) :
    M.G1.empiricalRecommendedWnafForScalar (limbsOf 4 k)
      = recommendForScalar G1_WNAF_SCALAR_LADDER G1_WNAF_SCALAR_DEFAULT (k % 2 ^ 256) := by
  unfold M.G1.empiricalRecommendedWnafForScalar recommendForScalar G1_WNAF_SCALAR_LADDER G1_WNAF_SCALAR_DEFAULT
  rw [num_bits_limbsOf]
  generalize (if k % 2 ^ 256 = 0 then 0 else (k % 2 ^ 256).log2 + 1) = nb
  simp only [List.find?_cons, List.find?_nil, ge_iff_le]
  by_cases h1 : 130 ≤ nb
  · simp [h1]
  · by_cases h2 : 34 ≤ nb
    · simp [h1, h2]
    · simp [h1, h2]

theorem G2_recScalar_eq (k : Nat) :
    M.G2.empiricalRecommendedWnafForScalar (limbsOf 4 k)
      = recommendForScalar G2_WNAF_SCALAR_LADDER G2_WNAF_SCALAR_DEFAULT (k % 2 ^ 256) := by
  unfold M.G2.empiricalRecommendedWnafForScalar recommendForScalar G2_WNAF_SCALAR_LADDER G2_WNAF_SCALAR_DEFAULT
  rw [num_bits_limbsOf]
  generalize (if k % 2 ^ 256 = 0 then 0 else (k % 2 ^ 256).log2 + 1) = nb
  simp only [List.find?_cons, List.find?_nil, ge_iff_le]
  by_cases h1 : 103 ≤ nb
  · simp [h1]
  · by_cases h2 : 37 ≤ nb
    · simp [h1, h2]
    · simp [h1, h2]

theorem forBrkP_takeWhile (n : Nat) (f : Nat → Nat → Nat × Bool)
    (hf : ∀ s r, f s r = if n > r then (s + 1, false) else (s, true)) :
    ∀ (L : List Nat) (s : Nat), M.forBrkP L s f = s + (L.takeWhile (fun r => n > r)).length := by
  intro L
  induction L with
  | nil => intro s; rfl
  | cons r L ih =>
    intro s
    rw [M.forBrkP, hf, List.takeWhile_cons]
    by_cases h : n > r
    · simp only [h, if_true, decide_true, List.length_cons, Bool.false_eq_true, if_false, ih]; omega
    · simp [h]

theorem G1_recNum_eq (n : Nat) :
    M.G1.empiricalRecommendedWnafForNumScalars n
      = recommendForNumScalars G1_WNAF_RECOMMENDATIONS G1_WNAF_RECOMMEND_BASE n := by
  unfold M.G1.empiricalRecommendedWnafForNumScalars recommendForNumScalars
  exact forBrkP_takeWhile n _ (fun s r => rfl) G1_WNAF_RECOMMENDATIONS G1_WNAF_RECOMMEND_BASE

theorem G2_recNum_eq (n : Nat) :
    M.G2.empiricalRecommendedWnafForNumScalars n
      = recommendForNumScalars G2_WNAF_RECOMMENDATIONS G2_WNAF_RECOMMEND_BASE n := by
  unfold M.G2.empiricalRecommendedWnafForNumScalars recommendForNumScalars
  exact forBrkP_takeWhile n _ (fun s r => rfl) G2_WNAF_RECOMMENDATIONS G2_WNAF_RECOMMEND_BASE

theorem Jac_recScalar_eq (emp : List Nat → Nat) (s : List Nat) : M.Jac.recommendedWnafForScalar emp s = emp s := rfl
theorem Jac_recNum_eq (emp : Nat → Nat) (n : Nat) : M.Jac.recommendedWnafForNumScalars emp n = emp n := rfl
open PP.Limbs PP.C08Limb in
section
/-! ## `wnaf_form` -/

/-- the body of the `while` loop of `wnaf_form` on limb lists (the shape of the generated code) -/
def wnafBody (w : Nat) (st : List Int × List Nat) : Option (List Int × List Nat) :=
  match (if D.FrRepr.is_odd st.2 then
      match st.2[0]? with
      | none => none
      | some t1 =>
        let u : Int := ((t1 % (1 <<< (w + 1)) : Nat) : Int)
        let u := if u > ((1 <<< w : Nat) : Int) then u - ((1 <<< (w + 1) : Nat) : Int) else u
        let c := if u > 0 then D.FrRepr.sub_noborrow st.2 (D.FrRepr.from_u64 (Int.toNat u))
                 else D.FrRepr.add_nocarry st.2 (D.FrRepr.from_u64 (Int.toNat (-u)))
        some (c, u)
    else some (st.2, (0 : Int))) with
  | none => none
  | some (c, u) => some (st.1 ++ [u], D.FrRepr.div2 c)

theorem frW : Mont.frP.W = 2 ^ 256 := rfl

theorem from_u64_limbs {v : Nat} (hv : v < 2 ^ 64) :
    Limbs 4 (D.FrRepr.from_u64 v) ∧ limbsToNat (D.FrRepr.from_u64 v) = v := by
  rw [PP.GenDerive.FrRepr_from_u64]
  refine ⟨⟨rfl, ?_⟩, ?_⟩
  · intro l hl
    simp only [List.mem_cons, List.mem_replicate] at hl
    rcases hl with rfl | ⟨_, rfl⟩
    · exact hv
    · decide
  · simp [limbsToNat, List.replicate]

theorem wnafBody_spec (w : Nat) (wn : List Int) (cl : List Nat) (hcl : Limbs 4 cl) :
    ∃ cl', wnafBody w (wn, cl) = some (wn ++ [(wnafStep (limbsToNat cl) w).1], cl') ∧ Limbs 4 cl' ∧
      limbsToNat cl' = (wnafStep (limbsToNat cl) w).2 := by
  obtain ⟨l0, l1, l2, l3, rfl⟩ : ∃ l0 l1 l2 l3, cl = [l0, l1, l2, l3] := by
    obtain ⟨hlen, _⟩ := hcl
    match cl, hlen with
    | [l0, l1, l2, l3], _ => exact ⟨l0, l1, l2, l3, rfl⟩
  have hl0 : l0 < 2 ^ 64 := hcl.2 l0 (by simp)
  generalize hcN : limbsToNat [l0, l1, l2, l3] = cN
  have hmod : cN % 2 ^ 64 = l0 := by
    rw [← hcN, limbsToNat_cons, Nat.add_mul_mod_self_left, Nat.mod_eq_of_lt hl0]
  have hodd : D.FrRepr.is_odd [l0, l1, l2, l3] = (cN % 2 == 1) := by
    rw [PP.GenDerive.FrRepr_is_odd, isOdd_eq, hcN]
  unfold wnafBody wnafStep
  simp only [hodd, List.getElem?_cons_zero, hmod, Nat.one_shiftLeft]
  by_cases hp : cN % 2 = 1
  · simp only [hp, beq_self_eq_true, if_true]
    generalize hu0 : l0 % 2 ^ (w + 1) = u0
    have hu0lt : u0 < 2 ^ 64 := by rw [← hu0]; exact Nat.lt_of_le_of_lt (Nat.mod_le _ _) hl0
    have hpow : (2 : Nat) ^ (w + 1) = 2 * 2 ^ w := by rw [Nat.pow_succ, Nat.mul_comm]
    generalize hA : (2 : Nat) ^ w = A at hpow
    have hcast1 : ((A : Nat) : Int) = (2 : Int) ^ w := by rw [← hA]; norm_cast
    have hcast2 : ((2 ^ (w + 1) : Nat) : Int) = (2 : Int) ^ (w + 1) := by norm_cast
    have hIpow : (2 : Int) ^ (w + 1) = 2 * (A : Int) := by rw [← hcast2, hpow]; norm_cast
    rw [hcast2]
    simp only [← hcast1, hIpow]
    -- the digit
    generalize hu : (if (u0 : Int) > (A : Int) then (u0 : Int) - 2 * (A : Int) else (u0 : Int)) = u
    have hubound : Int.toNat u < 2 ^ 64 ∧ Int.toNat (-u) < 2 ^ 64 := by
      rw [← hu]; split <;> omega
    by_cases hpos : u > 0
    · simp only [hpos, if_true]
      obtain ⟨hf1, hf2⟩ := from_u64_limbs hubound.1
      obtain ⟨hs1, hs2⟩ := PP.GenDerive.FrRepr_sub_noborrow_spec _ _ hcl hf1
      obtain ⟨hd1, hd2⟩ := PP.GenDerive.FrRepr_div2_spec _ hs1
      refine ⟨_, rfl, hd1, ?_⟩
      rw [hd2, hs2, hf2, hcN, frW]
    · simp only [hpos, if_false]
      obtain ⟨hf1, hf2⟩ := from_u64_limbs hubound.2
      obtain ⟨hs1, hs2⟩ := PP.GenDerive.FrRepr_add_nocarry_spec _ _ hcl hf1
      obtain ⟨hd1, hd2⟩ := PP.GenDerive.FrRepr_div2_spec _ hs1
      refine ⟨_, rfl, hd1, ?_⟩
      rw [hd2, hs2, hf2, hcN, frW]
  · have hp' : (cN % 2 == 1) = false := by simpa using hp
    simp only [hp', Bool.false_eq_true, if_false, hp]
    obtain ⟨hd1, hd2⟩ := PP.GenDerive.FrRepr_div2_spec _ hcl
    exact ⟨_, rfl, hd1, by rw [hd2, hcN]⟩

theorem wnafForm_loop (w : Nat) (old : List Int)
    (cond : List Int × List Nat → Bool) (body : List Int × List Nat → Option (List Int × List Nat))
    (hc : ∀ st, cond st = !(D.FrRepr.is_zero st.2)) (hb : ∀ st, body st = wnafBody w st) :
    ∀ fuel wn cl acc, Limbs 4 cl → wn = old.take 0 ++ acc.reverse →
      (match M.whileFuel fuel (wn, cl) cond body with
        | none => none
        | some (wnaf, _) => some wnaf)
        = (wnafFormLoop w fuel (limbsToNat cl) acc).map (fun l => old.take 0 ++ l) := by
  have hz : ∀ cl : List Nat, (!(D.FrRepr.is_zero cl)) = true ↔ limbsToNat cl ≠ 0 := by
    intro cl
    rw [PP.GenDerive.FrRepr_is_zero, Bool.not_eq_true', ← Bool.not_eq_true, isZero_iff]
  intro fuel
  induction fuel with
  | zero =>
    intro wn cl acc hcl hwn
    rw [M.whileFuel, wnafFormLoop, hc]
    by_cases h0 : limbsToNat cl = 0
    · have : (!(D.FrRepr.is_zero cl)) = false := by
        rw [Bool.eq_false_iff]; exact fun h => (hz cl).1 h h0
      simp only [this, h0, Bool.false_eq_true, if_false, if_true, Option.map_some, hwn]
    · have : (!(D.FrRepr.is_zero cl)) = true := (hz cl).2 h0
      simp only [this, h0, if_true, if_false, Option.map_none]
  | succ fuel ih =>
    intro wn cl acc hcl hwn
    rw [M.whileFuel, wnafFormLoop, hc]
    by_cases h0 : limbsToNat cl = 0
    · have : (!(D.FrRepr.is_zero cl)) = false := by
        rw [Bool.eq_false_iff]; exact fun h => (hz cl).1 h h0
      simp only [this, h0, Bool.false_eq_true, if_false, if_true, Option.map_some, hwn]
    · have : (!(D.FrRepr.is_zero cl)) = true := (hz cl).2 h0
      obtain ⟨cl', hb', hcl', hv'⟩ := wnafBody_spec w wn cl hcl
      simp only [this, h0, if_true, if_false, hb, hb']
      rw [← hv']
      exact ih _ cl' ((wnafStep (limbsToNat cl) w).1 :: acc) hcl'
        (by rw [hwn, List.reverse_cons, List.append_assoc])

theorem wnafForm_fuel_eq (fuel : Nat) (old : List Int) (c w : Nat) :
    M.wnafForm fuel old (limbsOf 4 c) w
      = (wnafFormLoop w fuel (c % 2 ^ 256) []).map (fun l => old.take 0 ++ l) := by
  unfold M.wnafForm
  have e : c % 2 ^ 256 = limbsToNat (limbsOf 4 c) := (limbsToNat_limbsOf 4 c).symm
  rw [e]
  refine wnafForm_loop w old _ _ ?_ ?_ fuel _ _ [] ⟨limbsOf_length 4 c, limbsOf_ok 4 c⟩ (by simp)
  · intro st; rfl
  · intro st; rfl

theorem wnafForm_eq (old : List Int) (c w : Nat) :
    M.wnafForm 300 old (limbsOf 4 c) w = wnafForm old c w := wnafForm_fuel_eq 300 old c w
end

section
variable {F : Type} [Add F] [Sub F] [Mul F] [Neg F] [Zero F] [One F] [FieldOps F] [DecidableEq F]

/-! ## the `Wnaf` context (src/wnaf.rs) -/

/-- the generated context of a model context -/
def ofCtx (ctx : WnafCtx F) : M.Wnaf Unit (List (Jac F)) (List Int) := ⟨ctx.base, ctx.scalar, ()⟩

theorem Wnaf_new_eq : (M.Wnaf.new : M.Wnaf Unit (List (Jac F)) (List Int)) = ofCtx WnafCtx.new := rfl

theorem Wnaf_baseShared_eq (v : M.Wnaf Nat (List (Jac F)) (List Int)) :
    M.Wnaf.baseShared v = ⟨v.base, [], v.window_size⟩ := rfl

theorem Wnaf_scalarShared_eq (v : M.Wnaf Nat (List (Jac F)) (List Int)) :
    M.Wnaf.scalarShared v = ⟨[], v.scalar, v.window_size⟩ := rfl

/-- `wnaf.base(b, n)` -/
theorem Wnaf_ctxBase_eq (rn : Nat → Nat) (ctx : WnafCtx F) (b : Jac F) (n : Nat) (hw : 1 ≤ rn n) :
    M.Wnaf.ctxBase rn (ofCtx ctx) b n
      = some (ofCtx ⟨wnafTable ctx.base b (rn n), ctx.scalar⟩,
              ⟨wnafTable ctx.base b (rn n), ctx.scalar, rn n⟩) := by
  unfold M.Wnaf.ctxBase ofCtx
  simp only [wnafTable_eq ctx.base b (rn n) hw]

/-- `wnaf.scalar(k)` -/
theorem Wnaf_ctxScalar_eq (rs : List Nat → Nat) (ctx : WnafCtx F) (k : Nat) :
    M.Wnaf.ctxScalar 300 rs (ofCtx ctx) (limbsOf 4 k)
      = (wnafForm ctx.scalar k (rs (limbsOf 4 k))).map (fun sc =>
          (ofCtx ⟨ctx.base, sc⟩, (⟨ctx.base, sc, rs (limbsOf 4 k)⟩ : M.Wnaf Nat (List (Jac F)) (List Int)))) := by
  unfold M.Wnaf.ctxScalar ofCtx
  simp only [wnafForm_eq]
  cases wnafForm ctx.scalar k (rs (limbsOf 4 k)) <;> rfl

/-- `.base(b)` on the form that holds a scalar -/
theorem Wnaf_expBase_eq (v : M.Wnaf Nat (List (Jac F)) (List Int)) (b : Jac F) (hw : 1 ≤ v.window_size) :
    M.Wnaf.expBase v b
      = (wnafExp (wnafTable v.base b v.window_size) v.scalar).map (fun r =>
          ((⟨wnafTable v.base b v.window_size, v.scalar, v.window_size⟩ : M.Wnaf Nat (List (Jac F)) (List Int)), r)) := by
  unfold M.Wnaf.expBase
  simp only [wnafTable_eq v.base b v.window_size hw, wnafExp_eq]
  cases wnafExp (wnafTable v.base b v.window_size) v.scalar <;> rfl

/-- `.scalar(k)` on the form that holds a table -/
theorem Wnaf_expScalar_eq (v : M.Wnaf Nat (List (Jac F)) (List Int)) (k : Nat) :
    M.Wnaf.expScalar 300 v (limbsOf 4 k)
      = (wnafForm v.scalar k v.window_size).bind (fun sc => (wnafExp v.base sc).map (fun r =>
          ((⟨v.base, sc, v.window_size⟩ : M.Wnaf Nat (List (Jac F)) (List Int)), r))) := by
  unfold M.Wnaf.expScalar
  simp only [wnafForm_eq, wnafExp_eq]
  cases wnafForm v.scalar k v.window_size with
  | none => rfl
  | some sc =>
    simp only [Option.bind_some]
    cases wnafExp v.base sc <;> rfl

/-- `wnaf.base(b, n).scalar(k)`: result and the context afterwards (the table stays in `ctx.base`, the
    digits are written through the `&mut` borrow of `ctx.scalar`) -/
theorem Wnaf_baseThenScalar_eq (rc : WnafRec) (ctx : WnafCtx F) (b : Jac F) (n k : Nat)
    (hw : 1 ≤ recommendForNumScalars rc.tbl rc.base n) :
    (match M.Wnaf.ctxBase (recommendForNumScalars rc.tbl rc.base) (ofCtx ctx) b n with
      | none => none
      | some (c1, v) =>
        match M.Wnaf.expScalar 300 v (limbsOf 4 k) with
        | none => none
        | some (v', r) => some (r, (⟨c1.base, v'.scalar⟩ : WnafCtx F)))
      = ctx.baseThenScalar rc b n k := by
  rw [Wnaf_ctxBase_eq _ _ _ _ hw]
  dsimp only
  rw [Wnaf_expScalar_eq]
  unfold WnafCtx.baseThenScalar ofCtx
  dsimp only
  cases wnafForm ctx.scalar k (recommendForNumScalars rc.tbl rc.base n) with
  | none => rfl
  | some sc =>
    simp only [Option.bind_some, Option.bind_eq_bind, Option.pure_def]
    cases wnafExp (wnafTable ctx.base b (recommendForNumScalars rc.tbl rc.base n)) sc <;> rfl

/-- `wnaf.scalar(k).base(b)` -/
theorem Wnaf_scalarThenBase_eq (rc : WnafRec) (rs : List Nat → Nat) (ctx : WnafCtx F) (k : Nat) (b : Jac F)
    (hrs : rs (limbsOf 4 k) = recommendForScalar rc.ladder rc.dflt (k % 2 ^ 256))
    (hw : 1 ≤ recommendForScalar rc.ladder rc.dflt (k % 2 ^ 256)) :
    (match M.Wnaf.ctxScalar 300 rs (ofCtx ctx) (limbsOf 4 k) with
      | none => none
      | some (c1, v) =>
        match M.Wnaf.expBase v b with
        | none => none
        | some (v', r) => some (r, (⟨v'.base, c1.scalar⟩ : WnafCtx F)))
      = ctx.scalarThenBase rc k b := by
  rw [Wnaf_ctxScalar_eq, hrs]
  unfold WnafCtx.scalarThenBase
  dsimp only
  cases wnafForm ctx.scalar k (recommendForScalar rc.ladder rc.dflt (k % 2 ^ 256)) with
  | none => rfl
  | some sc =>
    simp only [Option.map_some, Option.bind_some, Option.bind_eq_bind, Option.pure_def]
    rw [Wnaf_expBase_eq _ _ hw]
    unfold ofCtx
    dsimp only
    cases wnafExp (wnafTable ctx.base b (recommendForScalar rc.ladder rc.dflt (k % 2 ^ 256))) sc <;> rfl
end

section
variable {F : Type} [Add F] [Sub F] [Mul F] [Neg F] [Zero F] [One F] [FieldOps F] [DecidableEq F]

/-! ## `precomp_256` -/

theorem idx_mid {α : Type} (A : List α) (x : α) (B : List α) (n : Nat) (hn : n = A.length) :
    (A ++ x :: B)[n]? = some x := by
  subst hn; simp

theorem setIdx_mid {α : Type} (A : List α) (x y : α) (B : List α) (n : Nat) (hn : n = A.length) :
    M.setIdx (A ++ x :: B) n y = some (A ++ y :: B) := by
  subst hn
  unfold M.setIdx
  rw [if_pos (by simp)]
  simp

theorem mapM_length {α β : Type} (f : α → Option β) : ∀ (l : List α) (r : List β), l.mapM f = some r → r.length = l.length := by
  intro l
  induction l with
  | nil => intro r h; simp at h; subst h; rfl
  | cons x xs ih =>
    intro r h
    rw [List.mapM_cons] at h
    cases hx : f x with
    | none => rw [hx] at h; simp at h
    | some y =>
      rw [hx] at h
      cases hxs : xs.mapM f with
      | none => rw [hxs] at h; simp at h
      | some ys =>
        rw [hxs] at h
        simp at h
        subst h
        simp [ih ys hxs]

/-- the body of the inner `for` loop of `precomp_256` (the shape of the generated code) -/
def p256Inner (pl : Nat) (buf : List (Aff F)) (i : Nat) : Option (List (Aff F)) :=
  match buf[i]? with
  | none => none
  | some t2 =>
    match M.setIdx buf (i + pl) t2 with
    | none => none
    | some buf =>
      match buf[i]? with
      | none => none
      | some t3 =>
        match buf[pl]? with
        | none => none
        | some t4 =>
          match ((t3.toJac).addMixed t4).toAffine with
          | none => none
          | some t5 =>
            match M.setIdx buf (i + pl) t5 with
            | none => none
            | some buf => some buf

theorem p256_inner (top : Aff F) (Mm : List (Aff F)) (g : List (Aff F) → Nat → Option (List (Aff F)))
    (hg : ∀ buf i, g buf i = p256Inner Mm.length buf i) :
    ∀ m j done tail, 1 ≤ j → j + m = Mm.length → done.length + 1 = j → m ≤ tail.length →
      M.forIn (List.range' j m) (Mm ++ top :: (done ++ tail)) g
        = ((Mm.drop j).mapM (fun (x : Aff F) => ((x.toJac).addMixed top).toAffine)).map
            (fun r => Mm ++ top :: (done ++ r ++ tail.drop m)) := by
  intro m
  induction m with
  | zero =>
    intro j done tail hj hjm hd hm
    have : j = Mm.length := by omega
    subst this
    simp
  | succ m ih =>
    intro j done tail hj hjm hd hm
    have hjl : j < Mm.length := by omega
    obtain ⟨x, tail', rfl⟩ : ∃ x tail', tail = x :: tail' := by
      cases tail with
      | nil => simp at hm
      | cons x t => exact ⟨x, t, rfl⟩
    have hlenA : j + Mm.length = (Mm ++ top :: done).length := by simp; omega
    have hre : ∀ y : Aff F, Mm ++ top :: (done ++ y :: tail') = (Mm ++ top :: done) ++ y :: tail' := by
      intro y; simp
    have hread : ∀ y : Aff F, ((Mm ++ top :: done) ++ y :: tail')[j]? = some Mm[j] := by
      intro y
      rw [List.append_assoc, List.getElem?_append_left hjl, List.getElem?_eq_getElem hjl]
    have hmid : ∀ y : Aff F, ((Mm ++ top :: done) ++ y :: tail')[Mm.length]? = some top := by
      intro y
      rw [List.append_assoc]
      exact idx_mid Mm top _ _ rfl
    have hset : ∀ y z : Aff F, M.setIdx ((Mm ++ top :: done) ++ y :: tail') (j + Mm.length) z
        = some ((Mm ++ top :: done) ++ z :: tail') := fun y z => setIdx_mid _ _ _ _ _ hlenA
    rw [List.range'_succ, forIn_cons, hg, p256Inner, List.drop_eq_getElem_cons hjl, List.mapM_cons]
    simp only [hre, hread, hmid, hset]
    cases he : ((Mm[j].toJac).addMixed top).toAffine with
    | none => simp
    | some t5 =>
      simp only
      have := ih (j + 1) (done ++ [t5]) tail' (by omega) (by omega) (by simp; omega) (by simpa using hm)
      simp only [List.append_assoc, List.singleton_append, List.cons_append, List.nil_append] at this ⊢
      rw [this]
      cases (Mm.drop (j + 1)).mapM (fun (x : Aff F) => ((x.toJac).addMixed top).toAffine) with
      | none => simp
      | some r => simp

/-- the body of the `while` loop of `precomp_256` (the shape of the generated code) -/
def p256Body (st : List (Aff F) × Nat × Jac F) : Option (List (Aff F) × Nat × Jac F) :=
  match st.2.2.toAffine with
  | none => none
  | some t1 =>
    match M.setIdx st.1 st.2.1 t1 with
    | none => none
    | some pre =>
      match M.forIn (List.range' 1 (st.2.1 - 1)) pre (fun pre i => p256Inner st.2.1 pre i) with
      | none => none
      | some pre => some (pre, st.2.1 * 2, if st.2.1 < 128 then st.2.2.doubleN 32 else st.2.2)

theorem p256_stage (Mm tail : List (Aff F)) (pw : Jac F) (hM : 1 ≤ Mm.length) (ht : Mm.length ≤ tail.length) :
    p256Body (Mm ++ tail, Mm.length, pw)
      = (precomp256Stage Mm pw).map (fun M' =>
          (M' ++ tail.drop Mm.length, Mm.length * 2, if Mm.length < 128 then pw.doubleN 32 else pw)) := by
  unfold p256Body precomp256Stage
  dsimp only
  cases pw.toAffine with
  | none => rfl
  | some top =>
    obtain ⟨y, tail', rfl⟩ : ∃ y tail', tail = y :: tail' := by
      cases tail with
      | nil => exfalso; simp only [List.length_nil] at ht; omega
      | cons y t => exact ⟨y, t, rfl⟩
    dsimp only
    rw [setIdx_mid Mm y top tail' _ rfl]
    dsimp only
    have := p256_inner top Mm (fun pre i => p256Inner Mm.length pre i) (fun _ _ => rfl) (Mm.length - 1) 1 [] tail'
      (by omega) (by omega) rfl (by simp at ht; omega)
    simp only [List.nil_append] at this
    rw [this]
    simp only [Option.bind_eq_bind, Option.bind_some, Option.pure_def]
    cases (Mm.drop 1).mapM (fun (x : Aff F) => ((x.toJac).addMixed top).toAffine) with
    | none => rfl
    | some r =>
      simp only [Option.map_some, Option.bind_some]
      have hd : List.drop Mm.length (y :: tail') = List.drop (Mm.length - 1) tail' := by
        obtain ⟨l, hl⟩ : ∃ l, Mm.length = l + 1 := ⟨Mm.length - 1, by omega⟩
        rw [hl, List.drop_succ_cons, Nat.add_sub_cancel]
      rw [hd]
      simp

theorem pow_facts : ∀ t, t ≤ 8 → ((2 ^ t ≤ 128 ↔ t ≤ 7) ∧ (2 ^ t < 128 ↔ t < 7) ∧ (t ≤ 7 → 2 * 2 ^ t ≤ 256) ∧ 1 ≤ 2 ^ t) := by
  decide

theorem p256_loop (pre0 : List (Aff F)) (h256 : 256 ≤ pre0.length)
    (cond : List (Aff F) × Nat × Jac F → Bool)
    (body : List (Aff F) × Nat × Jac F → Option (List (Aff F) × Nat × Jac F))
    (hc : ∀ st, cond st = decide (st.2.1 ≤ 128)) (hb : ∀ st, body st = p256Body st) :
    ∀ n t extra Mm pw, t + n = 8 → Mm.length = 2 ^ t →
      (match M.whileFuel (n + extra) (Mm ++ pre0.drop (2 ^ t), 2 ^ t, pw) cond body with
        | none => none
        | some (pre, _, _) => some pre)
        = (precomp256Loop n Mm pw).map (fun r => r ++ pre0.drop 256) := by
  intro n
  induction n with
  | zero =>
    intro t extra Mm pw ht hM
    have : t = 8 := by omega
    subst this
    have hcf : cond (Mm ++ pre0.drop (2 ^ 8), 2 ^ 8, pw) = false := by rw [hc]; simp
    cases extra with
    | zero => rw [Nat.zero_add, M.whileFuel, hcf]; rfl
    | succ e => rw [Nat.zero_add, M.whileFuel, hcf]; rfl
  | succ n ih =>
    intro t extra Mm pw ht hM
    obtain ⟨f1, f2, f3, f4⟩ := pow_facts t (by omega)
    have ht7 : t ≤ 7 := by omega
    have hct : cond (Mm ++ pre0.drop (2 ^ t), 2 ^ t, pw) = true := by
      rw [hc]; exact decide_eq_true (f1.2 ht7)
    have hfuel : n + 1 + extra = (n + extra) + 1 := by omega
    rw [hfuel, M.whileFuel, hct, if_pos rfl, hb, ← hM,
      p256_stage Mm (pre0.drop Mm.length) pw (by omega) (by rw [List.length_drop]; have := f3 ht7; omega),
      precomp256Loop]
    cases hst : precomp256Stage Mm pw with
    | none => rfl
    | some M' =>
      simp only [Option.map_some, Option.bind_eq_bind, Option.bind_some]
      have hM' : M'.length = 2 ^ (t + 1) := by
        unfold precomp256Stage at hst
        cases h1 : pw.toAffine with
        | none => rw [h1] at hst; simp at hst
        | some top =>
          rw [h1] at hst
          simp only [Option.bind_eq_bind, Option.bind_some, Option.pure_def] at hst
          cases h2 : (Mm.drop 1).mapM (fun (e : Aff F) => ((e.toJac).addMixed top).toAffine) with
          | none => rw [h2] at hst; simp at hst
          | some r =>
            rw [h2] at hst
            simp only [Option.bind_some, Option.some.injEq] at hst
            have := mapM_length _ _ _ h2
            rw [← hst]
            simp [this, hM, Nat.pow_succ]
            omega
      have hdd : List.drop Mm.length (List.drop Mm.length pre0) = List.drop (2 ^ (t + 1)) pre0 := by
        rw [List.drop_drop, hM, Nat.pow_succ]; congr 1; omega
      have hpw : (if Mm.length < 128 then pw.doubleN 32 else pw) = (if n = 0 then pw else pw.doubleN 32) := by
        rw [hM]
        by_cases hn : n = 0
        · have : ¬ (2 ^ t < 128) := by rw [f2]; omega
          simp [hn, this]
        · have : 2 ^ t < 128 := by rw [f2]; omega
          simp [hn, this]
      have h2t : Mm.length * 2 = 2 ^ (t + 1) := by rw [hM, Nat.pow_succ]
      rw [hdd, hpw, h2t]
      exact ih (t + 1) extra M' _ (by omega) hM'

theorem precomp256_eq (fuel : Nat) (hfuel : 8 ≤ fuel) (a : Aff F) (pre : List (Aff F)) (h : 256 ≤ pre.length) :
    M.Aff.precomp256 fuel a pre = (a.precomp256).map (fun t => t ++ pre.drop 256) := by
  obtain ⟨y, tail, rfl⟩ : ∃ y tail, pre = y :: tail := by
    cases pre with
    | nil => simp at h
    | cons y t => exact ⟨y, t, rfl⟩
  obtain ⟨extra, rfl⟩ : ∃ extra, fuel = 8 + extra := ⟨fuel - 8, by omega⟩
  unfold M.Aff.precomp256 Aff.precomp256
  simp only [Aff_zero_eq, Aff_toJac_eq, Jac_double_eq, Jac_toAffine_eq, Jac_addMixed_eq, foldl_double]
  have hs : M.setIdx (y :: tail) 0 (Aff.zero : Aff F) = some ([Aff.zero] ++ tail) := setIdx_mid [] y Aff.zero tail 0 rfl
  rw [hs]
  dsimp only
  refine p256_loop (y :: tail) h _ _ (fun st => rfl) ?_ 8 0 extra [Aff.zero] a.toJac rfl rfl
  intro st
  rfl
end

section
variable {F : Type} [Add F] [Sub F] [Mul F] [Neg F] [Zero F] [One F] [FieldOps F] [DecidableEq F]

/-! ## `sum_of_products_pippinger` -/

/-- one point of the accumulation loop, as in the model's `pipAccumulate`, on a bucket LIST -/
def accStep (bsi window : Nat) (st : List (Jac F) × Nat) (p : Aff F) (s : List Nat) : Option (List (Jac F) × Nat) :=
  if pipAssertFails s bsi window then none
  else
    if pipDigit s bsi window > 0 then
      match st.1[pipDigit s bsi window]? with
      | none => none
      | some b => some (st.1.set (pipDigit s bsi window) (b.addMixed p), max st.2 (pipDigit s bsi window))
    else some st

theorem acc_loop (points : List (Aff F)) (ks : List Nat) (bsi window : Nat)
    (g : List (Jac F) × Nat → Nat → Option (List (Jac F) × Nat))
    (hg : ∀ st i (hp : i < points.length) (hs : i < ks.length),
      g st i = accStep bsi window st points[i] (limbsOf 4 ks[i])) :
    ∀ m j (L : List (Jac F)) (mb : Nat), j + m ≤ points.length → j + m ≤ ks.length →
      M.forIn (List.range' j m) (L, mb) g
        = (pipAccumulate bsi window (((List.zip points (ks.map (limbsOf 4))).drop j).take m) (L.toArray, mb)).map
            (fun x => (x.1.toList, x.2)) := by
  intro m
  induction m with
  | zero => intro j L mb _ _; simp [pipAccumulate]
  | succ m ih =>
    intro j L mb hp hs
    have hjp : j < points.length := by omega
    have hjs : j < ks.length := by omega
    have hjz : j < (List.zip points (ks.map (limbsOf 4))).length := by simp; omega
    rw [List.range'_succ, forIn_cons, hg _ _ hjp hjs, List.drop_eq_getElem_cons hjz, List.take_succ_cons,
      List.getElem_zip, List.getElem_map, pipAccumulate, accStep]
    by_cases ha : pipAssertFails (limbsOf 4 ks[j]) bsi window = true
    · simp [ha]
    · simp only [ha, Bool.false_eq_true, if_false]
      by_cases hd : pipDigit (limbsOf 4 ks[j]) bsi window > 0
      · simp only [hd, if_true, List.getElem?_toArray]
        cases L[pipDigit (limbsOf 4 ks[j]) bsi window]? with
        | none => rfl
        | some b =>
          simp only
          rw [ih (j + 1) _ _ (by omega) (by omega)]
          simp
      · simp only [hd, if_false]
        exact ih (j + 1) _ _ (by omega) (by omega)

/-- one iteration of the running-sum sweep (the shape of the generated code) -/
def redStep (st : Jac F × List (Jac F)) (i : Nat) : Option (Jac F × List (Jac F)) :=
  match st.2[i + 1]? with
  | none => none
  | some temp =>
    match st.2[i]? with
    | none => none
    | some bi =>
      match (st.2.set i (bi.add temp))[i]? with
      | none => none
      | some bi' =>
        match M.setIdx (st.2.set i (bi.add temp)) (i + 1) Jac.zero with
        | none => none
        | some L2 => some (st.1.add bi', L2)

theorem red_loop (h : Jac F × List (Jac F) → Nat → Option (Jac F × List (Jac F)))
    (hh : ∀ st i, h st i = redStep st i) :
    ∀ n (res : Jac F) (L : List (Jac F)),
      M.forIn (List.range' 1 n).reverse (res, L) h
        = (pipReduceLoop n (L.toArray, res)).map (fun x => (x.2, x.1.toList)) := by
  intro n
  induction n with
  | zero => intro res L; rfl
  | succ n ih =>
    intro res L
    rw [List.range'_concat, List.reverse_append, List.reverse_singleton, List.singleton_append, forIn_cons, hh,
      redStep, pipReduceLoop]
    simp only [Nat.one_mul, List.getElem?_toArray, Nat.add_comm 1 n]
    cases h2 : L[n + 1 + 1]? with
    | none => rfl
    | some temp =>
      cases h1 : L[n + 1]? with
      | none => rfl
      | some bi =>
        have hlt1 : n + 1 < L.length := (List.getElem?_eq_some_iff.1 h1).1
        have hlt2 : n + 1 + 1 < L.length := (List.getElem?_eq_some_iff.1 h2).1
        simp only
        rw [List.getElem?_set_self (by omega), setIdx_of_lt _ (by rw [List.length_set]; exact hlt2)]
        simp only
        rw [ih]
        simp

/-- the state of the outer loop of `sum_of_products_pippinger`: `(res, buckets, bit_sequence_index, num_doubles)` -/
abbrev PipSt (F : Type) := Jac F × List (Jac F) × Nat × Nat

theorem pip_red_core (h : Jac F × List (Jac F) → Nat → Option (Jac F × List (Jac F)))
    (hh : ∀ st i, h st i = redStep st i) (L : List (Jac F)) (res : Jac F) (mb : Nat)
    (K : Jac F → List (Jac F) → Option (PipSt F × Bool)) :
    (match L[mb]? with
      | none => none
      | some t23 =>
        match M.forIn (List.range' 1 (mb - 1)).reverse (res.add t23, L) h with
        | none => none
        | some (r, L') =>
          match M.setIdx L' 1 Jac.zero with
          | none => none
          | some L'' => K r L'')
      = (match pipReduce L.toArray res mb with
          | none => none
          | some (A, r) => K r A.toList) := by
  unfold pipReduce
  simp only [List.getElem?_toArray, Option.bind_eq_bind]
  cases L[mb]? with
  | none => rfl
  | some t23 =>
    simp only [Option.bind_some]
    rw [red_loop h hh]
    cases pipReduceLoop (mb - 1) (L.toArray, res.add t23) with
    | none => rfl
    | some x =>
      obtain ⟨A, r⟩ := x
      simp only [Option.map_some, Option.bind_some, M.setIdx, Array.length_toList]
      by_cases hs : A.size ≤ 1
      · have : ¬ (1 < A.size) := by omega
        simp [hs, this]
      · have : 1 < A.size := by omega
        simp [hs, this]

theorem pip_acc_core (points : List (Aff F)) (ks : List Nat) (window bsi n : Nat) (hw1 : 1 ≤ window)
    (hw : window ≤ 64) (hn : n = min points.length ks.length) (L : List (Jac F))
    (g1 : Nat → List (Jac F) × Nat → Nat → Option (List (Jac F) × Nat))
    (g2 : Nat → Nat → Nat → Nat → Nat → List (Jac F) × Nat → Nat → Option (List (Jac F) × Nat))
    (g3 : Nat → List (Jac F) × Nat → Nat → Option (List (Jac F) × Nat))
    (hg1 : bsi &&& 63 < window - 1 → bsi >>> 6 = 0 → ∀ st i (hp : i < points.length) (hs : i < ks.length),
      g1 (2 ^ ((bsi &&& 63) + 1) - 1) st i = accStep bsi window st points[i] (limbsOf 4 ks[i]))
    (hg2 : bsi &&& 63 < window - 1 → bsi >>> 6 ≠ 0 → ∀ st i (hp : i < points.length) (hs : i < ks.length),
      g2 (2 ^ ((bsi &&& 63) + 1) - 1) (window - 1 - (bsi &&& 63)) (2 ^ (window - 1 - (bsi &&& 63)) - 1)
        (64 - (window - 1 - (bsi &&& 63))) (bsi >>> 6 - 1) st i = accStep bsi window st points[i] (limbsOf 4 ks[i]))
    (hg3 : ¬ (bsi &&& 63 < window - 1) → ∀ st i (hp : i < points.length) (hs : i < ks.length),
      g3 ((bsi &&& 63) - (window - 1)) st i = accStep bsi window st points[i] (limbsOf 4 ks[i]))
    (K : List (Jac F) → Nat → Option (PipSt F × Bool)) :
    (match
        (if bsi &&& 63 < window - 1 then
          match
            (if bsi >>> 6 = 0 then
              match M.usub (2 ^ ((bsi &&& 63) + 1)) 1 with
              | none => none
              | some t3 =>
                match M.forIn (List.range' 0 n) (L, 0) (g1 t3) with
                | none => none
                | some (b, m) => some (b, m)
            else
              match M.usub (2 ^ ((bsi &&& 63) + 1)) 1 with
              | none => none
              | some t8 =>
                match M.usub (window - 1) (bsi &&& 63) with
                | none => none
                | some t9 =>
                  match M.usub (2 ^ t9) 1 with
                  | none => none
                  | some t10 =>
                    match M.usub 64 t9 with
                    | none => none
                    | some t11 =>
                      match M.usub (bsi >>> 6) 1 with
                      | none => none
                      | some t12 =>
                        match M.forIn (List.range' 0 n) (L, 0) (g2 t8 t9 t10 t11 t12) with
                        | none => none
                        | some (b, m) => some (b, m)) with
          | none => none
          | some (b, m) => some (b, m)
        else
          match M.usub (bsi &&& 63) (window - 1) with
          | none => none
          | some t18 =>
            match M.forIn (List.range' 0 n) (L, 0) (g3 t18) with
            | none => none
            | some (b, m) => some (b, m)) with
      | none => none
      | some (b, m) => K b m)
      = (match pipAccumulate bsi window (List.zip points (ks.map (limbsOf 4))) (L.toArray, 0) with
          | none => none
          | some (A, m) => K A.toList m) := by
  have hacc : ∀ g : List (Jac F) × Nat → Nat → Option (List (Jac F) × Nat),
      (∀ st i (hp : i < points.length) (hs : i < ks.length),
        g st i = accStep bsi window st points[i] (limbsOf 4 ks[i])) →
      M.forIn (List.range' 0 n) (L, 0) g
        = (pipAccumulate bsi window (List.zip points (ks.map (limbsOf 4))) (L.toArray, 0)).map
            (fun x => (x.1.toList, x.2)) := by
    intro g hg
    have := acc_loop points ks bsi window g hg n 0 L 0 (by omega) (by omega)
    rw [List.drop_zero, List.take_of_length_le (by simp; omega)] at this
    exact this
  have h2pow : ∀ x : Nat, M.usub (2 ^ x) 1 = some (2 ^ x - 1) := fun x => usub_of_le Nat.one_le_two_pow
  by_cases hb1 : bsi &&& 63 < window - 1
  · by_cases hb2 : bsi >>> 6 = 0
    · simp only [hb1, hb2, if_true, h2pow]
      rw [hacc _ (hg1 hb1 hb2)]
      cases pipAccumulate bsi window (List.zip points (ks.map (limbsOf 4))) (L.toArray, 0) with
      | none => rfl
      | some x => rfl
    · have hle : bsi &&& 63 ≤ window - 1 := by omega
      have hle2 : window - 1 - (bsi &&& 63) ≤ 64 := by omega
      have hle3 : 1 ≤ bsi >>> 6 := by omega
      simp only [hb1, hb2, if_true, if_false, h2pow, usub_of_le hle, usub_of_le hle2, usub_of_le hle3]
      rw [hacc _ (hg2 hb1 hb2)]
      cases pipAccumulate bsi window (List.zip points (ks.map (limbsOf 4))) (L.toArray, 0) with
      | none => rfl
      | some x => rfl
  · have hle : window - 1 ≤ bsi &&& 63 := by omega
    simp only [hb1, if_false, usub_of_le hle]
    rw [hacc _ (hg3 hb1)]
    cases pipAccumulate bsi window (List.zip points (ks.map (limbsOf 4))) (L.toArray, 0) with
    | none => rfl
    | some x => rfl

/-- one pass of the outer loop, in terms of the model's functions -/
def pipIter (pairs : List (Aff F × List Nat)) (window : Nat) (st : PipSt F) : Option (PipSt F × Bool) :=
  match pipAccumulate st.2.2.1 window pairs (st.2.1.toArray, 0) with
  | none => none
  | some (A, mb) =>
    match pipReduce A (st.1.doubleN st.2.2.2) mb with
    | none => none
    | some (A, r) =>
      if st.2.2.1 < window then some ((r, A.toList, st.2.2.1, st.2.2.2), true)
      else some ((r, A.toList, st.2.2.1 - window,
        if st.2.2.1 - window < window - 1 then st.2.2.1 - window + 1 else window), false)

theorem pip_outer (pairs : List (Aff F × List Nat)) (window : Nat)
    (body : PipSt F → Option (PipSt F × Bool))
    (hb : ∀ st, st.2.2.1 ≤ 255 → body st = pipIter pairs window st) :
    ∀ fuel res (L : List (Jac F)) bsi nd, bsi ≤ 255 →
      (match M.loopFuel fuel (res, L, bsi, nd) body with
        | none => none
        | some (r, _, _, _) => some r) = pipLoop pairs window fuel bsi nd L.toArray res := by
  intro fuel
  induction fuel with
  | zero => intro res L bsi nd _; rfl
  | succ fuel ih =>
    intro res L bsi nd hbsi
    rw [M.loopFuel, hb _ hbsi, pipLoop, pipIter]
    simp only [Option.bind_eq_bind, Option.pure_def]
    cases pipAccumulate bsi window pairs (L.toArray, 0) with
    | none => rfl
    | some x =>
      obtain ⟨A, mb⟩ := x
      simp only [Option.bind_some]
      cases pipReduce A (res.doubleN nd) mb with
      | none => rfl
      | some y =>
        obtain ⟨A', r⟩ := y
        simp only [Option.bind_some]
        by_cases hlt : bsi < window
        · simp only [hlt, if_true]
        · simp only [hlt, if_false]
          have := ih r A'.toList (bsi - window) (if bsi - window < window - 1 then bsi - window + 1 else window) (by omega)
          simpa using this

theorem sumOfProductsPippinger_eq (points : List (Aff F)) (ks : List Nat) (window : Nat) (hw : window ≤ 64) :
    M.Aff.sumOfProductsPippinger 257 points (ks.map (limbsOf 4)) window
      = sumOfProductsPippinger points ks window := by
  unfold M.Aff.sumOfProductsPippinger sumOfProductsPippinger
  by_cases h0 : window = 0
  · subst h0; rfl
  have hw1 : 1 ≤ window := by omega
  simp only [h0, if_false, usub_of_le hw1, Nat.one_shiftLeft, usub_of_le (Nat.one_le_two_pow (n := window)),
    Jac_zero_eq, Jac_double_eq, Jac_add_eq, Jac_addMixed_eq, foldl_double, List.length_map]
  refine pip_outer (List.zip points (ks.map (limbsOf 4))) window _ ?_ 257 Jac.zero
    (List.replicate (2 ^ window) Jac.zero) 255 0 (by decide)
  intro st hbsi
  obtain ⟨res, L, bsi, nd⟩ := st
  dsimp only at hbsi ⊢
  have hmin : (if points.length < ks.length then points.length else ks.length) = min points.length ks.length := by
    split <;> omega
  have hwi : bsi >>> 6 < 4 := by rw [Nat.shiftRight_eq_div_pow]; omega
  have hidx : ∀ (k j : Nat), j < 4 → (limbsOf 4 k)[j]? = some ((limbsOf 4 k).getD j 0) := by
    intro k j hj
    rw [List.getD_eq_getElem?_getD, List.getElem?_eq_getElem (by simp; omega)]; rfl
  have hmax : ∀ a b : Nat, (if a > b then a else b) = max b a := by
    intro a b; split <;> omega
  rw [hmin]
  unfold pipIter
  dsimp only
  refine (pip_acc_core points ks window bsi _ hw1 hw rfl L _ _ _ ?_ ?_ ?_ _).trans ?_
  · intro hb1 hb2 st i hp hs
    obtain ⟨B, mb⟩ := st
    have hwi0 : (0 : Nat) < 4 := by decide
    simp only [List.getElem?_map, List.getElem?_eq_getElem hs, List.getElem?_eq_getElem hp, Option.map_some,
      hb2, hidx _ 0 hwi0, accStep, pipAssertFails, pipDigit, hb1, if_true, Bool.false_eq_true, if_false,
      Nat.one_shiftLeft, hmax]
    split <;> (rename_i heq; exact heq.symm)
  · intro hb1 hb2 st i hp hs
    obtain ⟨B, mb⟩ := st
    have hwi1 : bsi >>> 6 - 1 < 4 := by omega
    simp only [List.getElem?_map, List.getElem?_eq_getElem hs, List.getElem?_eq_getElem hp, Option.map_some,
      hidx _ _ hwi, hidx _ _ hwi1, accStep, pipAssertFails, pipDigit, hb1, hb2, if_true, Bool.false_eq_true,
      if_false, Nat.one_shiftLeft, hmax]
    split <;> (rename_i heq; exact heq.symm)
  · intro hb1 st i hp hs
    obtain ⟨B, mb⟩ := st
    simp only [List.getElem?_map, List.getElem?_eq_getElem hs, List.getElem?_eq_getElem hp, Option.map_some,
      hidx _ _ hwi, accStep, pipAssertFails, pipDigit, hb1, if_false, hmax]
    generalize (limbsOf 4 ks[i]).getD 3 0 >>> 63 = v
    by_cases ha : bsi ≠ 255 ∨ v = 0
    · have : (bsi == 255 && v != 0) = false := by
        rcases ha with h | h
        · simp [h]
        · simp [h]
      simp only [ha, not_true_eq_false, if_false, this, Bool.false_eq_true]
      split <;> (rename_i heq; exact heq.symm)
    · have : (bsi == 255 && v != 0) = true := by
        simp only [not_or, ne_eq, not_not] at ha
        simp [ha.1, ha.2]
      simp only [ha, not_false_eq_true, if_true, this]
  · cases pipAccumulate bsi window (points.zip (List.map (limbsOf 4) ks)) (L.toArray, 0) with
    | none => rfl
    | some x =>
      obtain ⟨A, mb⟩ := x
      dsimp only
      refine (pip_red_core _ (fun _ _ => rfl) A.toList (res.doubleN nd) mb _).trans ?_
      rw [Array.toArray_toList]
      cases pipReduce A (res.doubleN nd) mb with
      | none => rfl
      | some y =>
        obtain ⟨A', r⟩ := y
        dsimp only
        by_cases hlt : bsi < window
        · simp only [hlt, if_true]
        · simp only [hlt, if_false, usub_of_le (Nat.le_of_not_lt hlt)]
end

section
variable {F : Type} [Add F] [Sub F] [Mul F] [Neg F] [Zero F] [One F] [FieldOps F] [DecidableEq F]

/-! ## `sum_of_products`, and the `Wnaf` context with the tables of G1 / G2 -/

theorem sumOfProducts_eq (points : List (Aff F)) (ks : List Nat) :
    M.Aff.sumOfProducts 257 points (ks.map (limbsOf 4)) = sumOfProducts points ks := by
  unfold M.Aff.sumOfProducts sumOfProducts
  have hmin : (if points.length < ks.length then points.length else ks.length) = min points.length ks.length := by
    split <;> omega
  simp only [List.length_map, findPippingerWindow_eq, hmin]
  rw [sumOfProductsPippinger_eq _ _ _
    (by have := (PP.Pip.findPippingerWindow_range (min points.length ks.length)).2; omega)]
  cases sumOfProductsPippinger points ks (findPippingerWindow (min points.length ks.length)) <;> rfl

theorem recNum_G1 : M.Jac.recommendedWnafForNumScalars M.G1.empiricalRecommendedWnafForNumScalars
    = recommendForNumScalars g1Rec.tbl g1Rec.base := by
  funext n; exact G1_recNum_eq n

theorem recNum_G2 : M.Jac.recommendedWnafForNumScalars M.G2.empiricalRecommendedWnafForNumScalars
    = recommendForNumScalars g2Rec.tbl g2Rec.base := by
  funext n; exact G2_recNum_eq n

theorem Wnaf_baseThenScalar_G1 (ctx : WnafCtx F) (b : Jac F) (n k : Nat) :
    (match M.Wnaf.ctxBase (M.Jac.recommendedWnafForNumScalars M.G1.empiricalRecommendedWnafForNumScalars)
        (ofCtx ctx) b n with
      | none => none
      | some (c1, v) =>
        match M.Wnaf.expScalar 300 v (limbsOf 4 k) with
        | none => none
        | some (v', r) => some (r, (⟨c1.base, v'.scalar⟩ : WnafCtx F)))
      = ctx.baseThenScalar g1Rec b n k := by
  rw [recNum_G1]
  exact Wnaf_baseThenScalar_eq g1Rec ctx b n k
    (by have := (recommendForNumScalars_range g1Rec.tbl g1Rec.base n).1; exact Nat.le_trans (by decide) this)

theorem Wnaf_baseThenScalar_G2 (ctx : WnafCtx F) (b : Jac F) (n k : Nat) :
    (match M.Wnaf.ctxBase (M.Jac.recommendedWnafForNumScalars M.G2.empiricalRecommendedWnafForNumScalars)
        (ofCtx ctx) b n with
      | none => none
      | some (c1, v) =>
        match M.Wnaf.expScalar 300 v (limbsOf 4 k) with
        | none => none
        | some (v', r) => some (r, (⟨c1.base, v'.scalar⟩ : WnafCtx F)))
      = ctx.baseThenScalar g2Rec b n k := by
  rw [recNum_G2]
  exact Wnaf_baseThenScalar_eq g2Rec ctx b n k
    (by have := (recommendForNumScalars_range g2Rec.tbl g2Rec.base n).1; exact Nat.le_trans (by decide) this)

theorem Wnaf_scalarThenBase_G1 (ctx : WnafCtx F) (k : Nat) (b : Jac F) :
    (match M.Wnaf.ctxScalar 300 (M.Jac.recommendedWnafForScalar M.G1.empiricalRecommendedWnafForScalar)
        (ofCtx ctx) (limbsOf 4 k) with
      | none => none
      | some (c1, v) =>
        match M.Wnaf.expBase v b with
        | none => none
        | some (v', r) => some (r, (⟨v'.base, c1.scalar⟩ : WnafCtx F)))
      = ctx.scalarThenBase g1Rec k b :=
  Wnaf_scalarThenBase_eq g1Rec _ ctx k b (G1_recScalar_eq k)
    (Nat.le_trans (by decide) (recommendForScalar_range (k % 2 ^ 256)).1.1)

theorem Wnaf_scalarThenBase_G2 (ctx : WnafCtx F) (k : Nat) (b : Jac F) :
    (match M.Wnaf.ctxScalar 300 (M.Jac.recommendedWnafForScalar M.G2.empiricalRecommendedWnafForScalar)
        (ofCtx ctx) (limbsOf 4 k) with
      | none => none
      | some (c1, v) =>
        match M.Wnaf.expBase v b with
        | none => none
        | some (v', r) => some (r, (⟨v'.base, c1.scalar⟩ : WnafCtx F)))
      = ctx.scalarThenBase g2Rec k b :=
  Wnaf_scalarThenBase_eq g2Rec _ ctx k b (G2_recScalar_eq k)
    (Nat.le_trans (by decide) (recommendForScalar_range (k % 2 ^ 256)).2.1)
end

end PP.GenMsmLemmas
