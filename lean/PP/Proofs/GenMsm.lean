/-
The definitions REGENERATED from the Rust source by /verif/extract/extract_msm.py (`PP/Gen/Msm.lean`,
namespace `PP.Gen.M`: scalar-multiplication tables, Pippenger, wNAF) are equal to the hand-written
model `PP/Model/Mul.lean`.

Proof method: the generated loops (`M.forIn` over `List.range'`, `List.foldl`, `M.whileFuel`,
`M.loopFuel`) are related to the model's structural recursions by induction with generalised
accumulators; calls of generated curve operations are first rewritten into the model's with the
equalities of PP/Proofs/GenArith.lean; nothing evaluates field arithmetic (everything is generic in
the coefficient field `F`).
-/
import PP.Gen.Msm
import PP.Proofs.GenArith
import PP.Proofs.GenDerive
import PP.Proofs.Bits

set_option linter.unusedSimpArgs false
set_option linter.unusedVariables false

namespace PP.GenMsmLemmas
open PP PP.Gen PP.GenArithLemmas

/-! ## the primitives of Msm.lean -/

theorem usub_of_le {a b : Nat} (h : b ≤ a) : M.usub a b = some (a - b) := by
  unfold M.usub; rw [if_pos h]

theorem usub_of_lt {a b : Nat} (h : a < b) : M.usub a b = none := by
  unfold M.usub; rw [if_neg (by omega)]

theorem setIdx_of_lt {α : Type} {xs : List α} {i : Nat} (v : α) (h : i < xs.length) :
    M.setIdx xs i v = some (xs.set i v) := by
  unfold M.setIdx; rw [if_pos h]

theorem setIdx_of_ge {α : Type} {xs : List α} {i : Nat} (v : α) (h : xs.length ≤ i) :
    M.setIdx xs i v = none := by
  unfold M.setIdx; rw [if_neg (by omega)]

theorem match_some_eta {α : Type} (o : Option α) :
    (match o with | none => none | some v => some v) = o := by cases o <;> rfl

@[simp] theorem forIn_nil {σ α : Type} (s : σ) (f : σ → α → Option σ) : M.forIn [] s f = some s := rfl

theorem forIn_cons {σ α : Type} (x : α) (xs : List α) (s : σ) (f : σ → α → Option σ) :
    M.forIn (x :: xs) s f = (match f s x with | none => none | some s' => M.forIn xs s' f) := rfl

theorem forIn_append {σ α : Type} (xs ys : List α) (s : σ) (f : σ → α → Option σ) :
    M.forIn (xs ++ ys) s f = (match M.forIn xs s f with | none => none | some s' => M.forIn ys s' f) := by
  induction xs generalizing s with
  | nil => rfl
  | cons x xs ih =>
    rw [List.cons_append, forIn_cons, forIn_cons]
    cases f s x with
    | none => rfl
    | some s' => exact ih s'

theorem forIn_pure {σ α : Type} (xs : List α) (s : σ) (f : σ → α → Option σ) (g : σ → α → σ)
    (h : ∀ s x, f s x = some (g s x)) : M.forIn xs s f = some (xs.foldl g s) := by
  induction xs generalizing s with
  | nil => rfl
  | cons x xs ih => rw [forIn_cons, h, List.foldl_cons]; exact ih _

section
variable {F : Type} [Add F] [Sub F] [Mul F] [Neg F] [Zero F] [One F] [FieldOps F] [DecidableEq F]

/-- `for _ in 0..n { p.double(); }` -/
theorem foldl_double (s n : Nat) (p : Jac F) :
    List.foldl (fun p _ => p.double) p (List.range' s n) = p.doubleN n := by
  induction n generalizing s p with
  | zero => rfl
  | succ n ih => rw [List.range'_succ, List.foldl_cons, ih]; rfl

/-! ## `precomp_3` -/

theorem precomp3_eq (a : Aff F) (pre : List (Aff F)) (h : 3 ≤ pre.length) :
    M.Aff.precomp3 a pre = (a.precomp3).map (fun t => t ++ pre.drop 3) := by
  obtain ⟨x0, x1, x2, rest, rfl⟩ : ∃ x0 x1 x2 rest, pre = x0 :: x1 :: x2 :: rest := by
    match pre, h with
    | x0 :: x1 :: x2 :: rest, _ => exact ⟨x0, x1, x2, rest, rfl⟩
  unfold M.Aff.precomp3 Aff.precomp3
  simp only [Aff_toJac_eq, Jac_double_eq, Jac_toAffine_eq, foldl_double]
  have hr : List.range' 0 3 = [0, 1, 2] := rfl
  rw [hr]
  simp only [forIn_cons, forIn_nil]
  cases h1 : ((a.toJac).doubleN 64).toAffine with
  | none => rfl
  | some a1 =>
    simp only [M.setIdx, List.length_cons, Nat.zero_lt_succ, if_true, List.set_cons_zero]
    cases h2 : (((a.toJac).doubleN 64).doubleN 64).toAffine with
    | none => rfl
    | some a2 =>
      simp only [List.set_cons_succ, List.set_cons_zero, List.length_cons, Nat.succ_lt_succ_iff, Nat.zero_lt_succ, if_true]
      cases h3 : ((((a.toJac).doubleN 64).doubleN 64).doubleN 64).toAffine with
      | none => rfl
      | some a3 => rfl

theorem precomp3_short (a : Aff F) (pre : List (Aff F)) (h : pre.length < 3) :
    M.Aff.precomp3 a pre = none := by
  unfold M.Aff.precomp3
  have hr : List.range' 0 3 = [0, 1, 2] := rfl
  rw [hr]
  simp only [forIn_cons, forIn_nil, M.setIdx]
  match pre, h with
  | [], _ =>
    cases (A.Jac.toAffine _ : Option (Aff F)) <;> rfl
  | [x0], _ =>
    cases (A.Jac.toAffine _ : Option (Aff F)) with
    | none => rfl
    | some a1 =>
      simp only [List.length_cons, List.length_nil, Nat.zero_lt_succ, if_true, Nat.lt_irrefl, if_false]
      cases (A.Jac.toAffine _ : Option (Aff F)) <;> rfl
  | [x0, x1], _ =>
    cases (A.Jac.toAffine _ : Option (Aff F)) with
    | none => rfl
    | some a1 =>
      simp only [List.length_cons, List.length_nil, Nat.zero_lt_succ, if_true, List.length_set]
      cases (A.Jac.toAffine _ : Option (Aff F)) with
      | none => rfl
      | some a2 =>
        simp only [List.length_cons, List.length_nil, List.length_set, if_true, Nat.lt_irrefl, if_false,
          Nat.one_lt_two, Nat.zero_lt_succ, Nat.succ_lt_succ_iff]
        cases (A.Jac.toAffine _ : Option (Aff F)) <;> rfl

end

end PP.GenMsmLemmas
