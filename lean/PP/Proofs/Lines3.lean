/-
C03, complements on the textbook side (`PP/Spec/Ate.lean`):

* the untwist `ψ(x', y') = (x'/w², y'/w³)` maps `E' : y² = x³ + 4(1+u)` to `E : y² = x³ + 4`
  (`untwist_onCurve`) and commutes with the affine chord-and-tangent formulas (`untwist_affDouble`,
  `untwist_affAdd`): updating `T` on the twist, as the specification does, is the same as updating
  `ψ(T)` on `E(Fq12)`;
* the values of the omitted vertical lines lie in the subfield `Fq6` (`vertical_mem_Fq6`);
* a tangent or chord line never vanishes at a point `P` with `y_P ≠ 0` (`tangentAt_ne_zero`,
  `chordAt_ne_zero`), hence `textbookMiller P Q ≠ 0` (`textbookMiller_ne_zero`);
* `E(Fq)` has no point with `y = 0`: `-4` is not a cube in `Fq` (`g1_y_ne_zero`);
* `finalExponentiation (conj (c · m)) = (conj m)^(3(q¹²-1)/r)` for unitish `c` (`fe_conjugate_unitish_mul`).
-/
import PP.Proofs.Lines

namespace PP
namespace Lines

open Ate Miller

/-! ## the untwist -/

theorem ι_four_xi : ι g2Codec.b = 4 * Fq12.w ^ 6 := by
  rw [g2Codec_b_eq_mul_xi, map_mul, w_pow_six, map_ofNat]

/-- `ψ` maps `E'` to `E` -/
theorem untwist_onCurve {T : Fq2 × Fq2} (h : T.2 ^ 2 = T.1 ^ 3 + g2Codec.b) :
    (untwist T).2 ^ 2 = (untwist T).1 ^ 3 + 4 := by
  have h' : ι T.2 ^ 2 = ι T.1 ^ 3 + 4 * Fq12.w ^ 6 := by
    rw [← ι_four_xi, ← map_pow, ← map_pow, ← map_add, h]
  have hw := w_ne_zero
  simp only [untwist]
  field_simp
  linear_combination h'

theorem tangentSlope_untwist (T : Fq2 × Fq2) :
    tangentSlope (untwist T) = ι (tangentSlope T) / Fq12.w := by
  have hw := w_ne_zero
  simp only [tangentSlope, untwist, map_div₀, map_mul, map_pow, map_ofNat]
  by_cases hy : ι T.2 = 0
  · simp [hy]
  · field_simp

theorem chordSlope_untwist (T Q : Fq2 × Fq2) :
    chordSlope (untwist T) (untwist Q) = ι (chordSlope T Q) / Fq12.w := by
  have hw := w_ne_zero
  simp only [chordSlope, untwist, map_div₀, map_sub]
  rw [← sub_div, ← sub_div]
  by_cases hx : ι Q.1 - ι T.1 = 0
  · simp [hx]
  · field_simp

theorem untwist_sumOfSlope (l : Fq2) (A B : Fq2 × Fq2) :
    untwist (sumOfSlope l A B) = sumOfSlope (ι l / Fq12.w) (untwist A) (untwist B) := by
  have hw := w_ne_zero
  simp only [sumOfSlope, untwist, map_sub, map_mul, map_pow, Prod.mk.injEq]
  constructor
  · field_simp
  · field_simp

/-- `ψ(2T) = 2ψ(T)` for the affine formulas -/
theorem untwist_affDouble (T : Fq2 × Fq2) : untwist (affDouble T) = affDouble (untwist T) := by
  simp only [affDouble, untwist_sumOfSlope, tangentSlope_untwist]

/-- `ψ(T + Q) = ψ(T) + ψ(Q)` for the affine formulas -/
theorem untwist_affAdd (T Q : Fq2 × Fq2) : untwist (affAdd T Q) = affAdd (untwist T) (untwist Q) := by
  simp only [affAdd, untwist_sumOfSlope, chordSlope_untwist]

/-- the value at `P` of the vertical line through `ψ(T)` lies in `Fq6`: denominator elimination -/
theorem vertical_mem_Fq6 (T : Fq2 × Fq2) (P : Fq × Fq) :
    ∃ a : Fq6, (embed P).1 - (untwist T).1 = Fq12.ofFq6 a := by
  refine ⟨Fq6.ofFq2 (Fq2.ofFq P.1) - Fq6.ofFq2 T.1 / Fq6.v, ?_⟩
  simp only [embed, untwist, κ, ι, RingHom.comp_apply, map_sub, map_div₀, Fq12.w_pow_two]

/-! ## the lines do not vanish -/

/-- a line through `ψ(T)` whose slope is `ι l / w` (as for tangents and chords), multiplied by `w³`, is
    the sparse element `(l x_T - y_T) - l x_P w² + y_P w³` -/
theorem lineAt_untwist (l : Fq2) (T : Fq2 × Fq2) (P : Fq × Fq) :
    lineAt (ι l / Fq12.w) (untwist T) (embed P) * Fq12.w ^ 3 =
      line (1, -l, l * T.1 - T.2) ⟨P.1, P.2, false⟩ := by
  have hw := w_ne_zero
  rw [line_eq]
  simp only [lineAt, untwist, embed, map_sub, map_mul, map_neg, map_one]
  field_simp
  ring

theorem line_ne_zero (c : Coeff) (p : Aff Fq) (hc : c.1 ≠ 0) (hy : p.y ≠ 0) : line c p ≠ 0 := by
  intro h
  have h1 : (⟨c.1.c0 * p.y, c.1.c1 * p.y⟩ : Fq2) = 0 := congrArg (fun a : Fq12 => a.c1.c1) h
  rw [← Fq2.mul_ofFq_eq] at h1
  rcases mul_eq_zero.mp h1 with h2 | h2
  · exact hc h2
  · exact hy (Fq2.ofFq_injective (by rw [h2, map_zero]))

theorem lineAt_untwist_ne_zero (l : Fq2) (T : Fq2 × Fq2) (P : Fq × Fq) (hy : P.2 ≠ 0) :
    lineAt (ι l / Fq12.w) (untwist T) (embed P) ≠ 0 := by
  intro h
  have := lineAt_untwist l T P
  rw [h, zero_mul] at this
  exact line_ne_zero _ ⟨P.1, P.2, false⟩ one_ne_zero hy this.symm

/-- no tangent to `E` at a point `ψ(T)` passes through a point `P ∈ E(Fq)` with `y_P ≠ 0` -/
theorem tangentAt_ne_zero (T : Fq2 × Fq2) (P : Fq × Fq) (hy : P.2 ≠ 0) :
    tangentAt (untwist T) (embed P) ≠ 0 := by
  rw [tangentAt, tangentSlope_untwist]; exact lineAt_untwist_ne_zero _ T P hy

theorem chordAt_ne_zero (T Q : Fq2 × Fq2) (P : Fq × Fq) (hy : P.2 ≠ 0) :
    chordAt (untwist T) (untwist Q) (embed P) ≠ 0 := by
  rw [chordAt, chordSlope_untwist]; exact lineAt_untwist_ne_zero _ T P hy

theorem millerStep_ne_zero (P : Fq × Fq) (Q : Fq2 × Fq2) (hy : P.2 ≠ 0) (bs : List Bool) (F : Fq12)
    (T : Fq2 × Fq2) (hF : F ≠ 0) : (bs.foldl (millerStep P Q) (F, T)).1 ≠ 0 := by
  induction bs generalizing F T with
  | nil => exact hF
  | cons b bs ih =>
    rw [List.foldl_cons]
    have h1 : F ^ 2 * tangentAt (untwist T) (embed P) ≠ 0 :=
      mul_ne_zero (pow_ne_zero _ hF) (tangentAt_ne_zero T P hy)
    cases b with
    | false => exact ih _ _ h1
    | true => exact ih _ _ (mul_ne_zero h1 (chordAt_ne_zero _ Q P hy))

/-- **the textbook Miller value is not zero** at a point with `y_P ≠ 0` -/
theorem textbookMiller_ne_zero (P : Fq × Fq) (Q : Fq2 × Fq2) (hy : P.2 ≠ 0) :
    textbookMiller P Q ≠ 0 :=
  millerStep_ne_zero P Q hy _ 1 Q one_ne_zero

/-! ## `E(Fq)` has no point of order two -/

theorem q_sub_one_div_lt : (Gen.q - 1) / 3 < 2 ^ 4096 := by decide +kernel
theorem three_dvd_q_sub_one : 3 ∣ Gen.q - 1 := by decide +kernel

theorem neg_four_pow_fast : fastPow (-4 : Fq) ((Gen.q - 1) / 3) ≠ 1 := by decide +kernel

/-- `-4` is not a cube in `Fq`: `(-4)^((q-1)/3) ≠ 1` -/
theorem neg_four_not_cube (x : Fq) : x ^ 3 ≠ -4 := by
  intro h
  have hx : x ≠ 0 := by
    rintro rfl
    have : (4 : Fq) = 0 := by
      have : (-4 : Fq) = 0 := by rw [← h]; ring
      exact neg_eq_zero.mp this
    exact fq_four_ne_zero this
  have h1 : x ^ (Gen.q - 1) = 1 := by
    apply Zp.toZ_injective
    rw [Zp.toZ_pow, Zp.toZ_one]
    apply ZMod.pow_card_sub_one_eq_one
    intro h0
    exact hx (Zp.toZ_injective (by rw [h0, Zp.toZ_zero]))
  apply neg_four_pow_fast
  rw [fastPow_eq _ _ q_sub_one_div_lt, ← h, ← pow_mul, Nat.mul_div_cancel' three_dvd_q_sub_one, h1]

/-- a finite point of `E : y² = x³ + 4` over `Fq` has `y ≠ 0` -/
theorem g1_y_ne_zero {p : Aff Fq} (hp : Aff.OnCurve g1Codec.b p) (hpi : p.infinity = false) :
    p.y ≠ 0 := by
  intro hy
  rcases hp with h | h
  · rw [hpi] at h; cases h
  · rw [g1Codec_b, hy] at h
    exact neg_four_not_cube p.x (by linear_combination -h)

/-! ## the final exponentiation of `conj(c · m)`, `c` unitish -/

/-- the conjugate of a unitish factor is killed by the final exponentiation as well -/
theorem Unitish.fe_conjugate {c : Fq12} (hc : Unitish c) :
    finalExponentiation (Fq12.conjugate c) = some 1 := by
  have h1 : c ^ (3 * (Gen.q ^ 12 - 1) / Gen.r) = 1 :=
    Option.some.inj ((FinalExp.fe_spec hc.ne_zero).symm.trans hc.fe)
  have hne : Fq12.conjugate c ≠ 0 := fun h =>
    hc.ne_zero (by rw [← Fq12.conjugate_conjugate c, h, Fq12.conjugate_zero])
  rw [FinalExp.fe_spec hne]
  have : Fq12.conjugate c ^ (3 * (Gen.q ^ 12 - 1) / Gen.r) =
      Fq12.conjugate (c ^ (3 * (Gen.q ^ 12 - 1) / Gen.r)) :=
    (map_pow Fq12.conjugateEquiv c _).symm
  rw [this, h1, Fq12.conjugate_one]

/-- final exponentiation of `conj(c · m)`, `c` unitish: the factor disappears; failure exactly for
    `m = 0` -/
theorem fe_conjugate_unitish_mul {c : Fq12} (hc : Unitish c) (m : Fq12) :
    finalExponentiation (Fq12.conjugate (c * m)) =
      if m = 0 then none else some (Fq12.conjugate m ^ finalExponent) := by
  split
  · next h => rw [h, mul_zero, Fq12.conjugate_zero]; exact FinalExp.fe_zero
  · next h =>
    have hne : Fq12.conjugate m ≠ 0 := fun h0 =>
      h (by rw [← Fq12.conjugate_conjugate m, h0, Fq12.conjugate_zero])
    rw [Fq12.conjugate_mul, FinalExp.fe_mul_all, hc.fe_conjugate, FinalExp.fe_spec hne]
    simp [finalExponent]

end Lines
end PP
