/-
C16, homomorphism law of the 11-isogeny: the chord identity `chordE` on the rows 14 … 27 of the
56 × 56 grid (kernel computation, see `PP/Proofs/IsoHom11Eval.lean`).
-/
import PP.Proofs.IsoHom11Ast

namespace PP
namespace IsoHom11

theorem chord_rows_14_7 : rowsCheck defs chordE chordD 14 7 56 = true := by decide +kernel

theorem chord_rows_21_7 : rowsCheck defs chordE chordD 21 7 56 = true := by decide +kernel

theorem chord_rows_14_14 : rowsCheck defs chordE chordD 14 14 56 = true :=
  rowsCheck_add defs chordE chordD 14 7 7 56 chord_rows_14_7 chord_rows_21_7

end IsoHom11
end PP
