/-
The definitions REGENERATED from the Rust source by /verif/extract/extract_arith.py
(`PP/Gen/Arith.lean`, namespace `PP.Gen.A`, one `let` per Rust statement) are equal to the
hand-written model (`PP/Model/Tower.lean`, `Curve.lean`, `Map.lean`, `Pairing.lean`).

Proof method.  To keep each theorem LOCAL (an edit of Rust `Fq2::mul_assign` must break `Fq2_mul_eq`
and nothing else) and cheap, a proof first rewrites the calls of generated lower-layer functions into
the model's with the equalities already proved (`lower2`, `lower6`, `lower12`, `lowerEC`:
`simp -zeta only` with closed equations between constants, nothing else), and then compares the two
sides.  The hand model was written statement by statement, so on the code as it is the two sides are
the same term up to unfolding of `let`s and structure projections: `rfl`.

ROBUSTNESS against semantics-preserving rewrites of the Rust code (`gen_eq`, `gen_eq_ring` of
PP/Proofs/GenArithTactic.lean, which see).  Reordering independent statements, introducing or removing
temporaries, computing a subexpression twice leave the term the same up to `let`s: `rfl` still works.
ALGEBRAIC rewrites (`t1 + t0` for `t0 + t1`, `a.double()` for `a + a`, `mul_assign(&self)` for
`square()`, another association, a schoolbook product for a Karatsuba one, ...) change the term; there
the second alternative of `gen_eq` compares the two sides extensionally, componentwise, up to the
commutative-ring laws of the base field (core solver `grobner`; `Fq` and `Fq2` with the model's own
operations are `Lean.Grind.CommRing`s, proved in GenArithTactic.lean from `Nat` lemmas), after
identifying the conditions of `if`s / discriminants of `match`es of the two sides.  When it is used it
says so (`info: .. gen_eq: generated code is no longer syntactically the model ..`).  A change of the
MEANING (wrong sign, operand, constant, missing term) makes both alternatives fail, in a few seconds.

  robust (`gen_eq`):       every `Fq2`, `Fq6`, `Fq12` function with arithmetic (all but `zero one
                           is_zero`), incl. the three `inverse`s (a `match`); `doubling_step`,
                           `addition_step`, `ell`; `Fq2::legendre` (through `norm`)
  robust (`gen_eq_ring`):  the ADDITIONAL theorems `*_eq_of_ring` for the arithmetic-carrying functions
                           that are generic in the coefficient field (`is_on_curve`, `PartialEq::eq`,
                           `double`, `add_assign`, `add_assign_mixed`, `into_affine`, `get_point_from_x`,
                           `osswu_help`) over `[Lean.Grind.CommRing F] [LawfulSqDbl F]`, and their
                           instances `*_eq_Fq`, `*_eq_Fq2` (statement = the generic one at `F := Fq`, `Fq2`,
                           model's own operations).  They do not use the `rfl`-only generic theorems;
                           the theorems about the concrete G1 / G2 functions below use THEM.
                           For Mathlib's `[Field F] [LawfulFieldOps F]` (PP/Proofs/Lawful.lean) they give,
                           in any file that imports Mathlib (checked; not here: this file is core-only),
                             instance : LawfulSqDbl F := ⟨LawfulFieldOps.sq_eq, LawfulFieldOps.dbl_eq⟩
                             theorem Jac_double_eq_of_lawful : (A.Jac.double : Jac F → Jac F) = PP.Jac.double :=
                               Jac_double_eq_of_ring            -- Mathlib/Algebra/Ring/GrindInstances.lean
  `rfl` only, by necessity: the SAME functions as stated over bare notation classes `[Add F] [Mul F] ..
                           [FieldOps F]` (no laws: `x + y` and `y + x` are different there, the
                           statement is false after an algebraic rewrite); these statements are kept as
                           they were
  `rfl` only, no arithmetic of their own (constructors, `is_zero`, `negate`, conversions without
                           arithmetic, loops / trait plumbing that only call the functions above):
                           `zero one is_zero`, `sgn0`, `BitXor`, `negate_if`, `Ord::cmp`, `mul_bits`, `mul`,
                           `mul_assign` (scalar), `sub_assign*`, `in_subgroup`, `clear_h`, `map_to_curve`
  `rfl` only, NOT robust:  `Fq2::sqrt`, `exp_by_x`, `final_exponentiation` (products of `Fq12` / `Fq2`
                           values between calls of the generic `pow` loop, which is not a ring
                           expression: a commuted product there is not recognised), and `osswu_map` for
                           G1, G2 (concrete-field code with decidable branches, proved through
                           `derive_unfold`, see below)

Where the `match` on an inverse would make `whnf` unfold the whole tower (`Fq12.inverse`,
`final_exponentiation`) the lower-layer functions are moreover GENERALISED to variables, so that the
`rfl` is purely structural.  The two `negate`s have their branches the other way round in the model
(`if is_zero then p else ..` for the Rust `if !is_zero { .. }`): case split.

Loops.  `mul_bits`, `mul_assign` are `List.foldl`s in the generated code: `mul_bits` is literally the
model's fold; for `mul_assign` the step function is shown equal to one step of the model's recursive
`Jac.mulLoop` (induction on the bit list).  The two table searches of `osswu_map` for G2 are
`List.findSome?` in the generated code and the recursive `osswuG2Find` in the model: `loop_bridge`
(induction on the table).

Functions over the concrete fields that branch on decidable equalities (`osswu_map` for G1, G2,
`map_to_curve` on them) need care: see the comment before `G1_osswuMap_eq`.

Core Lean (plus `PP.Proofs.SswuUnfold`: `derive_unfold`, and `PP.Proofs.GenArithTactic`: `gen_eq`); no
Mathlib.  Axioms: `propext`, `Quot.sound` (via `simp`/`rw`/`funext`), `Classical.choice` (via `grind`'s
ring solver, in `GenArithTactic`) at most.
-/
import PP.Gen.Arith
import PP.Proofs.SswuUnfold
import PP.Proofs.GenArithTactic

set_option linter.unusedSimpArgs false

namespace PP.GenArithLemmas
open PP PP.Gen PP.GenArithTactic

/-! ## Fq2 (src/bls12_381/fq2.rs) -/

theorem Fq2_mulByNonresidue_eq : A.Fq2.mulByNonresidue = PP.Fq2.mulByNonresidue := by gen_eq A.Fq2.mulByNonresidue PP.Fq2.mulByNonresidue by skip
theorem Fq2_norm_eq : A.Fq2.norm = PP.Fq2.norm := by gen_eq A.Fq2.norm PP.Fq2.norm by skip
theorem Fq2_zero_eq : A.Fq2.zero = (0 : Fq2) := rfl
theorem Fq2_one_eq : A.Fq2.one = (1 : Fq2) := rfl
theorem Fq2_isZero_eq : A.Fq2.isZero = PP.Fq2.isZero := rfl
theorem Fq2_square_eq : A.Fq2.square = PP.Fq2.square := by gen_eq A.Fq2.square PP.Fq2.square by skip
theorem Fq2_double_eq : A.Fq2.double = PP.Fq2.double := by gen_eq A.Fq2.double PP.Fq2.double by skip
theorem Fq2_neg_eq : A.Fq2.neg = PP.Fq2.neg := by gen_eq A.Fq2.neg PP.Fq2.neg by skip
theorem Fq2_add_eq : A.Fq2.add = PP.Fq2.add := by gen_eq A.Fq2.add PP.Fq2.add by skip
theorem Fq2_sub_eq : A.Fq2.sub = PP.Fq2.sub := by gen_eq A.Fq2.sub PP.Fq2.sub by skip
theorem Fq2_mul_eq : A.Fq2.mul = PP.Fq2.mul := by gen_eq A.Fq2.mul PP.Fq2.mul by skip
theorem Fq2_inverse_eq : A.Fq2.inverse = PP.Fq2.inverse := by gen_eq A.Fq2.inverse PP.Fq2.inverse by skip
theorem Fq2_frobeniusMap_eq : A.Fq2.frobeniusMap = PP.Fq2.frobeniusMap := by gen_eq A.Fq2.frobeniusMap PP.Fq2.frobeniusMap by skip

/-- rewrite generated `Fq2` operations into the model's -/
local macro "lower2" : tactic => `(tactic| try simp -zeta only [Fq2_mulByNonresidue_eq, Fq2_norm_eq, Fq2_zero_eq, Fq2_one_eq, Fq2_isZero_eq, Fq2_square_eq, Fq2_double_eq, Fq2_neg_eq, Fq2_add_eq, Fq2_sub_eq, Fq2_mul_eq, Fq2_inverse_eq, Fq2_frobeniusMap_eq])

/-! ## Fq6 (src/bls12_381/fq6.rs) -/

theorem Fq6_mulByNonresidue_eq : A.Fq6.mulByNonresidue = PP.Fq6.mulByNonresidue := by gen_eq A.Fq6.mulByNonresidue PP.Fq6.mulByNonresidue by lower2
theorem Fq6_mulBy1_eq : A.Fq6.mulBy1 = PP.Fq6.mulBy1 := by gen_eq A.Fq6.mulBy1 PP.Fq6.mulBy1 by lower2
theorem Fq6_mulBy01_eq : A.Fq6.mulBy01 = PP.Fq6.mulBy01 := by gen_eq A.Fq6.mulBy01 PP.Fq6.mulBy01 by lower2
theorem Fq6_zero_eq : A.Fq6.zero = (0 : Fq6) := by unfold A.Fq6.zero; lower2; all_goals rfl
theorem Fq6_one_eq : A.Fq6.one = (1 : Fq6) := by unfold A.Fq6.one; lower2; all_goals rfl
theorem Fq6_isZero_eq : A.Fq6.isZero = PP.Fq6.isZero := by unfold A.Fq6.isZero; lower2; all_goals rfl
theorem Fq6_double_eq : A.Fq6.double = PP.Fq6.double := by gen_eq A.Fq6.double PP.Fq6.double by lower2
theorem Fq6_neg_eq : A.Fq6.neg = PP.Fq6.neg := by gen_eq A.Fq6.neg PP.Fq6.neg by lower2
theorem Fq6_add_eq : A.Fq6.add = PP.Fq6.add := by gen_eq A.Fq6.add PP.Fq6.add by lower2
theorem Fq6_sub_eq : A.Fq6.sub = PP.Fq6.sub := by gen_eq A.Fq6.sub PP.Fq6.sub by lower2
theorem Fq6_frobeniusMap_eq : A.Fq6.frobeniusMap = PP.Fq6.frobeniusMap := by gen_eq A.Fq6.frobeniusMap PP.Fq6.frobeniusMap by lower2
theorem Fq6_square_eq : A.Fq6.square = PP.Fq6.square := by gen_eq A.Fq6.square PP.Fq6.square by lower2
theorem Fq6_mul_eq : A.Fq6.mul = PP.Fq6.mul := by gen_eq A.Fq6.mul PP.Fq6.mul by lower2
theorem Fq6_inverse_eq : A.Fq6.inverse = PP.Fq6.inverse := by gen_eq A.Fq6.inverse PP.Fq6.inverse by lower2

/-- rewrite generated `Fq6` and `Fq2` operations into the model's -/
local macro "lower6" : tactic => `(tactic| try simp -zeta only [Fq6_mulByNonresidue_eq, Fq6_mulBy1_eq, Fq6_mulBy01_eq, Fq6_zero_eq, Fq6_one_eq, Fq6_isZero_eq, Fq6_double_eq, Fq6_neg_eq, Fq6_add_eq, Fq6_sub_eq, Fq6_frobeniusMap_eq, Fq6_square_eq, Fq6_mul_eq, Fq6_inverse_eq,
  Fq2_mulByNonresidue_eq, Fq2_norm_eq, Fq2_zero_eq, Fq2_one_eq, Fq2_isZero_eq, Fq2_square_eq, Fq2_double_eq, Fq2_neg_eq, Fq2_add_eq, Fq2_sub_eq, Fq2_mul_eq, Fq2_inverse_eq, Fq2_frobeniusMap_eq])

/-! ## Fq12 (src/bls12_381/fq12.rs) -/

theorem Fq12_conjugate_eq : A.Fq12.conjugate = PP.Fq12.conjugate := by gen_eq A.Fq12.conjugate PP.Fq12.conjugate by lower6
theorem Fq12_mulBy014_eq : A.Fq12.mulBy014 = PP.Fq12.mulBy014 := by gen_eq A.Fq12.mulBy014 PP.Fq12.mulBy014 by lower6
theorem Fq12_zero_eq : A.Fq12.zero = (0 : Fq12) := by unfold A.Fq12.zero; lower6; all_goals rfl
theorem Fq12_one_eq : A.Fq12.one = (1 : Fq12) := by unfold A.Fq12.one; lower6; all_goals rfl
theorem Fq12_isZero_eq : A.Fq12.isZero = PP.Fq12.isZero := by unfold A.Fq12.isZero; lower6; all_goals rfl
theorem Fq12_double_eq : A.Fq12.double = PP.Fq12.double := by gen_eq A.Fq12.double PP.Fq12.double by lower6
theorem Fq12_neg_eq : A.Fq12.neg = PP.Fq12.neg := by gen_eq A.Fq12.neg PP.Fq12.neg by lower6
theorem Fq12_add_eq : A.Fq12.add = PP.Fq12.add := by gen_eq A.Fq12.add PP.Fq12.add by lower6
theorem Fq12_sub_eq : A.Fq12.sub = PP.Fq12.sub := by gen_eq A.Fq12.sub PP.Fq12.sub by lower6
theorem Fq12_frobeniusMap_eq : A.Fq12.frobeniusMap = PP.Fq12.frobeniusMap := by gen_eq A.Fq12.frobeniusMap PP.Fq12.frobeniusMap by lower6
theorem Fq12_square_eq : A.Fq12.square = PP.Fq12.square := by gen_eq A.Fq12.square PP.Fq12.square by lower6
theorem Fq12_mul_eq : A.Fq12.mul = PP.Fq12.mul := by gen_eq A.Fq12.mul PP.Fq12.mul by lower6

theorem Fq12_inverse_eq : A.Fq12.inverse = PP.Fq12.inverse := by
  gen_eq A.Fq12.inverse PP.Fq12.inverse by lower6

/-- rewrite generated `Fq12`, `Fq6` and `Fq2` operations into the model's -/
local macro "lower12" : tactic => `(tactic| try simp -zeta only [Fq12_conjugate_eq, Fq12_mulBy014_eq, Fq12_zero_eq, Fq12_one_eq, Fq12_isZero_eq, Fq12_double_eq, Fq12_neg_eq, Fq12_add_eq, Fq12_sub_eq, Fq12_frobeniusMap_eq, Fq12_square_eq, Fq12_mul_eq, Fq12_inverse_eq,
  Fq6_mulByNonresidue_eq, Fq6_mulBy1_eq, Fq6_mulBy01_eq, Fq6_zero_eq, Fq6_one_eq, Fq6_isZero_eq, Fq6_double_eq, Fq6_neg_eq, Fq6_add_eq, Fq6_sub_eq, Fq6_frobeniusMap_eq, Fq6_square_eq, Fq6_mul_eq, Fq6_inverse_eq,
  Fq2_mulByNonresidue_eq, Fq2_norm_eq, Fq2_zero_eq, Fq2_one_eq, Fq2_isZero_eq, Fq2_square_eq, Fq2_double_eq, Fq2_neg_eq, Fq2_add_eq, Fq2_sub_eq, Fq2_mul_eq, Fq2_inverse_eq, Fq2_frobeniusMap_eq])

/-! the operation bundles handed to the generic `Field::pow` loop are the model's instances -/

theorem Fq2_instMul_eq : A.Fq2.instMul = (inferInstance : Mul Fq2) := congrArg Mul.mk Fq2_mul_eq
theorem Fq2_instOne_eq : A.Fq2.instOne = (inferInstance : One Fq2) := congrArg One.mk Fq2_one_eq
theorem Fq2_instFieldOps_eq : A.Fq2.instFieldOps = (inferInstance : FieldOps Fq2) := by
  unfold A.Fq2.instFieldOps; lower2; all_goals rfl
theorem Fq6_instMul_eq : A.Fq6.instMul = (inferInstance : Mul Fq6) := congrArg Mul.mk Fq6_mul_eq
theorem Fq6_instOne_eq : A.Fq6.instOne = (inferInstance : One Fq6) := congrArg One.mk Fq6_one_eq
theorem Fq6_instFieldOps_eq : A.Fq6.instFieldOps = (inferInstance : FieldOps Fq6) := by
  unfold A.Fq6.instFieldOps; lower6; all_goals rfl
theorem Fq12_instMul_eq : A.Fq12.instMul = (inferInstance : Mul Fq12) := congrArg Mul.mk Fq12_mul_eq
theorem Fq12_instOne_eq : A.Fq12.instOne = (inferInstance : One Fq12) := congrArg One.mk Fq12_one_eq
theorem Fq12_instFieldOps_eq : A.Fq12.instFieldOps = (inferInstance : FieldOps Fq12) := by
  unfold A.Fq12.instFieldOps; lower12; all_goals rfl

/-! ## `Signum0`, `Ord`, `SqrtField` for `Fq` / `Fq2` (src/bls12_381/fq.rs, src/signum.rs, src/bls12_381/fq2.rs) -/

/-- `self.into_repr().0[0] & 1 == 1` (lowest bit of the canonical representative) is translated as
    `self.v % 2 = 1`, which is how the model's `Zp.sgn0` states it -/
theorem Fq_sgn0_eq : A.Fq.sgn0 = (Zp.sgn0 : Fq → Sgn0) := rfl
theorem Sgn0_xor_eq : A.Sgn0.xor = PP.Sgn0.xor := rfl
theorem negateIf_eq {F : Type} [Neg F] : (A.negateIf : F → Sgn0 → F) = PP.negateIf := rfl
theorem Fq2_legendre_eq : A.Fq2.legendre = PP.Fq2.legendre := by unfold A.Fq2.legendre; rw [Fq2_norm_eq]; rfl
theorem Fq2_sgn0_eq : A.Fq2.sgn0 = PP.Fq2.sgn0 := by unfold A.Fq2.sgn0; rw [Fq_sgn0_eq]; rfl

/-- the two exponent literals of `Fq2::sqrt` are the limbs of the constants the model uses -/
theorem Fq2_sqrt_exp1 : [0xee7fbfffffffeaaa, 0x7aaffffac54ffff, 0xd9cc34a83dac3d89, 0xd91dd2e13ce144af,
    0x92c6e9ed90d2eb35, 0x680447a8e5ff9a6] = limbsOf 6 Gen.FQ2_SQRT_EXP1 := by decide +kernel
theorem Fq2_sqrt_exp2 : [0xdcff7fffffffd555, 0xf55ffff58a9ffff, 0xb39869507b587b12, 0xb23ba5c279c2895f,
    0x258dd3db21a5d66b, 0xd0088f51cbff34d] = limbsOf 6 Gen.FQ2_SQRT_EXP2 := by decide +kernel

theorem Fq2_sqrt_eq : A.Fq2.sqrt = PP.Fq2.sqrt := by
  funext a
  unfold A.Fq2.sqrt PP.Fq2.sqrt powNat
  rw [Fq2_sqrt_exp1, Fq2_sqrt_exp2, Fq2_instMul_eq, Fq2_instOne_eq, Fq2_instFieldOps_eq]
  lower2
  all_goals rfl

/-- `Ord for Fq2` returns an `Ordering`; the model has the derived `<` only (`Fq2.lt`).  The `cmp` of
    `Fq` (derive-generated, compares the canonical integers) is `compare a.v b.v` in the generated code. -/
theorem Fq2_cmp_lt (a b : Fq2) : PP.Fq2.lt a b = decide (A.Fq2.cmp a b = Ordering.lt) := by
  unfold A.Fq2.cmp PP.Fq2.lt
  rcases Nat.lt_trichotomy a.c1.v b.c1.v with h | h | h
  · have hc : compare a.c1.v b.c1.v = .lt := Nat.compare_eq_lt.mpr h
    have h' : ¬ a.c1.v > b.c1.v := Nat.lt_asymm h
    simp [hc, h, h']
  · have hc : compare a.c1.v b.c1.v = .eq := Nat.compare_eq_eq.mpr h
    simp [hc, h, Nat.compare_eq_lt]
  · have hc : compare a.c1.v b.c1.v = .gt := Nat.compare_eq_gt.mpr h
    simp [hc, h]

/-! ## `curve_impl!` (src/bls12_381/ec/mod.rs), generic in the coefficient field -/

section
set_option linter.unusedSectionVars false
variable {F : Type} [Add F] [Sub F] [Mul F] [Neg F] [Zero F] [One F] [FieldOps F] [DecidableEq F]

theorem Aff_zero_eq : (A.Aff.zero : Aff F) = PP.Aff.zero := rfl
/-- the model inlines `$affine::is_zero` as `.infinity` -/
theorem Aff_isZero_eq : (A.Aff.isZero : Aff F → Bool) = fun p => p.infinity := rfl
theorem Jac_zero_eq : (A.Jac.zero : Jac F) = PP.Jac.zero := rfl
theorem Jac_isZero_eq : (A.Jac.isZero : Jac F → Bool) = PP.Jac.isZero := rfl

/-- rewrite the generated `zero` / `is_zero` into the model's -/
local macro "lowerEC0" : tactic => `(tactic| try simp -zeta only [Aff_zero_eq, Aff_isZero_eq, Jac_zero_eq, Jac_isZero_eq])

theorem Aff_isOnCurve_eq : (A.Aff.isOnCurve : F → Aff F → Bool) = PP.Aff.isOnCurve := by
  unfold A.Aff.isOnCurve; lowerEC0; all_goals rfl
theorem Jac_isNormalized_eq : (A.Jac.isNormalized : Jac F → Bool) = PP.Jac.isNormalized := by
  unfold A.Jac.isNormalized; lowerEC0; all_goals rfl
theorem Jac_beq_eq : (A.Jac.beq : Jac F → Jac F → Bool) = PP.Jac.beq := by
  unfold A.Jac.beq; lowerEC0; all_goals rfl
theorem Jac_double_eq : (A.Jac.double : Jac F → Jac F) = PP.Jac.double := by
  unfold A.Jac.double; lowerEC0; all_goals rfl
theorem Jac_add_eq : (A.Jac.add : Jac F → Jac F → Jac F) = PP.Jac.add := by
  unfold A.Jac.add; lowerEC0; simp -zeta only [Jac_double_eq]; all_goals rfl
theorem Jac_addMixed_eq : (A.Jac.addMixed : Jac F → Aff F → Jac F) = PP.Jac.addMixed := by
  unfold A.Jac.addMixed; lowerEC0; simp -zeta only [Jac_double_eq]; all_goals rfl
theorem Aff_toJac_eq : (A.Aff.toJac : Aff F → Jac F) = PP.Aff.toJac := by
  unfold A.Aff.toJac; lowerEC0; all_goals rfl
theorem Jac_toAffine_eq : (A.Jac.toAffine : Jac F → Option (Aff F)) = PP.Jac.toAffine := by
  unfold A.Jac.toAffine; lowerEC0; all_goals rfl

/-- Rust: `if !self.is_zero() { self.y.negate(); }`; model: `if p.infinity then p else ⟨x, -y, false⟩` -/
theorem Aff_neg_eq : (A.Aff.neg : Aff F → Aff F) = PP.Aff.neg := by
  funext p
  obtain ⟨x, y, inf⟩ := p
  cases inf <;> rfl

/-- Rust: `if !self.is_zero() { self.y.negate() }`; model: `if p.isZero then p else ⟨x, -y, z⟩` -/
theorem Jac_neg_eq : (A.Jac.neg : Jac F → Jac F) = PP.Jac.neg := by
  funext p
  unfold A.Jac.neg PP.Jac.neg
  rw [Jac_isZero_eq]
  cases PP.Jac.isZero p <;> rfl

/-! scalar multiplication, subgroup test, `get_point_from_x`, `sub_assign` (the `for` loops are
    `List.foldl`s over the bit list in the generated code) -/

theorem Aff_mulBits_eq : (A.Aff.mulBits : Aff F → List Bool → Jac F) = PP.Aff.mulBits := by
  funext p bits
  unfold A.Aff.mulBits PP.Aff.mulBits
  simp -zeta only [Jac_zero_eq, Jac_double_eq, Jac_addMixed_eq]
  rfl

theorem Aff_mul_eq : (A.Aff.mul : Aff F → Nat → Jac F) = PP.Aff.mul := by
  unfold A.Aff.mul; simp -zeta only [Aff_mulBits_eq]; rfl

/-- one iteration of the loop of `mul_assign` is one step of the model's `Jac.mulLoop` -/
theorem Jac_mulLoop_foldl (p : Jac F) (bits : List Bool) (st : Jac F × Bool) :
    List.foldl (fun (st : Jac F × Bool) i =>
      ((if i then (if st.2 then st.1.double else st.1).add p else (if st.2 then st.1.double else st.1)),
       (if st.2 then st.2 else i))) st bits = PP.Jac.mulLoop p bits st := by
  induction bits generalizing st with
  | nil => rfl
  | cons i bs ih =>
    obtain ⟨res, found⟩ := st
    rw [List.foldl_cons, ih]
    cases found <;> cases i <;> rfl

theorem Jac_mulAssign_eq : (A.Jac.mulAssign : Jac F → Nat → Jac F) = PP.Jac.mulAssign := by
  funext p k
  unfold A.Jac.mulAssign PP.Jac.mulAssign
  simp -zeta only [Jac_zero_eq, Jac_double_eq, Jac_add_eq]
  rw [← Jac_mulLoop_foldl]
  show Prod.fst (List.foldl _ _ _) = Prod.fst (List.foldl _ _ _)
  congr 2
  funext st i
  obtain ⟨res, found⟩ := st
  cases found <;> cases i <;> rfl

/-- Rust `(y < negy) ^ greatest`, model `(lt y negy) != greatest` -/
theorem Aff_getPointFromX_eq [SqrtOps F] :
    (A.Aff.getPointFromX : F → F → Bool → Option (Aff F)) = PP.Aff.getPointFromX := by
  funext b x g
  unfold A.Aff.getPointFromX PP.Aff.getPointFromX
  simp only []
  cases SqrtOps.sqrt (sq x * x + b) with
  | none => rfl
  | some y => simp only []

/-- `$scalarfield::char()` is the leading parameter; at `Gen.r` this is the model's function -/
theorem Aff_isInCorrectSubgroupAssumingOnCurve_eq :
    (A.Aff.isInCorrectSubgroupAssumingOnCurve Gen.r : Aff F → Bool) = PP.Aff.inSubgroupAssumingOnCurve := by
  unfold A.Aff.isInCorrectSubgroupAssumingOnCurve; simp -zeta only [Aff_mul_eq, Jac_isZero_eq]; rfl

theorem Jac_sub_eq : (A.Jac.sub : Jac F → Jac F → Jac F) = PP.Jac.sub := by
  unfold A.Jac.sub; simp -zeta only [Jac_neg_eq, Jac_add_eq]; rfl
theorem Jac_subMixed_eq : (A.Jac.subMixed : Jac F → Aff F → Jac F) = PP.Jac.subMixed := by
  unfold A.Jac.subMixed; simp -zeta only [Aff_neg_eq, Jac_addMixed_eq]; rfl

/-! ## `osswu_help` (src/bls12_381/osswu_map/mod.rs) -/

theorem osswuHelp_eq : (A.osswuHelp : F → F → F → F → OsswuHelp F) = PP.osswuHelp := rfl

end

/-! ## the same over a coefficient RING with laws: robust against algebraic rewrites of the Rust source

The statements above are over bare notation classes (`[Add F] [Mul F] .. [FieldOps F]`, no laws): there
`x + y` and `y + x` ARE different, the generated definition and the model are equal only if they are
the same term up to `let`s and projections, and `rfl` is all one can do.  Over a coefficient type with
ring laws (`Lean.Grind.CommRing`, a core class) and `sq a = a * a`, `dbl a = a + a` (`LawfulSqDbl`) the
functions that contain field arithmetic are proved equal by `gen_eq_ring` (`_of_ring`), hence also
after a semantics-preserving rewrite of the Rust formulas.  `_Fq`, `_Fq2` are the instances for the
model's own fields (no primality needed).  Every Mathlib `[Field F] [LawfulFieldOps F]` is an instance
as well (Mathlib/Algebra/Ring/GrindInstances.lean), see the end of this file's header.
These theorems do NOT use the `rfl`-only ones above. -/

section
set_option linter.unusedSectionVars false
variable {F : Type} [Lean.Grind.CommRing F] [FieldOps F] [LawfulSqDbl F] [DecidableEq F]

local macro "lowerEC0" : tactic => `(tactic| try simp -zeta only [Aff_zero_eq, Aff_isZero_eq, Jac_zero_eq, Jac_isZero_eq])

theorem Aff_isOnCurve_eq_of_ring : (A.Aff.isOnCurve : F → Aff F → Bool) = PP.Aff.isOnCurve := by
  gen_eq_ring A.Aff.isOnCurve PP.Aff.isOnCurve by lowerEC0
theorem Jac_beq_eq_of_ring : (A.Jac.beq : Jac F → Jac F → Bool) = PP.Jac.beq := by
  gen_eq_ring A.Jac.beq PP.Jac.beq by lowerEC0
theorem Jac_double_eq_of_ring : (A.Jac.double : Jac F → Jac F) = PP.Jac.double := by
  gen_eq_ring A.Jac.double PP.Jac.double by lowerEC0
theorem Jac_add_eq_of_ring : (A.Jac.add : Jac F → Jac F → Jac F) = PP.Jac.add := by
  gen_eq_ring A.Jac.add PP.Jac.add by (lowerEC0; simp -zeta only [Jac_double_eq_of_ring])
theorem Jac_addMixed_eq_of_ring : (A.Jac.addMixed : Jac F → Aff F → Jac F) = PP.Jac.addMixed := by
  gen_eq_ring A.Jac.addMixed PP.Jac.addMixed by (lowerEC0; simp -zeta only [Jac_double_eq_of_ring])
theorem Jac_toAffine_eq_of_ring : (A.Jac.toAffine : Jac F → Option (Aff F)) = PP.Jac.toAffine := by
  gen_eq_ring A.Jac.toAffine PP.Jac.toAffine by lowerEC0
theorem osswuHelp_eq_of_ring : (A.osswuHelp : F → F → F → F → OsswuHelp F) = PP.osswuHelp := by
  gen_eq_ring A.osswuHelp PP.osswuHelp by skip

/-- Rust `(y < negy) ^ greatest`, model `(lt y negy) != greatest`; the argument of `sqrt` up to ring laws -/
theorem Aff_getPointFromX_eq_of_ring [SqrtOps F] :
    (A.Aff.getPointFromX : F → F → Bool → Option (Aff F)) = PP.Aff.getPointFromX := by
  funext b x g
  unfold A.Aff.getPointFromX PP.Aff.getPointFromX
  simp only []
  first
  | (cases SqrtOps.sqrt (sq x * x + b) with
     | none => rfl
     | some y => simp only [])
  | (simp only [sq_eq]; gen_split; all_goals (first | done | rfl | simp only []))

end

/-! the instances for the model's fields -/

theorem Aff_isOnCurve_eq_Fq : (A.Aff.isOnCurve : Fq → Aff Fq → Bool) = PP.Aff.isOnCurve := Aff_isOnCurve_eq_of_ring
theorem Jac_beq_eq_Fq : (A.Jac.beq : Jac Fq → Jac Fq → Bool) = PP.Jac.beq := Jac_beq_eq_of_ring
theorem Jac_double_eq_Fq : (A.Jac.double : Jac Fq → Jac Fq) = PP.Jac.double := Jac_double_eq_of_ring
theorem Jac_add_eq_Fq : (A.Jac.add : Jac Fq → Jac Fq → Jac Fq) = PP.Jac.add := Jac_add_eq_of_ring
theorem Jac_addMixed_eq_Fq : (A.Jac.addMixed : Jac Fq → Aff Fq → Jac Fq) = PP.Jac.addMixed := Jac_addMixed_eq_of_ring
theorem Jac_toAffine_eq_Fq : (A.Jac.toAffine : Jac Fq → Option (Aff Fq)) = PP.Jac.toAffine := Jac_toAffine_eq_of_ring
theorem osswuHelp_eq_Fq : (A.osswuHelp : Fq → Fq → Fq → Fq → OsswuHelp Fq) = PP.osswuHelp := osswuHelp_eq_of_ring
theorem Aff_getPointFromX_eq_Fq :
    (A.Aff.getPointFromX : Fq → Fq → Bool → Option (Aff Fq)) = PP.Aff.getPointFromX := Aff_getPointFromX_eq_of_ring

theorem Aff_isOnCurve_eq_Fq2 : (A.Aff.isOnCurve : Fq2 → Aff Fq2 → Bool) = PP.Aff.isOnCurve := Aff_isOnCurve_eq_of_ring
theorem Jac_beq_eq_Fq2 : (A.Jac.beq : Jac Fq2 → Jac Fq2 → Bool) = PP.Jac.beq := Jac_beq_eq_of_ring
theorem Jac_double_eq_Fq2 : (A.Jac.double : Jac Fq2 → Jac Fq2) = PP.Jac.double := Jac_double_eq_of_ring
theorem Jac_add_eq_Fq2 : (A.Jac.add : Jac Fq2 → Jac Fq2 → Jac Fq2) = PP.Jac.add := Jac_add_eq_of_ring
theorem Jac_addMixed_eq_Fq2 : (A.Jac.addMixed : Jac Fq2 → Aff Fq2 → Jac Fq2) = PP.Jac.addMixed := Jac_addMixed_eq_of_ring
theorem Jac_toAffine_eq_Fq2 : (A.Jac.toAffine : Jac Fq2 → Option (Aff Fq2)) = PP.Jac.toAffine := Jac_toAffine_eq_of_ring
theorem osswuHelp_eq_Fq2 : (A.osswuHelp : Fq2 → Fq2 → Fq2 → Fq2 → OsswuHelp Fq2) = PP.osswuHelp := osswuHelp_eq_of_ring
theorem Aff_getPointFromX_eq_Fq2 :
    (A.Aff.getPointFromX : Fq2 → Fq2 → Bool → Option (Aff Fq2)) = PP.Aff.getPointFromX := Aff_getPointFromX_eq_of_ring

/-! ## `SubgroupCheck`, optimized SWU maps, cofactor clearing, `map_to_curve`
    (ec/g1.rs, ec/g2.rs, osswu_map/g1.rs, osswu_map/g2.rs, cofactor.rs, src/map_to_curve.rs) -/

theorem Fq2_instAdd_eq : A.Fq2.instAdd = (inferInstance : Add Fq2) := congrArg Add.mk Fq2_add_eq
theorem Fq2_instSub_eq : A.Fq2.instSub = (inferInstance : Sub Fq2) := congrArg Sub.mk Fq2_sub_eq
theorem Fq2_instNeg_eq : A.Fq2.instNeg = (inferInstance : Neg Fq2) := congrArg Neg.mk Fq2_neg_eq
theorem Fq2_instZero_eq : A.Fq2.instZero = (inferInstance : Zero Fq2) := congrArg Zero.mk Fq2_zero_eq

/-- the same with the model's instance CONSTANTS on the right (no `inferInstance` wrapper): a `rewrite`
    with these leaves terms that are syntactically those of the model -/
theorem Fq2_instAdd_eq' : A.Fq2.instAdd = PP.Fq2.instAdd := Fq2_instAdd_eq
theorem Fq2_instSub_eq' : A.Fq2.instSub = PP.Fq2.instSub := Fq2_instSub_eq
theorem Fq2_instMul_eq' : A.Fq2.instMul = PP.Fq2.instMul := Fq2_instMul_eq
theorem Fq2_instNeg_eq' : A.Fq2.instNeg = PP.Fq2.instNeg := Fq2_instNeg_eq
theorem Fq2_instZero_eq' : A.Fq2.instZero = PP.Fq2.instZero := Fq2_instZero_eq
theorem Fq2_instOne_eq' : A.Fq2.instOne = PP.Fq2.instOne := Fq2_instOne_eq
theorem Fq2_instFieldOps_eq' : A.Fq2.instFieldOps = PP.Fq2.instFieldOps := Fq2_instFieldOps_eq

/-- the generated `Fq2` operation bundles (local instances of the generic code applied at `Fq2`) are
    the model's instances -/
local macro "lowerInst2" : tactic => `(tactic| (
  (try rewrite [Fq2_instAdd_eq']); (try rewrite [Fq2_instSub_eq']); (try rewrite [Fq2_instMul_eq'])
  (try rewrite [Fq2_instNeg_eq']); (try rewrite [Fq2_instZero_eq']); (try rewrite [Fq2_instOne_eq'])
  (try rewrite [Fq2_instFieldOps_eq'])))

theorem G1Affine_inSubgroup_eq (b : Fq) : A.G1Affine.inSubgroup b Gen.r = PP.Aff.inSubgroup b := by
  unfold A.G1Affine.inSubgroup; simp -zeta only [Aff_isOnCurve_eq_Fq, Aff_isInCorrectSubgroupAssumingOnCurve_eq]; all_goals rfl

theorem G2Affine_inSubgroup_eq (b : Fq2) : A.G2Affine.inSubgroup b Gen.r = PP.Aff.inSubgroup b := by
  unfold A.G2Affine.inSubgroup; lowerInst2
  simp -zeta only [Aff_isOnCurve_eq_Fq2, Aff_isInCorrectSubgroupAssumingOnCurve_eq]; all_goals rfl

theorem G1_clearH_eq : A.G1.clearH = PP.clearHG1 := by
  unfold A.G1.clearH; simp -zeta only [Jac_add_eq_Fq]; all_goals rfl

theorem G2_clearH_eq : A.G2.clearH = PP.clearHG2 := by
  unfold A.G2.clearH; lowerInst2; all_goals rfl

/-! `osswu_map` for G1 and G2.  These are functions over the CONCRETE fields whose bodies branch on
    decidable equalities: any definitional unfolding that makes the kernel (or `Meta.whnf`) look at an
    `if` or a matcher discriminant starts evaluating `Fq` arithmetic on symbolic input and does not
    terminate in practice (see PP/Proofs/SswuUnfold.lean).  Hence: unfold both sides with
    `derive_unfold` (an `Eq.refl` at the level of the constants), replace the generated lower-layer
    operations by the model's with `rewrite` (closed equations between constants, no `rfl` attempt),
    generalise what could be evaluated, and compare structurally in an auxiliary lemma. -/

open PP.Sswu in
derive_unfold PP.Gen.A.G1.osswuMap as G1_osswuMap_unfold

theorem G1_osswuMap_eq : A.G1.osswuMap = PP.osswuG1 := by
  funext u
  refine (G1_osswuMap_unfold u).trans (Eq.trans ?_ (Sswu.osswuG1_unfold u).symm)
  rewrite [osswuHelp_eq, Fq_sgn0_eq, Sgn0_xor_eq, negateIf_eq,
    show Fq.ofMont Gen.G1_XI = g1Xi from rfl, show Fq.ofMont Gen.G1_ELLP_A = g1EllpA from rfl,
    show Fq.ofMont Gen.G1_ELLP_B = g1EllpB from rfl, show Fq.ofMont Gen.G1_SQRT_M_XI_CUBED = g1SqrtMXiCubed from rfl]
  generalize osswuHelp u g1Xi g1EllpA g1EllpB = h
  generalize g1SqrtMXiCubed = κ
  as_aux_lemma => rfl

open PP.Sswu in
derive_unfold PP.Gen.A.G2.osswuMap as G2_osswuMap_unfold

/-- The two `for root in &TABLE[..] { ..; if c { ..; return V; } }` loops of `osswu_map` for G2 are
    `match List.findSome? (fun root => .. if c then some V else none) TABLE with | some ret => some ret | none => rest`
    in the generated code; the model searches with `osswuG2Find` (which returns the multiplied
    candidate) and post-processes the hit in the `some` branch of its own `match`.  All matcher arguments
    are variables here, so that applying the lemma is a first-order, syntactic instantiation. -/
theorem loop_bridge (f : Fq2 → Option (Jac Fq2)) (c d n : Fq2) (l : List Fq2)
    (kR : Fq2 → Option (Jac Fq2)) (RL RR : Unit → Option (Jac Fq2))
    (hf : ∀ m, f m = if sq (m * c) * d = n then kR (m * c) else none)
    (hk : ∀ y, ∃ v, kR y = some v) (hR : RL () = RR ()) :
    A.G2.osswuMap.match_1 (fun _ => Option (Jac Fq2)) (l.findSome? f) (fun ret => some ret) RL
    = osswuG2.match_1 (fun _ => Option (Jac Fq2)) (osswuG2Find c d n l) kR RR := by
  induction l with
  | nil => exact hR
  | cons m ms ih =>
    rw [List.findSome?_cons, hf m]
    unfold osswuG2Find
    by_cases hc : sq (m * c) * d = n
    · obtain ⟨v, hv⟩ := hk (m * c)
      simp only [hc, if_true, hv]
    · simp only [hc, if_false]
      exact ih

theorem G2_osswuMap_eq : A.G2.osswuMap = PP.osswuG2 := by
  funext u
  refine (G2_osswuMap_unfold u).trans (Eq.trans ?_ (Sswu.osswuG2_unfold u).symm)
  lowerInst2
  rewrite [osswuHelp_eq, Fq2_sgn0_eq, Sgn0_xor_eq, negateIf_eq, Fq2_mul_eq, Fq2_square_eq,
    show Fq2.ofMont Gen.G2_XI = g2Xi from rfl, show Fq2.ofMont Gen.G2_ELLP_A = g2EllpA from rfl,
    show Fq2.ofMont Gen.G2_ELLP_B = g2EllpB from rfl,
    show Gen.G2_ROOTS_OF_UNITY.map Fq2.ofMont = g2RootsOfUnity from rfl, show Gen.G2_ETAS.map Fq2.ofMont = g2Etas from rfl]
  generalize osswuHelp u g2Xi g2EllpA g2EllpB = h
  generalize g2RootsOfUnity = roots
  generalize g2Etas = etas
  refine loop_bridge _ _ _ _ _ _ _ _ ?hf1 ?hk1 ?hR
  case hf1 => intro m; rfl
  case hk1 => exact fun y => ⟨_, rfl⟩
  case hR =>
    refine loop_bridge _ _ _ _ _ _ _ _ ?hf2 ?hk2 rfl
    case hf2 => intro m; rfl
    case hk2 => exact fun y => ⟨_, rfl⟩

/-! `map_to_curve`, `map2_to_curve` (src/map_to_curve.rs) are generic over the traits `OSSWUMap +
    IsogenyMap + ClearH` (and `CurveProjective::add_assign`): the generated definitions take the trait
    methods as parameters; `osswu_map` is Option-valued (`none` = panic; the G1 map never panics).
    Instantiated with the methods of G1 / G2 they are the model's functions.  The isogeny
    (`eval_iso`) is not translated: the model's `iso11` / `iso3` stand for `isogeny_map`. -/

theorem mapToCurve_G1_eq :
    A.mapToCurve (osswu_map := fun u => some (A.G1.osswuMap u)) (isogeny_map := PP.iso11) (clear_h := A.G1.clearH)
      = fun u => some (PP.mapToCurveG1 u) := by
  rw [G1_osswuMap_eq, G1_clearH_eq]; rfl

theorem map2ToCurve_G1_eq :
    A.map2ToCurve (osswu_map := fun u => some (A.G1.osswuMap u)) (isogeny_map := PP.iso11)
        (add_assign := A.Jac.add) (clear_h := A.G1.clearH)
      = fun u0 u1 => some (PP.map2ToCurveG1 u0 u1) := by
  rw [G1_osswuMap_eq, G1_clearH_eq, Jac_add_eq_Fq]; rfl

/-- for abstract trait methods (nothing to evaluate) -/
theorem mapToCurve_map {α β : Type} (osswu : α → Option β) (iso clear : β → β) (u : α) :
    A.mapToCurve (osswu_map := osswu) (isogeny_map := iso) (clear_h := clear) u
      = (osswu u).map (fun p => clear (iso p)) := by
  unfold A.mapToCurve; cases osswu u <;> rfl

theorem map2ToCurve_bind {α β : Type} (osswu : α → Option β) (iso clear : β → β) (add : β → β → β) (u0 u1 : α) :
    A.map2ToCurve (osswu_map := osswu) (isogeny_map := iso) (add_assign := add) (clear_h := clear) u0 u1
      = (osswu u0).bind (fun p0 => (osswu u1).bind (fun p1 => some (clear (add (iso p0) (iso p1))))) := by
  unfold A.map2ToCurve; cases osswu u0 <;> cases osswu u1 <;> rfl

theorem mapToCurve_G2_eq :
    A.mapToCurve (osswu_map := A.G2.osswuMap) (isogeny_map := PP.iso3) (clear_h := A.G2.clearH) = PP.mapToCurveG2 := by
  rw [G2_osswuMap_eq, G2_clearH_eq]
  funext u
  exact mapToCurve_map _ _ _ _

theorem map2ToCurve_G2_eq :
    A.map2ToCurve (osswu_map := A.G2.osswuMap) (isogeny_map := PP.iso3) (add_assign := A.Jac.add)
        (clear_h := A.G2.clearH) = PP.map2ToCurveG2 := by
  rw [G2_osswuMap_eq, G2_clearH_eq, Jac_add_eq_Fq2]
  funext u0 u1
  exact map2ToCurve_bind _ _ _ _ _ _

/-! ## pairing (src/bls12_381/mod.rs) -/

theorem doublingStep_eq : A.doublingStep = PP.doublingStep := by gen_eq A.doublingStep PP.doublingStep by lower2
theorem additionStep_eq : A.additionStep = PP.additionStep := by gen_eq A.additionStep PP.additionStep by lower2
theorem ell_eq : A.ell = PP.ell := by gen_eq A.ell PP.ell by lower12

/-- the Rust parameter `x : u64` is a `UInt64` in the generated code and a `Nat` reduced mod `2^64`
    in the model -/
theorem expByX_eq : A.expByX = fun f x => PP.expByX f x.toNat := by
  funext f x
  unfold A.expByX PP.expByX
  rw [Fq12_instMul_eq, Fq12_instOne_eq, Fq12_instFieldOps_eq, Fq12_conjugate_eq,
    Nat.mod_eq_of_lt x.toNat_lt]

theorem finalExponentiation_eq : A.finalExponentiation = PP.finalExponentiation := by
  unfold A.finalExponentiation PP.finalExponentiation
  rw [Fq12_conjugate_eq, Fq12_inverse_eq, Fq12_mul_eq, Fq12_frobeniusMap_eq, Fq12_square_eq, expByX_eq,
    show @FieldOps.inv Fq12 _ = PP.Fq12.inverse from rfl,
    show @FieldOps.frob Fq12 _ = PP.Fq12.frobeniusMap from rfl,
    show @FieldOps.sq Fq12 _ = PP.Fq12.square from rfl,
    show @HMul.hMul Fq12 Fq12 Fq12 _ = PP.Fq12.mul from rfl]
  generalize PP.Fq12.inverse = inv12
  generalize PP.Fq12.mul = mul12
  generalize PP.Fq12.square = sq12
  generalize PP.Fq12.frobeniusMap = frob12
  generalize PP.Fq12.conjugate = conj12
  generalize PP.expByX = ebx
  rfl

end PP.GenArithLemmas
