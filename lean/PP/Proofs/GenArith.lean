/-
The definitions REGENERATED from the Rust source by /verif/extract/extract_arith.py
(`PP/Gen/Arith.lean`, namespace `PP.Gen.A`, one `let` per Rust statement) are equal to the
hand-written model (`PP/Model/Tower.lean`, `Curve.lean`, `Map.lean`, `Pairing.lean`).

Proof method.  The hand model was written statement by statement, so every equality is `rfl` up to
unfolding of the definition, `let`, and structure projections.  To keep each theorem LOCAL (an edit
of Rust `Fq2::mul_assign` must break `Fq2_mul_eq` and nothing else) and cheap, a proof first
rewrites the calls of generated lower-layer functions into the model's with the equalities already
proved (`lower2`, `lower6`, `lower12`, `lowerEC`: `simp -zeta only` with closed equations between
constants, nothing else), and only then compares by `rfl`.  Where the `match` on an inverse would
make `whnf` unfold the whole tower (`Fq12.inverse`, `final_exponentiation`) the lower-layer
functions are moreover GENERALISED to variables, so that the `rfl` is purely structural.  The two
`negate`s have their branches the other way round in the model (`if is_zero then p else ..` for the
Rust `if !is_zero { .. }`): case split.

Core Lean only; axioms: `propext`, `Quot.sound` (via `simp`/`rw`/`funext`) at most.
-/
import PP.Gen.Arith

set_option linter.unusedSimpArgs false

namespace PP.GenArithLemmas
open PP PP.Gen

/-! ## Fq2 (src/bls12_381/fq2.rs) -/

theorem Fq2_mulByNonresidue_eq : A.Fq2.mulByNonresidue = PP.Fq2.mulByNonresidue := rfl
theorem Fq2_norm_eq : A.Fq2.norm = PP.Fq2.norm := rfl
theorem Fq2_zero_eq : A.Fq2.zero = (0 : Fq2) := rfl
theorem Fq2_one_eq : A.Fq2.one = (1 : Fq2) := rfl
theorem Fq2_isZero_eq : A.Fq2.isZero = PP.Fq2.isZero := rfl
theorem Fq2_square_eq : A.Fq2.square = PP.Fq2.square := rfl
theorem Fq2_double_eq : A.Fq2.double = PP.Fq2.double := rfl
theorem Fq2_neg_eq : A.Fq2.neg = PP.Fq2.neg := rfl
theorem Fq2_add_eq : A.Fq2.add = PP.Fq2.add := rfl
theorem Fq2_sub_eq : A.Fq2.sub = PP.Fq2.sub := rfl
theorem Fq2_mul_eq : A.Fq2.mul = PP.Fq2.mul := rfl
theorem Fq2_inverse_eq : A.Fq2.inverse = PP.Fq2.inverse := rfl
theorem Fq2_frobeniusMap_eq : A.Fq2.frobeniusMap = PP.Fq2.frobeniusMap := rfl

/-- rewrite generated `Fq2` operations into the model's -/
local macro "lower2" : tactic => `(tactic| try simp -zeta only [Fq2_mulByNonresidue_eq, Fq2_norm_eq, Fq2_zero_eq, Fq2_one_eq, Fq2_isZero_eq, Fq2_square_eq, Fq2_double_eq, Fq2_neg_eq, Fq2_add_eq, Fq2_sub_eq, Fq2_mul_eq, Fq2_inverse_eq, Fq2_frobeniusMap_eq])

/-! ## Fq6 (src/bls12_381/fq6.rs) -/

theorem Fq6_mulByNonresidue_eq : A.Fq6.mulByNonresidue = PP.Fq6.mulByNonresidue := by unfold A.Fq6.mulByNonresidue; lower2; all_goals rfl
theorem Fq6_mulBy1_eq : A.Fq6.mulBy1 = PP.Fq6.mulBy1 := by unfold A.Fq6.mulBy1; lower2; all_goals rfl
theorem Fq6_mulBy01_eq : A.Fq6.mulBy01 = PP.Fq6.mulBy01 := by unfold A.Fq6.mulBy01; lower2; all_goals rfl
theorem Fq6_zero_eq : A.Fq6.zero = (0 : Fq6) := by unfold A.Fq6.zero; lower2; all_goals rfl
theorem Fq6_one_eq : A.Fq6.one = (1 : Fq6) := by unfold A.Fq6.one; lower2; all_goals rfl
theorem Fq6_isZero_eq : A.Fq6.isZero = PP.Fq6.isZero := by unfold A.Fq6.isZero; lower2; all_goals rfl
theorem Fq6_double_eq : A.Fq6.double = PP.Fq6.double := by unfold A.Fq6.double; lower2; all_goals rfl
theorem Fq6_neg_eq : A.Fq6.neg = PP.Fq6.neg := by unfold A.Fq6.neg; lower2; all_goals rfl
theorem Fq6_add_eq : A.Fq6.add = PP.Fq6.add := by unfold A.Fq6.add; lower2; all_goals rfl
theorem Fq6_sub_eq : A.Fq6.sub = PP.Fq6.sub := by unfold A.Fq6.sub; lower2; all_goals rfl
theorem Fq6_frobeniusMap_eq : A.Fq6.frobeniusMap = PP.Fq6.frobeniusMap := by unfold A.Fq6.frobeniusMap; lower2; all_goals rfl
theorem Fq6_square_eq : A.Fq6.square = PP.Fq6.square := by unfold A.Fq6.square; lower2; all_goals rfl
theorem Fq6_mul_eq : A.Fq6.mul = PP.Fq6.mul := by unfold A.Fq6.mul; lower2; all_goals rfl
theorem Fq6_inverse_eq : A.Fq6.inverse = PP.Fq6.inverse := by unfold A.Fq6.inverse; lower2; all_goals rfl

/-- rewrite generated `Fq6` and `Fq2` operations into the model's -/
local macro "lower6" : tactic => `(tactic| try simp -zeta only [Fq6_mulByNonresidue_eq, Fq6_mulBy1_eq, Fq6_mulBy01_eq, Fq6_zero_eq, Fq6_one_eq, Fq6_isZero_eq, Fq6_double_eq, Fq6_neg_eq, Fq6_add_eq, Fq6_sub_eq, Fq6_frobeniusMap_eq, Fq6_square_eq, Fq6_mul_eq, Fq6_inverse_eq,
  Fq2_mulByNonresidue_eq, Fq2_norm_eq, Fq2_zero_eq, Fq2_one_eq, Fq2_isZero_eq, Fq2_square_eq, Fq2_double_eq, Fq2_neg_eq, Fq2_add_eq, Fq2_sub_eq, Fq2_mul_eq, Fq2_inverse_eq, Fq2_frobeniusMap_eq])

/-! ## Fq12 (src/bls12_381/fq12.rs) -/

theorem Fq12_conjugate_eq : A.Fq12.conjugate = PP.Fq12.conjugate := by unfold A.Fq12.conjugate; lower6; all_goals rfl
theorem Fq12_mulBy014_eq : A.Fq12.mulBy014 = PP.Fq12.mulBy014 := by unfold A.Fq12.mulBy014; lower6; all_goals rfl
theorem Fq12_zero_eq : A.Fq12.zero = (0 : Fq12) := by unfold A.Fq12.zero; lower6; all_goals rfl
theorem Fq12_one_eq : A.Fq12.one = (1 : Fq12) := by unfold A.Fq12.one; lower6; all_goals rfl
theorem Fq12_isZero_eq : A.Fq12.isZero = PP.Fq12.isZero := by unfold A.Fq12.isZero; lower6; all_goals rfl
theorem Fq12_double_eq : A.Fq12.double = PP.Fq12.double := by unfold A.Fq12.double; lower6; all_goals rfl
theorem Fq12_neg_eq : A.Fq12.neg = PP.Fq12.neg := by unfold A.Fq12.neg; lower6; all_goals rfl
theorem Fq12_add_eq : A.Fq12.add = PP.Fq12.add := by unfold A.Fq12.add; lower6; all_goals rfl
theorem Fq12_sub_eq : A.Fq12.sub = PP.Fq12.sub := by unfold A.Fq12.sub; lower6; all_goals rfl
theorem Fq12_frobeniusMap_eq : A.Fq12.frobeniusMap = PP.Fq12.frobeniusMap := by unfold A.Fq12.frobeniusMap; lower6; all_goals rfl
theorem Fq12_square_eq : A.Fq12.square = PP.Fq12.square := by unfold A.Fq12.square; lower6; all_goals rfl
theorem Fq12_mul_eq : A.Fq12.mul = PP.Fq12.mul := by unfold A.Fq12.mul; lower6; all_goals rfl

theorem Fq12_inverse_eq : A.Fq12.inverse = PP.Fq12.inverse := by
  unfold A.Fq12.inverse PP.Fq12.inverse
  lower6
  rw [show @FieldOps.inv Fq6 _ = PP.Fq6.inverse from rfl]
  generalize PP.Fq6.inverse = inv6
  rfl

/-- rewrite generated `Fq12`, `Fq6` and `Fq2` operations into the model's -/
local macro "lower12" : tactic => `(tactic| try simp -zeta only [Fq12_conjugate_eq, Fq12_mulBy014_eq, Fq12_zero_eq, Fq12_one_eq, Fq12_isZero_eq, Fq12_double_eq, Fq12_neg_eq, Fq12_add_eq, Fq12_sub_eq, Fq12_frobeniusMap_eq, Fq12_square_eq, Fq12_mul_eq, Fq12_inverse_eq,
  Fq6_mulByNonresidue_eq, Fq6_mulBy1_eq, Fq6_mulBy01_eq, Fq6_zero_eq, Fq6_one_eq, Fq6_isZero_eq, Fq6_double_eq, Fq6_neg_eq, Fq6_add_eq, Fq6_sub_eq, Fq6_frobeniusMap_eq, Fq6_square_eq, Fq6_mul_eq, Fq6_inverse_eq,
  Fq2_mulByNonresidue_eq, Fq2_norm_eq, Fq2_zero_eq, Fq2_one_eq, Fq2_isZero_eq, Fq2_square_eq, Fq2_double_eq, Fq2_neg_eq, Fq2_add_eq, Fq2_sub_eq, Fq2_mul_eq, Fq2_inverse_eq, Fq2_frobeniusMap_eq])

/-! the operation bundles handed to the generic `Field::pow` loop are the model's instances -/

theorem Fq2_instMul_eq : A.Fq2.instMul = (inferInstance : Mul Fq2) := congrArg Mul.mk Fq2_mul_eq
theorem Fq2_instOne_eq : A.Fq2.instOne = (inferInstance : One Fq2) := congrArg One.mk Fq2_one_eq
theorem Fq2_instFieldOps_eq : A.Fq2.instFieldOps = (inferInstance : FieldOps Fq2) := by
  unfold A.Fq2.instFieldOps; lower2; all_goals rfl
theorem Fq6_instMul_eq : A.Fq6.instMul = (inferInstance : Mul Fq6) := congrArg Mul.mk Fq6_mul_eq
theorem Fq6_instOne_eq : A.Fq6.instOne = (inferInstance : One Fq6) := congrArg One.mk Fq6_one_eq
theorem Fq6_instFieldOps_eq : A.Fq6.instFieldOps = (inferInstance : FieldOps Fq6) := by
  unfold A.Fq6.instFieldOps; lower6; all_goals rfl
theorem Fq12_instMul_eq : A.Fq12.instMul = (inferInstance : Mul Fq12) := congrArg Mul.mk Fq12_mul_eq
theorem Fq12_instOne_eq : A.Fq12.instOne = (inferInstance : One Fq12) := congrArg One.mk Fq12_one_eq
theorem Fq12_instFieldOps_eq : A.Fq12.instFieldOps = (inferInstance : FieldOps Fq12) := by
  unfold A.Fq12.instFieldOps; lower12; all_goals rfl

/-! ## `curve_impl!` (src/bls12_381/ec/mod.rs), generic in the coefficient field -/

section
set_option linter.unusedSectionVars false
variable {F : Type} [Add F] [Sub F] [Mul F] [Neg F] [Zero F] [One F] [FieldOps F] [DecidableEq F]

theorem Aff_zero_eq : (A.Aff.zero : Aff F) = PP.Aff.zero := rfl
/-- the model inlines `$affine::is_zero` as `.infinity` -/
theorem Aff_isZero_eq : (A.Aff.isZero : Aff F → Bool) = fun p => p.infinity := rfl
theorem Jac_zero_eq : (A.Jac.zero : Jac F) = PP.Jac.zero := rfl
theorem Jac_isZero_eq : (A.Jac.isZero : Jac F → Bool) = PP.Jac.isZero := rfl

/-- rewrite the generated `zero` / `is_zero` into the model's -/
local macro "lowerEC0" : tactic => `(tactic| try simp -zeta only [Aff_zero_eq, Aff_isZero_eq, Jac_zero_eq, Jac_isZero_eq])

theorem Aff_isOnCurve_eq : (A.Aff.isOnCurve : F → Aff F → Bool) = PP.Aff.isOnCurve := by
  unfold A.Aff.isOnCurve; lowerEC0; all_goals rfl
theorem Jac_isNormalized_eq : (A.Jac.isNormalized : Jac F → Bool) = PP.Jac.isNormalized := by
  unfold A.Jac.isNormalized; lowerEC0; all_goals rfl
theorem Jac_beq_eq : (A.Jac.beq : Jac F → Jac F → Bool) = PP.Jac.beq := by
  unfold A.Jac.beq; lowerEC0; all_goals rfl
theorem Jac_double_eq : (A.Jac.double : Jac F → Jac F) = PP.Jac.double := by
  unfold A.Jac.double; lowerEC0; all_goals rfl
theorem Jac_add_eq : (A.Jac.add : Jac F → Jac F → Jac F) = PP.Jac.add := by
  unfold A.Jac.add; lowerEC0; simp -zeta only [Jac_double_eq]; all_goals rfl
theorem Jac_addMixed_eq : (A.Jac.addMixed : Jac F → Aff F → Jac F) = PP.Jac.addMixed := by
  unfold A.Jac.addMixed; lowerEC0; simp -zeta only [Jac_double_eq]; all_goals rfl
theorem Aff_toJac_eq : (A.Aff.toJac : Aff F → Jac F) = PP.Aff.toJac := by
  unfold A.Aff.toJac; lowerEC0; all_goals rfl
theorem Jac_toAffine_eq : (A.Jac.toAffine : Jac F → Option (Aff F)) = PP.Jac.toAffine := by
  unfold A.Jac.toAffine; lowerEC0; all_goals rfl

/-- Rust: `if !self.is_zero() { self.y.negate(); }`; model: `if p.infinity then p else ⟨x, -y, false⟩` -/
theorem Aff_neg_eq : (A.Aff.neg : Aff F → Aff F) = PP.Aff.neg := by
  funext p
  obtain ⟨x, y, inf⟩ := p
  cases inf <;> rfl

/-- Rust: `if !self.is_zero() { self.y.negate() }`; model: `if p.isZero then p else ⟨x, -y, z⟩` -/
theorem Jac_neg_eq : (A.Jac.neg : Jac F → Jac F) = PP.Jac.neg := by
  funext p
  unfold A.Jac.neg PP.Jac.neg
  rw [Jac_isZero_eq]
  cases PP.Jac.isZero p <;> rfl

/-! ## `osswu_help` (src/bls12_381/osswu_map/mod.rs) -/

theorem osswuHelp_eq : (A.osswuHelp : F → F → F → F → OsswuHelp F) = PP.osswuHelp := rfl

end

/-! ## pairing (src/bls12_381/mod.rs) -/

theorem doublingStep_eq : A.doublingStep = PP.doublingStep := by unfold A.doublingStep; lower2; all_goals rfl
theorem additionStep_eq : A.additionStep = PP.additionStep := by unfold A.additionStep; lower2; all_goals rfl
theorem ell_eq : A.ell = PP.ell := by unfold A.ell; lower12; all_goals rfl

/-- the Rust parameter `x : u64` is a `UInt64` in the generated code and a `Nat` reduced mod `2^64`
    in the model -/
theorem expByX_eq : A.expByX = fun f x => PP.expByX f x.toNat := by
  funext f x
  unfold A.expByX PP.expByX
  rw [Fq12_instMul_eq, Fq12_instOne_eq, Fq12_instFieldOps_eq, Fq12_conjugate_eq,
    Nat.mod_eq_of_lt x.toNat_lt]

theorem finalExponentiation_eq : A.finalExponentiation = PP.finalExponentiation := by
  unfold A.finalExponentiation PP.finalExponentiation
  rw [Fq12_conjugate_eq, Fq12_inverse_eq, Fq12_mul_eq, Fq12_frobeniusMap_eq, Fq12_square_eq, expByX_eq,
    show @FieldOps.inv Fq12 _ = PP.Fq12.inverse from rfl,
    show @FieldOps.frob Fq12 _ = PP.Fq12.frobeniusMap from rfl,
    show @FieldOps.sq Fq12 _ = PP.Fq12.square from rfl,
    show @HMul.hMul Fq12 Fq12 Fq12 _ = PP.Fq12.mul from rfl]
  generalize PP.Fq12.inverse = inv12
  generalize PP.Fq12.mul = mul12
  generalize PP.Fq12.square = sq12
  generalize PP.Fq12.frobeniusMap = frob12
  generalize PP.Fq12.conjugate = conj12
  generalize PP.expByX = ebx
  rfl

end PP.GenArithLemmas
