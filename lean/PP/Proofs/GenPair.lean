/-
The definitions REGENERATED from the Rust source by /verif/extract/extract_pair.py (`PP/Gen/Pair.lean`,
namespace `PP.Gen.P`: the pairing driver `miller_loop`, `G1Prepared` / `G2Prepared`, `pairing`,
`pairing_product`, `pairing_multi_product`, `prepare`, `pairing_with`, `perform_pairing`) are equal to the
hand-written model (`PP/Model/Pairing.lean`).

Proof method.  Every proof first rewrites the calls of functions generated in Arith.lean / earlier in
Pair.lean into the model's with the equalities already proved (`PP.GenArithLemmas`, this file), so that
each theorem stays LOCAL: an edit of `miller_loop` breaks `millerLoop_eq` and nothing else.  The loops
of the generated code are `List.foldl` / `List.foldlM` over a state tuple, the model has structural
recursions (`prepareLoop`, `ellAll`, `millerLoopBits`) over the bits AFTER the leading one
(`blsXBits`); the bridge lemmas below are stated for an ARBITRARY step function `step` that satisfies
the one-iteration equations (`h0`: `found_one = false`, `h1`: `found_one = true`), which the generated
lambda satisfies by `rfl`; they are proved by induction on the list with the accumulators
generalised.  Nothing here evaluates field arithmetic: all field values are variables.

Core Lean only; axioms: `propext`, `Quot.sound` (via `simp`/`funext`) at most.
-/
import PP.Gen.Pair
import PP.Proofs.GenArith

namespace PP.GenPairLemmas
open PP PP.Gen PP.GenArithLemmas

/-- a coefficient triple of a line function -/
abbrev C := Fq2 × Fq2 × Fq2
/-- a pair of the Miller loop: the G1 point and the coefficients still to come -/
abbrev PC := Aff Fq × List C

/-! ## the bit source -/

/-- drop the leading zeros and the first one (`found_one`) -/
def skipBits (bs : List Bool) : List Bool := (bs.dropWhile (fun b => !b)).drop 1

theorem skipBits_false (bs : List Bool) : skipBits (false :: bs) = skipBits bs := rfl
theorem skipBits_true (bs : List Bool) : skipBits (true :: bs) = bs := rfl

/-- `BitIterator::new([BLS_X >> 1])` with the `u64` arithmetic of the generated code -/
theorem blsBits_eq : bitsMSB [((UInt64.ofNat Gen.BLS_X) >>> 1).toNat] = bitsMSB [Gen.BLS_X >>> 1] := by
  have h : ((UInt64.ofNat Gen.BLS_X) >>> 1).toNat = Gen.BLS_X >>> 1 := by decide
  rw [h]

theorem blsXBits_eq : blsXBits = skipBits (bitsMSB [Gen.BLS_X >>> 1]) := rfl

/-- the generated `Fq2` operation bundles (local instances of the generic code applied at `Fq2`) are
    the model's instances -/
local macro "lowerInst2" : tactic => `(tactic| (
  (try rewrite [Fq2_instAdd_eq']); (try rewrite [Fq2_instSub_eq']); (try rewrite [Fq2_instMul_eq'])
  (try rewrite [Fq2_instNeg_eq']); (try rewrite [Fq2_instZero_eq']); (try rewrite [Fq2_instOne_eq'])
  (try rewrite [Fq2_instFieldOps_eq'])))

/-! ## `G1Prepared`, `G2Prepared` (ec/g1.rs, mod.rs), `CurveAffine::prepare` -/

theorem G1Prepared_isZero_eq : P.G1Prepared.isZero = fun p => p.infinity := by
  unfold P.G1Prepared.isZero; rw [Aff_isZero_eq]

theorem G1Prepared_fromAffine_eq : P.G1Prepared.fromAffine = fun p => p := rfl

theorem G2Prepared_isZero_eq : P.G2Prepared.isZero = fun q => q.infinity := rfl

/-- the loop of `from_affine` once `found_one` is set -/
theorem foldl_prepare_true (q : Aff Fq2) (step : List C × Jac Fq2 × Bool → Bool → List C × Jac Fq2 × Bool)
    (h1 : ∀ c r i, step (c, r, true) i =
      if i then ((c ++ [(doublingStep r).2]) ++ [(additionStep (doublingStep r).1 q).2],
                 (additionStep (doublingStep r).1 q).1, true)
      else (c ++ [(doublingStep r).2], (doublingStep r).1, true)) :
    ∀ bs c r, List.foldl step (c, r, true) bs = ((prepareLoop q bs r c).2, (prepareLoop q bs r c).1, true)
  | [], c, r => rfl
  | i :: bs, c, r => by
      rw [List.foldl_cons, h1]
      cases i with
      | false =>
        rw [if_neg (by decide), foldl_prepare_true q step h1 bs]
        rfl
      | true =>
        rw [if_pos rfl, foldl_prepare_true q step h1 bs]
        rfl

/-- the loop of `from_affine` from the start: the leading zero bits and the first one are skipped -/
theorem foldl_prepare_skip (q : Aff Fq2) (step : List C × Jac Fq2 × Bool → Bool → List C × Jac Fq2 × Bool)
    (h0 : ∀ c r i, step (c, r, false) i = (c, r, i))
    (h1 : ∀ c r i, step (c, r, true) i =
      if i then ((c ++ [(doublingStep r).2]) ++ [(additionStep (doublingStep r).1 q).2],
                 (additionStep (doublingStep r).1 q).1, true)
      else (c ++ [(doublingStep r).2], (doublingStep r).1, true)) :
    ∀ bs c r, List.foldl step (c, r, false) bs =
      ((prepareLoop q (skipBits bs) r c).2, (prepareLoop q (skipBits bs) r c).1, bs.any id)
  | [], c, r => rfl
  | false :: bs, c, r => by
      rw [List.foldl_cons, h0, foldl_prepare_skip q step h0 h1 bs, skipBits_false]; rfl
  | true :: bs, c, r => by
      rw [List.foldl_cons, h0, foldl_prepare_true q step h1 bs, skipBits_true]; rfl

theorem G2Prepared_fromAffine_eq : P.G2Prepared.fromAffine = PP.G2Prepared.fromAffine := by
  funext q
  unfold P.G2Prepared.fromAffine
  lowerInst2
  rw [Aff_isZero_eq, Aff_toJac_eq, doublingStep_eq, additionStep_eq, blsBits_eq]
  unfold PP.G2Prepared.fromAffine
  rw [blsXBits_eq]
  generalize bitsMSB [Gen.BLS_X >>> 1] = bits
  dsimp only
  rw [foldl_prepare_skip q]
  case h0 => intro c r i; rfl
  case h1 => intro c r i; cases i <;> rfl
  all_goals rfl

theorem G1Affine_prepare_eq : P.G1Affine.prepare = fun p => p := by
  unfold P.G1Affine.prepare; rw [G1Prepared_fromAffine_eq]

theorem G2Affine_prepare_eq : P.G2Affine.prepare = PP.G2Prepared.fromAffine := by
  unfold P.G2Affine.prepare; rw [G2Prepared_fromAffine_eq]

/-! ## `Bls12::miller_loop` (mod.rs) -/

/-- the filter of identity pairs: a `push` under an `if` -/
theorem foldl_filter (step : List PC → Aff Fq × G2Prepared → List PC)
    (h : ∀ acc p q, step acc (p, q) = if (!p.infinity && !q.infinity) = true then acc ++ [(p, q.coeffs)] else acc) :
    ∀ ps acc, List.foldl step acc ps =
      acc ++ (ps.filter (fun x => !x.1.infinity && !x.2.infinity)).map (fun x => (x.1, x.2.coeffs))
  | [], acc => by simp only [List.foldl_nil, List.filter_nil, List.map_nil, List.append_nil]
  | (p, q) :: ps, acc => by
      rw [List.foldl_cons, h, foldl_filter step h ps]
      cases hc : (!p.infinity && !q.infinity) with
      | false => rw [if_neg (by decide), List.filter_cons_of_neg (by rw [hc]; decide)]
      | true =>
        rw [if_pos rfl, List.filter_cons_of_pos (by rw [hc]), List.map_cons, List.append_assoc,
          List.singleton_append]

/-- one round `for &mut (p, ref mut coeffs) in &mut pairs { ell(&mut f, coeffs.next().unwrap(), &p.0) }` -/
theorem foldlM_ellAll (step : Fq12 × List PC → PC → Option (Fq12 × List PC))
    (h0 : ∀ f acc p, step (f, acc) (p, []) = none)
    (h1 : ∀ f acc p c cs, step (f, acc) (p, c :: cs) = some (ell f c p, acc ++ [(p, cs)])) :
    ∀ pairs f acc, List.foldlM step (f, acc) pairs = (ellAll pairs f).map (fun r => (r.1, acc ++ r.2))
  | [], f, acc => by simp only [List.foldlM_nil, ellAll, Option.map_some, List.append_nil]; rfl
  | (p, []) :: rest, f, acc => by
      simp only [List.foldlM_cons, h0, ellAll, Option.map_none]; rfl
  | (p, c :: cs) :: rest, f, acc => by
      simp only [List.foldlM_cons, h1, ellAll]
      rw [show (some (ell f c p, acc ++ [(p, cs)]) >>= fun s => List.foldlM step s rest)
        = List.foldlM step (ell f c p, acc ++ [(p, cs)]) rest from rfl]
      rw [foldlM_ellAll step h0 h1 rest]
      cases ellAll rest (ell f c p) with
      | none => rfl
      | some r => simp only [Option.map_some, List.append_assoc, List.singleton_append]

theorem foldlM_ellAll_nil (step : Fq12 × List PC → PC → Option (Fq12 × List PC))
    (h0 : ∀ f acc p, step (f, acc) (p, []) = none)
    (h1 : ∀ f acc p c cs, step (f, acc) (p, c :: cs) = some (ell f c p, acc ++ [(p, cs)]))
    (pairs : List PC) (f : Fq12) : List.foldlM step (f, []) pairs = ellAll pairs f := by
  rw [foldlM_ellAll step h0 h1]
  cases ellAll pairs f with
  | none => rfl
  | some r => rfl

/-- one iteration of the Miller loop on the model's side -/
def millerStep (pairs : List PC) (f : Fq12) (i : Bool) : Option (List PC × Fq12 × Bool) :=
  match ellAll pairs f with
  | none => none
  | some r =>
    if i then
      match ellAll r.2 r.1 with
      | none => none
      | some r => some (r.2, sq r.1, true)
    else some (r.2, sq r.1, true)

theorem millerLoopBits_cons (i : Bool) (bs : List Bool) (pairs : List PC) (f : Fq12) :
    millerLoopBits (i :: bs) pairs f =
      match millerStep pairs f i with
      | none => none
      | some s => millerLoopBits bs s.1 s.2.1 := by
  unfold millerStep
  rw [millerLoopBits]
  cases ellAll pairs f with
  | none => rfl
  | some r =>
    obtain ⟨f1, pairs1⟩ := r
    cases i with
    | false => rfl
    | true =>
      show (ellAll pairs1 f1 >>= fun r => millerLoopBits bs r.2 (sq r.1)) = _
      simp only [if_true]
      cases ellAll pairs1 f1 with
      | none => rfl
      | some r => rfl

/-- the bit loop of `miller_loop` once `found_one` is set -/
theorem foldlM_miller_true (step : List PC × Fq12 × Bool → Bool → Option (List PC × Fq12 × Bool))
    (h1 : ∀ pairs f i, step (pairs, f, true) i = millerStep pairs f i) :
    ∀ bs pairs f, List.foldlM step (pairs, f, true) bs =
      (millerLoopBits bs pairs f).map (fun r => (r.2, r.1, true))
  | [], pairs, f => rfl
  | i :: bs, pairs, f => by
      rw [List.foldlM_cons, h1, millerLoopBits_cons]
      have hm : ∀ s, millerStep pairs f i = some s → s.2.2 = true := by
        intro s hs
        unfold millerStep at hs
        cases h : ellAll pairs f with
        | none => rw [h] at hs; cases hs
        | some r =>
          rw [h] at hs
          cases i with
          | false => cases hs; rfl
          | true =>
            dsimp only at hs
            cases h2 : ellAll r.2 r.1 with
            | none => rw [h2] at hs; cases hs
            | some r2 => rw [h2] at hs; cases hs; rfl
      cases hms : millerStep pairs f i with
      | none => rfl
      | some s =>
        obtain ⟨p1, f1, b1⟩ := s
        have hb : b1 = true := hm _ hms
        subst hb
        exact foldlM_miller_true step h1 bs p1 f1

/-- the bit loop of `miller_loop` from the start -/
theorem foldlM_miller_skip (step : List PC × Fq12 × Bool → Bool → Option (List PC × Fq12 × Bool))
    (h0 : ∀ pairs f i, step (pairs, f, false) i = some (pairs, f, i))
    (h1 : ∀ pairs f i, step (pairs, f, true) i = millerStep pairs f i) :
    ∀ bs pairs f, List.foldlM step (pairs, f, false) bs =
      (millerLoopBits (skipBits bs) pairs f).map (fun r => (r.2, r.1, bs.any id))
  | [], pairs, f => rfl
  | false :: bs, pairs, f => by
      rw [List.foldlM_cons, h0]
      exact foldlM_miller_skip step h0 h1 bs pairs f
  | true :: bs, pairs, f => by
      rw [List.foldlM_cons, h0]
      exact foldlM_miller_true step h1 bs pairs f

theorem millerLoop_eq : P.millerLoop = PP.millerLoop := by
  funext ps
  unfold P.millerLoop
  rw [G1Prepared_isZero_eq, G2Prepared_isZero_eq, ell_eq, Fq12_one_eq, Fq12_square_eq, Fq12_conjugate_eq,
    blsBits_eq]
  unfold PP.millerLoop
  rw [blsXBits_eq]
  generalize bitsMSB [Gen.BLS_X >>> 1] = bits
  dsimp only
  rw [foldl_filter]
  case h => intro acc p q; rfl
  rw [List.nil_append, foldlM_miller_skip]
  case h0 => intro pairs f i; rfl
  case h1 =>
    intro pairs f i
    unfold millerStep
    dsimp only
    rw [foldlM_ellAll_nil]
    case h0 => intro f acc p; rfl
    case h1 => intro f acc p c cs; rfl
    cases ellAll pairs f with
    | none => rfl
    | some r =>
      cases i with
      | false => rfl
      | true =>
        simp only [if_true]
        rw [foldlM_ellAll_nil]
        case h0 => intro f acc p; rfl
        case h1 => intro f acc p c cs; rfl
        cases ellAll r.2 r.1 <;> rfl
  generalize millerLoopBits (skipBits bits) _ 1 = m
  cases m with
  | none => rfl
  | some r =>
    simp only [Option.map_some]
    rw [foldlM_ellAll_nil]
    case h0 => intro f acc p; rfl
    case h1 => intro f acc p c cs; rfl
    show _ = (ellAll r.2 r.1 >>= fun x => pure (if BLS_X_IS_NEGATIVE = true then x.1.conjugate else x.1))
    cases ellAll r.2 r.1 with
    | none => rfl
    | some r2 =>
      generalize BLS_X_IS_NEGATIVE = b
      cases b <;> rfl

/-! ## `Engine::pairing`, `pairing_product`, `pairing_multi_product` (src/lib.rs) -/

/-- `final_exponentiation(&miller_loop(..)).unwrap()` with both panics as `none` is the model's bind -/
local macro "opt_bind" : tactic => `(tactic| (
  generalize PP.finalExponentiation = fe
  generalize PP.millerLoop _ = a
  cases a with
  | none => rfl
  | some m =>
    show _ = fe m
    dsimp only
    cases fe m <;> rfl))

theorem pairing_eq : P.pairing = PP.pairing := by
  funext p q
  unfold P.pairing PP.pairing
  rw [G1Affine_prepare_eq, G2Affine_prepare_eq, millerLoop_eq, finalExponentiation_eq]
  dsimp only
  opt_bind

theorem pairingProduct_eq : P.pairingProduct = PP.pairingProduct := by
  funext p1 q1 p2 q2
  unfold P.pairingProduct PP.pairingProduct
  rw [G1Affine_prepare_eq, G2Affine_prepare_eq, millerLoop_eq, finalExponentiation_eq]
  dsimp only
  opt_bind

theorem zip_take_length {α β : Type} : ∀ (l1 : List α) (l2 : List β),
    List.zip l1 (l2.take l1.length) = List.zip l1 l2
  | [], _ => by simp only [List.zip_nil_left]
  | _ :: _, [] => rfl
  | a :: l1, b :: l2 => by
      simp only [List.length_cons, List.take_succ_cons, List.zip_cons_cons, zip_take_length l1 l2]

/-- `for i in 0..n { pairs.push((&l1[i], &l2[i])) }` with `n ≤ l1.len()`: the zip of the first `n`
    elements, or a panic when `l2` is shorter than `n` -/
theorem foldlM_index {α β : Type} (l1 : List α) (l2 : List β)
    (step : List (α × β) → Nat → Option (List (α × β)))
    (h : ∀ acc i, step acc i =
      match l1[i]? with
      | none => none
      | some x => match l2[i]? with
        | none => none
        | some y => some (acc ++ [(x, y)])) :
    ∀ (n : Nat) (_hn : n ≤ l1.length) (acc : List (α × β)), List.foldlM step acc (List.range n) =
      if n ≤ l2.length then some (acc ++ List.zip (l1.take n) (l2.take n)) else none
  | 0, _, acc => by
      simp only [List.range_zero, List.foldlM_nil, List.take_zero, List.zip_nil_left, List.append_nil,
        Nat.zero_le, if_true]; rfl
  | n + 1, hn, acc => by
      have h1 : n < l1.length := hn
      rw [List.range_succ, List.foldlM_append, foldlM_index l1 l2 step h n (Nat.le_of_lt h1)]
      by_cases h2 : n + 1 ≤ l2.length
      · have h2' : n < l2.length := h2
        rw [if_pos (Nat.le_of_lt h2'), if_pos h2]
        show List.foldlM step _ [n] = _
        rw [List.foldlM_cons, h, List.getElem?_eq_getElem h1, List.getElem?_eq_getElem h2']
        show some (_ ++ [(l1[n], l2[n])]) = _
        have hl : (l1.take n).length = (l2.take n).length := by
          rw [List.length_take, List.length_take, Nat.min_eq_left (Nat.le_of_lt h1),
            Nat.min_eq_left (Nat.le_of_lt h2')]
        rewrite [List.take_succ_eq_append_getElem h1, List.take_succ_eq_append_getElem h2', List.zip_append hl,
          List.append_assoc]
        rfl
      · rw [if_neg h2]
        by_cases h3 : n ≤ l2.length
        · rw [if_pos h3]
          show List.foldlM step _ [n] = _
          rw [List.foldlM_cons, h, List.getElem?_eq_getElem h1,
            List.getElem?_eq_none (Nat.le_of_not_lt (fun hlt => h2 hlt))]
          rfl
        · rw [if_neg h3]; rfl

theorem pairingMultiProduct_eq : P.pairingMultiProduct = PP.pairingMultiProduct := by
  funext ps qs
  unfold P.pairingMultiProduct PP.pairingMultiProduct
  rw [G1Affine_prepare_eq, G2Affine_prepare_eq, millerLoop_eq, finalExponentiation_eq]
  dsimp only
  rw [List.map_id', foldlM_index ps (List.map (fun v => PP.G2Prepared.fromAffine v) qs)]
  case h =>
    intro acc i
    cases ps[i]? with
    | none => rfl
    | some x => cases (List.map (fun v => PP.G2Prepared.fromAffine v) qs)[i]? <;> rfl
  case _hn => exact Nat.le_refl _
  rw [List.length_map, List.take_length, List.nil_append]
  by_cases hl : qs.length < ps.length
  · rw [if_neg (Nat.not_le_of_lt hl), if_pos hl]
  · rw [if_pos (Nat.le_of_not_lt hl), if_neg hl]
    rw [zip_take_length ps]
    dsimp only
    opt_bind

/-! ## `perform_pairing` (ec/g1.rs, ec/g2.rs), `CurveAffine::pairing_with` (the macro) -/

/-- `match a with | none => none | some x => some x` is `a` -/
local macro "opt_id" : tactic => `(tactic| (
  generalize PP.pairing _ _ = a
  cases a <;> rfl))

theorem G1Affine_performPairing_eq : P.G1Affine.performPairing = PP.pairing := by
  funext p q
  unfold P.G1Affine.performPairing
  rw [pairing_eq]
  opt_id

theorem G2Affine_performPairing_eq : P.G2Affine.performPairing = fun q p => PP.pairing p q := by
  funext q p
  unfold P.G2Affine.performPairing
  rw [pairing_eq]
  opt_id

theorem G1Affine_pairingWith_eq : P.G1Affine.pairingWith = PP.pairing := by
  funext p q
  unfold P.G1Affine.pairingWith
  rw [G1Affine_performPairing_eq]
  opt_id

theorem G2Affine_pairingWith_eq : P.G2Affine.pairingWith = fun q p => PP.pairing p q := by
  funext q p
  unfold P.G2Affine.pairingWith
  rw [G2Affine_performPairing_eq]
  dsimp only
  opt_id

end PP.GenPairLemmas
