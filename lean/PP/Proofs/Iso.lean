/-
C16, layer 1: the generic isogeny evaluation `evalIso` of `PP.Model.Map` (a mirror of `eval_iso` in
src/bls12_381/isogeny/mod.rs) computes, in Jacobian coordinates and for every representative of the
input point, the rational map

    (x, y) ↦ (XN(x) / XD(x), y · YN(x) / YD(x))

given by its four coefficient lists; it sends the identity and the poles of the map (the kernel) to
the identity; and if the four polynomials satisfy the identity

    (x³ + A'x + B') · YN² · XD³ = (XN³ + b · XD³) · YD²        in F[x]

then it sends `y² = x³ + A'x + B'` to `y² = x³ + b`.  The identity is *checked* for the extracted
coefficient tables of the 11-isogeny (over `Fq`) and of the 3-isogeny (over `Fq2`, with the model's
own `Fq2` arithmetic) by kernel computation on coefficient lists.

Everything is stated for an abstract field `F` carrying the model's extra operations
(`LawfulFieldOps`), then instantiated at `Fq` (`iso11`).  For `iso3` the instantiation takes a
`Field Fq2` structure as an argument, together with the fact that its `+ * 0 1` are the model's
(`Fq2FieldAgrees`, provable by `⟨rfl, rfl, rfl, rfl⟩` for an instance built on the model's
operations), because the field structure of `Fq2` is established in another module.
-/
import PP.Proofs.IsoPoly
import PP.Proofs.Lawful
import PP.Proofs.Primes
import PP.Model.Map
import Mathlib.Tactic.LinearCombination

set_option linter.unusedSectionVars false

namespace PP
open IsoPoly

/-! ## arrays -/

section generic
variable {F : Type} [Field F] [FieldOps F] [LawfulFieldOps F]

theorem getD_set! {α : Type} (a : Array α) (i j : Nat) (v d : α) :
    (a.set! i v).getD j d = if i = j ∧ i < a.size then v else a.getD j d := by
  simp only [Array.set!_eq_setIfInBounds, Array.getD_eq_getD_getElem?, Array.getElem?_setIfInBounds]
  by_cases h : i = j
  · subst h
    by_cases h2 : i < a.size
    · simp [h2]
    · simp [h2]
  · simp [h]


/-- one iteration (`idx = k + 1`) of the loop that fills the table -/
def zpStep (z2 : F) (zp : Array F) (k : Nat) : Array F :=
  let idx := k + 1
  if idx % 2 = 0 then zp.set! (idx + 1) (sq (zp.getD (idx / 2 - 1 + 1) 0))
  else zp.set! (idx + 1) ((zp.getD (idx - 1 + 1) 0) * z2)

def zpInit (z2 : F) : Array F := ((Array.replicate 15 (0 : F)).set! 0 z2).set! 1 (sq z2)

theorem isoZpows_eq (z : F) (n : Nat) :
    isoZpows z n = (List.range (n - 2 - 1)).foldl (zpStep (sq z)) (zpInit (sq z)) := rfl

/-- loop invariant: the first `m + 2` entries are the powers of `w` -/
def ZpInv (w : F) (zp : Array F) (m : Nat) : Prop :=
  zp.size = 15 ∧ ∀ j, j < 15 → j ≤ m + 1 → zp.getD j 0 = w ^ (j + 1)

theorem zpInv_init (w : F) : ZpInv w (zpInit w) 0 := by
  refine ⟨by simp [zpInit], ?_⟩
  intro j _ hj
  have : j = 0 ∨ j = 1 := by omega
  rcases this with rfl | rfl
  · simp [zpInit]
  · simp [zpInit, pow_two]

theorem zpInv_step (w : F) (zp : Array F) (m : Nat) (h : ZpInv w zp m) :
    ZpInv w (zpStep w zp m) (m + 1) := by
  obtain ⟨hs, hv⟩ := h
  have hval : m + 2 < 15 → (if (m + 1) % 2 = 0 then sq (zp.getD ((m + 1) / 2 - 1 + 1) 0)
      else (zp.getD (m + 1 - 1 + 1) 0) * w) = w ^ (m + 2 + 1) := by
    intro hm
    split
    · next he =>
      have h1 : (m + 1) / 2 - 1 + 1 = (m + 1) / 2 := by omega
      rw [h1, hv _ (by omega) (by omega), LawfulFieldOps.sq_eq, ← pow_add]
      congr 1; omega
    · next ho =>
      have h1 : m + 1 - 1 + 1 = m + 1 := by omega
      rw [h1, hv _ (by omega) (by omega), ← pow_succ]
  constructor
  · unfold zpStep; dsimp only; split <;> simp [hs]
  · intro j hj hjm
    have hstep : (zpStep w zp m).getD j 0 =
        if m + 2 = j ∧ m + 2 < zp.size then
          (if (m + 1) % 2 = 0 then sq (zp.getD ((m + 1) / 2 - 1 + 1) 0)
            else (zp.getD (m + 1 - 1 + 1) 0) * w)
        else zp.getD j 0 := by
      unfold zpStep; dsimp only
      split <;> rw [getD_set!]
    rw [hstep, hs]
    by_cases hj2 : m + 2 = j
    · subst hj2
      rw [if_pos ⟨rfl, hj⟩, hval hj]
    · rw [if_neg (fun h => hj2 h.1)]
      exact hv j hj (by omega)

theorem zpInv_foldl (w : F) (m : Nat) :
    ZpInv w ((List.range m).foldl (zpStep w) (zpInit w)) m := by
  induction m with
  | zero => simpa using zpInv_init w
  | succ m ih =>
    rw [List.range_succ, List.foldl_append]
    exact zpInv_step w _ m ih

/-- C16.1: every entry the code reads is the advertised power of `z` -/
theorem isoZpows_spec (z : F) (n j : Nat) (hj : j < 15) (h : j + 2 ≤ n ∨ j ≤ 1) :
    (isoZpows z n).getD j 0 = z ^ (2 * (j + 1)) := by
  rw [isoZpows_eq, LawfulFieldOps.sq_eq, pow_mul, pow_two]
  exact (zpInv_foldl (z * z) (n - 2 - 1)).2 j hj (by omega)

theorem horner_range (x init : F) (g : Nat → F) (n : Nat) :
    ((List.range n).map g).foldl (fun acc t => acc * x + t) init =
      init * x ^ n + ∑ j ∈ Finset.range n, g j * x ^ (n - 1 - j) := by
  induction n with
  | zero => simp
  | succ n ih =>
    rw [List.range_succ, List.map_append, List.foldl_append, ih, Finset.sum_range_succ]
    simp only [List.map_cons, List.map_nil, List.foldl_cons, List.foldl_nil]
    rw [add_mul, Finset.sum_mul]
    have : ∑ i ∈ Finset.range n, g i * x ^ (n - 1 - i) * x = ∑ i ∈ Finset.range n, g i * x ^ (n + 1 - 1 - i) := by
      apply Finset.sum_congr rfl
      intro i hi
      have hi' : i < n := Finset.mem_range.mp hi
      have : n + 1 - 1 - i = (n - 1 - i) + 1 := by omega
      rw [this, pow_succ]; ring
    rw [this]
    have h0 : n + 1 - 1 - n = 0 := by omega
    rw [h0]; ring

/-- C16.2: one map value is the homogenised polynomial at `(x, z²)` -/
theorem isoMapval_spec (z x : F) (n : Nat) (cs : List F) (hn : cs.length ≤ n) (h16 : cs.length ≤ 16) :
    isoMapval (isoZpows z n) x cs = hEval cs x (z ^ 2) := by
  unfold isoMapval
  dsimp only
  have hga : ∀ i, cs.toArray.getD i 0 = cs.getD i 0 := by intro i; simp
  simp only [hga]
  rw [horner_range, hEval_eq_sum]
  rcases Nat.eq_zero_or_pos cs.length with h0 | hpos
  · have : cs = [] := List.length_eq_zero_iff.mp h0
    subst this; simp
  · obtain ⟨d, hd⟩ : ∃ d, cs.length = d + 1 := ⟨cs.length - 1, by omega⟩
    rw [hd, Nat.add_sub_cancel, Finset.sum_range_succ, Nat.sub_self, pow_zero, mul_one, add_comm]
    congr 1
    rw [← Finset.sum_range_reflect]
    apply Finset.sum_congr rfl
    intro j hj
    have hj' : j < d := Finset.mem_range.mp hj
    rw [isoZpows_spec z n (d - 1 - j) (by omega) (by omega)]
    have e1 : d - 1 - (d - 1 - j) = j := by omega
    have e2 : d - 1 - j + 1 = d - j := by omega
    rw [e1, e2, ← pow_mul]
    ring

